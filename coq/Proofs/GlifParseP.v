(** Lemmas about the glif reader model: what a successful run of each loop implies. *)
Require Import Norad.Model.GlifSpec Norad.Proofs.ContourP.
Open Scope N_scope.

(* ---------- strings and association lists ---------- *)
Lemma list_eqb_eq (a : str) : forall b, str_eqb a b = true <-> a = b.
Proof.
  unfold str_eqb. induction a as [|x a IH]; intros [|y b]; cbn [list_eqb]; split; intros H;
    try reflexivity; try discriminate.
  - apply andb_true_iff in H as [H1 H2]. apply N.eqb_eq in H1. apply IH in H2. congruence.
  - inversion H; subst. apply andb_true_iff; split; [apply N.eqb_refl | apply IH; reflexivity].
Qed.
Lemma str_eqb_refl a : str_eqb a a = true.
Proof. apply list_eqb_eq. reflexivity. Qed.
Lemma str_eqb_neq a b : str_eqb a b = false <-> a <> b.
Proof.
  split; intros H.
  - intros E. apply list_eqb_eq in E. congruence.
  - destruct (str_eqb a b) eqn:E; [apply list_eqb_eq in E; contradiction | reflexivity].
Qed.

Lemma mem_str_In k l : mem_str k l = true <-> In k l.
Proof.
  induction l as [|x l IH]; cbn [mem_str In]; [split; [discriminate|tauto]|].
  rewrite orb_true_iff, IH, list_eqb_eq. split; intros [H|H]; auto.
Qed.

Lemma lookup_In {A} k (l : list (str * A)) v : lookup k l = Some v -> In (k, v) l.
Proof.
  induction l as [|[k' v'] l IH]; cbn [lookup]; [discriminate|].
  destruct (str_eqb k k') eqn:E.
  - intros H; inversion H; subst. apply list_eqb_eq in E; subst. left; reflexivity.
  - intros H. right. auto.
Qed.
Lemma lookup_None {A} k (l : list (str * A)) : lookup k l = None <-> ~ In k (map fst l).
Proof.
  induction l as [|[k' v'] l IH]; cbn [lookup map fst In]; [tauto|].
  destruct (str_eqb k k') eqn:E.
  - apply list_eqb_eq in E; subst. split; [discriminate | intros H; exfalso; apply H; left; reflexivity].
  - apply str_eqb_neq in E. rewrite IH. split; intros H; [intros [H1|H1]; [congruence|auto] | tauto].
Qed.
Lemma has_key_In {A} k (l : list (str * A)) : has_key k l = true <-> In k (map fst l).
Proof.
  unfold has_key. destruct (lookup k l) eqn:E.
  - split; [intros _|reflexivity]. apply lookup_In in E. apply (in_map fst) in E. exact E.
  - apply lookup_None in E. split; [discriminate|contradiction].
Qed.
Lemma lookup_NoDup {A} k (l : list (str * A)) v :
  NoDup (map fst l) -> In (k, v) l -> lookup k l = Some v.
Proof.
  induction l as [|[k' v'] l IH]; cbn [lookup map fst In]; [tauto|].
  intros ND [H|H].
  - inversion H; subst. rewrite str_eqb_refl. reflexivity.
  - inversion ND; subst. destruct (str_eqb k k') eqn:E.
    + apply list_eqb_eq in E; subst. exfalso. apply H2. apply (in_map fst) in H. exact H.
    + auto.
Qed.
Lemma lookup_app_l {A} k (l1 l2 : list (str * A)) v :
  lookup k l1 = Some v -> lookup k (l1 ++ l2) = Some v.
Proof.
  induction l1 as [|[k' v'] l IH]; cbn [lookup app]; [discriminate|].
  destruct (str_eqb k k'); auto.
Qed.
Lemma lookup_app_r {A} k (l1 l2 : list (str * A)) :
  lookup k l1 = None -> lookup k (l1 ++ l2) = lookup k l2.
Proof.
  induction l1 as [|[k' v'] l IH]; cbn [lookup app]; [reflexivity|].
  destruct (str_eqb k k'); [discriminate|auto].
Qed.

(* ---------- the specification tables are the arms of the reader ---------- *)
Lemma schema_arms k : schema k = arms k.
Proof. destruct k; reflexivity. Qed.

Section P.
Variable pf : str -> option fl.

(** what one parsed attribute value says about the raw value *)
Definition pv_rel (ver : N) (ty : aty) (v : str) (x : aval) : Prop :=
  match ty with
  | ANum => exists y, x = VNum y /\ pf v = Some y
  | AAngle => exists y, x = VAngle y /\ pf v = Some y /\ fl_leb f0 y = true /\ fl_leb y f360 = true
  | AName | ABase => x = VName v /\ name_valid v = true
  | AColor => exists c, x = VColor c /\ parse_color pf v = Some c
  | AIdent => x = VIdent v /\ ver <> 1 /\ ident_valid v = true
  | APType => exists t, x = VPType t /\ ptype_of v = Some t
  | ASmooth => x = VBool (str_eqb v (s2l "yes"))
  | AFile => x = VFile v
  | AHex => exists c, x = VHex c /\ parse_hex v = Some c
  | AU32 => exists n, x = VN n /\ parse_u32 v = Some n
  end.

Lemma parse_val_spec ver seen ty v x seen' :
  parse_val pf ver seen ty v = Ok (x, seen') ->
  pv_rel ver ty v x /\
  (ty = AIdent -> seen' = v :: seen /\ ~ In v seen) /\
  (ty <> AIdent -> seen' = seen).
Proof.
  unfold parse_val, pv_rel. destruct ty.
  - destruct (pf v); [|discriminate]. intros H; inversion H; subst.
    repeat split; try congruence. eexists; split; reflexivity.
  - destruct (pf v) as [y|]; [|discriminate].
    destruct (fl_leb f0 y && fl_leb y f360) eqn:E; [|discriminate].
    apply andb_true_iff in E as [E1 E2]. intros H; inversion H; subst.
    repeat split; try congruence. exists y; auto.
  - destruct (name_valid v) eqn:E; [|discriminate]. intros H; inversion H; subst.
    repeat split; congruence.
  - destruct v as [|c v]; [discriminate|]. destruct (name_valid (c :: v)) eqn:E; [|discriminate].
    intros H; inversion H; subst. repeat split; congruence.
  - destruct (parse_color pf v) as [c|] eqn:E; [|discriminate]. intros H; inversion H; subst.
    repeat split; try congruence. exists c; auto.
  - destruct (ver =? 1) eqn:E1; [discriminate|]. destruct (ident_valid v) eqn:E2; [|discriminate].
    cbn [negb]. destruct (mem_str v seen) eqn:E3; [discriminate|]. intros H; inversion H; subst.
    apply N.eqb_neq in E1. repeat split; try congruence.
    intros Hin. apply mem_str_In in Hin. congruence.
  - destruct (ptype_of v) as [t|] eqn:E; [|discriminate]. intros H; inversion H; subst.
    repeat split; try congruence. exists t; auto.
  - intros H; inversion H; subst. repeat split; congruence.
  - intros H; inversion H; subst. repeat split; congruence.
  - destruct (parse_hex v) as [c|] eqn:E; [|discriminate]. intros H; inversion H; subst.
    repeat split; try congruence. exists c; auto.
  - destruct (parse_u32 v) as [n|] eqn:E; [|discriminate]. intros H; inversion H; subst.
    repeat split; try congruence. exists n; auto.
Qed.

(** identifier values among the attributes of an element of kind [k] *)
Definition ids_in (k : ekind) (a : attrs) : list str :=
  flat_map (fun kv => match lookup (fst kv) (arms k) with Some AIdent => [snd kv] | _ => [] end) a.

Definition attr_rel (ver : N) (k : ekind) (kv : str * str) (kx : str * aval) : Prop :=
  fst kv = fst kx /\ exists ty, lookup (fst kv) (arms k) = Some ty /\ pv_rel ver ty (snd kv) (snd kx).

Lemma attr_loop_spec ver k gate : forall a seen acc acc' seen',
  attr_loop pf ver k gate seen acc a = Ok (acc', seen') ->
  exists parsed,
    acc' = acc ++ parsed /\
    Forall2 (attr_rel ver k) a parsed /\
    (forall key, In key (map fst a) -> ~ In key (map fst acc)) /\
    NoDup (map fst a) /\
    seen' = rev (ids_in k a) ++ seen /\
    (forall i, In i (ids_in k a) -> ~ In i seen) /\
    NoDup (ids_in k a) /\
    (gate = true -> ver = 1 -> a = []).
Proof.
  induction a as [|[key v] a IH]; intros seen acc acc' seen'; cbn [attr_loop].
  - intros H; inversion H; subst. exists []. rewrite app_nil_r.
    repeat split; try constructor; cbn; tauto.
  - destruct (gate && (ver =? 1)) eqn:G; [discriminate|].
    destruct (has_key key acc) eqn:HK; [discriminate|].
    destruct (lookup key (arms k)) as [ty|] eqn:L; [|discriminate].
    destruct (parse_val pf ver seen ty v) as [[x seen1]| |] eqn:PV; cbn [bind]; try discriminate.
    intros H. apply IH in H as (parsed & E & F2 & Hk & ND & Es & Hfresh & NDi & Hg).
    apply parse_val_spec in PV as (PR & Hid & Hnid).
    exists ((key, x) :: parsed). rewrite <- app_assoc in E. cbn [app] in E.
    assert (HKn : ~ In key (map fst acc)).
    { intros Hin. apply has_key_In in Hin. congruence. }
    assert (Hka : ~ In key (map fst a)).
    { intros Hin. apply Hk in Hin. apply Hin. rewrite map_app, in_app_iff. right; left; reflexivity. }
    split; [exact E|]. split.
    { constructor; [|exact F2]. split; [reflexivity|]. exists ty; auto. }
    split.
    { cbn [map fst In]. intros key' [<-|Hin]; [exact HKn|].
      intros Hacc. apply (Hk key' Hin). rewrite map_app, in_app_iff. left; exact Hacc. }
    split; [cbn [map fst]; constructor; assumption|].
    cbn [ids_in flat_map fst snd]. rewrite L. fold (ids_in k a).
    destruct ty; try (rewrite (Hnid ltac:(discriminate)) in *; cbn [app];
                      repeat split; auto;
                      intros Hg1 Hv; rewrite Hg1, Hv in G; discriminate).
    destruct (Hid eq_refl) as [-> Hnew]. cbn [app rev]. rewrite <- app_assoc. cbn [app].
    split; [exact Es|]. split.
    { intros i [<-|Hin]; [exact Hnew|]. intros Hs. apply (Hfresh i Hin). right; exact Hs. }
    split.
    { constructor; [|exact NDi]. intros Hin. apply (Hfresh v Hin). left; reflexivity. }
    intros Hg1 Hv. rewrite Hg1, Hv in G. discriminate.
Qed.

(* ---------- from the parsed store back to the raw attributes ---------- *)
Lemma store_lookup ver k a parsed key :
  Forall2 (attr_rel ver k) a parsed ->
  match lookup key parsed with
  | Some x => exists v ty, lookup key a = Some v /\ lookup key (arms k) = Some ty /\ pv_rel ver ty v x
  | None => lookup key a = None
  end.
Proof.
  induction 1 as [|[k1 v1] [k2 x2] a parsed [E (ty & L & PR)] F2 IH]; cbn [lookup]; [reflexivity|].
  cbn [fst snd] in *. subst k2. destruct (str_eqb key k1) eqn:EK.
  - apply list_eqb_eq in EK; subst. exists v1, ty. auto.
  - exact IH.
Qed.
Lemma store_keys ver k a parsed :
  Forall2 (attr_rel ver k) a parsed -> map fst parsed = map fst a.
Proof.
  induction 1 as [|[k1 v1] [k2 x2] a parsed [E _] F2 IH]; [reflexivity|].
  cbn [map fst] in *. congruence.
Qed.

Lemma store_some ver k a parsed key x :
  Forall2 (attr_rel ver k) a parsed -> lookup key parsed = Some x ->
  exists v ty, lookup key a = Some v /\ lookup key (arms k) = Some ty /\ pv_rel ver ty v x.
Proof. intros F2 L. pose proof (store_lookup ver k a parsed key F2) as H. rewrite L in H. exact H. Qed.
Lemma store_none ver k a parsed key :
  Forall2 (attr_rel ver k) a parsed -> lookup key parsed = None -> lookup key a = None.
Proof. intros F2 L. pose proof (store_lookup ver k a parsed key F2) as H. rewrite L in H. exact H. Qed.

Lemma parse_color_ok v c : parse_color pf v = Some c -> color_ok pf v /\ color_val_ok c = true.
Proof.
  unfold parse_color, color_ok.
  destruct (split_on 44 v) as [|a [|b [|c0 [|d [|? ?]]]]] eqn:ES; try discriminate.
  destruct (pf a) as [r|] eqn:Ea; [|discriminate]. destruct (pf b) as [g|] eqn:Eb; [|discriminate].
  destruct (pf c0) as [bl|] eqn:Ec; [|discriminate]. destruct (pf d) as [al|] eqn:Ed; [|discriminate].
  destruct (unit_range r && unit_range g && unit_range bl && unit_range al) eqn:E; [|discriminate].
  intros H; inversion H; subst. split.
  - apply andb_true_iff in E as [E E4]. apply andb_true_iff in E as [E E3].
    apply andb_true_iff in E as [E1 E2]. exists a, b, c0, d, r, g, bl, al. repeat split; auto.
  - exact E.
Qed.

Lemma val_ok_of_rel ver ty v x :
  (ver = 1 \/ ver = 2) -> pv_rel ver ty v x -> ty <> AFile -> val_ok pf ver ty v.
Proof.
  intros Hv PR NF. destruct ty; cbn [pv_rel val_ok] in *.
  - destruct PR as (y & _ & ->). discriminate.
  - destruct PR as (y & _ & E & R1 & R2). exists y; auto.
  - tauto.
  - tauto.
  - destruct PR as (c & _ & E). apply parse_color_ok in E. tauto.
  - destruct PR as (_ & N1 & I). split; [lia|exact I].
  - destruct PR as (t & _ & ->). discriminate.
  - exact I.
  - congruence.
  - destruct PR as (c & _ & ->). discriminate.
  - destruct PR as (n & _ & ->). discriminate.
Qed.

(** success of the attribute loop gives the attribute rules of the specification, up to the
    checks an element makes after its loop (required attributes, image file name) *)
Lemma attrs_ok_of_loop ver k a parsed :
  (ver = 1 \/ ver = 2) ->
  Forall2 (attr_rel ver k) a parsed -> NoDup (map fst a) ->
  (forall key v, In (key, v) a -> lookup key (arms k) = Some AFile -> file_ok v = true) ->
  (forall r, In r (required k) -> In r (map fst a)) ->
  attrs_ok pf ver k a.
Proof.
  intros Hv F2 ND HF HR. split; [exact ND|]. split; [|exact HR].
  intros key v Hin. rewrite schema_arms.
  clear ND HR. induction F2 as [|[k1 v1] [k2 x2] a parsed [E (ty & L & PR)] F2 IH]; [contradiction|].
  cbn [fst snd] in *. destruct Hin as [Hin|Hin].
  - inversion Hin; subst. exists ty. split; [exact L|].
    destruct ty; try (apply (val_ok_of_rel ver _ _ _ Hv PR); discriminate).
    cbn [val_ok]. apply (HF key v); [left; reflexivity|exact L].
  - apply IH; [|exact Hin]. intros key' v' Hin' L'. apply (HF key' v'); [right; exact Hin'|exact L'].
Qed.

(* ---------- identifiers among attributes ---------- *)
Lemma ids_in_nil k a :
  (forall kv, In kv a -> lookup (fst kv) (arms k) <> Some AIdent) -> ids_in k a = [].
Proof.
  induction a as [|kv a IH]; intros H; [reflexivity|].
  cbn [ids_in flat_map]. fold (ids_in k a). rewrite IH by (intros; apply H; right; assumption).
  specialize (H kv (or_introl eq_refl)).
  destruct (lookup (fst kv) (arms k)) as [[]|]; try reflexivity. congruence.
Qed.

Definition ident_kind (k : ekind) : Prop :=
  lookup k_identifier (arms k) = Some AIdent /\
  forall key, lookup key (arms k) = Some AIdent -> key = k_identifier.

Lemma attr_ident_cons key v a :
  attr_ident ((key, v) :: a) = if str_eqb k_identifier key then [v] else attr_ident a.
Proof. unfold attr_ident. cbn [lookup]. destruct (str_eqb _ key); reflexivity. Qed.

Lemma ids_in_ident k a : ident_kind k -> NoDup (map fst a) -> ids_in k a = attr_ident a.
Proof.
  intros [HI HU]. induction a as [|[key v] a IH]; intros ND; [reflexivity|].
  inversion ND as [|? ? Hn ND']; subst. rewrite attr_ident_cons.
  cbn [ids_in flat_map fst snd]. fold (ids_in k a).
  destruct (str_eqb k_identifier key) eqn:E.
  - apply list_eqb_eq in E; subst key. rewrite HI.
    rewrite ids_in_nil; [reflexivity|].
    intros [k' v'] Hin L. cbn [fst] in L. apply HU in L; subst. apply Hn.
    apply (in_map fst) in Hin. exact Hin.
  - rewrite (IH ND'). destruct (lookup key (arms k)) as [[]|] eqn:L; try reflexivity.
    apply HU in L. subst. rewrite str_eqb_refl in E. discriminate.
Qed.

Ltac arm_chain :=
  repeat match goal with
         | |- context [str_eqb ?a ?b] => destruct (str_eqb a b) eqn:?; try discriminate
         end.
Lemma ident_kind_cases k :
  match k with KAnchor | KGuideline | KContour | KPoint | KComponent => ident_kind k | _ => True end.
Proof.
  destruct k; try exact I; (split; [reflexivity|]); intros key;
    unfold arms, transform_arms; cbn [lookup app]; arm_chain; intros _;
    match goal with H : str_eqb key k_identifier = true |- _ => apply list_eqb_eq in H; exact H end.
Qed.
Lemma no_ident_arm k :
  match k with KGlyph | KAdvance | KUnicode | KImage | KOutline | KLib | KNote =>
    forall key, lookup key (arms k) <> Some AIdent | _ => True end.
Proof.
  destruct k; try exact I; intros key; unfold arms, transform_arms; cbn [lookup app]; arm_chain;
    discriminate.
Qed.

Lemma get_ident_spec ver k a parsed :
  ident_kind k -> Forall2 (attr_rel ver k) a parsed ->
  oid (get_ident parsed) = attr_ident a /\ opt_ok ident_valid (get_ident parsed).
Proof.
  intros [HI _] F2. unfold get_ident, attr_ident.
  pose proof (store_lookup ver k a parsed k_identifier F2) as H.
  destruct (lookup k_identifier parsed) as [x|].
  - destruct H as (v & ty & La & Lt & PR). rewrite HI in Lt. inversion Lt; subst ty.
    destruct PR as (-> & _ & Hval). fold k_identifier. rewrite La. split; [reflexivity|exact Hval].
  - fold k_identifier. rewrite H. split; [reflexivity|exact I].
Qed.

Lemma get_name_spec ver k a parsed key :
  (lookup key (arms k) = Some AName \/ lookup key (arms k) = Some ABase) ->
  Forall2 (attr_rel ver k) a parsed ->
  opt_ok name_valid (get_name key parsed) /\
  (forall n, get_name key parsed = Some n -> lookup key a = Some n).
Proof.
  intros HT F2. unfold get_name.
  pose proof (store_lookup ver k a parsed key F2) as H.
  destruct (lookup key parsed) as [x|]; [|split; [exact I|discriminate]].
  destruct H as (v & ty & La & Lt & PR).
  destruct HT as [HT|HT]; rewrite HT in Lt; inversion Lt; subst ty; destruct PR as (-> & Hval);
    (split; [exact Hval|intros n E; inversion E; subst; exact La]).
Qed.

Lemma get_color_spec ver k a parsed :
  lookup k_color (arms k) = Some AColor -> Forall2 (attr_rel ver k) a parsed ->
  opt_ok color_val_ok (get_color parsed).
Proof.
  intros HT F2. unfold get_color.
  pose proof (store_lookup ver k a parsed k_color F2) as H.
  destruct (lookup k_color parsed) as [x|]; [|exact I].
  destruct H as (v & ty & La & Lt & PR). rewrite HT in Lt. inversion Lt; subst ty.
  destruct PR as (c & -> & E). apply parse_color_ok in E. apply E.
Qed.

Lemma get_num_present ver k a parsed key x :
  Forall2 (attr_rel ver k) a parsed -> get_num key parsed = Some x -> In key (map fst a).
Proof.
  intros F2. unfold get_num. destruct (lookup key parsed) as [y|] eqn:L; [|discriminate].
  intros _. apply (store_some ver k a parsed key y F2) in L as (v & ty & La & _).
  apply lookup_In in La. apply (in_map fst) in La. exact La.
Qed.
Lemma get_num_has ver k a parsed key :
  (exists ty, lookup key (arms k) = Some ty /\ (ty = ANum \/ ty = AAngle)) ->
  Forall2 (attr_rel ver k) a parsed ->
  (exists x, get_num key parsed = Some x) <-> has_key key a = true.
Proof.
  intros (ty0 & HT & Hty) F2. unfold get_num, has_key.
  pose proof (store_lookup ver k a parsed key F2) as H.
  destruct (lookup key parsed) as [y|].
  - destruct H as (v & ty & La & Lt & PR). rewrite La. rewrite HT in Lt. inversion Lt; subst ty.
    destruct Hty as [-> | ->]; destruct PR as (z & -> & _); split; eauto.
  - rewrite H. split; [intros [x Hx]; discriminate|discriminate].
Qed.

(* ---------- the identifier set ---------- *)
Definition extends (seen ids seen' : list str) : Prop :=
  seen' = rev ids ++ seen /\ NoDup ids /\ (forall i, In i ids -> ~ In i seen).

Lemma NoDup_app_intro {A} (l1 l2 : list A) :
  NoDup l1 -> NoDup l2 -> (forall x, In x l1 -> ~ In x l2) -> NoDup (l1 ++ l2).
Proof.
  induction l1 as [|x l1 IH]; intros N1 N2 H; [exact N2|].
  inversion N1; subst. cbn [app]. constructor.
  - rewrite in_app_iff. intros [Hin|Hin]; [contradiction|]. apply (H x); [left; reflexivity|exact Hin].
  - apply IH; auto. intros y Hy. apply H. right; exact Hy.
Qed.
Lemma extends_nil seen : extends seen [] seen.
Proof. repeat split; [constructor|intros i []]. Qed.
Lemma extends_trans s0 i1 s1 i2 s2 :
  extends s0 i1 s1 -> extends s1 i2 s2 -> extends s0 (i1 ++ i2) s2.
Proof.
  intros (E1 & N1 & F1) (E2 & N2 & F2). subst s1 s2. split; [|split].
  - rewrite rev_app_distr, app_assoc. reflexivity.
  - apply NoDup_app_intro; auto. intros x H1 H2. apply (F2 x H2).
    rewrite in_app_iff. left. apply in_rev in H1. exact H1.
  - intros i Hin Hs. apply in_app_iff in Hin as [Hin|Hin]; [exact (F1 i Hin Hs)|].
    apply (F2 i Hin). rewrite in_app_iff. right; exact Hs.
Qed.
(** objects that carry data: a sub-collection of the identifiers met *)
Lemma objs_app s0 i1 s1 i2 s2 (o1 o2 : list str) :
  extends s0 i1 s1 -> extends s1 i2 s2 -> NoDup o1 -> incl o1 i1 -> NoDup o2 -> incl o2 i2 ->
  NoDup (o1 ++ o2) /\ incl (o1 ++ o2) (i1 ++ i2).
Proof.
  intros (E1 & N1 & F1) (E2 & N2 & F2) No1 I1 No2 I2. split.
  - apply NoDup_app_intro; auto. intros x H1 H2. apply (F2 x (I2 x H2)). subst s1.
    rewrite in_app_iff. left. rewrite <- in_rev. apply I1. exact H1.
  - intros x Hx. apply in_app_iff in Hx. apply in_app_iff. destruct Hx; [left; apply I1|right; apply I2]; auto.
Qed.

Lemma ids_in_v1 ver k a parsed :
  Forall2 (attr_rel ver k) a parsed -> ver = 1 -> ids_in k a = [].
Proof.
  intros F2 Hv. apply ids_in_nil. intros kv Hin L.
  induction F2 as [|kv1 kx a parsed [E (ty & Lt & PR)] F2 IH]; [contradiction|].
  destruct Hin as [->|Hin]; [|auto].
  rewrite L in Lt. inversion Lt; subst ty. destruct PR as (_ & Hn & _). contradiction.
Qed.

Lemma loop0 ver k gate seen a parsed seen' :
  attr_loop pf ver k gate seen [] a = Ok (parsed, seen') ->
  Forall2 (attr_rel ver k) a parsed /\ NoDup (map fst a) /\ extends seen (ids_in k a) seen' /\
  (ver = 1 -> ids_in k a = []).
Proof.
  intros H. apply attr_loop_spec in H as (p & E & F2 & _ & ND & Es & Hf & NDi & _).
  cbn [app] in E. subst p. repeat split; auto. intros Hv. eapply ids_in_v1; eauto.
Qed.

Ltac no_file_arm :=
  let key := fresh "key" in let v := fresh "v" in
  intros key v _; unfold arms, transform_arms; cbn [lookup app]; arm_chain; discriminate.

(* ---------- leaf elements ---------- *)
Lemma has_key_keys {A B} (l1 : list (str * A)) (l2 : list (str * B)) key :
  map fst l1 = map fst l2 -> has_key key l1 = has_key key l2.
Proof.
  intros E. destruct (has_key key l2) eqn:H2.
  - apply has_key_In. rewrite E. apply has_key_In. exact H2.
  - destruct (has_key key l1) eqn:H1; [|reflexivity].
    apply has_key_In in H1. rewrite E in H1. apply has_key_In in H1. congruence.
Qed.

Lemma parse_anchor_spec ver seen a x seen' :
  (ver = 1 \/ ver = 2) ->
  parse_anchor pf ver seen a = Ok (x, seen') ->
  attrs_ok pf ver KAnchor a /\ anchor_rules x /\ alib x = None /\
  oid (aid x) = attr_ident a /\ extends seen (attr_ident a) seen' /\ (ver = 1 -> attr_ident a = []).
Proof.
  intros Hv. unfold parse_anchor.
  destruct (attr_loop pf ver KAnchor false seen [] a) as [[s seen1]| |] eqn:L; cbn [bind]; try discriminate.
  apply loop0 in L as (F2 & ND & EX & V1).
  rewrite (ids_in_ident KAnchor a (ident_kind_cases KAnchor) ND) in *.
  destruct (get_num k_x s) as [vx|] eqn:Gx; [|discriminate].
  destruct (get_num k_y s) as [vy|] eqn:Gy; [|discriminate].
  intros H; inversion H; subst x seen'; clear H.
  destruct (get_ident_spec ver KAnchor a s (ident_kind_cases KAnchor) F2) as [I1 I2].
  destruct (get_name_spec ver KAnchor a s k_name (or_introl eq_refl) F2) as [N1 _].
  pose proof (get_color_spec ver KAnchor a s eq_refl F2) as C1.
  split; [|split; [|split; [reflexivity|split; [exact I1|split; [exact EX|exact V1]]]]].
  - apply attrs_ok_of_loop with (parsed := s); auto; [no_file_arm|].
    intros r [<-|[<-|[]]]; eapply get_num_present; eauto.
  - unfold anchor_rules, lib_needs_id; cbn [aname acolor aid alib]. repeat split; auto; congruence.
Qed.

Lemma parse_guideline_spec ver seen a x seen' :
  (ver = 1 \/ ver = 2) ->
  parse_guideline pf ver seen a = Ok (x, seen') ->
  attrs_ok pf ver KGuideline a /\ guideline_shape a /\ guide_rules x /\ gulib x = None /\
  oid (guid x) = attr_ident a /\ extends seen (attr_ident a) seen' /\ (ver = 1 -> attr_ident a = []).
Proof.
  intros Hv. unfold parse_guideline.
  destruct (attr_loop pf ver KGuideline false seen [] a) as [[s seen1]| |] eqn:L; cbn [bind]; try discriminate.
  apply loop0 in L as (F2 & ND & EX & V1).
  rewrite (ids_in_ident KGuideline a (ident_kind_cases KGuideline) ND) in *.
  destruct (get_ident_spec ver KGuideline a s (ident_kind_cases KGuideline) F2) as [I1 I2].
  destruct (get_name_spec ver KGuideline a s k_name (or_introl eq_refl) F2) as [N1 _].
  pose proof (get_color_spec ver KGuideline a s eq_refl F2) as C1.
  assert (AO : attrs_ok pf ver KGuideline a).
  { apply attrs_ok_of_loop with (parsed := s); auto; [no_file_arm|]. intros r []. }
  pose proof (get_num_has ver KGuideline a s k_x (ex_intro _ ANum (conj eq_refl (or_introl eq_refl))) F2) as Hx.
  pose proof (get_num_has ver KGuideline a s k_y (ex_intro _ ANum (conj eq_refl (or_introl eq_refl))) F2) as Hy.
  pose proof (get_num_has ver KGuideline a s k_angle (ex_intro _ AAngle (conj eq_refl (or_intror eq_refl))) F2) as Ha.
  assert (Hxn : get_num k_x s = None -> has_key k_x a = false).
  { intros E. destruct (has_key k_x a) eqn:HK; [|reflexivity]. destruct (proj2 Hx eq_refl) as [? HK']. congruence. }
  assert (Hyn : get_num k_y s = None -> has_key k_y a = false).
  { intros E. destruct (has_key k_y a) eqn:HK; [|reflexivity]. destruct (proj2 Hy eq_refl) as [? HK']. congruence. }
  assert (Han : get_num k_angle s = None -> has_key k_angle a = false).
  { intros E. destruct (has_key k_angle a) eqn:HK; [|reflexivity]. destruct (proj2 Ha eq_refl) as [? HK']. congruence. }
  assert (Hang : forall d, get_num k_angle s = Some d -> fl_leb f0 d = true /\ fl_leb d f360 = true).
  { intros d. unfold get_num. destruct (lookup k_angle s) as [y|] eqn:LA; [|discriminate].
    apply (store_some ver KGuideline a s k_angle y F2) in LA as (v & ty & _ & Lt & PR).
    vm_compute in Lt. inversion Lt; subst ty. destruct PR as (z & -> & _ & R1 & R2).
    intros E; inversion E; subst. auto. }
  destruct (get_num k_x s) as [vx|] eqn:Gx; destruct (get_num k_y s) as [vy|] eqn:Gy;
    destruct (get_num k_angle s) as [va|] eqn:Ga; try discriminate;
    intros H; inversion H; subst x seen'; clear H;
    (split; [exact AO|]);
    (split; [|split; [|split; [reflexivity|split; [exact I1|split; [exact EX|exact V1]]]];
              unfold guide_rules, lib_needs_id; cbn [gline guname gcolor guid gulib line_rules];
              repeat split; auto; try (apply Hang; reflexivity); congruence]);
    unfold guideline_shape; fold k_x k_y k_angle.
  - right; right. repeat split; [apply Hx|apply Hy|apply Ha]; eauto.
  - left. repeat split; [apply Hx; eauto|apply Hyn|apply Han]; reflexivity.
  - right; left. repeat split; [apply Hxn|apply Hy; eauto|apply Han]; reflexivity.
Qed.

Lemma parse_component_spec ver seen a x seen' :
  (ver = 1 \/ ver = 2) ->
  parse_component pf ver seen a = Ok (x, seen') ->
  attrs_ok pf ver KComponent a /\ comp_rules x /\ colib x = None /\
  oid (coid x) = attr_ident a /\ extends seen (attr_ident a) seen' /\ (ver = 1 -> attr_ident a = []).
Proof.
  intros Hv. unfold parse_component.
  destruct (attr_loop pf ver KComponent false seen [] a) as [[s seen1]| |] eqn:L; cbn [bind]; try discriminate.
  apply loop0 in L as (F2 & ND & EX & V1).
  rewrite (ids_in_ident KComponent a (ident_kind_cases KComponent) ND) in *.
  destruct (get_name k_base s) as [b|] eqn:Gb; [|discriminate].
  intros H; inversion H; subst x seen'; clear H.
  destruct (get_ident_spec ver KComponent a s (ident_kind_cases KComponent) F2) as [I1 I2].
  destruct (get_name_spec ver KComponent a s k_base (or_intror eq_refl) F2) as [N1 N2].
  rewrite Gb in N1. specialize (N2 b Gb).
  split; [|split; [|split; [reflexivity|split; [exact I1|split; [exact EX|exact V1]]]]].
  - apply attrs_ok_of_loop with (parsed := s); auto; [no_file_arm|].
    intros r [<-|[]]. apply lookup_In in N2. apply (in_map fst) in N2. exact N2.
  - unfold comp_rules, lib_needs_id; cbn [cbase coid colib]. repeat split; auto; congruence.
Qed.

Lemma parse_point_spec ver seen a p seen' :
  (ver = 1 \/ ver = 2) ->
  parse_point pf ver seen a = Ok (p, seen') ->
  attrs_ok pf ver KPoint a /\ point_rules p /\ plib p = None /\ pt_of p = spec_pt a /\
  oid (pid p) = attr_ident a /\ extends seen (attr_ident a) seen' /\ (ver = 1 -> attr_ident a = []).
Proof.
  intros Hv. unfold parse_point.
  destruct (attr_loop pf ver KPoint false seen [] a) as [[s seen1]| |] eqn:L; cbn [bind]; try discriminate.
  apply loop0 in L as (F2 & ND & EX & V1).
  rewrite (ids_in_ident KPoint a (ident_kind_cases KPoint) ND) in *.
  destruct (get_num k_x s) as [vx|] eqn:Gx; [|discriminate].
  destruct (get_num k_y s) as [vy|] eqn:Gy; [|discriminate].
  intros H; inversion H; subst p seen'; clear H.
  destruct (get_ident_spec ver KPoint a s (ident_kind_cases KPoint) F2) as [I1 I2].
  destruct (get_name_spec ver KPoint a s k_name (or_introl eq_refl) F2) as [N1 _].
  split; [|split; [|split; [reflexivity|split; [|split; [exact I1|split; [exact EX|exact V1]]]]]].
  - apply attrs_ok_of_loop with (parsed := s); auto; [no_file_arm|].
    intros r [<-|[<-|[]]]; eapply get_num_present; eauto.
  - unfold point_rules, lib_needs_id; cbn [pname pid plib]. repeat split; auto; congruence.
  - unfold pt_of, spec_pt; cbn [ptyp psmooth]. fold k_type k_smooth. f_equal.
    + pose proof (store_lookup ver KPoint a s k_type F2) as H.
      destruct (lookup k_type s) as [y|].
      * destruct H as (v & ty & La & Lt & PR). vm_compute in Lt. inversion Lt; subst ty.
        destruct PR as (t & -> & E). rewrite La, E. reflexivity.
      * rewrite H. reflexivity.
    + pose proof (store_lookup ver KPoint a s k_smooth F2) as H.
      destruct (lookup k_smooth s) as [y|].
      * destruct H as (v & ty & La & Lt & PR). vm_compute in Lt. inversion Lt; subst ty.
        cbn [pv_rel] in PR. subst y. rewrite La. reflexivity.
      * rewrite H. reflexivity.
Qed.

Lemma parse_image_spec ver seen a i :
  (ver = 1 \/ ver = 2) ->
  parse_image pf ver seen a = Ok i -> attrs_ok pf ver KImage a /\ image_rules i.
Proof.
  intros Hv. unfold parse_image.
  destruct (attr_loop pf ver KImage false seen [] a) as [[s seen1]| |] eqn:L; cbn [bind]; try discriminate.
  apply loop0 in L as (F2 & ND & EX & V1).
  destruct (lookup k_fileName s) as [y|] eqn:Lf; [|discriminate].
  destruct y; try discriminate. destruct (file_ok s0) eqn:FO; [|discriminate].
  intros H; inversion H; subst i; clear H.
  apply (store_some ver KImage a s k_fileName _ F2) in Lf as (v & ty & La & Lt & PR).
  vm_compute in Lt. inversion Lt; subst ty. cbn [pv_rel] in PR. inversion PR; subst s0.
  pose proof (get_color_spec ver KImage a s eq_refl F2) as C1.
  split; [|split; [exact FO|exact C1]].
  apply attrs_ok_of_loop with (parsed := s); auto.
  - intros key v' Hin. unfold arms, transform_arms; cbn [lookup app]; arm_chain; try discriminate.
    intros _. match goal with H : str_eqb key k_fileName = true |- _ => apply list_eqb_eq in H; subst key end.
    rewrite (lookup_NoDup _ _ _ ND Hin) in La. inversion La; subst. exact FO.
  - intros r [<-|[]]. apply lookup_In in La. apply (in_map fst) in La. exact La.
Qed.

Lemma parse_advance_spec ver seen a w h :
  (ver = 1 \/ ver = 2) ->
  parse_advance pf ver seen a = Ok (w, h) -> attrs_ok pf ver KAdvance a.
Proof.
  intros Hv. unfold parse_advance.
  destruct (attr_loop pf ver KAdvance false seen [] a) as [[s seen1]| |] eqn:L; cbn [bind]; try discriminate.
  apply loop0 in L as (F2 & ND & EX & V1). intros _.
  apply attrs_ok_of_loop with (parsed := s); auto; [no_file_arm|]. intros r [].
Qed.

Lemma cps_insert_ok c l :
  is_scalar c = true -> NoDup l -> Forall (fun c => is_scalar c = true) l ->
  NoDup (cps_insert c l) /\ Forall (fun c => is_scalar c = true) (cps_insert c l).
Proof.
  intros Hc ND F. unfold cps_insert. destruct (existsb (N.eqb c) l) eqn:E; [auto|]. split.
  - apply NoDup_app_intro; auto; [repeat constructor; intros []|].
    intros x Hx [Hc'|[]]. subst x. assert (existsb (N.eqb c) l = true); [|congruence].
    apply existsb_exists. exists c. split; [exact Hx|apply N.eqb_refl].
  - apply Forall_app. split; [exact F|repeat constructor; exact Hc].
Qed.

Lemma parse_hex_scalar v c : parse_hex v = Some c -> is_scalar c = true.
Proof.
  unfold parse_hex. destruct (unsigned_of hex_val v) as [n|]; [|discriminate].
  destruct ((n <? 2 ^ 32) && is_scalar n) eqn:E; [|discriminate].
  intros H; inversion H; subst. apply andb_true_iff in E. apply E.
Qed.

Lemma parse_unicode_spec ver seen a cps cps' :
  (ver = 1 \/ ver = 2) ->
  parse_unicode pf ver seen a cps = Ok cps' ->
  NoDup cps -> Forall (fun c => is_scalar c = true) cps ->
  attrs_ok pf ver KUnicode a /\
  NoDup cps' /\ Forall (fun c => is_scalar c = true) cps'.
Proof.
  intros Hv. unfold parse_unicode.
  destruct (attr_loop pf ver KUnicode false seen [] a) as [[s seen1]| |] eqn:L; cbn [bind]; try discriminate.
  apply loop0 in L as (F2 & ND & EX & V1). intros H NDc Fc.
  pose proof (store_lookup ver KUnicode a s k_hex F2) as Hh.
  destruct (lookup k_hex s) as [y|]; [|discriminate].
  destruct Hh as (v & ty & La & Lt & PR). vm_compute in Lt. inversion Lt; subst ty.
  destruct PR as (c & -> & E). inversion H; subst. split.
  - apply attrs_ok_of_loop with (parsed := s); auto; [no_file_arm|].
    intros r [<-|[]]. apply lookup_In in La. apply (in_map fst) in La. exact La.
  - apply cps_insert_ok; auto. eapply parse_hex_scalar; eauto.
Qed.

(* ---------- contours ---------- *)
Definition is_element (n : node) : bool :=
  match n with Empty _ _ | Elem _ _ _ => true | _ => false end.

Lemma sig_kids_tview l : forallb is_element (tview l) = true -> sig_kids l = tview l.
Proof.
  induction l as [|n l IH]; [reflexivity|].
  destruct n; cbn [tview sig_kids filter insig negb forallb is_element andb]; try discriminate;
    try (intros H; fold (sig_kids l); rewrite IH by exact H; reflexivity).
  destruct (blank s); cbn [negb forallb is_element andb]; [exact IH|discriminate].
Qed.

Definition gpids (l : list point) : list str := flat_map (fun p => oid (pid p)) l.
Definition npids (l : list node) : list str := flat_map (fun n => attr_ident (attrs_of n)) l.
Definition gcids (c : contour) : list str := oid (cid c) ++ gpids (cpoints c).

Lemma cerr_res_not_ok {A} e (x : A) : cerr_res e <> Ok x.
Proof. destruct e; discriminate. Qed.

Lemma parse_points_spec ver :
  (ver = 1 \/ ver = 2) ->
  forall l seen bst acc pts bst' seen',
  parse_points pf ver seen bst acc l = Ok (pts, bst', seen') ->
  exists new, pts = acc ++ new /\
    forallb is_element l = true /\
    Forall (leaf_ok pf ver KPoint) l /\
    map pt_of new = map (fun n => spec_pt (attrs_of n)) l /\
    run bst (map pt_of new) = inr bst' /\
    Forall point_rules new /\ Forall (fun p => plib p = None) new /\
    gpids new = npids l /\ extends seen (npids l) seen' /\ (ver = 1 -> npids l = []).
Proof.
  intros Hv. induction l as [|n l IH]; intros seen bst acc pts bst' seen'; cbn [parse_points].
  - intros H; inversion H; subst. exists []. rewrite app_nil_r.
    repeat split; try constructor; try apply extends_nil; intros i [].
  - destruct n as [name a| | | | | | |]; try discriminate.
    destruct (ekind_of name) as [k|] eqn:EK; [|discriminate]. destruct k; try discriminate.
    destruct (parse_point pf ver seen a) as [[p seen1]| |] eqn:PP; cbn [bind]; try discriminate.
    destruct (step bst (pt_of p)) as [e|bst1] eqn:ST; [intros H; exfalso; eapply cerr_res_not_ok; eauto|].
    intros H. apply IH in H as (new & E & EL & LF & MP & RN & PR & PL & GI & EX & V1).
    apply parse_point_spec in PP as (AO & PRp & PLp & PT & IDp & EXp & V1p); [|exact Hv].
    exists (p :: new). rewrite <- app_assoc in E. cbn [app] in E.
    split; [exact E|]. split; [exact EL|]. split.
    { constructor; [|exact LF]. unfold leaf_ok, kind_of, kids_of, attrs_of; cbn [as_elem]. auto. }
    split; [cbn [map attrs_of as_elem]; unfold attrs_of at 1; cbn [as_elem]; rewrite PT, MP; reflexivity|].
    split; [cbn [map run]; rewrite ST; exact RN|].
    split; [constructor; assumption|]. split; [constructor; assumption|].
    unfold gpids, npids in *. cbn [flat_map]. unfold attrs_of at 1 3 5; cbn [as_elem].
    split; [rewrite IDp, GI; reflexivity|]. split; [eapply extends_trans; eauto|].
    intros H1. rewrite (V1p H1), (V1 H1). reflexivity.
Qed.

Lemma build_of_run pts bst :
  run (true, 0) pts = inr bst -> end_path bst pts = None -> build pts = inr pts.
Proof.
  unfold build, end_path. intros ->. destruct bst as [b cnt]; cbn [snd].
  destruct (0 <? cnt); [|reflexivity].
  destruct (is_closed pts); [|discriminate]. destruct (wrap cnt pts); [discriminate|reflexivity].
Qed.

Lemma legal_nil : legal [].
Proof. apply accepts_iff_legal. exists []. reflexivity. Qed.

Lemma attrs_ok_nil ver k : required k = [] -> attrs_ok pf ver k [].
Proof.
  intros R. split; [constructor|]. split; [intros ? ? []|]. rewrite R. intros ? [].
Qed.

Lemma parse_contour_spec ver seen a kids c seen' :
  (ver = 1 \/ ver = 2) ->
  parse_contour pf ver seen a kids = Ok (c, seen') ->
  attrs_ok pf ver KContour a /\ forallb is_element (tview kids) = true /\
  Forall (leaf_ok pf ver KPoint) (tview kids) /\
  legal (map (fun p => spec_pt (attrs_of p)) (tview kids)) /\
  extends seen (attr_ident a ++ npids (tview kids)) seen' /\
  (ver = 1 -> attr_ident a ++ npids (tview kids) = []) /\
  match c with
  | None => tview kids = []
  | Some c => tview kids <> [] /\ contour_rules c /\ clib c = None /\
              Forall (fun p => plib p = None) (cpoints c) /\
              gcids c = attr_ident a ++ npids (tview kids)
  end.
Proof.
  intros Hv. unfold parse_contour.
  destruct (attr_loop pf ver KContour true seen [] a) as [[s seen1]| |] eqn:L; cbn [bind]; try discriminate.
  apply loop0 in L as (F2 & ND & EX & V1).
  rewrite (ids_in_ident KContour a (ident_kind_cases KContour) ND) in *.
  destruct (parse_points pf ver seen1 (true, 0) [] (tview kids)) as [[[pts bst] seen2]| |] eqn:PP;
    cbn [bind]; try discriminate.
  apply parse_points_spec in PP as (new & E & EL & LF & MP & RN & PR & PL & GI & EXp & V1p); [|exact Hv].
  cbn [app] in E. subst new.
  destruct (end_path bst (map pt_of pts)) as [e|] eqn:EP; [intros H; exfalso; eapply cerr_res_not_ok; eauto|].
  intros H; inversion H; subst c seen'; clear H.
  destruct (get_ident_spec ver KContour a s (ident_kind_cases KContour) F2) as [I1 I2].
  assert (LG : legal (map pt_of pts)).
  { apply accepts_iff_legal. exists (map pt_of pts). apply build_of_run with (bst := bst); assumption. }
  split.
  { apply attrs_ok_of_loop with (parsed := s); auto; [no_file_arm|]. intros r []. }
  split; [exact EL|]. split; [exact LF|]. split; [rewrite <- MP; exact LG|].
  split; [eapply extends_trans; eauto|].
  split; [intros H1; rewrite (V1 H1), (V1p H1); reflexivity|].
  destruct pts as [|p pts].
  - destruct (tview kids); [reflexivity|discriminate].
  - split; [destruct (tview kids); [discriminate|congruence]|].
    split; [|split; [reflexivity|split; [exact PL|]]].
    + unfold contour_rules, lib_needs_id; cbn [cpoints cid clib].
      split; [discriminate|]. split; [exact LG|]. split; [exact PR|]. split; [exact I2|congruence].
    + unfold gcids; cbn [cid cpoints]. rewrite I1, GI. reflexivity.
Qed.

(* ---------- outline ---------- *)
Definition gkids (ks : list component) : list str := flat_map (fun c => oid (coid c)) ks.

Lemma perm_middle {A} (X Y Z : list A) : Permutation (X ++ Y ++ Z) (Y ++ X ++ Z).
Proof.
  rewrite !app_assoc. apply Permutation_app_tail. apply Permutation_app_comm.
Qed.

Ltac kind_simpl EK :=
  unfold is_kind, kind_of, attrs_of, kids_of; cbn [as_elem]; rewrite ?EK; cbn [andb orb negb].

Lemma parse_outline_kids_spec ver :
  (ver = 1 \/ ver = 2) ->
  forall l seen cs ks cs' ks' seen',
  parse_outline_kids pf ver seen cs ks l = Ok (cs', ks', seen') ->
  exists nc nk, cs' = cs ++ nc /\ ks' = ks ++ nk /\
    forallb is_element l = true /\
    Forall (outline_child_ok pf ver) l /\
    Forall contour_rules nc /\ Forall comp_rules nk /\
    Forall (fun c => clib c = None /\ Forall (fun p => plib p = None) (cpoints c)) nc /\
    Forall (fun c => colib c = None) nk /\
    Permutation (flat_map gcids nc ++ gkids nk) (flat_map outline_child_obj_ids l) /\
    extends seen (flat_map outline_child_ids l) seen' /\
    NoDup (flat_map outline_child_obj_ids l) /\
    incl (flat_map outline_child_obj_ids l) (flat_map outline_child_ids l) /\
    (ver = 1 -> flat_map outline_child_ids l = []).
Proof.
  intros Hv. induction l as [|n l IH]; intros seen cs ks cs' ks' seen'; cbn [parse_outline_kids].
  - intros H; inversion H; subst. exists [], []. rewrite !app_nil_r.
    repeat split; try constructor; try apply extends_nil; try (intros i []).
  - intros H.
    destruct n as [name a|name a kids| | | | | |]; try discriminate.
    + (* self-closing element *)
      destruct (ekind_of name) as [k|] eqn:EK; [|discriminate]. destruct k; try discriminate.
      * (* <contour .../>: attributes as for a start tag, the contour itself is dropped *)
        destruct (attr_loop pf ver KContour true seen [] a) as [[s0 seen1]| |] eqn:LA; cbn [bind] in H; try discriminate.
        apply loop0 in LA as (F2 & NDa & EXa & V1a).
        rewrite (ids_in_ident KContour a (ident_kind_cases KContour) NDa) in *.
        apply IH in H as (nc & nk & E1 & E2 & EL & OK & CR & KR & CL & KL & PM & EX & NDo & INC & V1).
        assert (AO : attrs_ok pf ver KContour a).
        { apply attrs_ok_of_loop with (parsed := s0); auto; [no_file_arm|intros r []]. }
        exists nc, nk. split; [exact E1|]. split; [exact E2|]. split; [exact EL|].
        split.
        { constructor; [|exact OK]. left. unfold contour_ok. kind_simpl EK.
          split; [reflexivity|]. split; [exact AO|]. split; [constructor|apply legal_nil]. }
        assert (I0 : outline_child_ids (Empty name a) = attr_ident a).
        { unfold outline_child_ids, contour_ids. kind_simpl EK. apply app_nil_r. }
        assert (O0 : outline_child_obj_ids (Empty name a) = []).
        { unfold outline_child_obj_ids. kind_simpl EK. reflexivity. }
        cbn [flat_map]. rewrite I0, O0. cbn [app].
        split; [exact CR|]. split; [exact KR|]. split; [exact CL|]. split; [exact KL|].
        split; [exact PM|]. split; [eapply extends_trans; eauto|]. split; [exact NDo|].
        split; [intros x Hx; apply in_app_iff; right; apply INC; exact Hx|].
        intros H1. rewrite (V1a H1), (V1 H1). reflexivity.
      * (* <component .../> *)
        destruct (parse_component pf ver seen a) as [[c seen1]| |] eqn:PC; cbn [bind]; try discriminate.
        apply IH in H as (nc & nk & E1 & E2 & EL & OK & CR & KR & CL & KL & PM & EX & NDo & INC & V1).
        apply parse_component_spec in PC as (AO & CRc & CLc & IDc & EXc & V1c); [|exact Hv].
        exists nc, (c :: nk). split; [exact E1|]. rewrite <- app_assoc in E2. cbn [app] in E2.
        split; [exact E2|]. split; [exact EL|].
        split.
        { constructor; [|exact OK]. right. unfold leaf_ok. kind_simpl EK. auto. }
        split; [exact CR|]. split; [constructor; assumption|]. split; [exact CL|].
        split; [constructor; assumption|].
        assert (I0 : outline_child_ids (Empty name a) = attr_ident a).
        { unfold outline_child_ids. kind_simpl EK. reflexivity. }
        assert (O0 : outline_child_obj_ids (Empty name a) = attr_ident a).
        { unfold outline_child_obj_ids. kind_simpl EK. exact I0. }
        cbn [flat_map]. rewrite I0, O0. unfold gkids in *. cbn [flat_map]. rewrite IDc.
        split; [eapply Permutation_trans; [apply perm_middle|apply Permutation_app_head; exact PM]|].
        split; [eapply extends_trans; eauto|].
        destruct EXc as (? & NDc & ?).
        destruct (objs_app seen (attr_ident a) seen1 _ seen' (attr_ident a) _
                    (conj H (conj NDc H0)) EX NDc (incl_refl _) NDo INC) as [N1 N2].
        split; [exact N1|]. split; [exact N2|].
        intros H1. rewrite (V1c H1), (V1 H1). reflexivity.
    + (* <contour ...> ... </contour> *)
      destruct (ekind_of name) as [k|] eqn:EK; [|discriminate]. destruct k; try discriminate.
      destruct (parse_contour pf ver seen a kids) as [[c seen1]| |] eqn:PC; cbn [bind]; try discriminate.
      apply IH in H as (nc & nk & E1 & E2 & EL & OK & CR & KR & CL & KL & PM & EX & NDo & INC & V1).
      apply parse_contour_spec in PC as (AO & ELc & LFc & LGc & EXc & V1c & Hc); [|exact Hv].
      pose proof (sig_kids_tview kids ELc) as SK.
      assert (C0 : contour_ids (Elem name a kids) = attr_ident a ++ npids (tview kids)).
      { unfold contour_ids. kind_simpl EK. rewrite SK. reflexivity. }
      assert (I0 : outline_child_ids (Elem name a kids) = attr_ident a ++ npids (tview kids)).
      { unfold outline_child_ids. kind_simpl EK. exact C0. }
      assert (OKc : outline_child_ok pf ver (Elem name a kids)).
      { left. unfold contour_ok. kind_simpl EK. rewrite SK. auto. }
      destruct c as [c|].
      * destruct Hc as (NE & CRc & CLc & PLc & GC).
        assert (O0 : outline_child_obj_ids (Elem name a kids) = attr_ident a ++ npids (tview kids)).
        { unfold outline_child_obj_ids. kind_simpl EK. rewrite SK. destruct (tview kids); [congruence|exact C0]. }
        exists (c :: nc), nk. rewrite <- app_assoc in E1. cbn [app] in E1.
        split; [exact E1|]. split; [exact E2|]. split; [exact EL|]. split; [constructor; assumption|].
        split; [constructor; assumption|]. split; [exact KR|]. split; [constructor; auto|].
        split; [exact KL|]. cbn [flat_map]. rewrite I0, O0, GC.
        split; [rewrite <- app_assoc; apply Permutation_app_head; exact PM|].
        split; [eapply extends_trans; eauto|].
        pose proof EXc as (? & NDc & ?).
        destruct (objs_app seen _ seen1 _ seen' (attr_ident a ++ npids (tview kids)) _
                    EXc EX NDc (incl_refl _) NDo INC) as [N1 N2].
        split; [exact N1|]. split; [exact N2|].
        intros H2. rewrite (V1c H2), (V1 H2). reflexivity.
      * assert (O0 : outline_child_obj_ids (Elem name a kids) = []).
        { unfold outline_child_obj_ids. kind_simpl EK. rewrite SK, Hc. reflexivity. }
        exists nc, nk. split; [exact E1|]. split; [exact E2|]. split; [exact EL|].
        split; [constructor; assumption|]. split; [exact CR|]. split; [exact KR|]. split; [exact CL|].
        split; [exact KL|]. cbn [flat_map]. rewrite I0, O0. cbn [app].
        split; [exact PM|]. split; [eapply extends_trans; eauto|]. split; [exact NDo|].
        split; [intros x Hx; apply in_app_iff; right; apply INC; exact Hx|].
        intros H2. rewrite (V1c H2), (V1 H2). reflexivity.
Qed.

(* ---------- format-1 anchors ---------- *)
Definition gaids (l : list anchor) : list str := flat_map (fun a => oid (aid a)) l.
Definition ggids (l : list guideline) : list str := flat_map (fun x => oid (guid x)) l.
Definition cl_none (c : contour) : Prop :=
  clib c = None /\ Forall (fun p => plib p = None) (cpoints c).

Lemma v1_anchor_spec c a :
  v1_anchor c = Some a -> contour_rules c ->
  anchor_rules a /\ alib a = None /\ aid a = None /\
  exists p n, cpoints c = [p] /\ ptyp p = Move /\ pname p = Some n /\
              a = mkAnchor (px p) (py p) (Some n) None None None.
Proof.
  unfold v1_anchor. destruct (cpoints c) as [|p [|? ?]] eqn:EP; try discriminate.
  destruct (ptyp p) eqn:ET; try discriminate. destruct (pname p) as [n|] eqn:EN; [|discriminate].
  intros H; inversion H; subst a; clear H. intros (_ & _ & PR & _).
  rewrite EP in PR. inversion PR as [|? ? PRp _]; subst. destruct PRp as (Hn & _).
  rewrite EN in Hn. split; [|split; [reflexivity|split; [reflexivity|exists p, n; auto]]].
  unfold anchor_rules, lib_needs_id; cbn [aname acolor aid alib opt_ok]. repeat split; auto; congruence.
Qed.

Lemma v1_split_spec cs an keep :
  v1_split cs = (an, keep) ->
  Forall contour_rules cs -> Forall cl_none cs -> flat_map gcids cs = [] ->
  Forall anchor_rules an /\ Forall (fun a => alib a = None) an /\ gaids an = [] /\
  Forall contour_rules keep /\ Forall cl_none keep /\ flat_map gcids keep = [] /\
  Forall (fun c => v1_anchor c = None) keep.
Proof.
  revert an keep. induction cs as [|c cs IH]; intros an keep; cbn [v1_split].
  - intros H; inversion H; subst. repeat split; constructor.
  - destruct (v1_split cs) as [an0 keep0] eqn:ES. intros H CR CL GI.
    inversion CR as [|? ? CRc CRs]; subst. inversion CL as [|? ? CLc CLs]; subst.
    cbn [flat_map] in GI. apply app_eq_nil in GI as [GIc GIs].
    destruct (IH an0 keep0 eq_refl CRs CLs GIs) as (A1 & A2 & A3 & K1 & K2 & K3 & K4).
    destruct (v1_anchor c) as [a|] eqn:EA; inversion H; subst; clear H.
    + destruct (v1_anchor_spec c a EA CRc) as (R1 & R2 & R3 & _).
      repeat split; auto. unfold gaids in *. cbn [flat_map]. rewrite R3, A3. reflexivity.
    + repeat split; auto. cbn [flat_map]. rewrite GIc, K3. reflexivity.
Qed.

(* ---------- the glyph body: invariant of the element loop ---------- *)
Definition str_dec : forall a b : str, {a = b} + {a <> b} := list_eq_dec N.eq_dec.
Ltac perm_count :=
  apply (Permutation_count_occ str_dec); let x := fresh "x" in intros x;
  repeat match goal with
         | H : Permutation ?a ?b |- _ =>
             let H' := fresh "PC" in
             pose proof (proj1 (Permutation_count_occ str_dec a b) H x) as H'; clear H
         end;
  rewrite ?count_occ_app in *; cbn [count_occ] in *; lia.

Definition grules (g : glyph) : Prop :=
  name_valid (gname g) = true /\
  NoDup (gcps g) /\ Forall (fun c => is_scalar c = true) (gcps g) /\
  match gimage g with Some i => image_rules i | None => True end /\
  Forall guide_rules (gguides g) /\ Forall anchor_rules (ganchors g) /\
  Forall comp_rules (gcomps g) /\ Forall contour_rules (gcontours g).
Definition nolibs (g : glyph) : Prop :=
  Forall (fun a => alib a = None) (ganchors g) /\ Forall (fun x => gulib x = None) (gguides g) /\
  Forall cl_none (gcontours g) /\ Forall (fun c => colib c = None) (gcomps g).

Lemma glyph_ids_eq g :
  glyph_ids g = gaids (ganchors g) ++ ggids (gguides g) ++ flat_map gcids (gcontours g) ++ gkids (gcomps g).
Proof. reflexivity. Qed.

Record inv (ver : N) (pre : list node) (st : pst) : Prop := mkInv {
  i_ok : Forall (fun n => f16_child n = false -> child_ok pf ver n) pre;
  i_el : forallb is_element pre = true;
  i_adv : count_kind KAdvance pre = if st_adv st then 1%nat else 0%nat;
  i_out : count_kind KOutline pre = if st_out st then 1%nat else 0%nat;
  i_lib : count_kind KLib pre = if st_lib st then 1%nat else 0%nat;
  i_img : count_kind KImage pre = match gimage (st_g st) with Some _ => 1%nat | None => 0%nat end;
  i_note : count_kind KNote pre = if st_note st then 1%nat else 0%nat;
  i_seen : extends [] (doc_ids pre) (st_seen st);
  i_objs : NoDup (doc_obj_ids pre) /\ incl (doc_obj_ids pre) (doc_ids pre);
  i_perm : Permutation (glyph_ids (st_g st)) (doc_obj_ids pre);
  i_rules : grules (st_g st);
  i_nolibs : nolibs (st_g st);
  i_libd : map (lib_dict pf) (filter (is_kind KLib) pre)
           = if st_lib st then [Some (glib (st_g st))] else [];
  i_lib0 : st_lib st = false -> glib (st_g st) = [] }.

Lemma count_kind_snoc k pre n :
  count_kind k (pre ++ [n]) = (count_kind k pre + if is_kind k n then 1 else 0)%nat.
Proof.
  unfold count_kind. rewrite filter_app, app_length. cbn [filter]. destruct (is_kind k n); reflexivity.
Qed.
Lemma filter_snoc {A} (f : A -> bool) pre n :
  filter f (pre ++ [n]) = filter f pre ++ if f n then [n] else [].
Proof. rewrite filter_app. cbn [filter]. destruct (f n); reflexivity. Qed.
Lemma doc_ids_snoc pre n : doc_ids (pre ++ [n]) = doc_ids pre ++ child_ids n.
Proof. unfold doc_ids. rewrite flat_map_app. cbn [flat_map]. rewrite app_nil_r. reflexivity. Qed.
Lemma doc_obj_ids_snoc pre n : doc_obj_ids (pre ++ [n]) = doc_obj_ids pre ++ child_obj_ids n.
Proof. unfold doc_obj_ids. rewrite flat_map_app. cbn [flat_map]. rewrite app_nil_r. reflexivity. Qed.
Lemma forallb_snoc {A} (f : A -> bool) pre n : forallb f (pre ++ [n]) = forallb f pre && f n.
Proof. rewrite forallb_app. cbn [forallb]. rewrite andb_true_r. reflexivity. Qed.

Ltac gsimpl :=
  cbn [st_g st_seen st_adv st_lib st_out st_note set_adv set_cps set_note set_image set_guides set_anchors
       set_outline set_lib gname gwidth gheight gcps gnote gimage gguides ganchors gcomps gcontours
       glib] in *.

Lemma inv_init name : name_valid name = true -> forall ver,
  inv ver [] (mkPst (glyph_new name) [] false false false false).
Proof.
  intros Hn ver. constructor; gsimpl; try reflexivity; try (constructor; fail).
  - apply extends_nil.
  - split; [constructor|intros ? []].
  - unfold grules, glyph_new; gsimpl. repeat split; auto; constructor.
  - unfold nolibs, glyph_new; gsimpl. repeat split; constructor.
Qed.

Lemma no_ids n :
  is_kind KAnchor n = false -> is_kind KGuideline n = false -> is_kind KOutline n = false ->
  child_ids n = [] /\ child_obj_ids n = [].
Proof.
  intros H1 H2 H3. unfold child_obj_ids, child_ids. rewrite H1, H2, H3. split; reflexivity.
Qed.

(** common part of a step whose element carries no identifiers and adds no object *)
Lemma inv_frame ver pre st n g' (adv' lib' out' note' : bool) :
  inv ver pre st ->
  (f16_child n = false -> child_ok pf ver n) -> is_element n = true ->
  is_kind KAnchor n = false -> is_kind KGuideline n = false -> is_kind KOutline n = false ->
  (count_kind KAdvance pre + (if is_kind KAdvance n then 1 else 0) = if adv' then 1 else 0)%nat ->
  ((if st_out st then 1 else 0) = if out' then 1 else 0)%nat ->
  (count_kind KLib pre + (if is_kind KLib n then 1 else 0) = if lib' then 1 else 0)%nat ->
  (count_kind KImage pre + (if is_kind KImage n then 1 else 0)
   = match gimage g' with Some _ => 1 | None => 0 end)%nat ->
  (count_kind KNote pre + (if is_kind KNote n then 1 else 0) = if note' then 1 else 0)%nat ->
  glyph_ids g' = glyph_ids (st_g st) -> grules g' -> nolibs g' ->
  map (lib_dict pf) (filter (is_kind KLib) pre ++ if is_kind KLib n then [n] else [])
    = (if lib' then [Some (glib g')] else []) ->
  (lib' = false -> glib g' = []) ->
  inv ver (pre ++ [n]) (mkPst g' (st_seen st) adv' lib' out' note').
Proof.
  intros I OK EL K1 K2 K3 CA CO CL CI CN GI GR NL LD L0.
  destruct (no_ids n K1 K2 K3) as [N1 N2].
  constructor; gsimpl.
  - apply Forall_app. split; [apply (i_ok _ _ _ I)|repeat constructor; exact OK].
  - rewrite forallb_snoc, (i_el _ _ _ I), EL. reflexivity.
  - rewrite count_kind_snoc. exact CA.
  - rewrite count_kind_snoc, K3, Nat.add_0_r, (i_out _ _ _ I). exact CO.
  - rewrite count_kind_snoc. exact CL.
  - rewrite count_kind_snoc. exact CI.
  - rewrite count_kind_snoc. exact CN.
  - rewrite doc_ids_snoc, N1, app_nil_r. apply (i_seen _ _ _ I).
  - rewrite doc_ids_snoc, doc_obj_ids_snoc, N1, N2, !app_nil_r. apply (i_objs _ _ _ I).
  - rewrite doc_obj_ids_snoc, N2, app_nil_r, GI. apply (i_perm _ _ _ I).
  - exact GR.
  - exact NL.
  - rewrite filter_snoc. exact LD.
  - exact L0.
Qed.

Lemma parse_child_inv ver pre st n st' :
  (ver = 1 \/ ver = 2) ->
  inv ver pre st ->
  parse_child pf ver st n = Ok st' -> inv ver (pre ++ [n]) st'.
Proof.
  intros Hv I. unfold parse_child.
  destruct n as [name a|name a kids| | | | | |]; try discriminate.
  - (* ---------- self-closing elements ---------- *)
    destruct (ekind_of name) as [k|] eqn:EK; [|discriminate].
    destruct k; try discriminate.
    + (* advance *)
      destruct (st_adv st) eqn:SA; [discriminate|].
      destruct (parse_advance pf ver (st_seen st) a) as [[w h]| |] eqn:PA; cbn [bind]; try discriminate.
      intros H; inversion H; subst st'; clear H.
      apply parse_advance_spec in PA; [|exact Hv].
      apply inv_frame; auto; try (kind_simpl EK; reflexivity).
      * intros _. unfold child_ok, leaf_ok. kind_simpl EK. auto.
      * kind_simpl EK. rewrite (i_adv _ _ _ I), SA. reflexivity.
      * kind_simpl EK. rewrite Nat.add_0_r. apply (i_lib _ _ _ I).
      * kind_simpl EK. rewrite Nat.add_0_r. apply (i_img _ _ _ I).
      * kind_simpl EK. rewrite Nat.add_0_r. apply (i_note _ _ _ I).
      * apply (i_rules _ _ _ I).
      * apply (i_nolibs _ _ _ I).
      * kind_simpl EK. rewrite app_nil_r. apply (i_libd _ _ _ I).
      * apply (i_lib0 _ _ _ I).
    + (* unicode *)
      destruct (parse_unicode pf ver (st_seen st) a (gcps (st_g st))) as [c| |] eqn:PU; cbn [bind]; try discriminate.
      intros H; inversion H; subst st'; clear H.
      destruct (i_rules _ _ _ I) as (R1 & R2 & R3 & R4 & R5 & R6 & R7 & R8).
      apply parse_unicode_spec in PU as (AO & NDc & SCc); auto.
      apply inv_frame; auto; try (kind_simpl EK; reflexivity).
      * intros _. unfold child_ok, leaf_ok. kind_simpl EK. auto.
      * kind_simpl EK. rewrite Nat.add_0_r. apply (i_adv _ _ _ I).
      * kind_simpl EK. rewrite Nat.add_0_r. apply (i_lib _ _ _ I).
      * kind_simpl EK. rewrite Nat.add_0_r. apply (i_img _ _ _ I).
      * kind_simpl EK. rewrite Nat.add_0_r. apply (i_note _ _ _ I).
      * unfold grules; gsimpl. repeat split; auto.
      * apply (i_nolibs _ _ _ I).
      * kind_simpl EK. rewrite app_nil_r. apply (i_libd _ _ _ I).
      * apply (i_lib0 _ _ _ I).
    + (* image *)
      destruct (ver =? 1) eqn:EV; [discriminate|]. apply N.eqb_neq in EV.
      destruct (gimage (st_g st)) eqn:GI; [discriminate|].
      destruct (parse_image pf ver (st_seen st) a) as [i| |] eqn:PI; cbn [bind]; try discriminate.
      intros H; inversion H; subst st'; clear H.
      apply parse_image_spec in PI as (AO & IR); [|exact Hv].
      destruct (i_rules _ _ _ I) as (R1 & R2 & R3 & R4 & R5 & R6 & R7 & R8).
      apply inv_frame; auto; try (kind_simpl EK; reflexivity).
      * intros _. unfold child_ok, leaf_ok. kind_simpl EK. split; [lia|auto].
      * kind_simpl EK. rewrite Nat.add_0_r. apply (i_adv _ _ _ I).
      * kind_simpl EK. rewrite Nat.add_0_r. apply (i_lib _ _ _ I).
      * kind_simpl EK. gsimpl. rewrite (i_img _ _ _ I), GI. reflexivity.
      * kind_simpl EK. rewrite Nat.add_0_r. apply (i_note _ _ _ I).
      * unfold grules; gsimpl. split; [exact R1|]. split; [exact R2|]. split; [exact R3|].
        split; [exact IR|]. auto.
      * apply (i_nolibs _ _ _ I).
      * kind_simpl EK. rewrite app_nil_r. apply (i_libd _ _ _ I).
      * apply (i_lib0 _ _ _ I).
    + (* anchor *)
      destruct (ver =? 1) eqn:EV; [discriminate|]. apply N.eqb_neq in EV.
      destruct (parse_anchor pf ver (st_seen st) a) as [[x seen1]| |] eqn:PA; cbn [bind]; try discriminate.
      intros H; inversion H; subst st'; clear H.
      apply parse_anchor_spec in PA as (AO & AR & AL & AI & EX & _); [|exact Hv].
      destruct (i_rules _ _ _ I) as (R1 & R2 & R3 & R4 & R5 & R6 & R7 & R8).
      destruct (i_nolibs _ _ _ I) as (L1 & L2 & L3 & L4).
      assert (CI : child_ids (Empty name a) = attr_ident a).
      { unfold child_ids. kind_simpl EK. reflexivity. }
      assert (CO : child_obj_ids (Empty name a) = attr_ident a).
      { unfold child_obj_ids. kind_simpl EK. exact CI. }
      constructor; gsimpl.
      * apply Forall_app. split; [apply (i_ok _ _ _ I)|repeat constructor]. intros _.
        unfold child_ok, leaf_ok. kind_simpl EK. split; [lia|auto].
      * rewrite forallb_snoc, (i_el _ _ _ I). reflexivity.
      * rewrite count_kind_snoc. kind_simpl EK. rewrite Nat.add_0_r. apply (i_adv _ _ _ I).
      * rewrite count_kind_snoc. kind_simpl EK. rewrite Nat.add_0_r. apply (i_out _ _ _ I).
      * rewrite count_kind_snoc. kind_simpl EK. rewrite Nat.add_0_r. apply (i_lib _ _ _ I).
      * rewrite count_kind_snoc. kind_simpl EK. rewrite Nat.add_0_r. apply (i_img _ _ _ I).
      * rewrite count_kind_snoc. kind_simpl EK. rewrite Nat.add_0_r. apply (i_note _ _ _ I).
      * rewrite doc_ids_snoc, CI. eapply extends_trans; [apply (i_seen _ _ _ I)|exact EX].
      * rewrite doc_ids_snoc, doc_obj_ids_snoc, CI, CO. destruct (i_objs _ _ _ I) as [O1 O2].
        pose proof EX as (_ & NDa & _).
        apply (objs_app [] _ (st_seen st) _ seen1); auto; [apply (i_seen _ _ _ I)|apply incl_refl].
      * rewrite doc_obj_ids_snoc, CO. pose proof (i_perm _ _ _ I) as PM.
        rewrite glyph_ids_eq in *. gsimpl. unfold gaids in *. rewrite flat_map_app. cbn [flat_map].
        rewrite AI, app_nil_r. perm_count.
      * unfold grules; gsimpl. repeat split; auto. apply Forall_app. split; [exact R6|constructor; [exact AR|constructor]].
      * unfold nolibs; gsimpl. repeat split; auto. apply Forall_app. split; [exact L1|constructor; [exact AL|constructor]].
      * rewrite filter_snoc. kind_simpl EK. rewrite app_nil_r. apply (i_libd _ _ _ I).
      * apply (i_lib0 _ _ _ I).
    + (* guideline *)
      destruct (ver =? 1) eqn:EV; [discriminate|]. apply N.eqb_neq in EV.
      destruct (parse_guideline pf ver (st_seen st) a) as [[x seen1]| |] eqn:PA; cbn [bind]; try discriminate.
      intros H; inversion H; subst st'; clear H.
      apply parse_guideline_spec in PA as (AO & SH & AR & AL & AI & EX & _); [|exact Hv].
      destruct (i_rules _ _ _ I) as (R1 & R2 & R3 & R4 & R5 & R6 & R7 & R8).
      destruct (i_nolibs _ _ _ I) as (L1 & L2 & L3 & L4).
      assert (CI : child_ids (Empty name a) = attr_ident a).
      { unfold child_ids. kind_simpl EK. reflexivity. }
      assert (CO : child_obj_ids (Empty name a) = attr_ident a).
      { unfold child_obj_ids. kind_simpl EK. exact CI. }
      constructor; gsimpl.
      * apply Forall_app. split; [apply (i_ok _ _ _ I)|repeat constructor]. intros _.
        unfold child_ok, leaf_ok. kind_simpl EK. split; [lia|auto].
      * rewrite forallb_snoc, (i_el _ _ _ I). reflexivity.
      * rewrite count_kind_snoc. kind_simpl EK. rewrite Nat.add_0_r. apply (i_adv _ _ _ I).
      * rewrite count_kind_snoc. kind_simpl EK. rewrite Nat.add_0_r. apply (i_out _ _ _ I).
      * rewrite count_kind_snoc. kind_simpl EK. rewrite Nat.add_0_r. apply (i_lib _ _ _ I).
      * rewrite count_kind_snoc. kind_simpl EK. rewrite Nat.add_0_r. apply (i_img _ _ _ I).
      * rewrite count_kind_snoc. kind_simpl EK. rewrite Nat.add_0_r. apply (i_note _ _ _ I).
      * rewrite doc_ids_snoc, CI. eapply extends_trans; [apply (i_seen _ _ _ I)|exact EX].
      * rewrite doc_ids_snoc, doc_obj_ids_snoc, CI, CO. destruct (i_objs _ _ _ I) as [O1 O2].
        pose proof EX as (_ & NDa & _).
        apply (objs_app [] _ (st_seen st) _ seen1); auto; [apply (i_seen _ _ _ I)|apply incl_refl].
      * rewrite doc_obj_ids_snoc, CO. pose proof (i_perm _ _ _ I) as PM.
        rewrite glyph_ids_eq in *. gsimpl. unfold ggids in *. rewrite flat_map_app. cbn [flat_map].
        rewrite AI, app_nil_r. perm_count.
      * unfold grules; gsimpl. repeat split; auto. apply Forall_app. split; [exact R5|constructor; [exact AR|constructor]].
      * unfold nolibs; gsimpl. repeat split; auto. apply Forall_app. split; [exact L2|constructor; [exact AL|constructor]].
      * rewrite filter_snoc. kind_simpl EK. rewrite app_nil_r. apply (i_libd _ _ _ I).
      * apply (i_lib0 _ _ _ I).
    + (* <outline/> *)
      destruct (st_out st) eqn:SO; [discriminate|].
      destruct a as [|kv a]; cbn [no_attrs]; [|discriminate].
      intros H; inversion H; subst st'; clear H.
      assert (CI : child_ids (Empty name []) = []).
      { unfold child_ids. kind_simpl EK. reflexivity. }
      assert (CO : child_obj_ids (Empty name []) = []).
      { unfold child_obj_ids. kind_simpl EK. reflexivity. }
      constructor; gsimpl.
      * apply Forall_app. split; [apply (i_ok _ _ _ I)|repeat constructor]. intros _.
        unfold child_ok. kind_simpl EK. split; [reflexivity|constructor].
      * rewrite forallb_snoc, (i_el _ _ _ I). reflexivity.
      * rewrite count_kind_snoc. kind_simpl EK. rewrite Nat.add_0_r. apply (i_adv _ _ _ I).
      * rewrite count_kind_snoc. kind_simpl EK. rewrite (i_out _ _ _ I), SO. reflexivity.
      * rewrite count_kind_snoc. kind_simpl EK. rewrite Nat.add_0_r. apply (i_lib _ _ _ I).
      * rewrite count_kind_snoc. kind_simpl EK. rewrite Nat.add_0_r. apply (i_img _ _ _ I).
      * rewrite count_kind_snoc. kind_simpl EK. rewrite Nat.add_0_r. apply (i_note _ _ _ I).
      * rewrite doc_ids_snoc, CI, app_nil_r. apply (i_seen _ _ _ I).
      * rewrite doc_ids_snoc, doc_obj_ids_snoc, CI, CO, !app_nil_r. apply (i_objs _ _ _ I).
      * rewrite doc_obj_ids_snoc, CO, app_nil_r. apply (i_perm _ _ _ I).
      * apply (i_rules _ _ _ I).
      * apply (i_nolibs _ _ _ I).
      * rewrite filter_snoc. kind_simpl EK. rewrite app_nil_r. apply (i_libd _ _ _ I).
      * apply (i_lib0 _ _ _ I).
  - (* ---------- elements in start-tag form ---------- *)
    destruct (ekind_of name) as [k|] eqn:EK; [|discriminate].
    destruct k; try discriminate.
    + (* outline *)
      destruct (st_out st) eqn:SO; [discriminate|].
      destruct a as [|kv a]; cbn [no_attrs]; [|discriminate].
      unfold parse_outline.
      destruct (parse_outline_kids pf ver (st_seen st) [] [] (tview kids)) as [[[cs ks] seen1]| |] eqn:PO;
        cbn [bind]; try discriminate.
      apply parse_outline_kids_spec in PO
        as (nc & nk & E1 & E2 & EL & OK & CR & KR & CL & KL & PM & EX & NDo & INC & V1); auto.
      cbn [app] in E1, E2. subst nc nk.
      pose proof (sig_kids_tview kids EL) as SK.
      assert (CI : child_ids (Elem name [] kids) = flat_map outline_child_ids (tview kids)).
      { unfold child_ids. kind_simpl EK. rewrite SK. reflexivity. }
      assert (CO : child_obj_ids (Elem name [] kids) = flat_map outline_child_obj_ids (tview kids)).
      { unfold child_obj_ids. kind_simpl EK. rewrite SK. reflexivity. }
      destruct (i_rules _ _ _ I) as (R1 & R2 & R3 & R4 & R5 & R6 & R7 & R8).
      destruct (i_nolibs _ _ _ I) as (L1 & L2 & L3 & L4).
      (* the format-1 upgrade *)
      assert (exists an cs', (if ver =? 1 then v1_split cs else ([], cs)) = (an, cs') /\
                Forall anchor_rules an /\ Forall (fun a => alib a = None) an /\
                Forall contour_rules cs' /\ Forall cl_none cs' /\
                Permutation (gaids an ++ flat_map gcids cs' ++ gkids ks)
                            (flat_map outline_child_obj_ids (tview kids)))
        as (an & cs' & ES & A1 & A2 & K1 & K2 & PM').
      { destruct (ver =? 1) eqn:EV.
        - apply N.eqb_eq in EV. destruct (v1_split cs) as [an cs'] eqn:ES.
          assert (Z : flat_map outline_child_obj_ids (tview kids) = []).
          { specialize (V1 EV). destruct (flat_map outline_child_obj_ids (tview kids)) as [|x l]; [reflexivity|].
            exfalso. specialize (INC x (or_introl eq_refl)). rewrite V1 in INC. exact INC. }
          rewrite Z in PM. apply Permutation_sym, Permutation_nil in PM. apply app_eq_nil in PM as [G1 G2].
          destruct (v1_split_spec cs an cs' ES CR CL G1) as (B1 & B2 & B3 & B4 & B5 & B6 & _).
          exists an, cs'. repeat split; auto. rewrite Z, B3, B6, G2. constructor.
        - exists [], cs. repeat split; auto; constructor. }
      rewrite ES. intros H; inversion H; subst st'; clear H.
      constructor; gsimpl.
      * apply Forall_app. split; [apply (i_ok _ _ _ I)|repeat constructor]. intros _.
        unfold child_ok. kind_simpl EK. rewrite SK. split; [reflexivity|exact OK].
      * rewrite forallb_snoc, (i_el _ _ _ I). reflexivity.
      * rewrite count_kind_snoc. kind_simpl EK. rewrite Nat.add_0_r. apply (i_adv _ _ _ I).
      * rewrite count_kind_snoc. kind_simpl EK. rewrite (i_out _ _ _ I), SO. reflexivity.
      * rewrite count_kind_snoc. kind_simpl EK. rewrite Nat.add_0_r. apply (i_lib _ _ _ I).
      * rewrite count_kind_snoc. kind_simpl EK. rewrite Nat.add_0_r. apply (i_img _ _ _ I).
      * rewrite count_kind_snoc. kind_simpl EK. rewrite Nat.add_0_r. apply (i_note _ _ _ I).
      * rewrite doc_ids_snoc, CI. eapply extends_trans; [apply (i_seen _ _ _ I)|exact EX].
      * rewrite doc_ids_snoc, doc_obj_ids_snoc, CI, CO. destruct (i_objs _ _ _ I) as [O1 O2].
        apply (objs_app [] _ (st_seen st) _ seen1); auto. apply (i_seen _ _ _ I).
      * rewrite doc_obj_ids_snoc, CO. pose proof (i_perm _ _ _ I) as PM0.
        rewrite glyph_ids_eq in *. gsimpl. unfold gaids, gkids in *. rewrite !flat_map_app. perm_count.
      * unfold grules; gsimpl. repeat split; auto; apply Forall_app; split; auto.
      * unfold nolibs; gsimpl. repeat split; auto; apply Forall_app; split; auto.
      * rewrite filter_snoc. kind_simpl EK. rewrite app_nil_r. apply (i_libd _ _ _ I).
      * apply (i_lib0 _ _ _ I).
    + (* lib *)
      destruct (st_lib st) eqn:SL; [discriminate|].
      destruct a as [|kv a]; cbn [no_attrs negb]; [|discriminate].
      destruct (plist_of_nodes pf kids) as [v|] eqn:PL; [|discriminate].
      destruct v; try discriminate.
      intros H; inversion H; subst st'; clear H.
      assert (LD : lib_dict pf (Elem name [] kids) = Some d).
      { unfold lib_dict, kids_of; cbn [as_elem]. rewrite PL. reflexivity. }
      apply inv_frame; auto; try (kind_simpl EK; reflexivity).
      * intros _. unfold child_ok. kind_simpl EK. split; [reflexivity|]. fold (kids_of (Elem name [] kids)).
        change (lib_dict pf (Elem name [] kids) <> None). congruence.
      * kind_simpl EK. rewrite Nat.add_0_r. apply (i_adv _ _ _ I).
      * kind_simpl EK. rewrite (i_lib _ _ _ I), SL. reflexivity.
      * kind_simpl EK. rewrite Nat.add_0_r. apply (i_img _ _ _ I).
      * kind_simpl EK. rewrite Nat.add_0_r. apply (i_note _ _ _ I).
      * apply (i_rules _ _ _ I).
      * apply (i_nolibs _ _ _ I).
      * rewrite map_app, (i_libd _ _ _ I), SL. kind_simpl EK. cbn [map app]. rewrite LD. reflexivity.
      * discriminate.
    + (* note *)
      destruct (ver =? 1) eqn:EV; [discriminate|]. apply N.eqb_neq in EV.
      destruct (st_note st) eqn:SN; [discriminate|].
      destruct a as [|kv a]; cbn [no_attrs negb]; [|discriminate].
      intros H; inversion H; subst st'; clear H.
      apply inv_frame; auto; try (kind_simpl EK; reflexivity).
      * intros HF. unfold child_ok. kind_simpl EK. split; [reflexivity|].
        assert (HE : has_elem_child kids = false).
        { revert HF. unfold f16_child. kind_simpl EK. intros H; exact H. }
        revert HE. unfold has_elem_child. clear. induction kids as [|k kids IH]; [reflexivity|].
        cbn [existsb forallb]. intros H. apply orb_false_iff in H as [H1 H2].
        rewrite (IH H2), andb_true_r. destruct k; cbn [is_chardata]; congruence.
      * kind_simpl EK. rewrite Nat.add_0_r. apply (i_adv _ _ _ I).
      * kind_simpl EK. rewrite Nat.add_0_r. apply (i_lib _ _ _ I).
      * kind_simpl EK. rewrite Nat.add_0_r. apply (i_img _ _ _ I).
      * kind_simpl EK. rewrite (i_note _ _ _ I), SN. reflexivity.
      * apply (i_rules _ _ _ I).
      * apply (i_nolibs _ _ _ I).
      * kind_simpl EK. rewrite app_nil_r. apply (i_libd _ _ _ I).
      * apply (i_lib0 _ _ _ I).
Qed.

Lemma parse_children_inv ver :
  (ver = 1 \/ ver = 2) ->
  forall l pre st st',
  inv ver pre st ->
  parse_children pf ver st l = Ok st' -> inv ver (pre ++ l) st'.
Proof.
  intros Hv. induction l as [|n l IH]; intros pre st st' I; cbn [parse_children].
  - intros H; inversion H; subst. rewrite app_nil_r. exact I.
  - destruct (parse_child pf ver st n) as [st1| |] eqn:PC; cbn [bind]; try discriminate.
    intros H. apply (parse_child_inv ver pre st n st1 Hv I) in PC.
    replace (pre ++ n :: l) with ((pre ++ [n]) ++ l) by (rewrite <- app_assoc; reflexivity).
    eapply IH; eauto.
Qed.
End P.

Lemma NoDup_app_inv {A} (l1 l2 : list A) :
  NoDup (l1 ++ l2) -> NoDup l1 /\ NoDup l2 /\ (forall x, In x l1 -> ~ In x l2).
Proof.
  induction l1 as [|a l1 IH]; cbn [app]; intros ND.
  - split; [constructor|]. split; [exact ND|intros ? []].
  - inversion ND as [|? ? Hn ND']; subst. destruct (IH ND') as (N1 & N2 & N3).
    split; [constructor; [intros Hin; apply Hn; apply in_app_iff; left; exact Hin|exact N1]|].
    split; [exact N2|]. intros x [<-|Hx]; [intros Hin; apply Hn; apply in_app_iff; right; exact Hin|auto].
Qed.

(* ---------- load_object_libs ---------- *)
Lemma lookup_remove_key {A} i k (l : list (str * A)) :
  lookup i (remove_key k l) = if str_eqb i k then None else lookup i l.
Proof.
  unfold remove_key. induction l as [|[k' v] l IH]; cbn [filter lookup fst]; [destruct (str_eqb i k); reflexivity|].
  destruct (str_eqb k k') eqn:E1; cbn [negb].
  - apply list_eqb_eq in E1; subst k'. rewrite IH. destruct (str_eqb i k); reflexivity.
  - cbn [lookup]. rewrite IH. destruct (str_eqb i k') eqn:E2; [|reflexivity].
    apply list_eqb_eq in E2; subst k'. destruct (str_eqb i k) eqn:E3; [|reflexivity].
    apply list_eqb_eq in E3; subst k. rewrite str_eqb_refl in E1. discriminate.
Qed.

Lemma transfer_spec id ol d ol1 (removed : list str) od :
  (forall i, ~ In i removed -> lookup i ol = lookup i od) ->
  transfer id ol = Ok (d, ol1) ->
  (forall i, In i (oid id) -> ~ In i removed) ->
  (d <> None -> id <> None) /\
  (forall i x, In i (oid id) -> lookup i od = Some x -> is_dict x) /\
  (forall i, ~ In i (removed ++ oid id) -> lookup i ol1 = lookup i od).
Proof.
  intros HL. unfold transfer. destruct id as [i|]; cbn [oid].
  - intros H HR. specialize (HR i (or_introl eq_refl)). pose proof (HL i HR) as Li.
    destruct (lookup i ol) as [v|] eqn:E.
    + destruct v; try discriminate. inversion H; subst. split; [congruence|]. split.
      * intros j x [<-|[]] Lj. rewrite <- Li in Lj. inversion Lj; subst. eexists; reflexivity.
      * intros j Hj. rewrite lookup_remove_key. destruct (str_eqb j i) eqn:EJ.
        -- apply list_eqb_eq in EJ; subst. exfalso. apply Hj. apply in_app_iff. right; left; reflexivity.
        -- apply HL. intros Hin. apply Hj. apply in_app_iff. left; exact Hin.
    + inversion H; subst. split; [congruence|]. split.
      * intros j x [<-|[]] Lj. congruence.
      * intros j Hj. apply HL. intros Hin. apply Hj. apply in_app_iff. left; exact Hin.
  - intros H _. inversion H; subst. split; [congruence|]. split; [intros ? ? []|].
    intros j Hj. apply HL. intros Hin. apply Hj. apply in_app_iff. left; exact Hin.
Qed.

Section Transfer.
  Context {A : Type} (idof : A -> option str) (setlib : A -> option dict -> A).
  Hypothesis Hid : forall x d, idof (setlib x d) = idof x.
  Definition idsA (l : list A) : list str := flat_map (fun x => oid (idof x)) l.
  Definition moved (x x' : A) : Prop := exists d, x' = setlib x d /\ (d <> None -> idof x <> None).

  Lemma transfer_list_spec : forall l ol l' ol' removed od,
    (forall i, ~ In i removed -> lookup i ol = lookup i od) ->
    transfer_list idof setlib l ol = Ok (l', ol') ->
    NoDup (removed ++ idsA l) ->
    Forall2 moved l l' /\
    (forall i x, In i (idsA l) -> lookup i od = Some x -> is_dict x) /\
    (forall i, ~ In i (removed ++ idsA l) -> lookup i ol' = lookup i od).
  Proof.
    induction l as [|x l IH]; intros ol l' ol' removed od HL; cbn [transfer_list].
    - intros H _; inversion H; subst. split; [constructor|]. split; [intros ? ? []|].
      unfold idsA; cbn [flat_map]. rewrite app_nil_r. exact HL.
    - destruct (transfer (idof x) ol) as [[d ol1]| |] eqn:T; cbn [bind]; try discriminate.
      destruct (transfer_list idof setlib l ol1) as [[r' ol2]| |] eqn:TL; cbn [bind]; try discriminate.
      intros H ND; inversion H; subst l' ol'; clear H.
      unfold idsA in *. cbn [flat_map] in *.
      assert (HR : forall i, In i (oid (idof x)) -> ~ In i removed).
      { intros i Hi Hr. destruct (NoDup_app_inv _ _ ND) as (_ & _ & N3).
        apply (N3 i Hr). apply in_app_iff. left; exact Hi. }
      destruct (transfer_spec _ _ _ _ removed od HL T HR) as (D1 & D2 & D3).
      rewrite app_assoc in ND.
      destruct (IH ol1 r' ol2 (removed ++ oid (idof x)) od D3 TL ND) as (F & I1 & I2).
      split; [constructor; [exists d; auto|exact F]|]. split.
      + intros i y Hi. apply in_app_iff in Hi as [Hi|Hi]; [apply D2|apply I1]; exact Hi.
      + rewrite app_assoc. exact I2.
  Qed.

  Lemma moved_ids l l' : Forall2 moved l l' -> idsA l' = idsA l.
  Proof.
    induction 1 as [|x x' l l' (d & -> & _) F IH]; [reflexivity|].
    unfold idsA in *. cbn [flat_map]. rewrite Hid, IH. reflexivity.
  Qed.
End Transfer.

Lemma transfer_contours_spec : forall l ol l' ol' removed od,
  (forall i, ~ In i removed -> lookup i ol = lookup i od) ->
  transfer_contours l ol = Ok (l', ol') ->
  NoDup (removed ++ flat_map gcids l) ->
  Forall2 (fun c c' => exists d pts, c' = mkContour pts (cid c) (keep d (clib c)) /\
                         (d <> None -> cid c <> None) /\
                         Forall2 (moved pid point_setlib) (cpoints c) pts) l l' /\
  (forall i x, In i (flat_map gcids l) -> lookup i od = Some x -> is_dict x) /\
  (forall i, ~ In i (removed ++ flat_map gcids l) -> lookup i ol' = lookup i od).
Proof.
  induction l as [|c l IH]; intros ol l' ol' removed od HL; cbn [transfer_contours].
  - intros H _; inversion H; subst. split; [constructor|]. split; [intros ? ? []|].
    cbn [flat_map]. rewrite app_nil_r. exact HL.
  - destruct (transfer (cid c) ol) as [[d ol1]| |] eqn:T; cbn [bind]; try discriminate.
    destruct (transfer_list pid point_setlib (cpoints c) ol1) as [[pts ol2]| |] eqn:TP; cbn [bind]; try discriminate.
    destruct (transfer_contours l ol2) as [[r' ol3]| |] eqn:TL; cbn [bind]; try discriminate.
    intros H ND; inversion H; subst l' ol'; clear H.
    cbn [flat_map] in *. unfold gcids at 1 in ND. unfold gcids at 1 2. unfold gpids in *.
    assert (HR : forall i, In i (oid (cid c)) -> ~ In i removed).
    { intros i Hi Hr. destruct (NoDup_app_inv _ _ ND) as (_ & _ & N3).
      apply (N3 i Hr). apply in_app_iff. left. apply in_app_iff. left; exact Hi. }
    destruct (transfer_spec _ _ _ _ removed od HL T HR) as (D1 & D2 & D3).
    rewrite <- !app_assoc in ND. rewrite (app_assoc removed) in ND.
    assert (ND2 : NoDup ((removed ++ oid (cid c)) ++ idsA pid (cpoints c))).
    { rewrite (app_assoc _ _ (flat_map gcids l)) in ND. apply NoDup_app_inv in ND. apply ND. }
    destruct (transfer_list_spec pid point_setlib (cpoints c) ol1 pts ol2 _ od D3 TP ND2) as (F & P1 & P2).
    rewrite (app_assoc _ _ (flat_map gcids l)) in ND.
    destruct (IH ol2 r' ol3 _ od P2 TL ND) as (F' & I1 & I2).
    split; [constructor; [exists d, pts; auto|exact F']|]. split.
    + intros i y Hi. apply in_app_iff in Hi as [Hi|Hi]; [|apply I1; exact Hi].
      apply in_app_iff in Hi as [Hi|Hi]; [apply D2|apply P1]; exact Hi.
    + intros i Hi. apply I2. intros Hin. apply Hi. unfold idsA in Hin.
      change (gcids c) with (oid (cid c) ++ flat_map (fun p => oid (pid p)) (cpoints c)).
      rewrite !in_app_iff in *. tauto.
Qed.

Lemma Forall2_Forall {A} (R : A -> A -> Prop) (P Q : A -> Prop) l l' :
  (forall x x', R x x' -> P x -> Q x -> P x') ->
  Forall2 R l l' -> Forall P l -> Forall Q l -> Forall P l'.
Proof.
  intros H. induction 1 as [|x x' l l' Hx F IH]; intros FP FQ; [constructor|].
  inversion FP; subst. inversion FQ; subst. constructor; eauto.
Qed.

Lemma keep_none {A} (d : option A) : keep d None = d.
Proof. destruct d; reflexivity. Qed.

Lemma anchor_moved a a' :
  moved aid anchor_setlib a a' -> anchor_rules a -> alib a = None -> anchor_rules a'.
Proof.
  intros (d & -> & Hd) (R1 & R2 & R3 & _) L. unfold anchor_rules, anchor_setlib, lib_needs_id.
  cbn [aname acolor aid alib]. rewrite L, keep_none. auto.
Qed.
Lemma guide_moved a a' :
  moved guid guide_setlib a a' -> guide_rules a -> gulib a = None -> guide_rules a'.
Proof.
  intros (d & -> & Hd) (R0 & R1 & R2 & R3 & _) L. unfold guide_rules, guide_setlib, lib_needs_id.
  cbn [gline guname gcolor guid gulib]. rewrite L, keep_none. auto.
Qed.
Lemma comp_moved a a' :
  moved coid comp_setlib a a' -> comp_rules a -> colib a = None -> comp_rules a'.
Proof.
  intros (d & -> & Hd) (R1 & R2 & _) L. unfold comp_rules, comp_setlib, lib_needs_id.
  cbn [cbase coid colib]. rewrite L, keep_none. auto.
Qed.
Lemma point_moved a a' :
  moved pid point_setlib a a' -> point_rules a -> plib a = None -> point_rules a'.
Proof.
  intros (d & -> & Hd) (R1 & R2 & _) L. unfold point_rules, point_setlib, lib_needs_id.
  cbn [pname pid plib]. rewrite L, keep_none. auto.
Qed.
Lemma points_moved_pt l l' :
  Forall2 (moved pid point_setlib) l l' -> map pt_of l' = map pt_of l.
Proof.
  induction 1 as [|x x' l l' (d & -> & _) F IH]; [reflexivity|]. cbn [map]. rewrite IH. reflexivity.
Qed.

Definition contour_moved (c c' : contour) : Prop :=
  exists d pts, c' = mkContour pts (cid c) (keep d (clib c)) /\ (d <> None -> cid c <> None) /\
                Forall2 (moved pid point_setlib) (cpoints c) pts.
Lemma contour_moved_rules c c' :
  contour_moved c c' -> contour_rules c -> cl_none c -> contour_rules c'.
Proof.
  intros (d & pts & -> & Hd & F) (R1 & R2 & R3 & R4 & _) (L1 & L2).
  unfold contour_rules, lib_needs_id; cbn [cpoints cid clib]. rewrite L1, keep_none.
  split; [inversion F; subst; [congruence|discriminate]|].
  split; [rewrite (points_moved_pt _ _ F); exact R2|].
  split; [eapply Forall2_Forall; [apply point_moved|exact F|exact R3|exact L2]|auto].
Qed.
Lemma contour_moved_ids l l' : Forall2 contour_moved l l' -> flat_map gcids l' = flat_map gcids l.
Proof.
  induction 1 as [|c c' l l' (d & pts & -> & _ & F) F2 IH]; [reflexivity|].
  cbn [flat_map]. rewrite IH. unfold gcids at 1 3; cbn [cid cpoints].
  change (gpids pts) with (idsA pid pts). change (gpids (cpoints c)) with (idsA pid (cpoints c)).
  rewrite (moved_ids pid point_setlib (fun _ _ => eq_refl) _ _ F). reflexivity.
Qed.

Lemma load_object_libs_spec g g' :
  load_object_libs g = Ok g' -> grules g -> nolibs g -> NoDup (glyph_ids g) ->
  glyph_rules g' /\ glyph_ids g' = glyph_ids g /\ lookup objlibs_key (glib g') = None /\
  objlibs_ok (glyph_ids g) (glib g) /\
  gname g' = gname g /\ gcps g' = gcps g /\ gnote g' = gnote g /\ gimage g' = gimage g.
Proof.
  unfold load_object_libs. intros H (R1 & R2 & R3 & R4 & R5 & R6 & R7 & R8) (L1 & L2 & L3 & L4) ND.
  destruct (lookup objlibs_key (glib g)) as [v|] eqn:LK.
  2:{ inversion H; subst g'. repeat split; auto. intros o Ho. congruence. }
  destruct v as [| | | | | | |ol]; try discriminate.
  destruct (transfer_list aid anchor_setlib (ganchors g) ol) as [[an ol1]| |] eqn:T1; cbn [bind] in H; try discriminate.
  destruct (transfer_list guid guide_setlib (gguides g) ol1) as [[gu ol2]| |] eqn:T2; cbn [bind] in H; try discriminate.
  destruct (transfer_contours (gcontours g) ol2) as [[cs ol3]| |] eqn:T3; cbn [bind] in H; try discriminate.
  destruct (transfer_list coid comp_setlib (gcomps g) ol3) as [[ks ol4]| |] eqn:T4; cbn [bind] in H; try discriminate.
  inversion H; subst g'; clear H.
  rewrite glyph_ids_eq in ND.
  set (A := gaids (ganchors g)) in *. set (G := ggids (gguides g)) in *.
  set (C := flat_map gcids (gcontours g)) in *. set (K := gkids (gcomps g)) in *.
  assert (NDa : NoDup ([] ++ A)).
  { cbn [app]. apply NoDup_app_inv in ND. apply ND. }
  assert (NDg : NoDup (([] ++ A) ++ G)).
  { cbn [app]. rewrite app_assoc in ND. apply NoDup_app_inv in ND. apply ND. }
  assert (NDc : NoDup ((([] ++ A) ++ G) ++ C)).
  { cbn [app]. rewrite !app_assoc in ND. apply NoDup_app_inv in ND. apply ND. }
  assert (NDk : NoDup (((([] ++ A) ++ G) ++ C) ++ K)).
  { cbn [app]. rewrite !app_assoc in ND. exact ND. }
  destruct (transfer_list_spec aid anchor_setlib _ _ _ _ [] ol (fun _ _ => eq_refl) T1 NDa)
    as (F1 & D1 & N1).
  destruct (transfer_list_spec guid guide_setlib _ _ _ _ _ ol N1 T2 NDg)
    as (F2 & D2 & N2).
  destruct (transfer_contours_spec _ _ _ _ _ ol N2 T3 NDc) as (F3 & D3 & N3).
  destruct (transfer_list_spec coid comp_setlib _ _ _ _ _ ol N3 T4 NDk)
    as (F4 & D4 & N4).
  assert (IDS : glyph_ids (mkGlyph (gname g) (gwidth g) (gheight g) (gcps g) (gnote g) (gimage g)
                                   gu an ks cs (remove_key objlibs_key (glib g)))
                = A ++ G ++ C ++ K).
  { rewrite glyph_ids_eq. cbn [ganchors gguides gcontours gcomps].
    change (gaids an) with (idsA aid an). change (ggids gu) with (idsA guid gu).
    change (gkids ks) with (idsA coid ks).
    rewrite (moved_ids aid anchor_setlib (fun _ _ => eq_refl) _ _ F1),
            (moved_ids guid guide_setlib (fun _ _ => eq_refl) _ _ F2),
            (moved_ids coid comp_setlib (fun _ _ => eq_refl) _ _ F4),
            (contour_moved_ids _ _ F3). reflexivity. }
  split.
  { unfold glyph_rules. rewrite IDS. cbn [gname gcps gimage gguides ganchors gcomps gcontours].
    split; [exact R1|]. split; [exact R2|]. split; [exact R3|]. split; [exact R4|].
    split; [eapply Forall2_Forall; [apply guide_moved|exact F2|exact R5|exact L2]|].
    split; [eapply Forall2_Forall; [apply anchor_moved|exact F1|exact R6|exact L1]|].
    split; [eapply Forall2_Forall; [apply comp_moved|exact F4|exact R7|exact L4]|].
    split; [eapply Forall2_Forall; [apply contour_moved_rules|exact F3|exact R8|exact L3]|exact ND]. }
  split; [rewrite IDS, glyph_ids_eq; reflexivity|].
  split; [cbn [glib]; rewrite lookup_remove_key, str_eqb_refl; reflexivity|].
  split; [|repeat split].
  intros o Ho. rewrite LK in Ho. inversion Ho; subst o. exists ol. split; [reflexivity|].
  intros i x Hi. rewrite glyph_ids_eq in Hi. fold A G C K in Hi.
  apply in_app_iff in Hi as [Hi|Hi]; [apply D1; exact Hi|].
  apply in_app_iff in Hi as [Hi|Hi]; [apply D2; exact Hi|].
  apply in_app_iff in Hi as [Hi|Hi]; [apply D3; exact Hi|apply D4; exact Hi].
Qed.

(* ---------- the opening tag and the prolog ---------- *)
Lemma root_of_app pre root post :
  forallb prolog_node pre = true -> prolog_node root = false ->
  root_of (pre ++ root :: post) = Some root.
Proof.
  induction pre as [|n pre IH]; cbn [forallb app]; intros HP HR.
  - unfold root_of. rewrite HR. reflexivity.
  - apply andb_true_iff in HP as [H1 H2]. unfold root_of in *. rewrite H1. apply IH; assumption.
Qed.

Lemma find_root_spec d a kids :
  find_root (tview d) = Ok (a, kids) ->
  exists pre name post, d = pre ++ Elem name a kids :: post /\
    forallb prolog_node pre = true /\ ekind_of name = Some KGlyph.
Proof.
  induction d as [|n d IH]; cbn [tview find_root]; [discriminate|].
  destruct n; cbn [tview find_root]; try discriminate.
  - destruct (ekind_of name) as [k|] eqn:EK; [|discriminate]. destruct k; try discriminate.
    intros H; inversion H; subst. exists [], name, d. repeat split; auto.
  - destruct (blank s) eqn:B; [|cbn [find_root]; discriminate].
    intros H. destruct (IH H) as (pre & name & post & -> & HP & EK).
    exists (Text s :: pre), name, post. repeat split; auto. cbn [forallb prolog_node]. rewrite B, HP. reflexivity.
  - intros H. destruct (IH H) as (pre & name & post & -> & HP & EK).
    exists (Comment s :: pre), name, post. repeat split; auto.
  - intros H. destruct (IH H) as (pre & name & post & -> & HP & EK).
    exists (Decl :: pre), name, post. repeat split; auto.
Qed.

Ltac arm_chain :=
  repeat match goal with
         | |- context [str_eqb ?a ?b] => destruct (str_eqb a b) eqn:?; try discriminate
         end.
Ltac no_file_arm :=
  let key := fresh "key" in let v := fresh "v" in
  intros key v _; unfold arms, transform_arms; cbn [lookup app]; arm_chain; discriminate.

Section Top.
Variable pf : str -> option fl.

Lemma parse_start_spec a name ver :
  parse_start pf a = Ok (name, ver) ->
  attrs_ok pf 2 KGlyph a /\ version_of a = Some ver /\ (ver = 1 \/ ver = 2) /\ name_valid name = true.
Proof.
  unfold parse_start.
  destruct (attr_loop pf 2 KGlyph false [] [] a) as [[s seen1]| |] eqn:L; cbn [bind]; try discriminate.
  apply loop0 in L as (F2 & ND & EX & V1).
  destruct (get_name k_name s) as [nm|] eqn:GN; [|discriminate].
  destruct (get_name_spec pf 2 KGlyph a s k_name (or_introl eq_refl) F2) as [N1 N2].
  rewrite GN in N1. specialize (N2 nm GN).
  pose proof (store_lookup pf 2 KGlyph a s k_format F2) as HF.
  pose proof (store_lookup pf 2 KGlyph a s k_formatMinor F2) as HM.
  set (major := match lookup k_format s with Some (VN n) => n | _ => 0 end).
  set (minor := match lookup k_formatMinor s with Some (VN n) => n | _ => 0 end).
  destruct (((major =? 1) || (major =? 2)) && (minor =? 0)) eqn:EV; [|discriminate].
  intros H; inversion H; subst nm ver; clear H.
  apply andb_true_iff in EV as [EV1 EV2]. apply N.eqb_eq in EV2.
  assert (HMJ : major = 1 \/ major = 2).
  { apply orb_true_iff in EV1 as [E|E]; apply N.eqb_eq in E; auto. }
  (* the format attribute is present *)
  assert (exists v, lookup k_format a = Some v /\ parse_u32 v = Some major) as (vf & LF & PF).
  { subst major. destruct (lookup k_format s) as [x|].
    - destruct HF as (v & ty & La & Lt & PR). vm_compute in Lt. inversion Lt; subst ty.
      destruct PR as (n & -> & E). exists v. auto.
    - exfalso. destruct HMJ; discriminate. }
  split.
  { apply attrs_ok_of_loop with (parsed := s); auto; [no_file_arm|].
    intros r [<-|[<-|[]]].
    - apply lookup_In in N2. apply (in_map fst) in N2. exact N2.
    - apply lookup_In in LF. apply (in_map fst) in LF. exact LF. }
  split; [|split; [exact HMJ|exact N1]].
  unfold version_of. fold k_format k_formatMinor. rewrite LF, PF.
  assert (MO : match lookup k_formatMinor a with
               | None => true
               | Some m => match parse_u32 m with Some 0 => true | _ => false end
               end = true).
  { subst minor. destruct (lookup k_formatMinor s) as [x|].
    - destruct HM as (v & ty & La & Lt & PR). vm_compute in Lt. inversion Lt; subst ty.
      destruct PR as (n & -> & E). rewrite La, E. subst n. reflexivity.
    - rewrite HM. reflexivity. }
  rewrite MO, EV1. reflexivity.
Qed.

Lemma flag_le (b : bool) n : n = (if b then 1 else 0)%nat -> (n <= 1)%nat.
Proof. destruct b; lia. Qed.

(** what every accepted document gives, with no class hypothesis: the invariant of the element
    loop at the end of the body, the glyph rules, [public.objectLibs] gone *)
Lemma parse_facts d g :
  parse_glif pf d = Ok g ->
  exists pre rname a kids post ver st,
    d = pre ++ Elem rname a kids :: post /\ forallb prolog_node pre = true /\ ekind_of rname = Some KGlyph /\
    attrs_ok pf 2 KGlyph a /\ version_of a = Some ver /\ (ver = 1 \/ ver = 2) /\
    inv pf ver (tview kids) st /\ sig_kids kids = tview kids /\
    glyph_rules g /\ lookup objlibs_key (glib g) = None /\
    objlibs_ok (glyph_ids (st_g st)) (glib (st_g st)).
Proof.
  unfold parse_glif. intros H.
  destruct (find_root (tview d)) as [[a kids]| |] eqn:FR; cbn [bind] in H; try discriminate.
  destruct (parse_start pf a) as [[name ver]| |] eqn:PS; cbn [bind] in H; try discriminate.
  destruct (parse_children pf ver (mkPst (glyph_new name) [] false false false false) (tview kids))
    as [st| |] eqn:PC; cbn [bind] in H; try discriminate.
  apply find_root_spec in FR as (pre & rname & post & -> & HP & EK).
  apply parse_start_spec in PS as (AO & VO & Hv & NV).
  pose proof (parse_children_inv pf ver Hv (tview kids) [] _ st (inv_init pf name NV ver) PC) as I.
  cbn [app] in I.
  pose proof (sig_kids_tview kids (i_el _ _ _ _ I)) as SK.
  destruct (i_objs _ _ _ _ I) as [O1 O2].
  assert (NDg : NoDup (glyph_ids (st_g st))).
  { eapply Permutation_NoDup; [apply Permutation_sym; apply (i_perm _ _ _ _ I)|exact O1]. }
  destruct (load_object_libs_spec _ _ H (i_rules _ _ _ _ I) (i_nolibs _ _ _ _ I) NDg)
    as (GR & _ & LK & OL & _).
  exists pre, rname, a, kids, post, ver, st.
  split; [reflexivity|]. split; [exact HP|]. split; [exact EK|]. split; [exact AO|]. split; [exact VO|].
  split; [exact Hv|]. split; [exact I|]. split; [exact SK|]. split; [exact GR|]. split; [exact LK|exact OL].
Qed.

(** every returned glyph obeys the glyph rules (among them: identifiers unique over all five object
    kinds) and [public.objectLibs] is not a key of its lib — for ALL documents *)
Theorem parse_rules d g :
  parse_glif pf d = Ok g -> glyph_rules g /\ lookup objlibs_key (glib g) = None.
Proof.
  intros H. destruct (parse_facts d g H) as (? & ? & ? & ? & ? & ? & ? & _ & _ & _ & _ & _ & _ & _ & _ & GR & LK & _).
  auto.
Qed.

(** SOUNDNESS: an accepted document outside F16 obeys every rule. *)
Theorem parse_sound d g :
  parse_glif pf d = Ok g -> ~ F16 d ->
  glif_ok pf d /\ glyph_rules g /\ lookup objlibs_key (glib g) = None.
Proof.
  intros H NF.
  destruct (parse_facts d g H) as (pre & rname & a & kids & post & ver & st & -> & HP & EK & AO & VO & Hv & I & SK & GR & LK & OL).
  split; [|split; [exact GR|exact LK]].
  assert (RO : root_of (pre ++ Elem rname a kids :: post) = Some (Elem rname a kids))
    by (apply root_of_app; auto).
  assert (HF1 : existsb f16_child (tview kids) = false).
  { destruct (existsb f16_child (tview kids)) eqn:E; [|reflexivity]. exfalso. apply NF.
    exists (Elem rname a kids). split; [exact RO|exact E]. }
  exists pre, (Elem rname a kids), post, ver.
  split; [reflexivity|]. split; [exact HP|].
  split; [unfold kind_of; cbn [as_elem]; exact EK|].
  unfold attrs_of, kids_of; cbn [as_elem]. split; [exact AO|]. split; [exact VO|].
  cbn zeta. rewrite SK.
  split.
  { pose proof (i_ok _ _ _ _ I) as IO. rewrite Forall_forall in *. intros n Hn. apply IO; [exact Hn|].
    destruct (f16_child n) eqn:E; [|reflexivity].
    assert (existsb f16_child (tview kids) = true); [|congruence]. apply existsb_exists. eauto. }
  split.
  { intros n dd Hin HK LD. pose proof (i_libd _ _ _ _ I) as LDI.
    assert (Hm : In (lib_dict pf n) (map (lib_dict pf) (filter (is_kind KLib) (tview kids)))).
    { apply in_map. apply filter_In. auto. }
    rewrite LDI in Hm. destruct (st_lib st); [|contradiction]. destruct Hm as [Hm|[]].
    rewrite LD in Hm. inversion Hm; subst dd.
    intros o Ho. destruct (OL o Ho) as (od & -> & Hod). exists od. split; [reflexivity|].
    intros i x Hi. apply Hod. eapply Permutation_in; [apply Permutation_sym; apply (i_perm _ _ _ _ I)|exact Hi]. }
  split; [eapply flag_le; apply (i_adv _ _ _ _ I)|].
  split; [eapply flag_le; apply (i_out _ _ _ _ I)|].
  split; [eapply flag_le; apply (i_lib _ _ _ _ I)|].
  split; [eapply flag_le; apply (i_note _ _ _ _ I)|].
  split; [pose proof (i_img _ _ _ _ I) as II; destruct (gimage (st_g st)); lia|].
  destruct (i_seen _ _ _ _ I) as (_ & ND & _). exact ND.
Qed.
End Top.

(* ---------- format 1 ---------- *)
Section V1.
Variable pf : str -> option fl.

Lemma attrs_v1_no_ident k a :
  attrs_ok pf 1 k a -> attr_ident a = [].
Proof.
  intros (_ & H & _). unfold attr_ident. destruct (lookup (s2l "identifier") a) as [v|] eqn:L; [|reflexivity].
  apply lookup_In in L. destruct (H _ _ L) as (ty & Ls & VO). exfalso.
  rewrite schema_arms in Ls. change (s2l "identifier") with k_identifier in Ls.
  destruct k; revert Ls; unfold arms, transform_arms; cbn [lookup app]; arm_chain; intros Ls;
    try discriminate; inversion Ls; subst ty; destruct VO as [VO _]; discriminate.
Qed.

Lemma contour_v1_no_attrs a : attrs_ok pf 1 KContour a -> a = [].
Proof.
  intros (_ & H & _). destruct a as [|[key v] a]; [reflexivity|]. exfalso.
  destruct (H key v (or_introl eq_refl)) as (ty & Ls & VO). cbn [schema lookup] in Ls.
  destruct (str_eqb key (s2l "identifier")); [|discriminate].
  inversion Ls; subst ty. destruct VO as [VO _]. discriminate.
Qed.

Lemma root_unique pre root post r :
  forallb prolog_node pre = true -> kind_of root <> None ->
  root_of (pre ++ root :: post) = Some r -> r = root.
Proof.
  intros HP HK H. rewrite root_of_app in H; [congruence|exact HP|].
  destruct root; try reflexivity; exfalso; apply HK; reflexivity.
Qed.

(** an accepted format-1 document has no format-2-only element and no identifier attribute,
    and its contours carry no attribute at all *)
Theorem v1_gating d g root :
  parse_glif pf d = Ok g -> ~ F16 d ->
  root_of d = Some root -> version_of (attrs_of root) = Some 1 ->
  let kids := sig_kids (kids_of root) in
  (forall n, In n kids -> is_kind KImage n = false /\ is_kind KAnchor n = false /\
                          is_kind KGuideline n = false) /\
  doc_ids kids = [] /\
  (forall o c, In o kids -> is_kind KOutline o = true -> In c (sig_kids (kids_of o)) ->
               is_kind KContour c = true -> attrs_of c = []).
Proof.
  intros H NF RO VO. destruct (parse_sound pf d g H NF) as (GO & _).
  destruct GO as (pre & root' & post & ver & -> & HP & KR & AO & VO' & CH & _).
  assert (root = root').
  { eapply root_unique; eauto. congruence. }
  subst root'. rewrite VO in VO'. inversion VO'; subst ver. cbn zeta.
  assert (CK : forall n, In n (sig_kids (kids_of root)) -> child_ok pf 1 n).
  { apply Forall_forall. exact CH. }
  clear CH. split; [|split].
  - intros n Hin. specialize (CK n Hin). unfold child_ok in CK. unfold is_kind.
    destruct (kind_of n) as [[]|]; try (repeat split; reflexivity); destruct CK as [CK _]; discriminate.
  - unfold doc_ids. induction (sig_kids (kids_of root)) as [|n l IH]; [reflexivity|].
    cbn [flat_map]. rewrite IH by (intros; apply CK; right; assumption). rewrite app_nil_r.
    specialize (CK n (or_introl eq_refl)). unfold child_ok in CK. unfold child_ids, is_kind.
    destruct (kind_of n) as [[]|] eqn:EK; cbn [orb]; try reflexivity; try (destruct CK as [CK _]; discriminate).
    destruct CK as [_ CK]. clear IH.
    induction (sig_kids (kids_of n)) as [|c cs IHc]; [reflexivity|].
    inversion CK as [|? ? Hc Hcs]; subst. cbn [flat_map]. rewrite (IHc Hcs), app_nil_r.
    unfold outline_child_ids. destruct Hc as [(KC & AC & PC & _)|(KC & _ & AC)].
    + unfold is_kind at 1. rewrite KC. unfold contour_ids. rewrite (attrs_v1_no_ident _ _ AC). cbn [app].
      clear - PC. induction (sig_kids (kids_of c)) as [|p ps IHp]; [reflexivity|].
      inversion PC as [|? ? Hp Hps]; subst. cbn [flat_map]. rewrite (IHp Hps), app_nil_r.
      destruct Hp as (_ & _ & AP). eapply attrs_v1_no_ident; eauto.
    + unfold is_kind. rewrite KC. eapply attrs_v1_no_ident; eauto.
  - intros o c Ho KO Hc KC. specialize (CK o Ho). unfold child_ok in CK. unfold is_kind in KO.
    destruct (kind_of o) as [[]|]; try discriminate. destruct CK as [_ CK].
    rewrite Forall_forall in CK. destruct (CK c Hc) as [(_ & AC & _)|(KC' & _)].
    + eapply contour_v1_no_attrs; eauto.
    + unfold is_kind in KC. rewrite KC' in KC. discriminate.
Qed.
End V1.

(** the format-1 upgrade as a function: exactly the contours that are a single named move point
    become anchors (position and name kept, nothing else set), in order; the others stay *)
Lemma v1_split_exact cs :
  v1_split cs =
  (flat_map (fun c => match v1_anchor c with Some a => [a] | None => [] end) cs,
   filter (fun c => match v1_anchor c with Some _ => false | None => true end) cs).
Proof.
  induction cs as [|c cs IH]; [reflexivity|]. cbn [v1_split flat_map filter]. rewrite IH.
  destruct (v1_anchor c); reflexivity.
Qed.
Lemma v1_anchor_exact c a :
  v1_anchor c = Some a <->
  exists p n, cpoints c = [p] /\ ptyp p = Move /\ pname p = Some n /\
              a = mkAnchor (px p) (py p) (Some n) None None None.
Proof.
  unfold v1_anchor. split.
  - destruct (cpoints c) as [|p [|? ?]]; try discriminate.
    destruct (ptyp p) eqn:ET; try discriminate. destruct (pname p) as [n|] eqn:EN; [|discriminate].
    intros H; inversion H; subst. exists p, n. auto.
  - intros (p & n & -> & -> & -> & ->). reflexivity.
Qed.
