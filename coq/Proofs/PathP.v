(** Lemmas about the path model: for every legal contour [to_path] returns the specification's
    outline. *)
Require Import Norad.Model.Base Norad.Model.Contour Norad.Model.Path Norad.Proofs.ContourP.
From Coq Require Import ZifyBool ZifyN ZifyNat.
Local Open Scope nat_scope.

(** ---------- lists ---------- *)
Lemma take_while_all {A} (f : A -> bool) l : forallb f l = true -> take_while f l = l.
Proof.
  induction l as [|x r IH]; cbn [forallb take_while]; [reflexivity|].
  intros H. apply andb_prop in H. destruct H as [Hx Hr]. rewrite Hx, IH by assumption. reflexivity.
Qed.

Lemma take_while_stop {A} (f : A -> bool) a x b :
  f x = false -> take_while f (a ++ x :: b) = take_while f a.
Proof.
  intros Hx. induction a as [|y a IH]; cbn [app take_while].
  - rewrite Hx. reflexivity.
  - destruct (f y); [rewrite IH|]; reflexivity.
Qed.

Lemma cycle_take_spec {A} (c : list A) : forall k cur,
  k <= length cur + length c -> cycle_take c cur k = firstn k (cur ++ c).
Proof.
  induction k as [|k IH]; intros cur Hk; [reflexivity|].
  cbn [cycle_take]. destruct cur as [|x cur'].
  - cbn [app]. destruct c as [|x c']; [reflexivity|].
    cbn [firstn]. f_equal. rewrite IH by (cbn [length] in *; lia).
    cbn [length] in Hk. rewrite firstn_app.
    replace (k - length c') with 0 by lia. cbn [firstn]. rewrite app_nil_r. reflexivity.
  - cbn [app firstn]. f_equal. apply IH. cbn [length] in Hk. lia.
Qed.

Lemma cycle_skip_take_rot {A} (c : list A) r :
  r < length c ->
  cycle_skip_take c r (length c + 1) = skipn r c ++ firstn (S r) c.
Proof.
  intros Hr. unfold cycle_skip_take.
  rewrite cycle_take_spec by lia.
  rewrite <- firstn_skipn_comm.
  rewrite skipn_app. replace (r - length c) with 0 by lia. cbn [skipn].
  rewrite firstn_app, skipn_length.
  rewrite (firstn_all2 (n := length c + 1)) by (rewrite skipn_length; lia).
  f_equal. f_equal. lia.
Qed.

Lemma cycle_skip_take_0 {A} (c : list A) : cycle_skip_take c 0 (length c) = c.
Proof.
  unfold cycle_skip_take. cbn [skipn Nat.add]. rewrite cycle_take_spec by lia.
  rewrite firstn_app, Nat.sub_diag, firstn_all. cbn [firstn]. apply app_nil_r.
Qed.

Lemma flat_map_nil {A B} (f : A -> list B) l : (forall x, In x l -> f x = []) -> flat_map f l = [].
Proof.
  induction l as [|x r IH]; intros H; cbn [flat_map]; [reflexivity|].
  rewrite (H x) by (left; reflexivity). apply IH. intros y Hy. apply H. right. exact Hy.
Qed.

Lemma filter_none {A} (f : A -> bool) l : (forall x, In x l -> f x = false) -> filter f l = [].
Proof.
  induction l as [|x r IH]; intros H; cbn [filter]; [reflexivity|].
  rewrite (H x) by (left; reflexivity). apply IH. intros y Hy. apply H. right. exact Hy.
Qed.

Lemma flat_map_seq_shift {B} n : forall (f : nat -> list B) a,
  flat_map f (seq a n) = flat_map (fun j => f (a + j)) (seq 0 n).
Proof.
  induction n as [|n IH]; intros f a; cbn [seq flat_map]; [reflexivity|].
  rewrite Nat.add_0_r. f_equal. rewrite (IH f (S a)), (IH (fun j => f (a + j)) 1).
  apply flat_map_ext. intros j. f_equal. lia.
Qed.

Lemma subseq_refl {A} (l : list A) : subseq l l.
Proof. induction l; [apply subseq_nil|apply subseq_keep; assumption]. Qed.
Lemma subseq_nil_l {A} (l : list A) : subseq [] l.
Proof. induction l; [apply subseq_nil|apply subseq_skip; assumption]. Qed.
Lemma subseq_app {A} (a b c d : list A) : subseq a b -> subseq c d -> subseq (a ++ c) (b ++ d).
Proof.
  intros H. induction H; intros Hc; cbn [app]; [assumption| |].
  - apply subseq_skip. auto.
  - apply subseq_keep. auto.
Qed.
Lemma subseq_In {A} (a b : list A) : subseq a b -> forall x, In x a -> In x b.
Proof.
  intros H. induction H; intros y Hy; [assumption| |].
  - right. auto.
  - destruct Hy as [->|Hy]; [left; reflexivity|right; auto].
Qed.

Section PathP.
  Variable P : Type.
  Variable mid : P -> P -> P.
  Notation point := (point P).
  Notation pathel := (pathel P).
  Notation offc := (offc P).
  Notation onc := (onc P).
  Notation pos := (pos P).
  Notation ptyp := (ptyp P).
  Notation types := (types P).
  Notation segment := (segment P mid).
  Notation segments := (segments P mid).
  Notation offs_before := (offs_before P).

  (** ---------- [segments], recursively ---------- *)
  (** the same list of segments, computed front to back with the pending off-curves [q] *)
  Fixpoint segs_rec (q : list P) (l : list point) : list (list pathel) :=
    match l with
    | [] => []
    | p :: r => if offc p then segs_rec (q ++ [pos p]) r else segment q p :: segs_rec [] r
    end.

  Lemma onc_false p : offc p = true -> onc p = false.
  Proof. unfold Path.onc. intros ->. reflexivity. Qed.
  Lemma onc_true p : offc p = false -> onc p = true.
  Proof. unfold Path.onc. intros ->. reflexivity. Qed.

  Lemma segments_split pre p r :
    forallb offc pre = true -> offc p = false ->
    segments (pre ++ p :: r) = segment (map pos pre) p :: segments r.
  Proof.
    intros Hpre Hp. unfold Path.segments.
    rewrite app_length. cbn [length].
    replace (length pre + S (length r)) with (length pre + (1 + length r)) by lia.
    rewrite seq_app, flat_map_app. cbn [Nat.add].
    rewrite flat_map_nil.
    2:{ intros i Hi. apply in_seq in Hi. rewrite nth_error_app1 by lia.
        destruct (nth_error pre i) as [q|] eqn:E; [|reflexivity].
        rewrite forallb_forall in Hpre. rewrite onc_false; [reflexivity|].
        apply Hpre. eapply nth_error_In; eauto. }
    cbn [app seq flat_map].
    rewrite nth_error_app2 by lia. rewrite Nat.sub_diag. cbn [nth_error].
    rewrite (onc_true _ Hp). cbn [app]. f_equal.
    - unfold Path.offs_before. rewrite firstn_app, firstn_all, Nat.sub_diag. cbn [firstn].
      rewrite app_nil_r. rewrite take_while_all.
      + rewrite rev_involutive. reflexivity.
      + rewrite forallb_forall in *. intros x Hx. apply Hpre. apply in_rev. exact Hx.
    - rewrite flat_map_seq_shift. apply flat_map_ext. intros j.
      rewrite nth_error_app2 by lia.
      replace (S (length pre) + j - length pre) with (S j) by lia. cbn [nth_error].
      destruct (nth_error r j) as [q|] eqn:E; [|reflexivity].
      destruct (onc q); [|reflexivity]. f_equal. f_equal.
      unfold Path.offs_before. f_equal. f_equal.
      rewrite firstn_app. replace (S (length pre) + j - length pre) with (S j) by lia.
      rewrite firstn_all2 by lia. cbn [firstn].
      rewrite rev_app_distr. cbn [rev]. rewrite <- app_assoc. cbn [app].
      apply take_while_stop. exact Hp.
  Qed.

  Lemma segments_rec_pre : forall l pre,
    forallb offc pre = true -> segments (pre ++ l) = segs_rec (map pos pre) l.
  Proof.
    induction l as [|p r IH]; intros pre Hpre.
    - rewrite app_nil_r. unfold Path.segments. cbn [segs_rec].
      apply flat_map_nil. intros i Hi. apply in_seq in Hi.
      destruct (nth_error pre i) as [q|] eqn:E; [|reflexivity].
      rewrite forallb_forall in Hpre. rewrite onc_false; [reflexivity|].
      apply Hpre. eapply nth_error_In; eauto.
    - cbn [segs_rec]. destruct (offc p) eqn:Hp.
      + replace (pre ++ p :: r) with ((pre ++ [p]) ++ r) by (rewrite <- app_assoc; reflexivity).
        rewrite IH.
        * rewrite map_app. reflexivity.
        * rewrite forallb_app, Hpre. cbn [forallb]. rewrite Hp. reflexivity.
      + rewrite segments_split by assumption. f_equal. apply (IH []). reflexivity.
  Qed.

  Lemma segments_rec l : segments l = segs_rec [] l.
  Proof. apply (segments_rec_pre l []). reflexivity. Qed.

  (** ---------- the qcurve arm draws [quad_run] ---------- *)
  Lemma drain_quad_run : forall offs k, drain P mid offs k = quad_run P mid offs k.
  Proof.
    unfold Path.quad_run, Path.implied.
    induction offs as [|a rest IH]; intros k; [reflexivity|].
    cbn [drain tl]. destruct rest as [|b rest'].
    - reflexivity.
    - specialize (IH k). cbn [tl] in IH. cbn [combine map app fst snd].
      f_equal. rewrite IH. reflexivity.
  Qed.

  (** ---------- well-formed point lists: what the loop needs in order to draw ---------- *)
  (** [n] off-curves are pending *)
  Fixpoint wf (n : nat) (l : list point) : Prop :=
    match l with
    | [] => True
    | p :: r => match ptyp p with
                | Move => False
                | Line => n = 0 /\ wf 0 r
                | Off => wf (S n) r
                | Curve => n <= 2 /\ wf 0 r
                | QCurve => wf 0 r
                end
    end.

  Lemma offc_typ p : offc p = match ptyp p with Off => true | _ => false end.
  Proof. reflexivity. Qed.

  Lemma curve_els_segment q p : ptyp p = Curve -> length q <= 2 ->
    curve_els P q (pos p) = Ok (segment q p).
  Proof.
    intros Ht Hq. unfold Path.segment. rewrite Ht.
    destruct q as [|a [|b [|c q]]]; try reflexivity. cbn [length] in Hq. lia.
  Qed.

  Lemma qcurve_els_segment q p : ptyp p = QCurve ->
    qcurve_els P mid q (pos p) = segment q p.
  Proof.
    intros Ht. unfold Path.segment, Path.qcurve_els. rewrite Ht, drain_quad_run.
    destruct q; reflexivity.
  Qed.

  (** the queue left over at the end *)
  Fixpoint pending (q : list P) (l : list point) : list P :=
    match l with
    | [] => q
    | p :: r => if offc p then pending (q ++ [pos p]) r else pending [] r
    end.

  Lemma ploop_segs : forall l path q,
    wf (length q) l ->
    ploop P mid (path, q) l = Ok (path ++ concat (segs_rec q l), pending q l).
  Proof.
    induction l as [|p r IH]; intros path q Hwf.
    - cbn [ploop segs_rec concat pending]. rewrite app_nil_r. reflexivity.
    - cbn [ploop segs_rec pending wf] in *. rewrite offc_typ. unfold Path.pstep.
      destruct (ptyp p) eqn:Ht.
      + contradiction.
      + destruct Hwf as [Hq Hr]. destruct q; [|discriminate].
        cbn [bind]. rewrite IH by exact Hr. cbn [concat].
        unfold Path.segment at 1. rewrite Ht. rewrite <- app_assoc. reflexivity.
      + cbn [bind]. rewrite IH; [reflexivity|]. rewrite app_length. cbn [length].
        rewrite Nat.add_1_r. exact Hwf.
      + destruct Hwf as [Hq Hr]. rewrite curve_els_segment by assumption.
        cbn [bind]. rewrite IH by exact Hr. cbn [concat]. rewrite <- app_assoc. reflexivity.
      + rewrite qcurve_els_segment by assumption.
        cbn [bind]. rewrite IH by exact Hwf. cbn [concat]. rewrite <- app_assoc. reflexivity.
  Qed.

  (** ---------- from the builder's automaton (C11) to [wf] ---------- *)
  Lemma types_cons p l : types (p :: l) = fst p :: types l.
  Proof. reflexivity. Qed.

  Lemma run_wf : forall l q b cnt,
    run (false, N.min (N.of_nat (length q)) MAXU) (types l) = inr (b, cnt) ->
    wf (length q) l /\ cnt = N.min (N.of_nat (length (pending q l))) MAXU.
  Proof.
    pose proof MAXU_big as HM.
    induction l as [|p r IH]; intros q b cnt H.
    - cbn in H. inversion H. split; [exact I|reflexivity].
    - rewrite types_cons in H. cbn [run] in H. cbn [wf pending]. rewrite offc_typ.
      unfold step in H. unfold Path.ptyp. destruct p as [[ty sm] xy]. cbn [fst snd] in *.
      destruct ty.
      + discriminate.
      + destruct (0 <? N.min (N.of_nat (length q)) MAXU)%N eqn:E; [discriminate|].
        assert (Hq : length q = 0) by lia. destruct q; [|discriminate]. cbn [length] in H.
        replace (N.min (N.of_nat 0) MAXU) with (N.min (N.of_nat (length (@nil P))) MAXU) in H by reflexivity.
        apply IH in H. cbn [length] in H. tauto.
      + destruct sm; [discriminate|].
        replace (sat_succ (N.min (N.of_nat (length q)) MAXU))
          with (N.min (N.of_nat (length (q ++ [xy]))) MAXU) in H
          by (rewrite app_length; cbn [length]; unfold sat_succ; lia).
        apply IH in H. rewrite app_length in H. cbn [length] in H. rewrite Nat.add_1_r in H. exact H.
      + destruct (2 <? N.min (N.of_nat (length q)) MAXU)%N eqn:E; [discriminate|].
        replace 0%N with (N.min (N.of_nat (length (@nil P))) MAXU) in H by (cbn; lia).
        apply IH in H. cbn [length] in H. split; [split; [lia|tauto]|tauto].
      + replace 0%N with (N.min (N.of_nat (length (@nil P))) MAXU) in H by (cbn; lia).
        apply IH in H. cbn [length] in H. exact H.
  Qed.

  Lemma run_first_closed c :
    is_closed (types c) = true -> run (true, 0%N) (types c) = run (false, 0%N) (types c) \/ c = [].
  Proof.
    destruct c as [|p r]; [right; reflexivity|left].
    rewrite types_cons in *. cbn [run]. unfold step. destruct p as [[ty sm] xy]. cbn [fst snd] in *.
    destruct ty; try reflexivity. discriminate.
  Qed.

  Lemma wf_shift : forall l m n,
    wf m l -> wrap (N.min (N.of_nat (n + m)) MAXU) (types l) = None -> wf (n + m) l.
  Proof.
    pose proof MAXU_big as HM.
    induction l as [|p r IH]; intros m n Hwf Hw; [exact I|].
    rewrite types_cons in Hw. cbn [wrap wf] in *. unfold Path.ptyp in *.
    destruct p as [[ty sm] xy]. cbn [fst snd] in *. destruct ty.
    - contradiction.
    - discriminate.
    - replace (S (n + m)) with (n + S m) by lia. apply IH; [exact Hwf|].
      rewrite <- Hw. f_equal. unfold sat_succ. lia.
    - destruct (2 <? N.min (N.of_nat (n + m)) MAXU)%N eqn:E; [discriminate|].
      split; [lia|tauto].
    - exact Hwf.
  Qed.

  Lemma wf_app : forall a b n, wf n (a ++ b) -> wf n a.
  Proof.
    induction a as [|p r IH]; intros b n H; [exact I|].
    cbn [app wf] in *. destruct (ptyp p); try tauto.
    - destruct H; split; eauto.
    - eauto.
    - destruct H; split; eauto.
    - eauto.
  Qed.

  Lemma wf_offs : forall T l n, forallb offc T = true -> wf (n + length T) l -> wf n (T ++ l).
  Proof.
    induction T as [|p r IH]; intros l n HT H.
    - cbn [length app] in *. rewrite Nat.add_0_r in H. exact H.
    - cbn [forallb] in HT. apply andb_prop in HT. destruct HT as [Hp Hr].
      cbn [app wf]. rewrite offc_typ in Hp. destruct (ptyp p); try discriminate.
      apply IH; [exact Hr|]. cbn [length] in H. replace (S n + length r) with (n + S (length r)) by lia.
      exact H.
  Qed.

  Lemma pending_on : forall b q p T, offc p = false -> forallb offc T = true ->
    pending q (b ++ p :: T) = map pos T.
  Proof.
    assert (HT : forall T q, forallb offc T = true -> pending q T = q ++ map pos T).
    { induction T as [|x r IH]; intros q H; cbn [pending map]; [symmetry; apply app_nil_r|].
      cbn [forallb] in H. apply andb_prop in H. destruct H as [Hx Hr]. rewrite Hx, IH by exact Hr.
      rewrite <- app_assoc. reflexivity. }
    induction b as [|x r IH]; intros q p T Hp HTo; cbn [app pending].
    - rewrite Hp. apply (HT T []). exact HTo.
    - destruct (offc x); apply IH; assumption.
  Qed.

  (** a contour that is not all off-curves: body, last on-curve point, trailing off-curves *)
  Lemma split_last_on : forall c, forallb offc c = false ->
    exists b p T, c = b ++ p :: T /\ offc p = false /\ forallb offc T = true.
  Proof.
    induction c as [|x r IH] using rev_ind; [discriminate|].
    rewrite forallb_app. cbn [forallb]. intros H.
    destruct (offc x) eqn:Hx.
    - rewrite andb_true_r in H. destruct (IH H) as (b & p & T & -> & Hp & HT).
      exists b, p, (T ++ [x]). rewrite <- app_assoc. split; [reflexivity|].
      split; [exact Hp|]. rewrite forallb_app, HT. cbn [forallb]. rewrite Hx. reflexivity.
    - exists r, x, []. auto.
  Qed.

  Lemma position_skip {A} (f : A -> bool) : forall a x b,
    forallb (fun y => negb (f y)) a = true -> f x = true ->
    position f (a ++ x :: b) = Some (length a).
  Proof.
    induction a as [|y a IH]; intros x b Ha Hx; cbn [app position length].
    - rewrite Hx. reflexivity.
    - cbn [forallb] in Ha. apply andb_prop in Ha. destruct Ha as [Hy Ha].
      destruct (f y); [discriminate|]. rewrite IH by assumption. reflexivity.
  Qed.

  Lemma rotate_index_split b p T : offc p = false -> forallb offc T = true ->
    rotate_index P (b ++ p :: T) = Some (length b).
  Proof.
    intros Hp HT. unfold Path.rotate_index.
    rewrite rev_app_distr. cbn [rev]. rewrite <- app_assoc. cbn [app].
    rewrite position_skip.
    - cbn [option_map]. f_equal. rewrite app_length, rev_length. cbn [length]. lia.
    - rewrite forallb_forall in *. intros y Hy. apply in_rev in Hy. unfold Path.onc.
      rewrite (HT y Hy). reflexivity.
    - apply onc_true. exact Hp.
  Qed.

  Lemma last_on_split b p T : offc p = false -> forallb offc T = true ->
    last_on P (b ++ p :: T) = Some (length b).
  Proof.
    intros Hp HT. unfold Path.last_on.
    rewrite app_length. cbn [length]. rewrite seq_app, filter_app. cbn [Nat.add seq filter].
    rewrite nth_error_app2 by lia. rewrite Nat.sub_diag. cbn [nth_error].
    rewrite (onc_true _ Hp).
    rewrite (filter_none _ (seq (S (length b)) (length T))).
    - rewrite rev_app_distr. reflexivity.
    - intros i Hi. apply in_seq in Hi. rewrite nth_error_app2 by lia.
      replace (i - length b) with (S (i - S (length b))) by lia. cbn [nth_error].
      destruct (nth_error T (i - S (length b))) as [q|] eqn:E; [|reflexivity].
      apply onc_false. rewrite forallb_forall in HT. apply HT. eapply nth_error_In; eauto.
  Qed.

  Lemma legal_build c : legal (types c) ->
    exists b cnt, run (true, 0%N) (types c) = inr (b, cnt) /\
      ((0 < cnt)%N -> is_closed (types c) = true /\ wrap cnt (types c) = None).
  Proof.
    intros H. apply accepts_iff_legal in H. destruct H as [r Hr]. unfold build in Hr.
    destruct (run (true, 0%N) (types c)) as [e|[b cnt]]; [discriminate|].
    exists b, cnt. split; [reflexivity|]. intros Hc.
    replace (0 <? cnt)%N with true in Hr by lia.
    destruct (is_closed (types c)); [|discriminate]. split; [reflexivity|].
    destruct (wrap cnt (types c)); [discriminate|reflexivity].
  Qed.

  Lemma legal_wf_open p0 r : ptyp p0 = Move -> legal (types (p0 :: r)) -> wf 0 r.
  Proof.
    intros Hm H. destruct (legal_build _ H) as (b & cnt & Hrun & _).
    rewrite types_cons in Hrun. cbn [run] in Hrun. unfold step in Hrun.
    unfold Path.ptyp in Hm. destruct p0 as [[ty sm] xy]. cbn [fst snd] in *. subst ty.
    apply (run_wf r [] b cnt). exact Hrun.
  Qed.

  Lemma legal_wf_closed b p T :
    offc p = false -> forallb offc T = true ->
    is_closed (types (b ++ p :: T)) = true -> legal (types (b ++ p :: T)) ->
    wf 0 (T ++ b ++ [p]).
  Proof.
    pose proof MAXU_big as HM.
    intros Hp HT Hcl H. set (c := b ++ p :: T) in *.
    destruct (legal_build _ H) as (e & cnt & Hrun & Hwrap).
    destruct (run_first_closed c Hcl) as [Heq|Hnil].
    2:{ exfalso. unfold c in Hnil. destruct b; discriminate. }
    rewrite Heq in Hrun. apply (run_wf c [] e cnt) in Hrun. cbn [length] in Hrun.
    destruct Hrun as [Hwf Hcnt]. unfold c in Hcnt. rewrite pending_on in Hcnt by assumption.
    rewrite map_length in Hcnt.
    apply (wf_offs T (b ++ [p]) 0 HT). cbn [Nat.add].
    assert (Hc : wf (length T) c).
    { destruct (length T) as [|t] eqn:Et; [exact Hwf|].
      assert (Hpos : (0 < cnt)%N) by lia. destruct (Hwrap Hpos) as [_ Hw].
      replace (S t) with (S t + 0) by lia. apply wf_shift; [exact Hwf|].
      rewrite Nat.add_0_r, <- Hcnt. exact Hw. }
    unfold c in Hc. replace (b ++ p :: T) with ((b ++ [p]) ++ T) in Hc
      by (rewrite <- app_assoc; reflexivity).
    eapply wf_app; eauto.
  Qed.

  (** ---------- the off-curve-only branch ---------- *)
  Definition quad_pairs (a b : list P) : list pathel :=
    map (fun xy => QuadTo (fst xy) (mid (fst xy) (snd xy))) (combine a b).

  Lemma quads_from_spec ps a r0 : ps = a :: r0 -> forall rest pre,
    pre ++ rest = ps ->
    quads_from P mid ps (length pre) rest = Ok (quad_pairs rest (tl rest ++ [a])).
  Proof.
    intros Hps. induction rest as [|pt rest' IH]; intros pre Hsplit; [reflexivity|].
    cbn [quads_from tl].
    assert (Hlen : length ps = length pre + S (length rest')).
    { rewrite <- Hsplit, app_length. reflexivity. }
    assert (Hnx : idx P site_next ps ((length pre + 1) mod length ps)
                  = Ok (hd a (rest' ++ [a]))).
    { unfold Path.idx. destruct rest' as [|y rest''].
      - cbn [length] in Hlen. replace (length pre + 1) with (length ps) by lia.
        rewrite Nat.mod_same by lia. rewrite Hps. reflexivity.
      - cbn [length] in Hlen. rewrite Nat.mod_small by lia.
        rewrite <- Hsplit. rewrite nth_error_app2 by lia.
        replace (length pre + 1 - length pre) with 1 by lia. reflexivity. }
    rewrite Hnx. cbn [bind].
    specialize (IH (pre ++ [pt])). rewrite app_length in IH. cbn [length] in IH.
    rewrite Nat.add_1_r in IH. rewrite IH by (rewrite <- app_assoc; exact Hsplit).
    cbn [bind]. unfold quad_pairs.
    destruct rest' as [|y rest'']; reflexivity.
  Qed.

  Lemma quad_pairs_spec : forall a b,
    map (fun oe => QuadTo (fst oe) (snd oe))
        (combine a (map (fun ab => mid (fst ab) (snd ab)) (combine a b))) = quad_pairs a b.
  Proof.
    unfold quad_pairs. induction a as [|x a IH]; intros b; [reflexivity|].
    destruct b as [|y b]; [reflexivity|]. cbn [combine map fst snd]. f_equal. apply IH.
  Qed.

  Lemma combine_snoc {A B} : forall (l : list A) (m : list B) z w, length l = length m ->
    combine (l ++ [z]) (m ++ [w]) = combine l m ++ [(z, w)].
  Proof.
    induction l as [|x l IH]; intros m z w H; destruct m as [|y m]; try discriminate; [reflexivity|].
    cbn [app combine]. f_equal. apply IH. cbn [length] in H. lia.
  Qed.

  Lemma offcurve_only_spec ps : ps <> [] ->
    offcurve_only P mid ps = Ok (spec_offcurve_only P mid ps).
  Proof.
    intros Hne. destruct ps as [|a r0]; [congruence|].
    assert (Hl : exists l z, a :: r0 = l ++ [z]).
    { destruct (@exists_last _ (a :: r0) Hne) as (l & z & E). eauto. }
    destruct Hl as (l & z & Hl).
    unfold Path.offcurve_only, Path.spec_offcurve_only.
    assert (Hlast : idx P site_last (a :: r0) (length (a :: r0) - 1) = Ok z).
    { unfold Path.idx. rewrite Hl, app_length. cbn [length].
      rewrite nth_error_app2 by lia. replace (length l + 1 - 1 - length l) with 0 by lia. reflexivity. }
    rewrite Hlast. cbn [bind]. unfold Path.idx at 1. cbn [nth_error bind].
    pose proof (quads_from_spec (a :: r0) a r0 eq_refl (a :: r0) [] eq_refl) as Hq.
    cbn [length] in Hq. rewrite Hq.
    cbn [bind tl].
    replace (rot 1 (a :: r0)) with (r0 ++ [a]) by reflexivity.
    rewrite quad_pairs_spec.
    (* the last implied point *)
    assert (Hcomb : combine (a :: r0) (r0 ++ [a]) = combine l (tl (l ++ [z])) ++ [(z, a)]).
    { replace (r0 ++ [a]) with (tl (l ++ [z]) ++ [a]) by (rewrite <- Hl; reflexivity).
      rewrite Hl. destruct l as [|h l'].
      - reflexivity.
      - cbn [app tl]. rewrite <- (combine_snoc (h :: l') (l' ++ [z]) z a).
        + reflexivity.
        + rewrite app_length. cbn [length]. lia. }
    rewrite Hcomb, map_app, rev_app_distr. reflexivity.
  Qed.

  (** ---------- the main theorem ---------- *)
  Lemma is_closed_cons p0 r :
    is_closed (types (p0 :: r)) = match ptyp p0 with Move => false | _ => true end.
  Proof. unfold Path.ptyp. destruct p0 as [[ty sm] xy]. destruct ty; reflexivity. Qed.

  Lemma last_on_all_off c : forallb offc c = true -> last_on P c = None.
  Proof.
    intros H. unfold Path.last_on. rewrite filter_none; [reflexivity|].
    intros i _. destruct (nth_error c i) as [q|] eqn:E; [|reflexivity].
    apply onc_false. rewrite forallb_forall in H. apply H. eapply nth_error_In; eauto.
  Qed.

  Lemma to_path_open p0 r : ptyp p0 = Move -> wf 0 r ->
    to_path P mid (p0 :: r) = Ok (outline_from P mid (pos p0) r).
  Proof.
    intros Hm Hwf. unfold Path.to_path.
    assert (Ho : offc p0 = false) by (rewrite offc_typ, Hm; reflexivity).
    cbn [forallb nonempty]. rewrite Ho. cbn [andb].
    rewrite is_closed_cons, Hm. rewrite cycle_skip_take_0.
    rewrite (ploop_segs r [MoveTo (pos p0)] []) by exact Hwf.
    cbn [bind fst]. unfold Path.outline_from. rewrite segments_rec. reflexivity.
  Qed.

  Lemma to_path_closed b p T :
    offc p = false -> forallb offc T = true -> is_closed (types (b ++ p :: T)) = true ->
    wf 0 (T ++ b ++ [p]) ->
    to_path P mid (b ++ p :: T) = Ok (outline_from P mid (pos p) (T ++ b ++ [p])).
  Proof.
    intros Hp HT Hcl Hwf. unfold Path.to_path.
    assert (Hall : forallb offc (b ++ p :: T) = false).
    { rewrite forallb_app. cbn [forallb]. rewrite Hp. cbn [andb]. apply andb_false_r. }
    rewrite Hall, andb_false_r, Hcl, rotate_index_split by assumption.
    rewrite cycle_skip_take_rot by (rewrite app_length; cbn [length]; lia).
    rewrite skipn_app, skipn_all, Nat.sub_diag. cbn [skipn app].
    rewrite firstn_app. replace (S (length b) - length b) with 1 by lia.
    rewrite firstn_all2 by lia. cbn [firstn].
    rewrite (ploop_segs (T ++ b ++ [p]) [MoveTo (pos p)] []) by exact Hwf.
    cbn [bind fst]. unfold Path.outline_from. rewrite segments_rec. reflexivity.
  Qed.

  Lemma rot_split (b : list point) p T : rot (S (length b)) (b ++ p :: T) = T ++ b ++ [p].
  Proof.
    unfold rot. replace (b ++ p :: T) with ((b ++ [p]) ++ T) by (rewrite <- app_assoc; reflexivity).
    assert (H : S (length b) = length (b ++ [p])) by (rewrite app_length; cbn [length]; lia).
    rewrite H, skipn_app, skipn_all, Nat.sub_diag, firstn_app, firstn_all, Nat.sub_diag.
    cbn [skipn firstn app]. rewrite app_nil_r. reflexivity.
  Qed.

  Lemma spec_path_closed b p T :
    offc p = false -> forallb offc T = true -> is_closed (types (b ++ p :: T)) = true ->
    spec_path P mid (b ++ p :: T) = outline_from P mid (pos p) (T ++ b ++ [p]).
  Proof.
    intros Hp HT Hcl. unfold Path.spec_path.
    destruct (b ++ p :: T) as [|p0 rest] eqn:Ec; [destruct b; discriminate|].
    rewrite is_closed_cons in Hcl. rewrite <- Ec.
    rewrite last_on_split by assumption. unfold Path.spec_path_at.
    rewrite nth_error_app2 by lia. rewrite Nat.sub_diag. cbn [nth_error].
    rewrite rot_split. destruct (ptyp p0); try reflexivity. discriminate.
  Qed.

  Theorem path_meets_spec c : legal (types c) -> to_path P mid c = Ok (spec_path P mid c).
  Proof.
    intros Hl. destruct c as [|p0 r]; [reflexivity|].
    destruct (forallb offc (p0 :: r)) eqn:Hall.
    - (* only off-curves *)
      unfold Path.to_path, Path.spec_path. rewrite Hall. cbn [nonempty andb].
      rewrite offcurve_only_spec by discriminate.
      rewrite last_on_all_off by exact Hall.
      cbn [forallb] in Hall. apply andb_prop in Hall. destruct Hall as [H0 _].
      rewrite offc_typ in H0. destruct (ptyp p0); try discriminate. reflexivity.
    - destruct (is_closed (types (p0 :: r))) eqn:Hcl.
      + destruct (split_last_on _ Hall) as (b & p & T & Ec & Hp & HT).
        rewrite Ec in *.
        rewrite spec_path_closed by assumption.
        apply to_path_closed; try assumption.
        apply legal_wf_closed; assumption.
      + rewrite is_closed_cons in Hcl.
        assert (Hm : ptyp p0 = Move) by (destruct (ptyp p0); try discriminate; reflexivity).
        rewrite to_path_open; [|exact Hm|eapply legal_wf_open; eauto].
        unfold Path.spec_path. rewrite Hm. reflexivity.
  Qed.

  (** ---------- corollaries: what the outline looks like ---------- *)
  Notation ends_at := (ends_at P).
  Notation last_end := (last_end P).
  Notation path_points := (path_points P).

  Lemma last_end_snoc a e : last_end (a ++ [e]) = end_of P e.
  Proof. unfold Path.last_end. rewrite rev_app_distr. reflexivity. Qed.

  Lemma last_end_app a sg : sg <> [] -> last_end (a ++ sg) = last_end sg.
  Proof.
    intros H. destruct (exists_last H) as (l & e & ->).
    rewrite app_assoc, !last_end_snoc. reflexivity.
  Qed.

  Lemma drain_last : forall q k, q <> [] -> exists pre x, drain P mid q k = pre ++ [QuadTo x k].
  Proof.
    induction q as [|a rest IH]; intros k H; [congruence|].
    cbn [drain]. destruct rest as [|b rest'].
    - exists [], a. reflexivity.
    - destruct (IH k) as (pre & x & E); [discriminate|]. rewrite E.
      exists (QuadTo a (mid a b) :: pre), x. reflexivity.
  Qed.

  (** conditions under which a drawing rule exists for [p] after the off-curves [q] *)
  Definition drawable (n : nat) (p : point) : Prop :=
    match ptyp p with
    | Move | Off => False
    | Line => n = 0
    | Curve => n <= 2
    | QCurve => True
    end.

  Lemma segment_ends q p : drawable (length q) p -> ends_at (segment q p) p.
  Proof.
    unfold drawable, Path.ends_at, Path.segment. destruct (ptyp p) eqn:Ht; intros H; try contradiction.
    - split; [discriminate|reflexivity].
    - destruct q as [|a [|b [|c q]]]; try (split; [discriminate|reflexivity]).
      cbn [length] in H. lia.
    - destruct q as [|a q]; [split; [discriminate|reflexivity]|].
      rewrite <- drain_quad_run.
      destruct (drain_last (a :: q) (pos p)) as (pre & x & E); [discriminate|].
      rewrite E. split; [destruct pre; discriminate|]. apply last_end_snoc.
  Qed.

  Lemma drain_points : forall q k, subseq (q ++ [k]) (path_points (drain P mid q k) ++ match q with [] => [k] | _ => [] end).
  Proof.
    induction q as [|a rest IH]; intros k; [apply subseq_refl|].
    cbn [drain]. specialize (IH k). destruct rest as [|b rest'].
    - cbn. apply subseq_refl.
    - cbn [app]. unfold Path.path_points in *. cbn [flat_map el_points app].
      apply subseq_keep. apply subseq_skip. rewrite app_nil_r in IH. rewrite app_nil_r.
      exact IH.
  Qed.

  Lemma segment_points q p : drawable (length q) p ->
    subseq (q ++ [pos p]) (path_points (segment q p)).
  Proof.
    unfold drawable, Path.segment. destruct (ptyp p) eqn:Ht; intros H; try contradiction.
    - destruct q; [apply subseq_refl|discriminate].
    - destruct q as [|a [|b [|c q]]]; try apply subseq_refl. cbn [length] in H. lia.
    - destruct q as [|a q]; [apply subseq_refl|].
      rewrite <- drain_quad_run. pose proof (drain_points (a :: q) (pos p)) as D.
      rewrite app_nil_r in D. exact D.
  Qed.

  Lemma wf_on n p r : offc p = false -> wf n (p :: r) -> drawable n p /\ wf 0 r.
  Proof.
    unfold drawable. cbn [wf]. rewrite offc_typ. destruct (ptyp p); try discriminate; tauto.
  Qed.

  Lemma wf_off n p r : offc p = true -> wf n (p :: r) -> wf (S n) r.
  Proof. cbn [wf]. rewrite offc_typ. destruct (ptyp p); try discriminate; tauto. Qed.

  Lemma segs_rec_ends : forall l q, wf (length q) l ->
    Forall2 ends_at (segs_rec q l) (filter onc l).
  Proof.
    induction l as [|p r IH]; intros q H; [constructor|].
    cbn [segs_rec filter]. unfold Path.onc at 1. destruct (offc p) eqn:Hp; cbn [negb].
    - apply IH. rewrite app_length. cbn [length]. rewrite Nat.add_1_r. eapply wf_off; eauto.
    - destruct (wf_on _ _ _ Hp H) as [Hd Hr]. constructor; [apply segment_ends; exact Hd|].
      apply (IH []). exact Hr.
  Qed.

  Lemma path_points_app a b : path_points (a ++ b) = path_points a ++ path_points b.
  Proof. apply flat_map_app. Qed.

  Lemma segs_rec_points : forall l q, wf (length q) l ->
    subseq (q ++ map pos l) (path_points (concat (segs_rec q l)) ++ pending q l).
  Proof.
    induction l as [|p r IH]; intros q H.
    - cbn. rewrite app_nil_r. apply subseq_refl.
    - cbn [segs_rec pending map]. destruct (offc p) eqn:Hp.
      + replace (q ++ pos p :: map pos r) with ((q ++ [pos p]) ++ map pos r)
          by (rewrite <- app_assoc; reflexivity).
        apply IH. rewrite app_length. cbn [length]. rewrite Nat.add_1_r. eapply wf_off; eauto.
      + destruct (wf_on _ _ _ Hp H) as [Hd Hr]. cbn [concat].
        rewrite path_points_app, <- app_assoc.
        replace (q ++ pos p :: map pos r) with ((q ++ [pos p]) ++ ([] ++ map pos r))
          by (rewrite <- app_assoc; reflexivity).
        apply subseq_app; [apply segment_points; exact Hd|]. apply (IH []). exact Hr.
  Qed.

  Lemma legal_open_pending p0 r : ptyp p0 = Move -> legal (types (p0 :: r)) -> pending [] r = [].
  Proof.
    pose proof MAXU_big as HM.
    intros Hm H. destruct (legal_build _ H) as (b & cnt & Hrun & Hw).
    rewrite types_cons in Hrun. cbn [run] in Hrun. unfold step in Hrun.
    assert (Hop : is_closed (types (p0 :: r)) = false) by (rewrite is_closed_cons, Hm; reflexivity).
    unfold Path.ptyp in Hm. destruct p0 as [[ty sm] xy]. cbn [fst snd] in *. subst ty.
    apply (run_wf r [] b cnt) in Hrun. destruct Hrun as [_ Hc].
    destruct (N.eq_dec cnt 0) as [Hz|Hz].
    - destruct (pending [] r); [reflexivity|]. cbn [length] in Hc. lia.
    - assert (Hpos : (0 < cnt)%N) by lia. destruct (Hw Hpos) as [Hcl _]. congruence.
  Qed.

  (** open contour: starts at the move point; one segment per later on-curve point, in order *)
  Theorem on_curve_order_open p0 r : ptyp p0 = Move -> legal (types (p0 :: r)) ->
    exists segs, to_path P mid (p0 :: r) = Ok (MoveTo (pos p0) :: concat segs) /\
                 Forall2 ends_at segs (filter onc r).
  Proof.
    intros Hm Hl. pose proof (legal_wf_open _ _ Hm Hl) as Hwf.
    exists (segs_rec [] r). split.
    - rewrite to_path_open by assumption. unfold Path.outline_from. rewrite segments_rec. reflexivity.
    - apply (segs_rec_ends r []). exact Hwf.
  Qed.

  (** closed contour with an on-curve point: starts at an on-curve point [s]; one segment per
      on-curve point in contour order after [s], wrapping around, the last one being [s] *)
  Theorem on_curve_order_closed c :
    is_closed (types c) = true -> forallb offc c = false -> legal (types c) ->
    exists s p segs, nth_error c s = Some p /\ onc p = true /\
      to_path P mid c = Ok (MoveTo (pos p) :: concat segs) /\
      Forall2 ends_at segs (filter onc (rot (S s) c)).
  Proof.
    intros Hcl Hall Hl. destruct (split_last_on _ Hall) as (b & p & T & -> & Hp & HT).
    pose proof (legal_wf_closed _ _ _ Hp HT Hcl Hl) as Hwf.
    exists (length b), p, (segs_rec [] (T ++ b ++ [p])). split; [|split; [|split]].
    - rewrite nth_error_app2 by lia. rewrite Nat.sub_diag. reflexivity.
    - apply onc_true. exact Hp.
    - rewrite to_path_closed by assumption. unfold Path.outline_from. rewrite segments_rec. reflexivity.
    - rewrite rot_split. apply (segs_rec_ends _ []). exact Hwf.
  Qed.

  Lemma combine_rot1 (a : P) r0 l z : a :: r0 = l ++ [z] ->
    combine (a :: r0) (r0 ++ [a]) = combine l (tl (l ++ [z])) ++ [(z, a)].
  Proof.
    intros Hl. replace (r0 ++ [a]) with (tl (l ++ [z]) ++ [a]) by (rewrite <- Hl; reflexivity).
    rewrite Hl. destruct l as [|h l'].
    - reflexivity.
    - cbn [app tl]. rewrite <- (combine_snoc (h :: l') (l' ++ [z]) z a).
      + reflexivity.
      + rewrite app_length. cbn [length]. lia.
  Qed.

  (** closed contour: the last segment comes back to the start point *)
  Theorem returns_to_start c :
    c <> [] -> is_closed (types c) = true -> legal (types c) ->
    exists s rest, to_path P mid c = Ok (MoveTo s :: rest) /\ rest <> [] /\ last_end rest = Some s.
  Proof.
    intros Hne Hcl Hl. destruct (forallb offc c) eqn:Hall.
    - (* off-curves only *)
      rewrite (path_meets_spec c Hl). destruct c as [|p0 r]; [congruence|].
      unfold Path.spec_path. rewrite last_on_all_off by exact Hall.
      cbn [forallb] in Hall. apply andb_prop in Hall. destruct Hall as [H0 _].
      rewrite offc_typ in H0.
      assert (E : match ptyp p0 with
                  | Move => outline_from P mid (pos p0) r
                  | _ => spec_offcurve_only P mid (map pos (p0 :: r)) end
                  = spec_offcurve_only P mid (map pos (p0 :: r)))
        by (destruct (ptyp p0); try discriminate; reflexivity).
      rewrite E. clear E. cbn [map]. set (a := pos p0). set (r0 := map pos r).
      destruct (@exists_last _ (a :: r0)) as (l & z & Hlz); [discriminate|].
      unfold Path.spec_offcurve_only. replace (rot 1 (a :: r0)) with (r0 ++ [a]) by reflexivity.
      rewrite quad_pairs_spec. rewrite (combine_rot1 a r0 l z Hlz).
      rewrite map_app, rev_app_distr. cbn [map rev app fst snd].
      eexists; eexists; split; [reflexivity|].
      unfold quad_pairs. rewrite (combine_rot1 a r0 l z Hlz), map_app. cbn [map fst snd].
      split; [destruct (map _ (combine l _)); discriminate|]. apply last_end_snoc.
    - destruct (on_curve_order_closed c Hcl Hall Hl) as (s & p & segs & Hn & Ho & Hp & HF).
      exists (pos p), (concat segs). split; [exact Hp|].
      assert (Hrot : exists pre, filter onc (rot (S s) c) = pre ++ [p]).
      { assert (Hs : s < length c) by (apply nth_error_Some; congruence).
        destruct (nth_error_split c s Hn) as (l1 & l2 & Ec & Hlen). subst c s.
        replace (l1 ++ p :: l2) with ((l1 ++ [p]) ++ l2) by (rewrite <- app_assoc; reflexivity).
        unfold rot. assert (E : S (length l1) = length (l1 ++ [p])) by (rewrite app_length; cbn; lia).
        rewrite E, skipn_app, skipn_all, Nat.sub_diag, firstn_app, firstn_all, Nat.sub_diag.
        cbn [skipn firstn app]. rewrite app_nil_r, app_assoc, filter_app. cbn [filter]. rewrite Ho. eauto. }
      destruct Hrot as (pre & Hrot). rewrite Hrot in HF.
      apply Forall2_app_inv_r in HF. destruct HF as (s1 & s2 & _ & H2 & ->).
      inversion H2 as [|sg ? ? ? Hsg Hnil]; subst. inversion Hnil; subst.
      destruct Hsg as [Hsg1 Hsg2]. rewrite concat_app. cbn [concat]. rewrite app_nil_r.
      split; [destruct (concat s1); [exact Hsg1|discriminate]|].
      rewrite last_end_app by exact Hsg1. exact Hsg2.
  Qed.

  Lemma quad_pairs_points : forall (a b : list P), length a <= length b ->
    subseq a (path_points (quad_pairs a b)).
  Proof.
    induction a as [|x a IH]; intros b H; [apply subseq_nil|].
    destruct b as [|y b]; [cbn [length] in H; lia|].
    unfold quad_pairs. cbn [combine map fst snd]. unfold Path.path_points. cbn [flat_map el_points app].
    apply subseq_keep, subseq_skip. apply IH. cbn [length] in H. lia.
  Qed.

  Lemma rot_0 {A} (l : list A) : rot 0 l = l.
  Proof. unfold rot. cbn [skipn firstn]. apply app_nil_r. Qed.

  (** every point of the contour appears in the path, in (cyclic) contour order *)
  Theorem no_point_lost c : legal (types c) ->
    exists k path, to_path P mid c = Ok path /\ subseq (map pos (rot k c)) (path_points path).
  Proof.
    intros Hl. destruct c as [|p0 r].
    - exists 0, []. split; [reflexivity|apply subseq_nil].
    - destruct (forallb offc (p0 :: r)) eqn:Hall.
      + exists 0. rewrite rot_0. unfold Path.to_path. rewrite Hall. cbn [nonempty andb].
        rewrite offcurve_only_spec by discriminate.
        eexists; split; [reflexivity|]. cbn [map]. set (a := pos p0). set (r0 := map pos r).
        unfold Path.spec_offcurve_only. replace (rot 1 (a :: r0)) with (r0 ++ [a]) by reflexivity.
        rewrite quad_pairs_spec.
        destruct (@exists_last _ (a :: r0)) as (l & z & Hlz); [discriminate|].
        rewrite (combine_rot1 a r0 l z Hlz), map_app, rev_app_distr. cbn [map rev app].
        unfold Path.path_points. cbn [flat_map el_points app]. apply subseq_skip.
        apply quad_pairs_points. rewrite app_length. cbn [length]. lia.
      + destruct (is_closed (types (p0 :: r))) eqn:Hcl.
        * destruct (split_last_on _ Hall) as (b & p & T & Ec & Hp & HT). rewrite Ec in *.
          pose proof (legal_wf_closed _ _ _ Hp HT Hcl Hl) as Hwf.
          exists (S (length b)). rewrite rot_split, to_path_closed by assumption.
          eexists; split; [reflexivity|]. unfold Path.outline_from. rewrite segments_rec.
          unfold Path.path_points. cbn [flat_map el_points app]. apply subseq_skip.
          pose proof (segs_rec_points (T ++ b ++ [p]) [] Hwf) as Hs.
          replace (T ++ b ++ [p]) with ((T ++ b) ++ p :: []) in Hs at 3 by (rewrite <- app_assoc; reflexivity).
          rewrite pending_on in Hs by (auto). cbn [map app] in Hs. rewrite app_nil_r in Hs. exact Hs.
        * rewrite is_closed_cons in Hcl.
          assert (Hm : ptyp p0 = Move) by (destruct (ptyp p0); try discriminate; reflexivity).
          pose proof (legal_wf_open _ _ Hm Hl) as Hwf.
          exists 0. rewrite rot_0, to_path_open by assumption.
          eexists; split; [reflexivity|]. unfold Path.outline_from. rewrite segments_rec.
          unfold Path.path_points. cbn [flat_map el_points app map]. apply subseq_keep.
          pose proof (segs_rec_points r [] Hwf) as Hs.
          rewrite (legal_open_pending _ _ Hm Hl), app_nil_r in Hs. exact Hs.
  Qed.

  Corollary no_point_lost_In c path : legal (types c) -> to_path P mid c = Ok path ->
    forall p, In p c -> In (pos p) (path_points path).
  Proof.
    intros Hl Hp p Hin. destruct (no_point_lost c Hl) as (k & path' & Hp' & Hs).
    rewrite Hp in Hp'. inversion Hp'; subst path'.
    eapply subseq_In; [exact Hs|]. apply in_map. unfold rot.
    rewrite <- (firstn_skipn k c) in Hin. apply in_app_or in Hin. apply in_or_app. tauto.
  Qed.

  Theorem never_errors_on_legal c : legal (types c) -> exists path, to_path P mid c = Ok path.
  Proof. intros H. eexists. apply path_meets_spec. exact H. Qed.

  (** the start point: the move point of an open contour, an on-curve point of a closed one *)
  Theorem starts_at c : legal (types c) -> forallb offc c = false ->
    exists s p rest, nth_error c s = Some p /\ onc p = true /\
      (is_closed (types c) = false -> s = 0) /\
      to_path P mid c = Ok (MoveTo (pos p) :: rest).
  Proof.
    intros Hl Hall. destruct (is_closed (types c)) eqn:Hcl.
    - destruct (on_curve_order_closed c Hcl Hall Hl) as (s & p & segs & Hn & Ho & Hp & _).
      exists s, p, (concat segs). repeat split; try assumption. discriminate.
    - destruct c as [|p0 r]; [discriminate|]. rewrite is_closed_cons in Hcl.
      assert (Hm : ptyp p0 = Move) by (destruct (ptyp p0); try discriminate; reflexivity).
      destruct (on_curve_order_open p0 r Hm Hl) as (segs & Hp & _).
      exists 0, p0, (concat segs). repeat split; try assumption.
      unfold Path.onc. rewrite offc_typ, Hm. reflexivity.
  Qed.

  (** the canonical outline is one of the outlines the specification allows *)
  Lemma spec_path_valid c : In (spec_path P mid c) (valid_outlines P mid c).
  Proof.
    destruct c as [|p0 r]; [left; reflexivity|].
    unfold Path.spec_path, Path.valid_outlines.
    destruct (forallb offc (p0 :: r)) eqn:Hall.
    - rewrite last_on_all_off by exact Hall.
      destruct (ptyp p0); try (left; reflexivity);
        (apply in_map_iff; exists 0; split; [rewrite rot_0; reflexivity|apply in_seq; cbn [length]; lia]).
    - destruct (split_last_on _ Hall) as (b & p & T & Ec & Hp & HT).
      rewrite Ec. rewrite last_on_split by assumption.
      destruct (ptyp p0); try (left; reflexivity);
        (apply in_flat_map; exists (length b); split;
         [apply in_seq; rewrite app_length; cbn [length]; lia|];
         rewrite nth_error_app2 by lia; rewrite Nat.sub_diag; cbn [nth_error];
         rewrite (onc_true _ Hp); left; reflexivity).
  Qed.

  Theorem path_is_outline c : legal (types c) ->
    exists path, to_path P mid c = Ok path /\ In path (valid_outlines P mid c).
  Proof.
    intros H. exists (spec_path P mid c). split; [apply path_meets_spec; exact H|apply spec_path_valid].
  Qed.

End PathP.

(** ---------- transforms ---------- *)
Section AffineP.
  Variable F : Type.
  Variable add mul : F -> F -> F.

  Lemma transform_formula (t : affine F) x y :
    transform F add mul t (x, y) =
    spec_transform F add mul (x_scale t) (xy_scale t) (yx_scale t) (y_scale t) (x_offset t) (y_offset t) x y.
  Proof. reflexivity. Qed.

  Lemma transform_eq_kurbo (t : affine F) p :
    kurbo_apply F add mul (to_kurbo F t) p = transform F add mul t p.
  Proof. reflexivity. Qed.

  Lemma affine_roundtrip (t : affine F) : from_kurbo F (to_kurbo F t) = t.
  Proof. destruct t; reflexivity. Qed.

  Lemma kurbo_roundtrip (k : kaffine F) : to_kurbo F (from_kurbo F k) = k.
  Proof. destruct k; reflexivity. Qed.
End AffineP.

(** over exact arithmetic the transform is the affine action of the matrix
    [[x_scale yx_scale] [xy_scale y_scale]] with offset (x_offset, y_offset) *)
Definition zcompose (t2 t1 : affine Z) : affine Z :=
  {| x_scale := x_scale t2 * x_scale t1 + yx_scale t2 * xy_scale t1;
     xy_scale := xy_scale t2 * x_scale t1 + y_scale t2 * xy_scale t1;
     yx_scale := x_scale t2 * yx_scale t1 + yx_scale t2 * y_scale t1;
     y_scale := xy_scale t2 * yx_scale t1 + y_scale t2 * y_scale t1;
     x_offset := x_scale t2 * x_offset t1 + yx_scale t2 * y_offset t1 + x_offset t2;
     y_offset := xy_scale t2 * x_offset t1 + y_scale t2 * y_offset t1 + y_offset t2 |}%Z.

Lemma transform_Z_action (t2 t1 : affine Z) p :
  transform Z Z.add Z.mul (zcompose t2 t1) p
  = transform Z Z.add Z.mul t2 (transform Z Z.add Z.mul t1 p).
Proof.
  destruct t1, t2, p as [x y]. unfold transform, zcompose. cbn -[Z.add Z.mul].
  f_equal; ring.
Qed.

Lemma transform_Z_identity p :
  transform Z Z.add Z.mul (mkaffine 1 0 0 1 0 0)%Z p = p.
Proof. destruct p as [x y]. unfold transform. cbn -[Z.add Z.mul]. f_equal; ring. Qed.

(** ---------- a concrete instance for the examples of Props/C20.v ---------- *)
Definition ZP := (Z * Z)%type.
Definition zsum (a b : ZP) : ZP := (fst a + fst b, snd a + snd b)%Z.
Definition zc (l : list (ptype * Z * Z)) : list (point ZP) :=
  map (fun t => ((fst (fst t), false), (snd (fst t), snd t))) l.
