(** Proofs about the load model (Model/Request.v): C17. *)
From stdpp Require Import gmap strings.
From Norad.Model Require Import Fs Save Request.
From Norad.Proofs Require Import FsP.
Open Scope string_scope.
Open Scope list_scope.

Implicit Types (m : lfs) (t : path) (r : request).

(** * The monad *)
Definition val {A} (x : M A) m : lerr + A := (x m).1.
Definition log {A} (x : M A) m : list rd := (x m).2.

Lemma val_bind {A B} (x : M A) (k : A → M B) m :
  val (bind x k) m = match val x m with inl e => inl e | inr a => val (k a) m end.
Proof. unfold val, bind. destruct (x m) as [[e|a] l]; done. Qed.
Lemma log_bind {A B} (x : M A) (k : A → M B) m :
  log (bind x k) m = match val x m with inl e => log x m | inr a => log x m ++ log (k a) m end.
Proof. unfold val, log, bind. destruct (x m) as [[e|a] l]; done. Qed.
Lemma val_ret {A} (a : A) m : val (ret a) m = inr a. Proof. done. Qed.
Lemma val_fail {A} e m : val (fail (A := A) e) m = inl e. Proof. done. Qed.
Lemma val_exists p m : val (m_exists p) m = inr (exists_ m p). Proof. done. Qed.
Lemma val_is_dir p m : val (m_is_dir p) m = inr (is_dir m p). Proof. done. Qed.
Lemma val_read p m : val (m_read p) m = inr (read m p). Proof. done. Qed.
Lemma val_list p m : val (m_list p) m = inr (files_below p m). Proof. done. Qed.
Lemma val_has_subdir p m : val (m_has_subdir p) m = inr (has_subdir p m). Proof. done. Qed.

(** * C17: the result depends only on what was consulted *)
Definition local {A} (x : M A) : Prop := ∀ m m', agree (log x m) m m' → x m' = x m.

Lemma local_ret {A} (a : A) : local (ret a). Proof. by intros m m' _. Qed.
Lemma local_fail {A} e : local (fail (A := A) e). Proof. by intros m m' _. Qed.
Lemma local_bind {A B} (x : M A) (k : A → M B) :
  local x → (∀ a, local (k a)) → local (bind x k).
Proof.
  intros Hx Hk m m' Ha. unfold log, bind in Ha. unfold bind.
  destruct (x m) as [[e|a] l] eqn:E; cbn [snd] in Ha.
  - rewrite (Hx m m'); [by rewrite E|]. unfold log. by rewrite E.
  - apply Forall_app in Ha as [H1 H2].
    rewrite (Hx m m'); [|unfold log; by rewrite E]. rewrite E.
    by rewrite (Hk a m m').
Qed.
Lemma agree_path m m' p : agree [RPath p] m m' → m !! p = m' !! p.
Proof. intros H. by inversion H. Qed.
Lemma local_exists p : local (m_exists p).
Proof. intros m m' H%agree_path. unfold m_exists, exists_. by rewrite H. Qed.
Lemma local_is_dir p : local (m_is_dir p).
Proof. intros m m' H%agree_path. unfold m_is_dir, is_dir. by rewrite H. Qed.
Lemma local_read p : local (m_read p).
Proof. intros m m' H%agree_path. unfold m_read, read. by rewrite H. Qed.
Lemma agree_tree m m' d : agree [RTree d] m m' → restrict_under d m = restrict_under d m'.
Proof.
  intros H. inversion H as [|? ? Ht _]; subst. cbn in Ht.
  apply map_eq. intros p. rewrite !restrict_under_lookup.
  destruct (decide (under d p)); [by apply Ht|done].
Qed.
Lemma local_list d : local (m_list d).
Proof. intros m m' H%agree_tree. unfold m_list, files_below. by rewrite H. Qed.
Lemma local_has_subdir d : local (m_has_subdir d).
Proof. intros m m' H%agree_tree. unfold m_has_subdir, has_subdir. by rewrite H. Qed.
Lemma local_mapM {A B} (g : A → M B) (l : list A) : (∀ a, local (g a)) → local (mapM g l).
Proof.
  intros Hg. induction l as [|a l IH]; cbn [mapM]; [apply local_ret|].
  apply local_bind; [apply Hg|]. intros b. apply local_bind; [apply IH|]. intros bs. apply local_ret.
Qed.

Ltac loc :=
  repeat first
    [ apply local_ret | apply local_fail | apply local_exists | apply local_is_dir | apply local_read
    | apply local_list | apply local_has_subdir
    | apply local_mapM; intros ?
    | apply local_bind; [|intros ?]
    | match goal with
      | |- local (match ?x with _ => _ end) => destruct x
      | |- local (if ?b then _ else _) => destruct b
      end ].

Lemma local_guarded {A} on p (dflt : A) parse : local (guarded on p dflt parse).
Proof. unfold guarded. loc. Qed.
Lemma local_load_store flat on d e : local (load_store flat on d e).
Proof. unfold load_store. loc. Qed.
Lemma local_load_layer t nr : local (load_layer t nr).
Proof. unfold load_layer. loc. Qed.
Lemma local_load_layers fl t : local (load_layers fl t).
Proof. unfold load_layers. loc; apply local_load_layer. Qed.
Lemma local_ld_sem r t s f : local (ld_sem r t s f).
Proof.
  destruct s; cbn [ld_sem]; loc;
    try apply local_guarded; try apply local_load_store; try apply local_load_layers.
Qed.
Lemma local_run_ld r t ss f : local (run_ld r t ss f).
Proof.
  revert f. induction ss as [|s ss IH]; intros f; cbn [run_ld]; [apply local_ret|].
  apply local_bind; [apply local_ld_sem|apply IH].
Qed.
Lemma local_load r t : local (load r t).
Proof. apply local_run_ld. Qed.

(** * C17: the partial load is the restricted full load *)

Lemma val_guarded_sim {A} (b : bool) p (dflt : A) parse m v :
  val (guarded true p dflt parse) m = inr v →
  val (guarded b p dflt parse) m = inr (if b then v else dflt).
Proof. destruct b; [done|]. intros _. done. Qed.
Lemma val_load_store_sim flat (b : bool) d e m v :
  val (load_store flat true d e) m = inr v →
  val (load_store flat b d e) m = inr (if b then v else []).
Proof. destruct b; [done|]. intros _. done. Qed.

(** ** layers *)
Lemma val_mapM_cons {A B} (g : A → M B) a l m :
  val (mapM g (a :: l)) m =
  match val (g a) m with
  | inl e => inl e
  | inr b => match val (mapM g l) m with inl e => inl e | inr bs => inr (b :: bs) end
  end.
Proof.
  cbn [mapM]. rewrite val_bind. destruct (val (g a) m); [done|].
  rewrite val_bind. destruct (val (mapM g l) m); done.
Qed.
Lemma val_mapM_filter {A B} (g : A → M B) (P : A → bool) (Q : B → bool) l m bs :
  (∀ a b, val (g a) m = inr b → Q b = P a) →
  val (mapM g l) m = inr bs →
  val (mapM g (filter (λ a, P a) l)) m = inr (filter (λ b, Q b) bs).
Proof.
  intros HPQ. revert bs. induction l as [|a l IH]; intros bs.
  - rewrite filter_nil. cbn. intros [= <-]. by rewrite filter_nil.
  - rewrite val_mapM_cons. destruct (val (g a) m) as [e|b] eqn:Ea; [discriminate|].
    destruct (val (mapM g l) m) as [e|bs'] eqn:El; [discriminate|]. intros [= <-].
    specialize (IH bs' eq_refl). pose proof (HPQ a b Ea) as Hq.
    destruct (P a) eqn:Pa.
    + rewrite filter_cons_True by (by rewrite Pa). rewrite filter_cons_True by (by rewrite Hq).
      rewrite val_mapM_cons, Ea, IH. done.
    + rewrite filter_cons_False by (rewrite Pa; exact id). rewrite filter_cons_False by (rewrite Hq; exact id).
      exact IH.
Qed.
Lemma val_mapM_Forall {A B} (g : A → M B) (Q : B → Prop) l m bs :
  (∀ a b, a ∈ l → val (g a) m = inr b → Q b) → val (mapM g l) m = inr bs → Forall Q bs.
Proof.
  revert bs. induction l as [|a l IH]; intros bs HQ.
  - cbn. intros [= <-]. constructor.
  - rewrite val_mapM_cons. destruct (val (g a) m) as [e|b] eqn:Ea; [discriminate|].
    destruct (val (mapM g l) m) as [e|bs'] eqn:El; [discriminate|]. intros [= <-].
    constructor; [eapply HQ; [apply elem_of_list_here|done]|].
    apply IH; [|done]. intros a' b' Hin. apply HQ. by apply elem_of_list_further.
Qed.

(** what [load_layer] returns carries the entry it was called with *)
Lemma val_load_layer_fields t nr m l :
  val (load_layer t nr) m = inr l →
  ll_name l = nr.1 ∧ ll_rel l = nr.2 ∧ file_name_of t nr.2 = Some (ll_dir l).
Proof.
  unfold load_layer. rewrite val_bind. rewrite ?val_exists.
  destruct (negb _); [discriminate|]. rewrite val_bind. rewrite ?val_read.
  destruct (read m _) as [[]|]; try discriminate.
  destruct (validate_glifs [] gs); [discriminate|].
  rewrite val_bind. destruct (val (mapM _ gs) m) as [|glyphs]; [discriminate|].
  rewrite val_bind. rewrite ?val_exists. rewrite val_bind.
  match goal with |- context [val (if ?b then _ else _) m] => destruct (val (if b then _ else _) m) as [|info] end;
    [discriminate|].
  destruct (file_name_of t nr.2) as [dn|]; [|discriminate]. cbn. intros [= <-]. done.
Qed.

(** moving the first default layer to the front commutes with filtering *)
Lemma split_default_spec ls d rest :
  split_default ls = Some (d, rest) →
  ∃ A B, ls = A ++ d :: B ∧ rest = A ++ B ∧ is_default d = true ∧ existsb is_default A = false.
Proof.
  revert d rest. induction ls as [|l ls IH]; intros d rest; [discriminate|]. cbn [split_default].
  destruct (is_default l) eqn:El.
  - intros [= <- <-]. by exists [], ls.
  - destruct (split_default ls) as [[d' r']|] eqn:E; [|discriminate]. intros [= <- <-].
    destruct (IH _ _ eq_refl) as (A & B & -> & -> & Hd & HA).
    exists (l :: A), B. repeat split; try done. cbn. by rewrite El.
Qed.
Lemma split_default_app_none A ls :
  existsb is_default A = false →
  split_default (A ++ ls) = match split_default ls with Some (d, r) => Some (d, A ++ r) | None => None end.
Proof.
  induction A as [|a A IH]; cbn [app existsb split_default].
  - intros _. by destruct (split_default ls) as [[]|].
  - intros [Ha HA]%orb_false_iff. rewrite Ha, IH by done. by destruct (split_default ls) as [[]|].
Qed.
Lemma existsb_filter_none {A} (P Q : A → bool) l :
  existsb P l = false → existsb P (filter (λ x, Q x) l) = false.
Proof.
  induction l as [|a l IH]; [done|]. cbn [existsb]. intros [Ha Hl]%orb_false_iff.
  destruct (Q a) eqn:Qa.
  - rewrite filter_cons_True by (by rewrite Qa). cbn. by rewrite Ha, IH.
  - rewrite filter_cons_False by (rewrite Qa; exact id). by apply IH.
Qed.
Lemma existsb_app' {A} (P : A → bool) l1 l2 : existsb P (l1 ++ l2) = existsb P l1 || existsb P l2.
Proof. induction l1 as [|a l IH]; [done|]. cbn. by rewrite IH, orb_assoc. Qed.

Lemma default_first_filter fl (Q : llayer → bool) ls d rest :
  split_default ls = Some (d, rest) →
  (Q d = false → includes_default fl = false) →
  ∃ res, default_first (with_placeholder fl (filter (λ l, Q l) ls)) = Some res ∧
         default_first (with_placeholder fl (filter (λ l, Q l) (d :: rest))) = Some res.
Proof.
  intros Hs Hinc. destruct (split_default_spec _ _ _ Hs) as (A & B & -> & -> & Hd & HA).
  pose proof (existsb_filter_none is_default Q A HA) as HfA.
  rewrite filter_app. destruct (Q d) eqn:Qd.
  - rewrite (filter_cons_True _ d (A ++ B)) by (by rewrite Qd).
    rewrite (filter_cons_True _ d B) by (by rewrite Qd). rewrite filter_app.
    unfold with_placeholder.
    assert (E1 : existsb is_default (filter (λ l, Q l) A ++ d :: filter (λ l, Q l) B) = true).
    { rewrite existsb_app'. cbn. rewrite Hd. by rewrite orb_true_r. }
    assert (E2 : existsb is_default (d :: filter (λ l, Q l) A ++ filter (λ l, Q l) B) = true).
    { cbn. by rewrite Hd. }
    rewrite E1, E2, !andb_false_r. unfold default_first.
    rewrite split_default_app_none by done. cbn [split_default]. rewrite Hd. eauto.
  - rewrite (filter_cons_False _ d (A ++ B)) by (rewrite Qd; exact id).
    rewrite (filter_cons_False _ d B) by (rewrite Qd; exact id). rewrite filter_app.
    set (X := filter (λ l, Q l) A ++ filter (λ l, Q l) B).
    assert (∃ res, default_first (with_placeholder fl X) = Some res) as [res Hres]; [|eauto].
    unfold with_placeholder. rewrite (Hinc eq_refl). cbn [negb andb].
    destruct (existsb is_default X) eqn:EX; cbn [negb].
    + unfold default_first. destruct (split_default X) as [[d' r']|] eqn:E; [eauto|].
      exfalso. clear -EX E. induction X as [|x X IH]; [discriminate|].
      cbn in *. destruct (is_default x); [discriminate|]. cbn in EX.
      destruct (split_default X) as [[]|]; [discriminate|]. by apply IH.
    + unfold default_first. rewrite split_default_app_none by done. cbn. eauto.
Qed.

Lemma should_load_all name p : should_load (r_filter req_all) name p = true.
Proof. done. Qed.

Lemma filter_true {A} (l : list A) : filter (λ _, true = true) l = l.
Proof. induction l as [|a l IH]; [done|]. rewrite filter_cons_True by done. by rewrite IH. Qed.

Lemma plain_name_Some (pr : rel) d : plain_name pr = Some d → pr = [Normal d].
Proof. destruct pr as [|[s| | |] [|? ?]]; try discriminate. by intros [= <-]. Qed.
Lemma validate_layers_plain sn sd ls :
  validate_layers sn sd ls = None → Forall (λ nr, ∃ d, nr.2 = [Normal d]) ls.
Proof.
  revert sn sd. induction ls as [|nr ls IH]; intros sn sd; [constructor|]. cbn [validate_layers].
  destruct (plain_name nr.2) as [d|] eqn:E; [|discriminate].
  destruct (bool_decide (nr.1 ∈ sn)); [discriminate|].
  destruct (bool_decide (lower d ∈ sd)); [discriminate|].
  destruct (_ && _); [discriminate|]. intros H. constructor; [|by eapply IH].
  exists d. by apply plain_name_Some.
Qed.
Lemma validate_glifs_plain seen gs :
  validate_glifs seen gs = None → Forall (λ g, ∃ fn, g.2 = [Normal fn]) gs.
Proof.
  revert seen. induction gs as [|g gs IH]; intros seen; [constructor|]. cbn [validate_glifs].
  destruct (plain_name g.2) as [fn|] eqn:E; [|discriminate].
  destruct (bool_decide (lower fn ∈ seen)); [discriminate|]. intros H. constructor; [|by eapply IH].
  exists fn. by apply plain_name_Some.
Qed.

Lemma val_load_layers_sim fl t m Fl :
  val (load_layers (r_filter req_all) t) m = inr Fl →
  val (load_layers fl t) m = inr (restrict_layers fl Fl).
Proof.
  unfold load_layers. rewrite ?val_bind. rewrite ?val_exists.
  destruct (negb _); [discriminate|]. rewrite ?val_bind. rewrite ?val_exists.
  rewrite ?val_bind. rewrite ?val_read.
  destruct (read m (t ++ [LAYER_CONTENTS_FILE])) as [[]|]; try discriminate.
  destruct (validate_layers [] [] ls) eqn:Ev; [discriminate|].
  pose proof (validate_layers_plain _ _ _ Ev) as Hplain.
  rewrite ?val_bind.
  assert (Hf : filter (λ nr : string * rel, should_load (r_filter req_all) nr.1 nr.2) ls = ls).
  { clear. induction ls as [|a l IH]; [done|]. rewrite filter_cons_True by done. by rewrite IH. }
  rewrite Hf.
  destruct (val (mapM (load_layer t) ls) m) as [e|layers] eqn:Eall; [discriminate|].
  set (Q := λ l : llayer, should_load fl (ll_name l) (ll_rel l)).
  rewrite (val_mapM_filter (load_layer t) (λ nr, should_load fl nr.1 nr.2) Q ls m layers); [|
    intros a b Hab; apply val_load_layer_fields in Hab as (Hn & Hr & _); unfold Q; by rewrite Hn, Hr | done].
  assert (Hpl : Forall (λ l, ll_rel l = [Normal (ll_dir l)]) layers).
  { eapply (val_mapM_Forall (load_layer t)); [|exact Eall].
    intros a b Hin Hab. apply val_load_layer_fields in Hab as (_ & Hr & Hfn).
    rewrite Forall_forall in Hplain. destruct (Hplain a Hin) as [dn Hdn].
    rewrite Hdn in Hfn. cbn in Hfn. injection Hfn as <-. by rewrite Hr. }
  unfold with_placeholder at 1. cbn [includes_default req_all r_filter fl_all orb negb andb].
  destruct (default_first layers) as [Fl'|] eqn:Edf; [|discriminate]. cbn. intros [= <-].
  unfold default_first in Edf. destruct (split_default layers) as [[d rest]|] eqn:Es; [|discriminate].
  injection Edf as <-.
  destruct (default_first_filter fl Q layers d rest Es) as (res & H1 & H2).
  { (* a default layer that the filter rejects: the filter does not include the default layer *)
    intros HQ. destruct (includes_default fl) eqn:Einc; [|done]. exfalso.
    destruct (split_default_spec _ _ _ Es) as (A & B & -> & _ & Hd & _).
    apply Forall_app in Hpl as [_ Hpl]. inversion Hpl as [|? ? Hrel _]; subst.
    unfold Q, should_load in HQ. rewrite Hrel in HQ. unfold is_default in Hd.
    apply bool_decide_eq_true in Hd. rewrite Hd in HQ.
    unfold includes_default in Einc. rewrite bool_decide_eq_true_2 in HQ by done.
    rewrite andb_true_r in HQ. rewrite Einc in HQ. discriminate. }
  subst Q. cbv beta in H1, H2 |- *. rewrite H1. unfold restrict_layers. cbv zeta. by rewrite H2.
Qed.

(** ** the whole load, step by step *)
(** [sim L r F P]: the partial run's state [P] is the full run's state [F] restricted; the
    layers are related by [L] (both empty before the layer step, restricted after it) *)
Definition sim (L : list llayer → list llayer → Prop) r (F P : lfont) : Prop :=
  lf_meta P = lf_meta F ∧
  lf_lib P = (if r_lib r then lf_lib F else (0%N, ONone)) ∧
  lf_info P = ((lf_info F).1, if r_lib r then (lf_info F).2 else None) ∧
  lf_groups P = (if r_groups r then lf_groups F else 0%N) ∧
  lf_kerning P = (if r_kerning r then lf_kerning F else 0%N) ∧
  lf_features P = (if r_features r then lf_features F else 0%N) ∧
  L (lf_layers F) (lf_layers P) ∧
  lf_data P = (if r_data r then lf_data F else []) ∧
  lf_images P = (if r_images r then lf_images F else []).

Lemma sim_restrict r F P : sim (λ a b, b = restrict_layers (r_filter r) a) r F P → P = restrict r F.
Proof.
  intros (H1 & H2 & H3 & H4 & H5 & H6 & H7 & H8 & H9). destruct P. cbn in *. subst.
  unfold restrict. done.
Qed.

Definition is_layer_step (s : ldstep) : bool := match s with LdLayers => true | _ => false end.

Lemma step_sim L r t m s F F' P :
  is_layer_step s = false →
  val (ld_sem req_all t s F) m = inr F' → sim L r F P →
  ∃ P', val (ld_sem r t s P) m = inr P' ∧ sim L r F' P'.
Proof.
  intros Hs Hv (H1 & H2 & H3 & H4 & H5 & H6 & H7 & H8 & H9).
  destruct s; try discriminate; cbn [ld_sem] in *.
  - (* LdAccess *)
    rewrite val_bind, val_exists in *. destruct (negb _); [discriminate|].
    rewrite val_bind, val_is_dir in *. destruct (is_dir m t); [|discriminate].
    injection Hv as <-. exists P. by repeat split.
  - (* LdMeta *)
    rewrite val_bind, val_exists in *. destruct (negb _); [discriminate|].
    rewrite val_bind, val_read in *. destruct (read m _) as [c|]; [|discriminate].
    destruct c; try discriminate. destruct ver as [|[[p|p|]|p|]]; try discriminate.
    injection Hv as <-. eexists. split; [reflexivity|]. by repeat split.
  - (* LdLib *)
    rewrite val_bind in *.
    destruct (val (guarded (r_lib req_all) _ _ parse_lib) m) as [|v] eqn:E; [discriminate|].
    injection Hv as <-. rewrite (val_guarded_sim (r_lib r) _ _ _ _ _ E).
    eexists. split; [reflexivity|]. repeat split; try done; cbn; by destruct (r_lib r).
  - (* LdInfo *)
    rewrite val_bind, val_exists in *. destruct (exists_ m _).
    + rewrite val_bind, val_read in *. destruct (read m _) as [c|] eqn:Er; cycle 1.
      { cbn in Hv. discriminate. }
      destruct c; cbn [parse_info] in Hv; try discriminate.
      destruct valid; [|discriminate]. cbn [parse_info]. rewrite H2.
      destruct (r_lib r) eqn:Elib.
      * destruct (lf_lib F) as [lt [|ot|]]; cbn [snd fst] in *; try discriminate;
          injection Hv as <-; eexists; (split; [reflexivity|]); repeat split; cbn; try done;
          by rewrite ?Elib.
      * cbn [snd fst]. destruct (lf_lib F) as [lt [|ot|]]; cbn [snd fst] in *; try discriminate;
          injection Hv as <-; eexists; (split; [reflexivity|]); repeat split; cbn; try done;
          by rewrite ?Elib.
    + injection Hv as <-. eexists. split; [reflexivity|]. rewrite H2.
      repeat split; cbn; try done. by destruct (r_lib r).
  - (* LdGroups *)
    rewrite val_bind in *.
    destruct (val (guarded (r_groups req_all) _ _ parse_groups) m) as [|v] eqn:E; [discriminate|].
    injection Hv as <-. rewrite (val_guarded_sim (r_groups r) _ _ _ _ _ E).
    eexists. split; [reflexivity|]. repeat split; try done; cbn; by destruct (r_groups r).
  - (* LdKerning *)
    rewrite val_bind in *.
    destruct (val (guarded (r_kerning req_all) _ _ parse_kerning) m) as [|v] eqn:E; [discriminate|].
    injection Hv as <-. rewrite (val_guarded_sim (r_kerning r) _ _ _ _ _ E).
    eexists. split; [reflexivity|]. repeat split; try done; cbn; by destruct (r_kerning r).
  - (* LdFeatures *)
    rewrite val_bind in *.
    destruct (val (guarded (r_features req_all) _ _ parse_features) m) as [|v] eqn:E; [discriminate|].
    injection Hv as <-. rewrite (val_guarded_sim (r_features r) _ _ _ _ _ E).
    eexists. split; [reflexivity|]. repeat split; try done; cbn; by destruct (r_features r).
  - (* LdData *)
    rewrite val_bind in *.
    destruct (val (load_store false (r_data req_all) _ _) m) as [|v] eqn:E; [discriminate|].
    injection Hv as <-. rewrite (val_load_store_sim false (r_data r) _ _ _ _ E).
    eexists. split; [reflexivity|]. repeat split; try done; cbn; by destruct (r_data r).
  - (* LdImages *)
    rewrite val_bind in *.
    destruct (val (load_store true (r_images req_all) _ _) m) as [|v] eqn:E; [discriminate|].
    injection Hv as <-. rewrite (val_load_store_sim true (r_images r) _ _ _ _ E).
    eexists. split; [reflexivity|]. repeat split; try done; cbn; by destruct (r_images r).
  - injection Hv as <-. exists P. by repeat split.
  - injection Hv as <-. exists P. by repeat split.
Qed.

Lemma run_sim L r t m ss F F' P :
  forallb (λ s, negb (is_layer_step s)) ss = true →
  val (run_ld req_all t ss F) m = inr F' → sim L r F P →
  ∃ P', val (run_ld r t ss P) m = inr P' ∧ sim L r F' P'.
Proof.
  revert F P. induction ss as [|s ss IH]; intros F P Hss.
  - cbn. intros [= <-] Hs. eauto.
  - cbn [forallb] in Hss. apply andb_true_iff in Hss as [Hs Hss]. apply negb_true_iff in Hs.
    cbn [run_ld]. rewrite !val_bind.
    destruct (val (ld_sem req_all t s F) m) as [|F1] eqn:E1; [discriminate|]. intros Hv Hsim.
    destruct (step_sim L r t m s F F1 P Hs E1 Hsim) as (P1 & -> & Hsim1).
    by apply (IH F1 P1).
Qed.

Lemma layer_step_sim r t m F F' P :
  val (ld_sem req_all t LdLayers F) m = inr F' → sim (λ a b, a = [] ∧ b = []) r F P →
  ∃ P', val (ld_sem r t LdLayers P) m = inr P' ∧ sim (λ a b, b = restrict_layers (r_filter r) a) r F' P'.
Proof.
  intros Hv (H1 & H2 & H3 & H4 & H5 & H6 & H7 & H8 & H9). cbn [ld_sem] in *.
  rewrite val_bind in *.
  destruct (val (load_layers (r_filter req_all) t) m) as [|Fl] eqn:E; [discriminate|].
  injection Hv as <-. rewrite (val_load_layers_sim (r_filter r) t m Fl E).
  eexists. split; [reflexivity|]. by repeat split.
Qed.

Lemma load_restrict r t m f :
  val (load req_all t) m = inr f → val (load r t) m = inr (restrict r f).
Proof.
  unfold load, load_steps.
  change [LdAccess; LdMeta; LdLib; LdInfo; LdGroups; LdKerning; LdFeatures; LdLayers; LdData; LdImages;
          LdUpconvert; LdRobofab]
    with ([LdAccess; LdMeta; LdLib; LdInfo; LdGroups; LdKerning; LdFeatures] ++ [LdLayers] ++
          [LdData; LdImages; LdUpconvert; LdRobofab]).
  assert (Hone : ∀ r s F, val (run_ld r t [s] F) m = val (ld_sem r t s F) m).
  { intros r0 s F. cbn [run_ld]. rewrite val_bind. by destruct (val (ld_sem r0 t s F) m). }
  assert (Happ : ∀ r ss1 ss2 F, val (run_ld r t (ss1 ++ ss2) F) m =
                 match val (run_ld r t ss1 F) m with inl e => inl e | inr F1 => val (run_ld r t ss2 F1) m end).
  { intros r0 ss1. induction ss1 as [|s ss1 IH]; intros ss2 F; [done|].
    cbn [app run_ld]. rewrite !val_bind. destruct (val (ld_sem r0 t s F) m); [done|]. apply IH. }
  rewrite !Happ.
  destruct (val (run_ld req_all t [LdAccess; LdMeta; LdLib; LdInfo; LdGroups; LdKerning; LdFeatures] empty_font) m)
    as [|F1] eqn:E1; [discriminate|].
  destruct (run_sim (λ a b, a = [] ∧ b = []) r t m [LdAccess; LdMeta; LdLib; LdInfo; LdGroups; LdKerning; LdFeatures]
              empty_font F1 empty_font eq_refl E1) as (P1 & -> & S1).
  { repeat split; cbn; by repeat match goal with |- context [if ?b then _ else _] => destruct b end. }
  rewrite !Happ, !Hone.
  destruct (val (ld_sem req_all t LdLayers F1) m) as [|F2] eqn:E2; [discriminate|].
  destruct (layer_step_sim r t m F1 F2 P1 E2 S1) as (P2 & -> & S2).
  intros E3.
  destruct (run_sim _ r t m [LdData; LdImages; LdUpconvert; LdRobofab] F2 f P2 eq_refl E3 S2) as (P3 & -> & S3).
  f_equal. by apply sim_restrict.
Qed.

(** the default layer is always there, and first *)
Lemma default_first_head ls res : default_first ls = Some res → ∃ d rest, res = d :: rest ∧ is_default d = true.
Proof.
  unfold default_first. destruct (split_default ls) as [[d rest]|] eqn:E; [|discriminate].
  intros [= <-]. apply split_default_spec in E as (A & B & _ & _ & Hd & _). eauto.
Qed.

Lemma step_layers_preserved r t m s F F' :
  is_layer_step s = false → val (ld_sem r t s F) m = inr F' → lf_layers F' = lf_layers F.
Proof.
  intros Hs. destruct s; try discriminate; cbn [ld_sem].
  - rewrite val_bind, val_exists. destruct (negb _); [discriminate|].
    rewrite val_bind, val_is_dir. destruct (is_dir m t); [|discriminate]. by intros [= <-].
  - rewrite val_bind, val_exists. destruct (negb _); [discriminate|].
    rewrite val_bind, val_read. destruct (read m _) as [c|]; [|discriminate].
    destruct c; try discriminate. destruct ver as [|[[p|p|]|p|]]; try discriminate. by intros [= <-].
  - rewrite val_bind. destruct (val _ m); [discriminate|]. by intros [= <-].
  - rewrite val_bind, val_exists. destruct (exists_ m _); [|by intros [= <-]].
    rewrite val_bind, val_read. destruct (parse_info _ _) as [|[i l]]; [discriminate|]. by intros [= <-].
  - rewrite val_bind. destruct (val _ m); [discriminate|]. by intros [= <-].
  - rewrite val_bind. destruct (val _ m); [discriminate|]. by intros [= <-].
  - rewrite val_bind. destruct (val _ m); [discriminate|]. by intros [= <-].
  - rewrite val_bind. destruct (val _ m); [discriminate|]. by intros [= <-].
  - rewrite val_bind. destruct (val _ m); [discriminate|]. by intros [= <-].
  - by intros [= <-].
  - by intros [= <-].
Qed.
Lemma run_layers_preserved r t m ss F F' :
  forallb (λ s, negb (is_layer_step s)) ss = true →
  val (run_ld r t ss F) m = inr F' → lf_layers F' = lf_layers F.
Proof.
  revert F. induction ss as [|s ss IH]; intros F Hss; [by intros [= <-]|].
  cbn [forallb] in Hss. apply andb_true_iff in Hss as [Hs Hss]. apply negb_true_iff in Hs.
  cbn [run_ld]. rewrite val_bind. destruct (val (ld_sem r t s F) m) as [|F1] eqn:E; [discriminate|].
  intros H. rewrite (IH F1 Hss H). by apply (step_layers_preserved r t m s).
Qed.

Lemma load_layers_of r t m f :
  val (load r t) m = inr f → val (load_layers (r_filter r) t) m = inr (lf_layers f).
Proof.
  unfold load, load_steps.
  change [LdAccess; LdMeta; LdLib; LdInfo; LdGroups; LdKerning; LdFeatures; LdLayers; LdData; LdImages;
          LdUpconvert; LdRobofab]
    with ([LdAccess; LdMeta; LdLib; LdInfo; LdGroups; LdKerning; LdFeatures] ++ [LdLayers] ++
          [LdData; LdImages; LdUpconvert; LdRobofab]).
  assert (Happ : ∀ ss1 ss2 F, val (run_ld r t (ss1 ++ ss2) F) m =
                 match val (run_ld r t ss1 F) m with inl e => inl e | inr F1 => val (run_ld r t ss2 F1) m end).
  { intros ss1. induction ss1 as [|s ss1 IH]; intros ss2 F; [done|].
    cbn [app run_ld]. rewrite !val_bind. destruct (val (ld_sem r t s F) m); [done|]. apply IH. }
  rewrite Happ. destruct (val (run_ld r t _ empty_font) m) as [|F1] eqn:E1; [discriminate|].
  rewrite Happ.
  assert (Hone : ∀ s F, val (run_ld r t [s] F) m = val (ld_sem r t s F) m).
  { intros s F. cbn [run_ld]. rewrite val_bind. by destruct (val (ld_sem r t s F) m). }
  rewrite Hone. cbn [ld_sem]. rewrite val_bind.
  destruct (val (load_layers (r_filter r) t) m) as [|ls]; [discriminate|]. rewrite val_ret.
  intros E3. apply run_layers_preserved in E3; [|done]. by rewrite E3.
Qed.

Lemma load_default_present r t m f :
  val (load r t) m = inr f → ∃ d rest, lf_layers f = d :: rest ∧ ll_dir d = DEFAULT_GLYPHS_DIRNAME.
Proof.
  intros H%load_layers_of. unfold load_layers in H. rewrite val_bind, val_exists in H.
  destruct (negb _); [discriminate|]. rewrite val_bind, val_exists, val_bind, val_read in H.
  destruct (read m _) as [[]|]; try discriminate.
  destruct (validate_layers [] [] ls); [discriminate|]. rewrite val_bind in H.
  destruct (val (mapM _ _) m) as [|layers]; [discriminate|].
  destruct (default_first _) as [res|] eqn:E; [|discriminate]. injection H as <-.
  apply default_first_head in E as (d & rest & -> & Hd). exists d, rest. split; [done|].
  unfold is_default in Hd. by apply bool_decide_eq_true in Hd.
Qed.

(** if the filter selects no layer whose directory is [glyphs], the first layer is the empty
    placeholder *)
Lemma load_default_placeholder r t m f :
  val (load r t) m = inr f →
  (∀ nr, nr ∈ layer_entries_of m t → should_load (r_filter r) nr.1 nr.2 = true →
         file_name_of t nr.2 ≠ Some DEFAULT_GLYPHS_DIRNAME) →
  ∃ rest, lf_layers f = placeholder :: rest.
Proof.
  intros H%load_layers_of Hno. unfold load_layers in H. rewrite val_bind, val_exists in H.
  destruct (negb _); [discriminate|]. rewrite val_bind, val_exists, val_bind, val_read in H.
  unfold layer_entries_of in Hno.
  destruct (read m _) as [[]|]; try discriminate.
  destruct (validate_layers [] [] ls); [discriminate|]. rewrite val_bind in H.
  destruct (val (mapM _ _) m) as [|layers] eqn:El; [discriminate|].
  assert (Hnd : existsb is_default layers = false).
  { assert (Hall : Forall (λ l, is_default l = false) layers).
    { eapply (val_mapM_Forall (load_layer t)); [|exact El]. intros a b Hin Hab.
      apply elem_of_list_filter in Hin as [Hsel Hin].
      apply val_load_layer_fields in Hab as (_ & _ & Hfn).
      unfold is_default. apply bool_decide_eq_false. intros Hd. rewrite Hd in Hfn.
      apply (Hno a Hin); [by apply Is_true_eq_true|exact Hfn]. }
    clear -Hall. induction Hall as [|l ls Hl _ IH]; [done|]. cbn. by rewrite Hl, IH. }
  unfold with_placeholder in H. rewrite Hnd in H.
  destruct (includes_default (r_filter r)); cbv [negb andb] in H.
  - destruct (default_first layers) as [res|] eqn:E; [|discriminate]. exfalso.
    unfold default_first in E. destruct (split_default layers) as [[d rest]|] eqn:E'; [|discriminate].
    apply split_default_spec in E' as (A & B & -> & _ & Hd & _). rewrite existsb_app' in Hnd. cbn in Hnd.
    rewrite Hd in Hnd. by rewrite orb_true_r in Hnd.
  - assert (E : default_first (layers ++ [placeholder]) = Some (placeholder :: layers ++ [])).
    { unfold default_first. rewrite split_default_app_none by done. done. }
    rewrite E in H. injection H as <-. eauto.
Qed.

(** * C17: files of un-requested parts are never consulted *)
Definition logs {A} (Q : rd → Prop) (x : M A) m : Prop := Forall Q (log x m).

Lemma logs_ret {A} (Q : rd → Prop) (a : A) m : logs Q (ret a) m. Proof. constructor. Qed.
Lemma logs_fail {A} (Q : rd → Prop) e m : logs Q (fail (A := A) e) m. Proof. constructor. Qed.
Lemma logs_bind {A B} (Q : rd → Prop) (x : M A) (k : A → M B) m :
  logs Q x m → (∀ a, val x m = inr a → logs Q (k a) m) → logs Q (bind x k) m.
Proof.
  unfold logs. rewrite log_bind. intros Hx Hk. destruct (val x m) as [e|a] eqn:E; [done|].
  apply Forall_app. split; [done|]. by apply Hk.
Qed.
Lemma logs_exists (Q : rd → Prop) p m : Q (RPath p) → logs Q (m_exists p) m. Proof. intros H. by constructor. Qed.
Lemma logs_is_dir (Q : rd → Prop) p m : Q (RPath p) → logs Q (m_is_dir p) m. Proof. intros H. by constructor. Qed.
Lemma logs_read (Q : rd → Prop) p m : Q (RPath p) → logs Q (m_read p) m. Proof. intros H. by constructor. Qed.
Lemma logs_list (Q : rd → Prop) p m : Q (RTree p) → logs Q (m_list p) m. Proof. intros H. by constructor. Qed.
Lemma logs_has_subdir (Q : rd → Prop) p m : Q (RTree p) → logs Q (m_has_subdir p) m. Proof. intros H. by constructor. Qed.
Lemma logs_mapM {A B} (Q : rd → Prop) (g : A → M B) (l : list A) m :
  (∀ a, a ∈ l → logs Q (g a) m) → logs Q (mapM g l) m.
Proof.
  induction l as [|a l IH]; intros Hg; cbn [mapM]; [apply logs_ret|].
  apply logs_bind; [apply Hg, elem_of_list_here|]. intros b _.
  apply logs_bind; [apply IH; intros a' Ha'; apply Hg; by apply elem_of_list_further|].
  intros bs _. apply logs_ret.
Qed.

(** the top-level names that belong to un-requested parts *)
Definition unreq_top r t m (a : string) : Prop :=
  (a = LIB_FILE ∧ r_lib r = false) ∨ (a = GROUPS_FILE ∧ r_groups r = false) ∨
  (a = KERNING_FILE ∧ r_kerning r = false) ∨ (a = FEATURES_FILE ∧ r_features r = false) ∨
  (a = DATA_DIR ∧ r_data r = false) ∨ (a = IMAGES_DIR ∧ r_images r = false) ∨
  (∃ nr, nr ∈ layer_entries_of m t ∧ nr.2 = [Normal a] ∧ should_load (r_filter r) nr.1 nr.2 = false).

Lemma wf_entry m t nr :
  wf_ufo m t → nr ∈ layer_entries_of m t →
  ∃ dn, nr.2 = [Normal dn] ∧ dn ∉ ufo_reserved ∧ Forall (λ g, plain1 g.2) (glif_entries_of m (t ++ [dn])).
Proof. intros [Hall _] Hin. rewrite Forall_forall in Hall. by apply Hall. Qed.

Lemma unrequested_top r t m p :
  wf_ufo m t → unrequested r t m p → ∃ a k, p = t ++ a :: k ∧ unreq_top r t m a.
Proof.
  intros Hwf [[H ->]|[[H ->]|[[H ->]|[[H ->]|[[H [k ->]]|[[H [k ->]]|(nr & Hin & Hsel & Hu)]]]]]].
  - exists LIB_FILE, []. split; [done|]. unfold unreq_top. auto.
  - exists GROUPS_FILE, []. split; [done|]. unfold unreq_top. auto.
  - exists KERNING_FILE, []. split; [done|]. unfold unreq_top. auto 6.
  - exists FEATURES_FILE, []. split; [done|]. unfold unreq_top. auto 6.
  - exists DATA_DIR, k. split; [by rewrite <- app_assoc|]. unfold unreq_top. auto 8.
  - exists IMAGES_DIR, k. split; [by rewrite <- app_assoc|]. unfold unreq_top. auto 8.
  - destruct (wf_entry _ _ _ Hwf Hin) as (dn & Hdn & _ & _). rewrite Hdn in Hu. cbn [lex] in Hu.
    destruct Hu as [k ->]. exists dn, k. split; [by rewrite <- app_assoc|].
    unfold unreq_top. do 6 right. exists nr. by rewrite <- Hdn.
Qed.

Definition allowed r t m (e : rd) : Prop := ∀ p, unrequested r t m p → ¬ touches e p.

Lemma allowed_root r t m : wf_ufo m t → allowed r t m (RPath t).
Proof.
  intros Hwf p Hp Ht. cbn in Ht. subst p.
  destruct (unrequested_top _ _ _ _ Hwf Hp) as (a & k & Heq & _).
  rewrite <- (app_nil_r t) in Heq at 1. apply app_inv_head in Heq. discriminate.
Qed.
Lemma allowed_path r t m a k :
  wf_ufo m t → ¬ unreq_top r t m a → allowed r t m (RPath (t ++ a :: k)).
Proof.
  intros Hwf Hna p Hp Ht. cbn in Ht. subst p.
  destruct (unrequested_top _ _ _ _ Hwf Hp) as (a' & k' & Heq & Hu).
  apply app_inv_head in Heq. injection Heq as -> _. by apply Hna.
Qed.
Lemma allowed_tree r t m a :
  wf_ufo m t → ¬ unreq_top r t m a → allowed r t m (RTree (t ++ [a])).
Proof.
  intros Hwf Hna p Hp [k Ht]. cbn in Ht. subst p.
  destruct (unrequested_top _ _ _ _ Hwf Hp) as (a' & k' & Heq & Hu).
  rewrite <- app_assoc in Heq. apply app_inv_head in Heq. injection Heq as -> _. by apply Hna.
Qed.

(** which names are never un-requested *)
Lemma not_unreq_reserved r t m a :
  wf_ufo m t → a ∈ ufo_reserved →
  (a = LIB_FILE → r_lib r = true) → (a = GROUPS_FILE → r_groups r = true) →
  (a = KERNING_FILE → r_kerning r = true) → (a = FEATURES_FILE → r_features r = true) →
  (a = DATA_DIR → r_data r = true) → (a = IMAGES_DIR → r_images r = true) →
  ¬ unreq_top r t m a.
Proof.
  intros Hwf Hres H1 H2 H3 H4 H5 H6 [[-> H]|[[-> H]|[[-> H]|[[-> H]|[[-> H]|[[-> H]|(nr & Hin & Hrel & _)]]]]]].
  - rewrite H1 in H; done.
  - rewrite H2 in H; done.
  - rewrite H3 in H; done.
  - rewrite H4 in H; done.
  - rewrite H5 in H; done.
  - rewrite H6 in H; done.
  - destruct (wf_entry _ _ _ Hwf Hin) as (dn & Hdn & Hnr & _). rewrite Hdn in Hrel.
    injection Hrel as ->. by apply Hnr.
Qed.
Lemma NoDup_fmap_inj {A B} (g : A → B) (l : list A) x y :
  NoDup (g <$> l) → x ∈ l → y ∈ l → g x = g y → x = y.
Proof.
  induction l as [|a l IH]; [by intros _ H%elem_of_nil|].
  rewrite fmap_cons, NoDup_cons. intros [Hna Hnd] Hx Hy Hg.
  apply elem_of_cons in Hx as [->|Hx]; apply elem_of_cons in Hy as [->|Hy]; try done.
  - exfalso. apply Hna. rewrite Hg. by apply elem_of_list_fmap_1.
  - exfalso. apply Hna. rewrite <- Hg. by apply elem_of_list_fmap_1.
  - by apply IH.
Qed.
Lemma not_unreq_selected r t m nr dn :
  wf_ufo m t → nr ∈ layer_entries_of m t → nr.2 = [Normal dn] →
  should_load (r_filter r) nr.1 nr.2 = true → ¬ unreq_top r t m dn.
Proof.
  intros Hwf Hin Hrel Hsel.
  destruct (wf_entry _ _ _ Hwf Hin) as (dn' & Hdn' & Hnr & _).
  rewrite Hrel in Hdn'. injection Hdn' as <-.
  assert (Hne : ∀ x, x ∈ ufo_reserved → dn ≠ x) by (intros x Hx ->; by apply Hnr).
  intros [[-> _]|[[-> _]|[[-> _]|[[-> _]|[[-> _]|[[-> _]|(nr' & Hin' & Hrel' & Hsel')]]]]]].
  1-6: (eapply Hne; [|reflexivity]; unfold ufo_reserved; set_solver).
  assert (nr' = nr) as ->.
  { destruct Hwf as [_ Hnd]. apply (NoDup_fmap_inj snd _ _ _ Hnd Hin' Hin). by rewrite Hrel, Hrel'. }
  rewrite Hsel in Hsel'. discriminate.
Qed.

Ltac lg :=
  repeat first
    [ apply logs_ret | apply logs_fail
    | apply logs_bind; [|intros ? ?]
    | match goal with
      | |- logs _ (match ?x with _ => _ end) _ => destruct x eqn:?
      | |- logs _ (if ?b then _ else _) _ => destruct b eqn:?
      end ].

Lemma app_cons_assoc {A} (t : list A) a k : (t ++ [a]) ++ k = t ++ a :: k.
Proof. by rewrite <- app_assoc. Qed.

Lemma logs_load_layer r t m nr :
  wf_ufo m t → nr ∈ layer_entries_of m t → should_load (r_filter r) nr.1 nr.2 = true →
  logs (allowed r t m) (load_layer t nr) m.
Proof.
  intros Hwf Hin Hsel. destruct (wf_entry _ _ _ Hwf Hin) as (dn & Hdn & Hnr & Hgl).
  pose proof (not_unreq_selected r t m nr dn Hwf Hin Hdn Hsel) as Hok.
  unfold load_layer. rewrite Hdn. cbn [lex]. rewrite !app_cons_assoc.
  apply logs_bind; [apply logs_exists, allowed_path; done|]. intros ex _.
  destruct (negb ex); [apply logs_fail|].
  apply logs_bind; [apply logs_read, allowed_path; done|]. intros c Hc.
  rewrite val_read in Hc. injection Hc as <-.
  destruct (read m (t ++ dn :: [CONTENTS_FILE])) as [[]|] eqn:Er; try apply logs_fail.
  assert (Hgs : glif_entries_of m (t ++ [dn]) = gs).
  { unfold glif_entries_of. by rewrite app_cons_assoc, Er. }
  rewrite Hgs in Hgl.
  destruct (validate_glifs [] gs); [apply logs_fail|].
  apply logs_bind.
  { apply logs_mapM. intros g Hg. rewrite Forall_forall in Hgl. destruct (Hgl g Hg) as [gn Hgn].
    rewrite Hgn. cbn [lex]. rewrite app_cons_assoc.
    apply logs_bind; [apply logs_read, allowed_path; done|]. intros c _.
    destruct c as [[]|]; first [apply logs_ret | apply logs_fail]. }
  intros glyphs _.
  apply logs_bind; [apply logs_exists, allowed_path; done|]. intros exi _.
  apply logs_bind.
  { destruct exi; [|apply logs_ret].
    apply logs_bind; [apply logs_read, allowed_path; done|]. intros c _.
    destruct c as [[]|]; first [apply logs_ret | apply logs_fail]. }
  intros info _. destruct (file_name_of _ _); [apply logs_ret|apply logs_fail].
Qed.

Lemma logs_load_layers r t m :
  wf_ufo m t → logs (allowed r t m) (load_layers (r_filter r) t) m.
Proof.
  intros Hwf. unfold load_layers.
  assert (Hlc : ¬ unreq_top r t m LAYER_CONTENTS_FILE).
  { apply not_unreq_reserved; try done. unfold ufo_reserved. set_solver. }
  apply logs_bind; [apply logs_exists, allowed_path; done|]. intros ex _.
  destruct (negb ex); [apply logs_fail|].
  apply logs_bind; [apply logs_exists, allowed_path; done|]. intros _ _.
  apply logs_bind; [apply logs_read, allowed_path; done|]. intros c Hc.
  rewrite val_read in Hc. injection Hc as <-.
  destruct (read m (t ++ [LAYER_CONTENTS_FILE])) as [[]|] eqn:Er; try apply logs_fail.
  assert (Hls : layer_entries_of m t = ls) by (unfold layer_entries_of; by rewrite Er).
  destruct (validate_layers [] [] ls); [apply logs_fail|].
  apply logs_bind.
  { apply logs_mapM. intros nr [Hsel Hin]%elem_of_list_filter. apply logs_load_layer; [done| |].
    - by rewrite Hls.
    - by apply Is_true_eq_true. }
  intros layers _. destruct (default_first _); [apply logs_ret|apply logs_fail].
Qed.

Lemma logs_guarded {A} r t m (on : bool) name (dflt : A) parse :
  wf_ufo m t → (on = true → ¬ unreq_top r t m name) →
  logs (allowed r t m) (guarded on (t ++ [name]) dflt parse) m.
Proof.
  intros Hwf Hok. unfold guarded. destruct on; [|apply logs_ret]. specialize (Hok eq_refl).
  apply logs_bind; [apply logs_exists, allowed_path; done|]. intros ex _.
  destruct ex; [|apply logs_ret].
  apply logs_bind; [apply logs_read, allowed_path; done|]. intros c _.
  destruct (parse c); [apply logs_fail|apply logs_ret].
Qed.
Lemma logs_load_store r t m flat (on : bool) name e :
  wf_ufo m t → (on = true → ¬ unreq_top r t m name) →
  logs (allowed r t m) (load_store flat on (t ++ [name]) e) m.
Proof.
  intros Hwf Hok. unfold load_store. destruct on; [|apply logs_ret]. specialize (Hok eq_refl).
  apply logs_bind; [apply logs_exists, allowed_path; done|]. intros ex _.
  destruct ex; [|apply logs_ret].
  apply logs_bind; [apply logs_is_dir, allowed_path; done|]. intros isd _.
  destruct (negb isd); [apply logs_fail|].
  apply logs_bind.
  { destruct flat; [apply logs_has_subdir, allowed_tree; done|apply logs_ret]. }
  intros sub _. destruct sub; [apply logs_fail|]. apply logs_list, allowed_tree; done.
Qed.

Lemma logs_ld_sem r t m s f : wf_ufo m t → logs (allowed r t m) (ld_sem r t s f) m.
Proof.
  intros Hwf.
  assert (Hres : ∀ a, a ∈ ufo_reserved →
            (a = LIB_FILE → r_lib r = true) → (a = GROUPS_FILE → r_groups r = true) →
            (a = KERNING_FILE → r_kerning r = true) → (a = FEATURES_FILE → r_features r = true) →
            (a = DATA_DIR → r_data r = true) → (a = IMAGES_DIR → r_images r = true) →
            ¬ unreq_top r t m a) by (intros; by apply not_unreq_reserved).
  destruct s; cbn [ld_sem].
  - apply logs_bind; [apply logs_exists, allowed_root; done|]. intros ex _.
    destruct (negb ex); [apply logs_fail|].
    apply logs_bind; [apply logs_is_dir, allowed_root; done|]. intros d _.
    destruct d; [apply logs_ret|apply logs_fail].
  - assert (¬ unreq_top r t m METAINFO_FILE) by (apply Hres; try done; unfold ufo_reserved; set_solver).
    apply logs_bind; [apply logs_exists, allowed_path; done|]. intros ex _.
    destruct (negb ex); [apply logs_fail|].
    apply logs_bind; [apply logs_read, allowed_path; done|]. intros c _.
    destruct c as [[| [|[[p|p|]|p|]] tok| | | | | | | | | | |]|]; first [apply logs_ret|apply logs_fail].
  - apply logs_bind; [|intros; apply logs_ret].
    apply logs_guarded; [done|]. intros E. apply Hres; try done. unfold ufo_reserved. set_solver.
  - assert (¬ unreq_top r t m FONTINFO_FILE) by (apply Hres; try done; unfold ufo_reserved; set_solver).
    apply logs_bind; [apply logs_exists, allowed_path; done|]. intros ex _.
    destruct ex; [|apply logs_ret].
    apply logs_bind; [apply logs_read, allowed_path; done|]. intros c _.
    destruct (parse_info _ c) as [|[]]; [apply logs_fail|apply logs_ret].
  - apply logs_bind; [|intros; apply logs_ret].
    apply logs_guarded; [done|]. intros E. apply Hres; try done. unfold ufo_reserved. set_solver.
  - apply logs_bind; [|intros; apply logs_ret].
    apply logs_guarded; [done|]. intros E. apply Hres; try done. unfold ufo_reserved. set_solver.
  - apply logs_bind; [|intros; apply logs_ret].
    apply logs_guarded; [done|]. intros E. apply Hres; try done. unfold ufo_reserved. set_solver.
  - apply logs_bind; [|intros; apply logs_ret]. by apply logs_load_layers.
  - apply logs_bind; [|intros; apply logs_ret].
    apply logs_load_store; [done|]. intros E. apply Hres; try done. unfold ufo_reserved. set_solver.
  - apply logs_bind; [|intros; apply logs_ret].
    apply logs_load_store; [done|]. intros E. apply Hres; try done. unfold ufo_reserved. set_solver.
  - apply logs_ret.
  - apply logs_ret.
Qed.

Lemma not_read r t m : wf_ufo m t → logs (allowed r t m) (load r t) m.
Proof.
  intros Hwf. unfold load. generalize empty_font. induction load_steps as [|s ss IH]; intros f.
  - apply logs_ret.
  - cbn [run_ld]. apply logs_bind; [by apply logs_ld_sem|]. intros f' _. apply IH.
Qed.

(** hence: a file system that differs only on files of un-requested parts gives the same load *)
Lemma corruption_irrelevant r t m m' :
  wf_ufo m t → (∀ p, ¬ unrequested r t m p → m' !! p = m !! p) → load r t m' = load r t m.
Proof.
  intros Hwf Hsame. apply local_load. pose proof (not_read r t m Hwf) as Hnr.
  unfold logs in Hnr. unfold agree. eapply Forall_impl; [exact Hnr|].
  intros e Hall. destruct e as [p|d]; cbn.
  - symmetry. apply Hsame. intros Hu. by apply (Hall p Hu).
  - intros p Hp. symmetry. apply Hsame. intros Hu. by apply (Hall p Hu).
Qed.

(** * What load hands to save: plain layer directories and glif file names (F8 repaired) *)
Lemma val_load_layer_files t nr m l :
  val (load_layer t nr) m = inr l → Forall single_normal (ll_files l).
Proof.
  unfold load_layer. rewrite val_bind. rewrite ?val_exists.
  destruct (negb _); [discriminate|]. rewrite val_bind. rewrite ?val_read.
  destruct (read m _) as [[]|]; try discriminate.
  destruct (validate_glifs [] gs) eqn:Ev; [discriminate|].
  rewrite val_bind. destruct (val (mapM _ gs) m) as [|glyphs]; [discriminate|].
  rewrite val_bind. rewrite ?val_exists. rewrite val_bind.
  match goal with |- context [val (if ?b then _ else _) m] => destruct (val (if b then _ else _) m) as [|info] end;
    [discriminate|].
  destruct (file_name_of t nr.2) as [dn|]; [|discriminate]. cbn. intros [= <-]. cbn.
  apply Forall_fmap. eapply Forall_impl; [apply (validate_glifs_plain _ _ Ev)|].
  intros g [fn Hfn]. by exists fn.
Qed.
Lemma default_first_Forall (Q : llayer → Prop) ls res :
  default_first ls = Some res → Forall Q ls → Forall Q res.
Proof.
  unfold default_first. destruct (split_default ls) as [[d rest]|] eqn:E; [|discriminate].
  intros [= <-]. apply split_default_spec in E as (A & B & -> & -> & _ & _).
  rewrite !Forall_app, !Forall_cons, Forall_app. tauto.
Qed.
Lemma load_safe r t m f : val (load r t) m = inr f → loaded_safe f.
Proof.
  intros H%load_layers_of. unfold loaded_safe. unfold load_layers in H. rewrite val_bind, val_exists in H.
  destruct (negb _); [discriminate|]. rewrite val_bind, val_exists, val_bind, val_read in H.
  destruct (read m _) as [[]|]; try discriminate.
  destruct (validate_layers [] [] ls); [discriminate|]. rewrite val_bind in H.
  destruct (val (mapM _ _) m) as [|layers] eqn:El; [discriminate|].
  destruct (default_first _) as [res|] eqn:E; [|discriminate]. injection H as <-.
  eapply default_first_Forall; [exact E|]. unfold with_placeholder.
  assert (Hl : Forall (λ l, Forall single_normal (ll_files l)) layers).
  { eapply (val_mapM_Forall (load_layer t)); [|exact El]. intros a b _ Hab.
    by apply val_load_layer_files in Hab. }
  destruct (_ && _); [|done]. apply Forall_app. split; [done|].
  constructor; [cbn; constructor|constructor].
Qed.
Lemma abstracts_safe fa f : abstracts fa f → loaded_safe f → layers_safe fa.
Proof.
  unfold abstracts, loaded_safe, layers_safe. intros Heq Hs.
  set (Q := λ x : rel * list rel, single_normal x.1 ∧ Forall single_normal x.2).
  assert (H : Forall Q (map (λ l, ([Normal (ll_dir l)], ll_files l)) (lf_layers f))).
  { apply Forall_fmap. eapply Forall_impl; [exact Hs|]. intros l Hl. split; [by eexists|exact Hl]. }
  rewrite <- Heq in H. apply Forall_fmap in H. eapply Forall_impl; [exact H|].
  intros l [H1 H2]. cbn [fst snd] in H1, H2. split; [exact H1|]. exact (proj1 (Forall_fmap _ _ _) H2).
Qed.
