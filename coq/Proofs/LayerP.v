(** C06 / C07 (container level) — proofs about the container model (Model/Layer.v).  std++ style. *)
From Coq Require Import String.
Require Import Norad.Model.Base Norad.Model.FileName Norad.Model.Layer Norad.Proofs.FileNameP.
From stdpp Require Import gmap.

Section Containers.
  Variable is_upper : N -> bool.
  Variable lower : str -> str.
  Notation LInv := (LInv lower).
  Notation Inv := (Inv lower).
  Notation step := (step is_upper lower).
  Notation insert_glyph := (insert_glyph is_upper lower).
  Notation remove_glyph := (remove_glyph lower).
  Notation rename_glyph := (rename_glyph is_upper lower).
  Notation retain_glyphs := (retain_glyphs lower).
  Notation glif_name := (glif_name is_upper lower).
  Notation dir_name := (dir_name is_upper lower).

  (** ** fresh names *)
  Lemma accept_in_spec taken c : accept_in taken c = true <-> c ∉ taken.
  Proof. unfold accept_in. apply bool_decide_eq_true. Qed.
  Lemma glif_name_fresh g taken p : glif_name g taken = Some p -> lower p ∉ taken.
  Proof. intros H. apply accept_in_spec. eapply u2f_accepted. exact H. Qed.
  Lemma dir_name_fresh n taken p : dir_name n taken = Some p -> lower p ∉ taken.
  Proof. intros H. apply accept_in_spec. eapply u2f_accepted. exact H. Qed.
  Lemma name_validb_spec n : name_validb n = true -> name_valid n.
  Proof.
    unfold name_validb, name_valid. intros H. apply andb_true_iff in H. destruct H as [H1 H2]. split.
    - destruct n; [discriminate|discriminate].
    - apply Forall_forall. intros c Hc. rewrite forallb_forall in H2.
      specialize (H2 c). rewrite <- elem_of_list_In in H2. specialize (H2 Hc).
      destruct (controlb c); [discriminate|reflexivity].
  Qed.
  Lemma dir_name_not_default n taken p :
    name_validb n = true -> dir_name n taken = Some p -> p <> DEFAULT_GLYPHS_DIRNAME.
  Proof.
    intros Hv H. apply name_validb_spec in Hv.
    destruct (layer_dir_name_spec _ _ _ _ _ Hv H) as (_ & (m & -> & Hm) & _).
    intros E. apply (f_equal (@List.length N)) in E. rewrite app_length in E. cbn in E.
    destruct m; [congruence|cbn in E; lia].
  Qed.

  (** ** one layer *)
  Lemma LInv_empty n p : LInv (new_layer_value n p).
  Proof.
    split; [|split; [|split; [|split]]]; cbn.
    - intros k. rewrite !lookup_empty. reflexivity.
    - intros k v H. rewrite lookup_empty in H. discriminate.
    - intros q. split; [set_solver|]. intros (g & x & H & _). rewrite lookup_empty in H. discriminate.
    - intros g1 g2 q1 q2 H. rewrite lookup_empty in H. discriminate.
    - intros k [x H]. rewrite lookup_empty in H. discriminate.
  Qed.

  Lemma LInv_insert l g l' :
    name_validb g = true -> LInv l -> insert_glyph l g = Some l' ->
    LInv l' /\ l_name l' = l_name l /\ l_path l' = l_path l.
  Proof.
    intros Hv (H1 & H2 & H3 & H4 & H5). unfold Layer.insert_glyph.
    destruct (l_contents l !! g) as [p0|] eqn:Ec.
    - intros [= <-]. split; [|split; reflexivity]. split; [|split; [|split; [|split]]]; cbn.
      + intros k. destruct (decide (k = g)) as [->|Hne].
        * rewrite lookup_insert, Ec. split; eauto.
        * rewrite lookup_insert_ne by congruence. apply H1.
      + intros k v. destruct (decide (k = g)) as [->|Hne].
        * rewrite lookup_insert. congruence.
        * rewrite lookup_insert_ne by congruence. apply H2.
      + exact H3.
      + exact H4.
      + exact H5.
    - destruct (glif_name g (l_pset l)) as [p|] eqn:Ep; [|discriminate].
      intros [= <-]. split; [|split; reflexivity].
      pose proof (glif_name_fresh _ _ _ Ep) as Hf.
      split; [|split; [|split; [|split]]]; cbn.
      + intros k. destruct (decide (k = g)) as [->|Hne].
        * rewrite !lookup_insert. split; eauto.
        * rewrite !lookup_insert_ne by congruence. apply H1.
      + intros k v. destruct (decide (k = g)) as [->|Hne].
        * rewrite lookup_insert. congruence.
        * rewrite lookup_insert_ne by congruence. apply H2.
      + intros q'. rewrite elem_of_union, elem_of_singleton, H3. split.
        * intros [->|(k & q & Hk & Hq)].
          -- exists g, p. rewrite lookup_insert. auto.
          -- exists k, q. rewrite lookup_insert_ne by congruence. auto.
        * intros (k & q & Hk & Hq). destruct (decide (k = g)) as [->|Hne].
          -- rewrite lookup_insert in Hk. left. congruence.
          -- rewrite lookup_insert_ne in Hk by congruence. right. eauto.
      + intros g1 g2 q1 q2 Hg1 Hg2 Hq.
        destruct (decide (g1 = g)) as [->|N1], (decide (g2 = g)) as [->|N2]; [reflexivity| | |].
        * rewrite lookup_insert in Hg1. rewrite lookup_insert_ne in Hg2 by congruence.
          exfalso. apply Hf. apply H3. exists g2, q2. split; [assumption|congruence].
        * rewrite lookup_insert in Hg2. rewrite lookup_insert_ne in Hg1 by congruence.
          exfalso. apply Hf. apply H3. exists g1, q1. split; [assumption|congruence].
        * rewrite lookup_insert_ne in Hg1, Hg2 by congruence. eauto.
      + intros k. destruct (decide (k = g)) as [->|Hne]; [intros _; exact Hv|].
        rewrite lookup_insert_ne by congruence. apply H5.
  Qed.

  Lemma LInv_remove l g : LInv l -> LInv (remove_glyph l g).
  Proof.
    intros (H1 & H2 & H3 & H4 & H5). unfold Layer.remove_glyph.
    split; [|split; [|split; [|split]]]; cbn.
    - intros k. destruct (decide (k = g)) as [->|Hne].
      + rewrite !lookup_delete. split; intros [x Hx]; discriminate.
      + rewrite !lookup_delete_ne by congruence. apply H1.
    - intros k v Hk. apply lookup_delete_Some in Hk. destruct Hk as [_ Hk]. eauto.
    - intros q'. destruct (l_contents l !! g) as [p0|] eqn:Ec.
      + rewrite elem_of_difference, elem_of_singleton, H3. split.
        * intros [(k & q & Hk & Hq) Hne]. exists k, q. split; [|assumption].
          rewrite lookup_delete_ne; [assumption|]. intros ->. apply Hne. congruence.
        * intros (k & q & Hk & Hq). apply lookup_delete_Some in Hk. destruct Hk as [Hne Hk].
          split; [eauto|]. intros ->. apply Hne. symmetry. eapply H4; eauto.
      + rewrite H3. rewrite delete_notin by assumption. reflexivity.
    - intros g1 g2 q1 q2 Hg1 Hg2. apply lookup_delete_Some in Hg1, Hg2.
      destruct Hg1 as [_ Hg1], Hg2 as [_ Hg2]. eauto.
    - intros k [x Hx]. apply lookup_delete_Some in Hx. destruct Hx as [_ Hx]. apply H5. eauto.
  Qed.
  Lemma remove_glyph_sig l g :
    l_name (remove_glyph l g) = l_name l /\ l_path (remove_glyph l g) = l_path l.
  Proof. split; reflexivity. Qed.

  Lemma LInv_rename l old new ow :
    LInv l -> LInv (rename_glyph l old new ow).1 /\
              l_name (rename_glyph l old new ow).1 = l_name l /\
              l_path (rename_glyph l old new ow).1 = l_path l.
  Proof.
    intros H. unfold Layer.rename_glyph.
    destruct (negb ow && _); [auto|]. destruct (negb (bool_decide _)); [auto|].
    destruct (negb (name_validb new)) eqn:Ev; [auto|]. apply negb_false_iff in Ev.
    destruct (insert_glyph (remove_glyph l old) new) as [l2|] eqn:Ei; cbn [fst].
    - apply LInv_insert in Ei; [|assumption|apply LInv_remove; assumption].
      destruct Ei as (Hi & -> & ->). auto.
    - split; [apply LInv_remove; assumption|split; reflexivity].
  Qed.

  Lemma LInv_clear l : LInv (clear l).
  Proof. apply (LInv_empty (l_name l) (l_path l)). Qed.

  Lemma LInv_retain l keep : LInv l -> LInv (retain_glyphs l keep).
  Proof.
    intros (H1 & H2 & H3 & H4 & H5). unfold Layer.retain_glyphs.
    set (g' := base.filter (fun kv : str * str => kv.1 ∈ keep) (l_glyphs l)).
    assert (Hg' : forall k v, g' !! k = Some v -> l_glyphs l !! k = Some v).
    { intros k v Hk. apply map_filter_lookup_Some in Hk. tauto. }
    split; [|split; [|split; [|split]]]; cbn.
    - intros k. split.
      + intros [q Hq]. apply map_filter_lookup_Some in Hq. tauto.
      + intros [v Hv]. destruct (proj2 (H1 k)) as [q Hq]; [eauto|].
        exists q. apply map_filter_lookup_Some. split; [assumption|]. cbn. eauto.
    - intros k v Hk. eauto.
    - intros q'. rewrite elem_of_difference, elem_of_list_to_set, elem_of_list_fmap, H3. split.
      + intros [(k & q & Hk & Hq) Hnd]. exists k, q. split; [|assumption].
        apply map_filter_lookup_Some. split; [assumption|]. cbn.
        destruct (g' !! k) eqn:Eg; [eauto|]. exfalso. apply Hnd.
        exists (k, q). split; [symmetry; assumption|]. apply elem_of_map_to_list.
        apply map_filter_lookup_Some. split; [assumption|]. cbn. exact Eg.
      + intros (k & q & Hk & Hq). apply map_filter_lookup_Some in Hk. destruct Hk as [Hk Hs].
        cbn in Hs. split; [eauto|]. intros ([k2 q2] & Hq2 & Hin).
        apply elem_of_map_to_list in Hin. apply map_filter_lookup_Some in Hin.
        destruct Hin as [Hk2 Hn]. cbn in Hn, Hq2.
        assert (k2 = k) by (eapply H4; eauto; congruence). subst k2.
        destruct Hs as [v Hv]. congruence.
    - intros g1 g2 q1 q2 Hg1 Hg2. apply map_filter_lookup_Some in Hg1, Hg2.
      destruct Hg1 as [Hg1 _], Hg2 as [Hg2 _]. eauto.
    - intros k [q Hq]. apply map_filter_lookup_Some in Hq. destruct Hq as [Hq _]. apply H5. eauto.
  Qed.

  (** ** lists of layers *)
  Definition sig (l : layer) : str * str := (l_name l, l_path l).

  Lemma nodup_remove_mid {B} (xs ys : list B) a :
    NoDup (xs ++ a :: ys) -> NoDup (xs ++ ys) /\ a ∉ xs ++ ys.
  Proof.
    rewrite !NoDup_app, NoDup_cons. intros (H1 & H2 & H3 & H4). split; [split; [assumption|split; [|assumption]]|].
    - intros x Hx Hy. apply (H2 x Hx). right. assumption.
    - rewrite elem_of_app. intros [Hx|Hy]; [|contradiction]. apply (H2 a Hx). left.
  Qed.
  Lemma nodup_replace_mid {B} (xs ys : list B) a b :
    NoDup (xs ++ a :: ys) -> b ∉ xs ++ ys -> NoDup (xs ++ b :: ys).
  Proof.
    rewrite !NoDup_app, !NoDup_cons, elem_of_app. intros (H1 & H2 & H3 & H4) Hb.
    split; [assumption|split; [|split; [tauto|assumption]]].
    intros x Hx. rewrite elem_of_cons. intros [->|Hy]; [tauto|]. apply (H2 x Hx). right. assumption.
  Qed.
  Lemma nodup_snoc {B} (xs : list B) b : NoDup xs -> b ∉ xs -> NoDup (xs ++ [b]).
  Proof.
    intros H1 H2. apply NoDup_app. split; [assumption|split; [|apply NoDup_singleton]].
    intros x Hx Hy. apply elem_of_list_singleton in Hy. subst. contradiction.
  Qed.

  Lemma has_name_true n l : has_name n l = true <-> l_name l = n.
  Proof. unfold has_name. apply bool_decide_eq_true. Qed.
  Lemma has_name_false n l : has_name n l = false <-> l_name l <> n.
  Proof. unfold has_name. apply bool_decide_eq_false. Qed.

  Lemma existsb_has_name n ls : existsb (has_name n) ls = true <-> n ∈ l_name <$> ls.
  Proof.
    induction ls as [|l r IH]; cbn.
    - split; [discriminate|]. intros H. apply elem_of_nil in H. contradiction.
    - rewrite orb_true_iff, IH, elem_of_cons, has_name_true. split; intros [H|H]; auto.
  Qed.
  Lemma existsb_has_name_false n ls : existsb (has_name n) ls = false <-> n ∉ l_name <$> ls.
  Proof. rewrite <- existsb_has_name. destruct (existsb _ _); split; intros; congruence. Qed.

  (** the first layer called [n], with what comes before and after *)
  Lemma find_split n ls l : List.find (has_name n) ls = Some l ->
    exists pre post, ls = pre ++ l :: post /\ l_name l = n /\ Forall (fun x => l_name x <> n) pre.
  Proof.
    induction ls as [|x r IH]; cbn; [discriminate|]. destruct (has_name n x) eqn:E.
    - intros [= <-]. exists [], r. split; [reflexivity|]. split; [apply has_name_true; exact E|constructor].
    - intros H. destruct (IH H) as (pre & post & -> & Hn & Hp). exists (x :: pre), post.
      split; [reflexivity|]. split; [assumption|]. constructor; [apply has_name_false; exact E|assumption].
  Qed.
  Lemma find_none_names n ls : List.find (has_name n) ls = None -> n ∉ l_name <$> ls.
  Proof.
    induction ls as [|x r IH]; cbn; [intros _; apply not_elem_of_nil|].
    destruct (has_name n x) eqn:E; [discriminate|]. intros H. apply not_elem_of_cons.
    split; [apply has_name_false in E; congruence|auto].
  Qed.
  Lemma update_first_split n f pre l post :
    l_name l = n -> Forall (fun x => l_name x <> n) pre ->
    update_first n f (pre ++ l :: post) = pre ++ f l :: post.
  Proof.
    intros Hl Hp. induction Hp as [|x pre Hx Hp IH]; cbn.
    - apply has_name_true in Hl. rewrite Hl. reflexivity.
    - apply has_name_false in Hx. rewrite Hx, IH. reflexivity.
  Qed.
  Lemma find_app_first n pre l post :
    l_name l = n -> Forall (fun x => l_name x <> n) pre ->
    List.find (has_name n) (pre ++ l :: post) = Some l.
  Proof.
    intros Hl Hp. induction Hp as [|x pre Hx Hp IH]; cbn.
    - apply has_name_true in Hl. rewrite Hl. reflexivity.
    - apply has_name_false in Hx. rewrite Hx. exact IH.
  Qed.
  Lemma remove_first_split n ls l r : remove_first n ls = Some (l, r) ->
    exists pre post, ls = pre ++ l :: post /\ r = pre ++ post /\ l_name l = n /\
                     Forall (fun x => l_name x <> n) pre.
  Proof.
    revert r. induction ls as [|x t IH]; intros r; cbn; [discriminate|]. destruct (has_name n x) eqn:E.
    - intros [= <- <-]. exists [], t. repeat split; [apply has_name_true; exact E|constructor].
    - destruct (remove_first n t) as [[y t']|] eqn:Er; [|discriminate]. intros [= <- <-].
      destruct (IH _ eq_refl) as (pre & post & -> & -> & Hn & Hp). exists (x :: pre), post.
      repeat split; [assumption|]. constructor; [apply has_name_false; exact E|assumption].
  Qed.
  Lemma remove_first_none n ls : remove_first n ls = None -> n ∉ l_name <$> ls.
  Proof.
    induction ls as [|x t IH]; cbn; [intros _; apply not_elem_of_nil|].
    destruct (has_name n x) eqn:E; [discriminate|].
    destruct (remove_first n t) as [[y t']|]; [discriminate|]. intros _. apply not_elem_of_cons.
    split; [apply has_name_false in E; congruence|auto].
  Qed.

  (** ** the invariant in terms of the (name, directory) list *)
  Definition SInv (sigs : list (str * str)) (ps : gset str) : Prop :=
    NoDup sigs.*1 /\ Forall (fun x => name_validb x.1 = true) sigs /\
    exists d rest, sigs = d :: rest /\ d.2 = DEFAULT_GLYPHS_DIRNAME /\
      Forall (fun x => x.2 <> DEFAULT_GLYPHS_DIRNAME /\ x.1 <> DEFAULT_LAYER_NAME /\ lower x.2 ∈ ps) rest /\
      NoDup ((fun x => lower x.2) <$> rest).

  Lemma Inv_alt s : Inv s <-> SInv (sig <$> layers s) (lpset s) /\ Forall LInv (layers s).
  Proof.
    unfold Layer.Inv, SInv. rewrite <- list_fmap_compose. split.
    - intros (H1 & (d & rest & E & Hd & F1 & F2 & F3 & N) & V & L). split; [|assumption].
      split; [exact H1|]. split; [apply Forall_fmap; exact V|].
      exists (sig d), (sig <$> rest). rewrite E. split; [reflexivity|]. split; [exact Hd|].
      split.
      + apply Forall_fmap. apply Forall_forall. intros x Hx. cbn.
        rewrite Forall_forall in F1, F2, F3. auto.
      + rewrite <- list_fmap_compose. exact N.
    - intros ((H1 & V & (d' & rest' & E & Hd & F & N)) & L).
      destruct (layers s) as [|d rest] eqn:El; [discriminate|]. cbn in E. injection E as <- <-.
      split; [exact H1|]. split; [|split; [apply Forall_fmap in V; exact V|assumption]].
      exists d, rest. split; [reflexivity|]. split; [exact Hd|].
      apply Forall_fmap in F. rewrite <- list_fmap_compose in N.
      repeat split; try exact N; eapply Forall_impl; try exact F; cbn; tauto.
  Qed.

  Lemma update_first_sig n f ls l :
    List.find (has_name n) ls = Some l -> sig (f l) = sig l ->
    sig <$> update_first n f ls = sig <$> ls.
  Proof.
    intros Hf Hs. destruct (find_split _ _ _ Hf) as (pre & post & -> & Hn & Hp).
    rewrite update_first_split by assumption. rewrite !fmap_app, !fmap_cons, Hs. reflexivity.
  Qed.
  Lemma update_first_Forall (P : layer -> Prop) n f ls l :
    List.find (has_name n) ls = Some l -> (P l -> P (f l)) -> Forall P ls -> Forall P (update_first n f ls).
  Proof.
    intros Hf Hs. destruct (find_split _ _ _ Hf) as (pre & post & -> & Hn & Hp).
    rewrite update_first_split by assumption. rewrite !Forall_app, !Forall_cons. tauto.
  Qed.
  Lemma update_first_id n ls l : List.find (has_name n) ls = Some l -> update_first n (fun _ => l) ls = ls.
  Proof.
    intros Hf. destruct (find_split _ _ _ Hf) as (pre & post & -> & Hn & Hp).
    apply update_first_split; assumption.
  Qed.

  Lemma on_layer_inv s ln f :
    Inv s -> (forall l, LInv l -> LInv (f l).1 /\ sig (f l).1 = sig l) -> Inv (on_layer s ln f).1.
  Proof.
    intros HI Hf. unfold on_layer, get_layer. destruct (List.find (has_name ln) (layers s)) as [l|] eqn:E; [|exact HI].
    destruct (f l) as [l' o] eqn:Ef. cbn [fst]. apply Inv_alt in HI. destruct HI as [HS HL].
    assert (Hl : LInv l).
    { rewrite Forall_forall in HL. apply HL. destruct (find_split _ _ _ E) as (pre & post & -> & _).
      apply elem_of_app. right. left. }
    destruct (Hf l Hl) as [Hl' Hs]. rewrite Ef in Hl', Hs. cbn [fst] in Hl', Hs.
    apply Inv_alt. cbn [layers lpset]. split.
    - rewrite (update_first_sig ln (fun _ => l') _ l E Hs). exact HS.
    - eapply update_first_Forall; eauto.
  Qed.

  Notation new_layer := (new_layer is_upper lower).
  Notation get_or_create_layer := (get_or_create_layer is_upper lower).
  Notation remove_layer := (remove_layer lower).
  Notation rename_layer := (rename_layer is_upper lower).

  Lemma SInv_parts s : Inv s -> exists d rest, layers s = d :: rest /\ l_path d = DEFAULT_GLYPHS_DIRNAME.
  Proof. intros (_ & (d & rest & E & Hd & _) & _). eauto. Qed.

  Lemma inv_init : Inv init.
  Proof.
    split; [|split; [|split]].
    - cbn. apply NoDup_singleton.
    - exists default_layer, []. split; [reflexivity|]. split; [reflexivity|]. repeat split; constructor.
    - apply Forall_singleton. reflexivity.
    - apply Forall_singleton. apply LInv_empty.
  Qed.

  Lemma sigs_names ls : (sig <$> ls).*1 = l_name <$> ls.
  Proof. rewrite <- list_fmap_compose. reflexivity. Qed.

  (** *** new_layer *)
  Lemma new_layer_inv s n : Inv s -> Inv (new_layer s n).1.
  Proof.
    intros HI. unfold Layer.new_layer.
    destruct (bool_decide (n = DEFAULT_LAYER_NAME)) eqn:E1; [exact HI|]. apply bool_decide_eq_false in E1.
    destruct (existsb (has_name n) (layers s)) eqn:E2; [exact HI|]. apply existsb_has_name_false in E2.
    destruct (negb (name_validb n)) eqn:E3; [exact HI|]. apply negb_false_iff in E3.
    destruct (dir_name n (lpset s)) as [p|] eqn:E4; [|exact HI]. cbn [fst].
    pose proof (dir_name_fresh _ _ _ E4) as Hf. pose proof (dir_name_not_default _ _ _ E3 E4) as Hnd.
    apply Inv_alt in HI. destruct HI as [(N1 & V & (d & rest & E & Hd & F & N2)) HL].
    apply Inv_alt. cbn [layers lpset]. split.
    - rewrite fmap_app. cbn [fmap list_fmap]. split; [|split].
      + rewrite fmap_app. cbn. apply nodup_snoc; [exact N1|]. rewrite sigs_names. exact E2.
      + apply Forall_app. split; [exact V|]. repeat constructor. exact E3.
      + exists d, (rest ++ [sig (new_layer_value n p)]). rewrite E. split; [reflexivity|]. split; [exact Hd|]. split.
        * apply Forall_app. split.
          -- eapply Forall_impl; [exact F|]. cbn. intros x (? & ? & ?). repeat split; try assumption. set_solver.
          -- repeat constructor; cbn; try assumption. set_solver.
        * rewrite fmap_app. cbn. apply nodup_snoc; [exact N2|].
          intros Hin. apply elem_of_list_fmap in Hin. destruct Hin as (x & Hx & Hin).
          rewrite Forall_forall in F. destruct (F x Hin) as (_ & _ & Hps). apply Hf. rewrite Hx. exact Hps.
    - apply Forall_app. split; [exact HL|]. apply Forall_singleton. apply LInv_empty.
  Qed.

  (** *** remove_layer *)
  Lemma remove_layer_inv s n : Inv s -> Inv (remove_layer s n).1.
  Proof.
    intros HI. unfold Layer.remove_layer. destruct (layers s) as [|d0 rest0] eqn:El; [exact HI|].
    destruct (remove_first n rest0) as [[l rest']|] eqn:Er; [|exact HI]. cbn [fst].
    destruct (remove_first_split _ _ _ _ Er) as (pre & post & -> & -> & Hn & Hp).
    apply Inv_alt in HI. rewrite El in HI. destruct HI as [(N1 & V & (d & rest & E & Hd & F & N2)) HL].
    cbn in E. injection E as <- <-.
    apply Inv_alt. cbn [layers lpset]. split.
    - cbn [fmap list_fmap] in *. rewrite !fmap_app in *. cbn [fmap list_fmap] in *. split; [|split].
      + rewrite fmap_cons, fmap_app. apply NoDup_cons in N1. destruct N1 as [N1a N1b].
        apply nodup_remove_mid in N1b. destruct N1b as [N1b N1c]. apply NoDup_cons. split; [|exact N1b].
        intros Hin. apply N1a. rewrite elem_of_app in *. rewrite elem_of_cons. tauto.
      + rewrite Forall_cons, Forall_app, Forall_cons in V. rewrite Forall_cons, Forall_app. tauto.
      + exists (sig d0), ((sig <$> pre) ++ (sig <$> post)). split; [reflexivity|]. split; [exact Hd|].
        apply nodup_remove_mid in N2. destruct N2 as [N2a N2b].
        split; [|rewrite fmap_app; exact N2a].
        rewrite Forall_app, Forall_cons in F. destruct F as (Fa & _ & Fb).
        rewrite <- fmap_app in N2b. apply Forall_app. split.
        * apply Forall_forall. intros x Hx. rewrite Forall_forall in Fa. destruct (Fa x Hx) as (? & ? & ?).
          repeat split; try assumption. apply elem_of_difference. split; [assumption|].
          rewrite elem_of_singleton. intros Heq. apply N2b. apply elem_of_list_fmap. exists x.
          split; [symmetry; exact Heq|]. apply elem_of_app. left. exact Hx.
        * apply Forall_forall. intros x Hx. rewrite Forall_forall in Fb. destruct (Fb x Hx) as (? & ? & ?).
          repeat split; try assumption. apply elem_of_difference. split; [assumption|].
          rewrite elem_of_singleton. intros Heq. apply N2b. apply elem_of_list_fmap. exists x.
          split; [symmetry; exact Heq|]. apply elem_of_app. right. exact Hx.
    - rewrite Forall_cons, Forall_app, Forall_cons in HL. rewrite Forall_cons, Forall_app. tauto.
  Qed.

  Lemma remove_layer_head s n d rest : layers s = d :: rest ->
    exists rest', layers (remove_layer s n).1 = d :: rest' /\
                  (forall m, m <> n -> (m ∈ l_name <$> rest' <-> m ∈ l_name <$> rest)) /\
                  (NoDup (l_name <$> rest) -> n ∉ l_name <$> rest').
  Proof.
    intros El. unfold Layer.remove_layer. rewrite El.
    destruct (remove_first n rest) as [[l rest']|] eqn:Er; cbn [fst layers].
    - exists rest'. split; [reflexivity|].
      destruct (remove_first_split _ _ _ _ Er) as (pre & post & -> & -> & Hn & Hp). split.
      + intros m Hm. rewrite !fmap_app, fmap_cons, !elem_of_app, elem_of_cons. split; [tauto|].
        intros [?|[?|?]]; [tauto|congruence|tauto].
      + intros ND. rewrite fmap_app, fmap_cons in ND. apply nodup_remove_mid in ND.
        rewrite Hn in ND. rewrite fmap_app. tauto.
    - rewrite El. exists rest. split; [reflexivity|]. split; [tauto|].
      intros _. apply remove_first_none. exact Er.
  Qed.

  (** *** rename_layer *)
  Lemma LInv_with_name l n : LInv (with_name l n) <-> LInv l.
  Proof. reflexivity. Qed.
  Lemma LInv_with_path l p : LInv (with_path l p) <-> LInv l.
  Proof. reflexivity. Qed.

  Lemma rename_layer_inv s old new ow :
    Inv s -> (forall site, (rename_layer s old new ow).2 <> OPanic site) -> Inv (rename_layer s old new ow).1.
  Proof.
    intros HI. unfold Layer.rename_layer.
    destruct (negb ow && existsb (has_name new) (layers s)) eqn:G1; [intros _; exact HI|].
    destruct (negb (existsb (has_name old) (layers s))) eqn:G2; [intros _; exact HI|].
    apply negb_false_iff in G2.
    destruct (layers s) as [|d0 rest0] eqn:El; [intros _; exact HI|].
    destruct (bool_decide (new = DEFAULT_LAYER_NAME) && negb (has_name old d0)) eqn:G3; [intros _; exact HI|].
    destruct (bool_decide (old = new)) eqn:G4; [intros _; exact HI|]. apply bool_decide_eq_false in G4.
    destruct (has_name new d0) eqn:G5; [intros _; exact HI|]. apply has_name_false in G5.
    destruct (negb (name_validb new)) eqn:G6; [intros _; exact HI|]. apply negb_false_iff in G6.
    set (s1 := if ow then (remove_layer s new).1 else s).
    assert (HI1 : Inv s1) by (unfold s1; destruct ow; [apply remove_layer_inv|]; exact HI).
    (* shape of s1: same head, [new] is gone, [old] is still there *)
    assert (Hs1 : exists rest, layers s1 = d0 :: rest /\ new ∉ l_name <$> rest /\
                               (old ∈ l_name <$> rest <-> old ∈ l_name <$> rest0)).
    { unfold s1. destruct ow.
      - destruct (remove_layer_head s new d0 rest0 El) as (rest' & E1 & E2 & E3). exists rest'.
        split; [exact E1|]. split; [|apply E2; congruence].
        apply E3. destruct HI as (N & _). rewrite El, fmap_cons in N. apply NoDup_cons in N. tauto.
      - exists rest0. split; [exact El|]. split; [|tauto]. cbn in G1.
        apply orb_false_iff in G1. destruct G1 as [_ G1].
        apply existsb_has_name_false. exact G1. }
    destruct Hs1 as (rest & E1 & Hnew & Hold). rewrite E1.
    destruct (has_name old d0) eqn:G7.
    - (* the default layer is renamed: only its name changes *)
      intros _. cbn [fst]. apply Inv_alt in HI1. rewrite E1 in HI1.
      destruct HI1 as [(N1 & V & (d & rest' & E & Hd & F & N2)) HL]. cbn in E. injection E as <- <-.
      apply Inv_alt. cbn [layers lpset]. split.
      + cbn [fmap list_fmap] in *. split; [|split].
        * rewrite fmap_cons in *. apply NoDup_cons in N1. apply NoDup_cons. split; [|tauto].
          cbn. rewrite sigs_names. exact Hnew.
        * rewrite Forall_cons in *. cbn. tauto.
        * exists (new, l_path d0), (sig <$> rest). split; [reflexivity|]. split; [exact Hd|]. tauto.
      + rewrite Forall_cons in *. tauto.
    - (* a non-default layer is renamed: new directory *)
      apply has_name_false in G7.
      assert (Hin : old ∈ l_name <$> rest).
      { apply Hold. apply existsb_has_name in G2. rewrite fmap_cons, elem_of_cons in G2.
        destruct G2 as [G2|G2]; [congruence|exact G2]. }
      destruct (List.find (has_name old) rest) as [l|] eqn:Ef;
        [|exfalso; apply (find_none_names _ _ Ef); exact Hin].
      destruct (dir_name new (lpset s1 ∖ {[lower (l_path l)]})) as [p|] eqn:Ep;
        [|intros Hp; exfalso; apply (Hp SITE_99_TRIES); reflexivity].
      intros _. cbn [fst].
      assert (Hnpd : new <> DEFAULT_LAYER_NAME).
      { intros ->. rewrite bool_decide_eq_true_2 in G3 by reflexivity. cbn in G3. discriminate. }
      pose proof (dir_name_fresh _ _ _ Ep) as Hf. pose proof (dir_name_not_default _ _ _ G6 Ep) as Hnd.
      destruct (find_split _ _ _ Ef) as (pre & post & -> & Hn & Hp).
      rewrite update_first_split by assumption.
      apply Inv_alt in HI1. rewrite E1 in HI1.
      destruct HI1 as [(N1 & V & (d & rest' & E & Hd & F & N2)) HL]. cbn in E. injection E as <- <-.
      rewrite !fmap_app, !fmap_cons in N2. pose proof (nodup_remove_mid _ _ _ N2) as [N2a N2b].
      rewrite fmap_app, fmap_cons, Forall_app, Forall_cons in F. destruct F as (Fa & Fl & Fb).
      assert (Hother : forall x, x ∈ pre ++ post -> lower (sig x).2 ∈ lpset s1 ∖ {[lower (l_path l)]}).
      { intros x Hx. apply elem_of_difference. split.
        - rewrite Forall_forall in Fa, Fb. apply elem_of_app in Hx.
          destruct Hx as [Hx|Hx]; [destruct (Fa (sig x))|destruct (Fb (sig x))];
            try (apply elem_of_list_fmap; eauto); tauto.
        - rewrite elem_of_singleton. intros Heq. apply N2b. rewrite <- fmap_app.
          apply elem_of_list_fmap. exists (sig x). split; [symmetry; exact Heq|].
          rewrite <- fmap_app. apply elem_of_list_fmap. eauto. }
      apply Inv_alt. cbn [layers lpset]. split.
      + cbn [fmap list_fmap]. rewrite !fmap_app, !fmap_cons. cbn [sig l_name l_path with_name with_path].
        split; [|split].
        * cbn [fmap list_fmap] in N1. rewrite fmap_cons, !fmap_app, !fmap_cons in *.
          apply NoDup_cons in N1. destruct N1 as [N1a N1b]. apply NoDup_cons. split.
          -- rewrite elem_of_app, elem_of_cons in *. cbn in *. intros [?|[?|?]]; [tauto|congruence|tauto].
          -- eapply nodup_replace_mid; [exact N1b|]. rewrite !sigs_names.
             rewrite elem_of_app, elem_of_cons in Hnew. rewrite elem_of_app. tauto.
        * cbn [fmap list_fmap] in V. rewrite fmap_app, fmap_cons in V.
          rewrite Forall_cons, Forall_app, Forall_cons in V.
          rewrite Forall_cons, Forall_app, Forall_cons. cbn. tauto.
        * exists (sig d0), ((sig <$> pre) ++ (new, p) :: (sig <$> post)). split; [reflexivity|].
          split; [exact Hd|]. split.
          -- rewrite Forall_app, Forall_cons. cbn. split; [|split; [split; [exact Hnd|split; [exact Hnpd|set_solver]]|]].
             ++ apply Forall_fmap. apply Forall_forall. intros x Hx. rewrite Forall_forall in Fa.
                destruct (Fa (sig x)) as (? & ? & ?); [apply elem_of_list_fmap; eauto|].
                repeat split; try assumption. apply elem_of_union. right. apply Hother. apply elem_of_app. tauto.
             ++ apply Forall_fmap. apply Forall_forall. intros x Hx. rewrite Forall_forall in Fb.
                destruct (Fb (sig x)) as (? & ? & ?); [apply elem_of_list_fmap; eauto|].
                repeat split; try assumption. apply elem_of_union. right. apply Hother. apply elem_of_app. tauto.
          -- rewrite fmap_app, fmap_cons. cbn. eapply nodup_replace_mid; [exact N2|].
             rewrite <- fmap_app. intros Hin'. apply elem_of_list_fmap in Hin'. destruct Hin' as (y & Hy & Hin').
             rewrite <- fmap_app in Hin'. apply elem_of_list_fmap in Hin'. destruct Hin' as (x & -> & Hx).
             apply Hf. rewrite Hy. apply Hother. exact Hx.
      + rewrite Forall_cons, !Forall_app, !Forall_cons in *. tauto.
  Qed.

  (** *** retain *)
  Lemma filter_elem (q : layer -> bool) ls x : x ∈ List.filter q ls -> x ∈ ls.
  Proof. rewrite !elem_of_list_In, filter_In. tauto. Qed.
  Lemma NoDup_fmap_filter {B} (f : layer -> B) (q : layer -> bool) ls :
    NoDup (f <$> ls) -> NoDup (f <$> List.filter q ls).
  Proof.
    induction ls as [|x t IH]; cbn; [auto|]. rewrite NoDup_cons. intros [H1 H2].
    destruct (q x); [|auto]. cbn. apply NoDup_cons. split; [|auto].
    intros Hin. apply H1. apply elem_of_list_fmap in Hin. destruct Hin as (y & Hy & Hin).
    apply elem_of_list_fmap. exists y. split; [assumption|]. eapply filter_elem. exact Hin.
  Qed.
  Lemma Forall_filter (P : layer -> Prop) (q : layer -> bool) ls : Forall P ls -> Forall P (List.filter q ls).
  Proof.
    intros H. apply Forall_forall. intros x Hx. rewrite Forall_forall in H. apply H. eapply filter_elem. exact Hx.
  Qed.

  Lemma filter_rest_inv s (q : layer -> bool) :
    Inv s -> (forall l, l_path l = DEFAULT_GLYPHS_DIRNAME -> q l = true) ->
    Inv (State (List.filter q (layers s)) (lpset s)).
  Proof.
    intros (N1 & (d & rest & E & Hd & F1 & F2 & F3 & N2) & V & HL) Hq.
    split; [|split; [|split]]; cbn [layers lpset].
    - apply NoDup_fmap_filter. exact N1.
    - exists d, (List.filter q rest). rewrite E. cbn [List.filter]. rewrite (Hq d Hd).
      split; [reflexivity|]. split; [exact Hd|].
      repeat split; try (apply Forall_filter; assumption). apply NoDup_fmap_filter. exact N2.
    - apply Forall_filter. exact V.
    - apply Forall_filter. exact HL.
  Qed.
  Lemma is_default_true l : l_path l = DEFAULT_GLYPHS_DIRNAME -> is_default l = true.
  Proof. intros H. unfold is_default. apply bool_decide_eq_true. exact H. Qed.

  (** *** save and load *)
  Notation load := (load lower).
  Definition dl (l : layer) : dlayer := (l_name l, l_path l, l_contents l).

  Lemma save_layers_ok ls : forall dirs,
    NoDup (l_path <$> ls) -> (forall l, l ∈ ls -> l_path l ∉ dirs) -> Forall LInv ls ->
    save_layers ls dirs = SOk (dl <$> ls).
  Proof.
    induction ls as [|l r IH]; intros dirs ND Hd HL; cbn; [reflexivity|].
    rewrite fmap_cons in ND. apply NoDup_cons in ND. destruct ND as [ND1 ND2].
    apply Forall_cons in HL. destruct HL as [Hl HL].
    rewrite bool_decide_eq_false_2 by (apply Hd; left).
    rewrite bool_decide_eq_true_2.
    - cbn. rewrite IH; [reflexivity|exact ND2| |exact HL].
      intros x Hx. rewrite elem_of_cons. intros [Heq|Hin].
      + apply ND1. apply elem_of_list_fmap. exists x. split; [symmetry; exact Heq|exact Hx].
      + apply (Hd x); [right; exact Hx|exact Hin].
    - intros k q Hk. destruct Hl as (H1 & _). apply H1. eauto.
  Qed.

  Lemma paths_nodup s : Inv s -> NoDup (l_path <$> layers s).
  Proof.
    intros (_ & (d & rest & E & Hd & F1 & _ & _ & N2) & _). rewrite E, fmap_cons. apply NoDup_cons. split.
    - intros Hin. apply elem_of_list_fmap in Hin. destruct Hin as (x & Hx & Hin).
      rewrite Forall_forall in F1. apply (F1 x Hin). congruence.
    - apply (NoDup_fmap_1 lower). rewrite <- list_fmap_compose. exact N2.
  Qed.

  Lemma load_layer_dl l : LInv l -> load_layer lower (dl l) = l.
  Proof.
    intros (H1 & H2 & H3 & _). destruct l as [n p g c ps]. unfold dl, load_layer. cbn in *. f_equal.
    - apply map_eq. intros k. rewrite map_lookup_imap. destruct (c !! k) as [q|] eqn:Ec; cbn.
      + destruct (proj1 (H1 k)) as [v Hv]; [eauto|]. rewrite Hv. f_equal. symmetry. eauto.
      + destruct (g !! k) as [v|] eqn:Eg; [|reflexivity]. destruct (proj2 (H1 k)) as [q Hq]; [eauto|]. congruence.
    - apply set_eq. intros x. rewrite elem_of_list_to_set, elem_of_list_fmap, H3. split.
      + intros ([k q] & Hq & Hin). apply elem_of_map_to_list in Hin. exists k, q. cbn in Hq. auto.
      + intros (k & q & Hk & Hq). exists (k, q). split; [symmetry; exact Hq|]. apply elem_of_map_to_list. exact Hk.
  Qed.

  Lemma save_ok s : Inv s -> save s = SOk (dl <$> layers s).
  Proof.
    intros HI. unfold save. apply save_layers_ok; [apply paths_nodup; exact HI|intros l _; apply not_elem_of_nil|].
    destruct HI as (_ & _ & _ & HL). exact HL.
  Qed.

  Lemma load_layers_dl ls : Forall LInv ls -> load_layer lower <$> (dl <$> ls) = ls.
  Proof.
    intros HL. induction HL as [|x t Hx Ht IH]; [reflexivity|]. cbn. cbn in IH. rewrite IH.
    f_equal. apply load_layer_dl. exact Hx.
  Qed.

  (** whatever [load] makes of a saved consistent font has exactly its layers *)
  Lemma load_saved s s' : Inv s -> load (dl <$> layers s) = Some s' -> layers s' = layers s /\ Inv s'.
  Proof.
    intros HI. pose proof HI as (N1 & (d & rest & E & Hd & F1 & F2 & F3 & N2) & V & HL).
    unfold Layer.load. destruct (negb (forallb _ _)); [discriminate|]. destruct (negb (disk_checked _ _)); [discriminate|].
    rewrite (load_layers_dl _ HL), E. cbn [split_default]. rewrite (is_default_true d Hd).
    intros [= <-]. cbn [layers lpset]. split; [reflexivity|].
    split; [|split; [|split]]; cbn [layers lpset].
    - rewrite <- E. exact N1.
    - exists d, rest. repeat split; try assumption.
      apply Forall_forall. intros x Hx. apply elem_of_list_to_set. apply elem_of_list_fmap. eauto.
    - rewrite <- E. exact V.
    - rewrite <- E. exact HL.
  Qed.

  (** ** one step *)
  Lemma entry_noop_insert l key g : l_glyphs l !! key <> None -> entry_or_insert l key g = l.
  Proof. unfold entry_or_insert. destruct (l_glyphs l !! key); [reflexivity|congruence]. Qed.
  Lemma entry_noop_remove l key : l_glyphs l !! key = None -> entry_remove l key = l.
  Proof. intros H. unfold entry_remove, with_glyphs. rewrite delete_notin by exact H. destruct l; reflexivity. Qed.
  Lemma on_layer_id s ln (f : layer -> layer * out) :
    (forall l, get_layer s ln = Some l -> (f l).1 = l) -> (on_layer s ln f).1 = s.
  Proof.
    intros Hf. unfold on_layer. destruct (get_layer s ln) as [l|] eqn:E; [|reflexivity].
    specialize (Hf l eq_refl). destruct (f l) as [l' o]. cbn in *. subst l'.
    unfold get_layer in E. rewrite (update_first_id _ _ _ E). destruct s; reflexivity.
  Qed.

  Notation KnownOp := (KnownOp).
  Theorem inv_step s o :
    Inv s -> ~ KnownOp s o -> (forall site, (step s o).2 <> OPanic site) -> Inv (step s o).1.
  Proof.
    intros HI HK HP. destruct o; cbn [Layer.step] in *.
    - (* InsertGlyph *)
      destruct (negb (name_validb g)) eqn:Ev; [exact HI|]. apply negb_false_iff in Ev.
      apply on_layer_inv; [exact HI|]. intros l Hl.
      destruct (insert_glyph l g) as [l'|] eqn:Ei; cbn [fst]; [|auto].
      destruct (LInv_insert _ _ _ Ev Hl Ei) as (H1 & H2 & H3). split; [exact H1|]. unfold sig. congruence.
    - apply on_layer_inv; [exact HI|]. intros l Hl. cbn [fst]. split; [apply LInv_remove; exact Hl|reflexivity].
    - apply on_layer_inv; [exact HI|]. intros l Hl.
      destruct (LInv_rename l old new overwrite Hl) as (H1 & H2 & H3). split; [exact H1|]. unfold sig. congruence.
    - apply on_layer_inv; [exact HI|]. intros l Hl. cbn [fst]. split; [apply LInv_clear|reflexivity].
    - apply on_layer_inv; [exact HI|]. intros l Hl. cbn [fst]. split; [apply LInv_retain; exact Hl|reflexivity].
    - (* EntryOrInsert outside the known class changes nothing *)
      destruct (negb (name_validb key)) eqn:Ek; [exact HI|]. apply negb_false_iff in Ek.
      destruct (negb (name_validb g)) eqn:Eg; [exact HI|]. apply negb_false_iff in Eg.
      rewrite on_layer_id; [exact HI|]. intros l Hl. cbn [fst]. apply entry_noop_insert.
      intros Hn. apply HK. cbn. eauto.
    - rewrite on_layer_id; [exact HI|]. intros l Hl. cbn [fst]. apply entry_noop_remove.
      destruct (l_glyphs l !! key) eqn:E; [|reflexivity]. exfalso. apply HK. cbn. eauto.
    - rewrite on_layer_id; [exact HI|]. reflexivity.
    - apply new_layer_inv. exact HI.
    - unfold Layer.get_or_create_layer. destruct (existsb _ _); [exact HI|apply new_layer_inv; exact HI].
    - apply remove_layer_inv. exact HI.
    - apply rename_layer_inv; assumption.
    - cbn [fst]. apply filter_rest_inv; [exact HI|]. intros l Hl. rewrite (is_default_true l Hl). reflexivity.
    - cbn [fst]. apply filter_rest_inv; [exact HI|]. intros l Hl. rewrite (is_default_true l Hl). reflexivity.
    - rewrite (save_ok s HI). destruct (load (dl <$> layers s)) as [s'|] eqn:El; cbn [fst]; [|exact HI].
      apply (load_saved s s' HI El).
  Qed.

  (** ** an operation that reports an error leaves the state unchanged *)
  Lemma state_eta s : State (layers s) (lpset s) = s.
  Proof. destruct s; reflexivity. Qed.
  Lemma on_layer_err s ln f e :
    (on_layer s ln f).2 = OErr e -> (forall l e', (f l).2 = OErr e' -> (f l).1 = l) -> (on_layer s ln f).1 = s.
  Proof.
    unfold on_layer. destruct (get_layer s ln) as [l|] eqn:E; [|reflexivity].
    destruct (f l) as [l' o] eqn:Ef. cbn. intros -> Hf. specialize (Hf l e). rewrite Ef in Hf.
    cbn in Hf. rewrite (Hf eq_refl). unfold get_layer in E. rewrite (update_first_id _ _ _ E). apply state_eta.
  Qed.

  Theorem error_is_noop s o e : (step s o).2 = OErr e -> (step s o).1 = s.
  Proof.
    destruct o; cbn [Layer.step].
    - destruct (negb (name_validb g)); [discriminate|]. intros H. eapply on_layer_err; [exact H|].
      intros l e'. destruct (insert_glyph l g); cbn; [discriminate|reflexivity].
    - intros H. eapply on_layer_err; [exact H|]. intros l e'. cbn. destruct (bool_decide _); discriminate.
    - intros H. eapply on_layer_err; [exact H|]. intros l e'. unfold Layer.rename_glyph.
      destruct (negb overwrite && _); [reflexivity|]. destruct (negb (bool_decide _)); [reflexivity|].
      destruct (negb (name_validb new)); [reflexivity|].
      destruct (insert_glyph _ _); cbn; discriminate.
    - intros H. eapply on_layer_err; [exact H|]. intros l e'. cbn. discriminate.
    - intros H. eapply on_layer_err; [exact H|]. intros l e'. cbn. discriminate.
    - destruct (negb (name_validb key)); [reflexivity|]. destruct (negb (name_validb g)); [discriminate|].
      intros H. eapply on_layer_err; [exact H|]. intros l e'. cbn. discriminate.
    - intros H. eapply on_layer_err; [exact H|]. intros l e'. cbn. discriminate.
    - intros H. eapply on_layer_err; [exact H|]. intros l e'. cbn. discriminate.
    - unfold Layer.new_layer. repeat (destruct (_ : bool); [reflexivity|]). destruct (dir_name _ _); cbn; discriminate.
    - unfold Layer.get_or_create_layer. destruct (existsb _ _); [discriminate|].
      unfold Layer.new_layer. repeat (destruct (_ : bool); [reflexivity|]). destruct (dir_name _ _); cbn; discriminate.
    - unfold Layer.remove_layer. destruct (layers s); [discriminate|]. destruct (remove_first _ _) as [[? ?]|]; discriminate.
    - unfold Layer.rename_layer. destruct (negb overwrite && _); [reflexivity|].
      destruct (negb (existsb _ _)); [reflexivity|]. destruct (layers s) as [|d0 r0]; [discriminate|].
      destruct (bool_decide _ && _); [reflexivity|]. destruct (bool_decide (old = new)); [reflexivity|].
      destruct (has_name new d0); [reflexivity|]. destruct (negb (name_validb new)); [reflexivity|].
      destruct (layers _) as [|d r]; [discriminate|]. destruct (has_name old d); [discriminate|].
      destruct (List.find _ _); [|discriminate]. destruct (dir_name _ _); discriminate.
    - discriminate.
    - discriminate.
    - destruct (save s) as [d| |site]; [|reflexivity|discriminate].
      destruct (load d); [discriminate|reflexivity].
  Qed.

  (** ** histories *)
  Notation run := (run is_upper lower).
  Notation clean := (clean is_upper lower).
  Theorem reachable ops : forall s s', Inv s -> clean s ops -> run s ops = Some s' -> Inv s'.
  Proof.
    induction ops as [|o r IH]; intros s s' HI Hc; cbn [Layer.run].
    - intros [= <-]. exact HI.
    - destruct Hc as [Hk Hc]. pose proof (inv_step s o HI Hk) as Hstep.
      destruct (step s o) as [s1 out] eqn:Es. cbn [fst snd] in *.
      destruct out; try (apply IH; [apply Hstep; intros site; discriminate|exact Hc]).
      discriminate.
  Qed.

  (** ** C07 at container level *)
  Theorem inv_distinct s : Inv s -> distinct_paths lower s.
  Proof.
    intros HI. pose proof (paths_nodup s HI) as HP.
    destruct HI as (_ & (d & rest & E & _ & _ & _ & _ & N2) & _ & HL). split; [|split].
    - intros l g1 g2 q1 q2 Hl. rewrite Forall_forall in HL. destruct (HL l Hl) as (_ & _ & _ & H4 & _). apply H4.
    - rewrite E. exact N2.
    - exact HP.
  Qed.

  Lemma find_app_l (p : layer -> bool) a b x : List.find p a = Some x -> List.find p (a ++ b) = Some x.
  Proof. induction a as [|y t IH]; cbn; [discriminate|]. destruct (p y); auto. Qed.
  Lemma find_mid_irrelevant ln pre post x x' :
    l_name x <> ln -> l_name x' <> ln ->
    List.find (has_name ln) (pre ++ x' :: post) = List.find (has_name ln) (pre ++ x :: post).
  Proof.
    intros H1 H2. induction pre as [|y t IH]; cbn.
    - apply has_name_false in H1, H2. rewrite H1, H2. reflexivity.
    - destruct (has_name ln y); [reflexivity|exact IH].
  Qed.
  Lemma find_mid_removed ln pre post x :
    l_name x <> ln -> List.find (has_name ln) (pre ++ post) = List.find (has_name ln) (pre ++ x :: post).
  Proof.
    intros H1. induction pre as [|y t IH]; cbn.
    - apply has_name_false in H1. rewrite H1. reflexivity.
    - destruct (has_name ln y); [reflexivity|exact IH].
  Qed.
  Lemma find_mid_replaced ln pre post x x' :
    l_name x = ln -> l_name x' = ln -> Forall (fun y => l_name y <> ln) pre ->
    List.find (has_name ln) (pre ++ x' :: post) = Some x'.
  Proof. intros _ H2 Hp. apply find_app_first; assumption. Qed.
  Lemma find_filter_keep ln (q : layer -> bool) ls :
    (forall x, l_name x = ln -> q x = true) ->
    List.find (has_name ln) (List.filter q ls) = List.find (has_name ln) ls.
  Proof.
    intros Hq. induction ls as [|y t IH]; cbn; [reflexivity|]. destruct (has_name ln y) eqn:E.
    - apply has_name_true in E. rewrite (Hq y E). cbn. apply has_name_true in E. rewrite E. reflexivity.
    - destruct (q y); cbn; [rewrite E|]; exact IH.
  Qed.

  Lemma get_layer_on_layer s ln0 l0 f ln :
    get_layer s ln0 = Some l0 -> l_name (f l0).1 = l_name l0 ->
    get_layer (on_layer s ln0 f).1 ln = if decide (ln = ln0) then Some (f l0).1 else get_layer s ln.
  Proof.
    intros E Hn. unfold on_layer. rewrite E. destruct (f l0) as [l' o]. cbn in *. unfold get_layer in *. cbn.
    destruct (find_split _ _ _ E) as (pre & post & El & Hl & Hp). rewrite El.
    rewrite update_first_split by assumption. destruct (decide (ln = ln0)) as [->|Hne].
    - apply find_app_first; [congruence|assumption].
    - apply find_mid_irrelevant; congruence.
  Qed.

  Lemma insert_keeps l g' l' g q :
    insert_glyph l g' = Some l' -> l_contents l !! g = Some q -> l_contents l' !! g = Some q.
  Proof.
    unfold Layer.insert_glyph. destruct (l_contents l !! g') eqn:E.
    - intros [= <-]. auto.
    - destruct (glif_name _ _); [|discriminate]. intros [= <-] Hg. cbn.
      rewrite lookup_insert_ne; [exact Hg|]. intros ->. congruence.
  Qed.

  Lemma insert_sig l g l' : insert_glyph l g = Some l' -> l_name l' = l_name l /\ l_path l' = l_path l.
  Proof.
    unfold Layer.insert_glyph. destruct (l_contents l !! g); [intros [= <-]; auto|].
    destruct (glif_name _ _); [intros [= <-]; auto|discriminate].
  Qed.
  Lemma rename_sig l old new ow :
    l_name (rename_glyph l old new ow).1 = l_name l /\ l_path (rename_glyph l old new ow).1 = l_path l.
  Proof.
    unfold Layer.rename_glyph. destruct (negb ow && _); [auto|]. destruct (negb (bool_decide _)); [auto|].
    destruct (negb (name_validb new)); [auto|].
    destruct (insert_glyph (remove_glyph l old) new) as [l2|] eqn:Ei; cbn [fst]; [|auto].
    apply insert_sig in Ei. destruct Ei as [-> ->]. auto.
  Qed.
  Lemma rename_keeps l old new ow g q :
    g <> old -> g <> new -> l_contents l !! g = Some q -> l_contents (rename_glyph l old new ow).1 !! g = Some q.
  Proof.
    intros H1 H2 Hg. unfold Layer.rename_glyph. destruct (negb ow && _); [auto|]. destruct (negb (bool_decide _)); [auto|].
    destruct (negb (name_validb new)); [auto|].
    assert (Hr : l_contents (remove_glyph l old) !! g = Some q) by (cbn; rewrite lookup_delete_ne by congruence; exact Hg).
    destruct (insert_glyph (remove_glyph l old) new) as [l2|] eqn:Ei; cbn [fst]; [|exact Hr].
    eapply insert_keeps; eauto.
  Qed.
  Lemma retain_keeps l keep g q :
    LInv l -> g ∈ keep -> l_contents l !! g = Some q -> l_contents (retain_glyphs l keep) !! g = Some q.
  Proof.
    intros (H1 & _) Hk Hg. cbn. apply map_filter_lookup_Some. split; [exact Hg|]. cbn.
    destruct (proj1 (H1 g)) as [v Hv]; [eauto|]. exists v. apply map_filter_lookup_Some. split; [exact Hv|exact Hk].
  Qed.

  Lemma on_layer_stable s ln0 (f : layer -> layer * out) ln l (P : str -> Prop) :
    (forall x, l_name (f x).1 = l_name x /\ l_path (f x).1 = l_path x) ->
    get_layer s ln = Some l ->
    (ln0 = ln -> forall g q, l_contents l !! g = Some q -> ~ P g -> l_contents (f l).1 !! g = Some q) ->
    exists l', get_layer (on_layer s ln0 f).1 ln = Some l' /\ l_path l' = l_path l /\
               (forall g q, l_contents l !! g = Some q -> ~ (ln0 = ln /\ P g) -> l_contents l' !! g = Some q).
  Proof.
    intros Hf Hl Hc. destruct (get_layer s ln0) as [l0|] eqn:E0.
    - rewrite (get_layer_on_layer s ln0 l0 f ln E0 (proj1 (Hf l0))). destruct (decide (ln = ln0)) as [->|Hne].
      + assert (l0 = l) by congruence. subst l0. exists (f l).1. split; [reflexivity|]. split; [apply Hf|].
        intros g q Hg Hn. apply Hc; [reflexivity|exact Hg|tauto].
      + exists l. split; [exact Hl|]. split; [reflexivity|]. auto.
    - unfold on_layer. rewrite E0. cbn. exists l. split; [exact Hl|]. split; [reflexivity|]. auto.
  Qed.

  Lemma get_layer_remove s n ln : ln <> n -> get_layer (remove_layer s n).1 ln = get_layer s ln.
  Proof.
    intros Hne. unfold Layer.remove_layer, get_layer. destruct s as [ls ps]. cbn [layers lpset].
    destruct ls as [|d rest]; [reflexivity|].
    destruct (remove_first n rest) as [[x rest']|] eqn:Er; cbn [fst layers]; [|reflexivity].
    destruct (remove_first_split _ _ _ _ Er) as (pre & post & -> & -> & Hn & Hp).
    cbn. destruct (has_name ln d); [reflexivity|]. apply find_mid_removed. congruence.
  Qed.

  (** what an operation does not name keeps its layer, its directory and its file name *)
  Lemma stable_core s o :
    Inv s -> (forall site, (step s o).2 <> OPanic site) ->
    forall ln l, get_layer s ln = Some l -> ~ touches_layer o ln ->
    exists l', get_layer (step s o).1 ln = Some l' /\ l_path l' = l_path l /\
               (forall g q, l_contents l !! g = Some q -> ~ touches_glyph o ln g -> l_contents l' !! g = Some q).
  Proof.
    intros HI HP ln l Hl Ht.
    assert (HLl : LInv l).
    { destruct HI as (_ & _ & _ & HL). rewrite Forall_forall in HL. apply HL. unfold get_layer in Hl.
      destruct (find_split _ _ _ Hl) as (pre & post & -> & _). apply elem_of_app. right. left. }
    assert (Hsame : exists l', get_layer s ln = Some l' /\ l_path l' = l_path l /\
               (forall g q, l_contents l !! g = Some q -> ~ touches_glyph o ln g -> l_contents l' !! g = Some q))
      by (exists l; auto).
    destruct o; cbn [Layer.step touches_layer touches_glyph] in *.
    - (* InsertGlyph *)
      destruct (negb (name_validb g)); [exact Hsame|].
      edestruct (on_layer_stable s ln0 (fun l => match insert_glyph l g with Some l' => (l', OOk) | None => (l, OPanic SITE_99_TRIES) end)
                                 ln l (fun _ => False)) as (l' & H1 & H2 & H3); [| exact Hl | |].
      + intros x. destruct (insert_glyph x g) as [x'|] eqn:Ei; cbn; [apply insert_sig in Ei; exact Ei|auto].
      + intros _ g0 q Hg _. destruct (insert_glyph l g) as [x'|] eqn:Ei; cbn; [|exact Hg]. eapply insert_keeps; eauto.
      + exists l'. split; [exact H1|]. split; [exact H2|]. intros g0 q Hg _. apply H3; [exact Hg|tauto].
    - (* RemoveGlyph *)
      edestruct (on_layer_stable s ln0 (fun l => (remove_glyph l g, if bool_decide (is_Some (l_glyphs l !! g)) then OSome else ONone))
                                 ln l (fun g0 => g = g0)) as (l' & H1 & H2 & H3); [| exact Hl | |].
      + intros x. cbn. auto.
      + intros _ g0 q Hg Hn. cbn. rewrite lookup_delete_ne by exact Hn. exact Hg.
      + exists l'. split; [exact H1|]. split; [exact H2|]. intros g0 q Hg Hn. apply H3; [exact Hg|tauto].
    - (* RenameGlyph *)
      edestruct (on_layer_stable s ln0 (fun l => rename_glyph l old new overwrite)
                                 ln l (fun g0 => old = g0 \/ new = g0)) as (l' & H1 & H2 & H3); [| exact Hl | |].
      + intros x. apply rename_sig.
      + intros _ g0 q Hg Hn. apply rename_keeps; [intros ->; tauto|intros ->; tauto|exact Hg].
      + exists l'. split; [exact H1|]. split; [exact H2|]. intros g0 q Hg Hn. apply H3; [exact Hg|tauto].
    - (* ClearLayer *)
      edestruct (on_layer_stable s ln0 (fun l => (clear l, OOk)) ln l (fun _ => True)) as (l' & H1 & H2 & H3); [| exact Hl | |].
      + intros x. cbn. auto.
      + intros _ g0 q _ Hn. tauto.
      + exists l'. split; [exact H1|]. split; [exact H2|]. intros g0 q Hg Hn. apply H3; [exact Hg|tauto].
    - (* RetainGlyphs *)
      edestruct (on_layer_stable s ln0 (fun l => (retain_glyphs l keep, OOk)) ln l (fun g0 => g0 ∉ keep)) as (l' & H1 & H2 & H3); [| exact Hl | |].
      + intros x. cbn. auto.
      + intros _ g0 q Hg Hn. cbn [fst]. apply retain_keeps; [exact HLl| |exact Hg].
        destruct (decide (g0 ∈ keep)); tauto.
      + exists l'. split; [exact H1|]. split; [exact H2|]. intros g0 q Hg Hn. apply H3; [exact Hg|tauto].
    - (* EntryOrInsert *)
      destruct (negb (name_validb key)); [exact Hsame|]. destruct (negb (name_validb g)); [exact Hsame|].
      edestruct (on_layer_stable s ln0 (fun l => (entry_or_insert l key g, OOk)) ln l (fun _ => False)) as (l' & H1 & H2 & H3); [| exact Hl | |].
      + intros x. cbn. unfold entry_or_insert. destruct (l_glyphs x !! key); auto.
      + intros _ g0 q Hg _. cbn. unfold entry_or_insert. destruct (l_glyphs l !! key); exact Hg.
      + exists l'. split; [exact H1|]. split; [exact H2|]. intros g0 q Hg _. apply H3; [exact Hg|tauto].
    - (* EntryRemove *)
      edestruct (on_layer_stable s ln0 (fun l => (entry_remove l key, OOk)) ln l (fun _ => False)) as (l' & H1 & H2 & H3); [| exact Hl | |].
      + intros x. cbn. auto.
      + intros _ g0 q Hg _. exact Hg.
      + exists l'. split; [exact H1|]. split; [exact H2|]. intros g0 q Hg _. apply H3; [exact Hg|tauto].
    - (* TouchGlyphs *)
      edestruct (on_layer_stable s ln0 (fun l => (l, OOk)) ln l (fun _ => False)) as (l' & H1 & H2 & H3); [| exact Hl | |].
      + intros x. cbn. auto.
      + intros _ g0 q Hg _. exact Hg.
      + exists l'. split; [exact H1|]. split; [exact H2|]. intros g0 q Hg _. apply H3; [exact Hg|tauto].
    - (* NewLayer *)
      unfold Layer.new_layer. repeat (destruct (_ : bool); [exact Hsame|]).
      destruct (dir_name _ _); [|exact Hsame]. cbn [fst]. exists l. split; [|auto].
      unfold get_layer in *. cbn. apply find_app_l. exact Hl.
    - unfold Layer.get_or_create_layer. destruct (existsb _ _); [exact Hsame|].
      unfold Layer.new_layer. repeat (destruct (_ : bool); [exact Hsame|]).
      destruct (dir_name _ _); [|exact Hsame]. cbn [fst]. exists l. split; [|auto].
      unfold get_layer in *. cbn. apply find_app_l. exact Hl.
    - (* RemoveLayer *)
      exists l. rewrite get_layer_remove by (intros ->; tauto). auto.
    - (* RenameLayer *)
      assert (Ho : ln <> old) by (intros ->; tauto). assert (Hn : ln <> new) by (intros ->; tauto).
      revert HP. unfold Layer.rename_layer.
      destruct (negb overwrite && _); [intros _; exact Hsame|].
      destruct (negb (existsb _ _)); [intros _; exact Hsame|]. destruct (layers s) as [|d0 r0] eqn:El; [intros _; exact Hsame|].
      destruct (bool_decide _ && _); [intros _; exact Hsame|]. destruct (bool_decide (old = new)); [intros _; exact Hsame|].
      destruct (has_name new d0); [intros _; exact Hsame|]. destruct (negb (name_validb new)); [intros _; exact Hsame|].
      set (s1 := if overwrite then (remove_layer s new).1 else s).
      assert (H1 : get_layer s1 ln = Some l).
      { unfold s1. destruct overwrite; [rewrite get_layer_remove by exact Hn|]; exact Hl. }
      destruct (layers s1) as [|d r] eqn:E1; [intros HP; exfalso; apply (HP SITE_RENAME_UNWRAP); reflexivity|].
      unfold get_layer in H1. rewrite E1 in H1.
      destruct (has_name old d) eqn:E2.
      + intros _. cbn [fst]. exists l. split; [|auto]. unfold get_layer. cbn [layers].
        cbn in H1. cbn. apply has_name_true in E2.
        assert (E3 : has_name ln d = false) by (apply has_name_false; congruence). rewrite E3 in H1.
        assert (E4 : has_name ln (with_name d new) = false) by (apply has_name_false; cbn; congruence).
        rewrite E4. exact H1.
      + destruct (List.find (has_name old) r) as [x|] eqn:Ef;
          [|intros HP; exfalso; apply (HP SITE_RENAME_UNWRAP); reflexivity].
        destruct (dir_name _ _) as [p|]; [|intros HP; exfalso; apply (HP SITE_99_TRIES); reflexivity].
        intros _. cbn [fst]. exists l. split; [|auto]. unfold get_layer. cbn [layers].
        destruct (find_split _ _ _ Ef) as (pre & post & -> & Hx & Hp). rewrite update_first_split by assumption.
        cbn in H1. cbn. destruct (has_name ln d); [exact H1|].
        rewrite <- H1. apply find_mid_irrelevant; cbn; congruence.
    - (* RetainLayers *)
      cbn [fst]. exists l. split; [|auto]. unfold get_layer, retain_layers. cbn [layers].
      rewrite find_filter_keep; [exact Hl|]. intros x Hx. rewrite (bool_decide_eq_true_2 (l_name x ∈ keep)).
      * apply orb_true_r.
      * rewrite Hx. destruct (decide (ln ∈ keep)); tauto.
    - tauto.
    - (* SaveLoad *)
      rewrite (save_ok s HI). destruct (load (dl <$> layers s)) as [s'|] eqn:El'; cbn [fst]; [|exact Hsame].
      destruct (load_saved s s' HI El') as [E _]. exists l.
      split; [|auto]. unfold get_layer. rewrite E. exact Hl.
  Qed.

  Theorem stable_glyph s o ln g q :
    Inv s -> (forall site, (step s o).2 <> OPanic site) ->
    glyph_path s ln g = Some q -> ~ touches_glyph o ln g -> glyph_path (step s o).1 ln g = Some q.
  Proof.
    intros HI HP. unfold glyph_path. destruct (get_layer s ln) as [l|] eqn:El; [|discriminate].
    intros Hg Ht. destruct (stable_core s o HI HP ln l El) as (l' & -> & _ & H3); [|auto].
    intros Hl. apply Ht. destruct o; cbn in *; tauto.
  Qed.
  Theorem stable_layer s o ln p :
    Inv s -> (forall site, (step s o).2 <> OPanic site) ->
    layer_dir s ln = Some p -> ~ touches_layer o ln -> layer_dir (step s o).1 ln = Some p.
  Proof.
    intros HI HP. unfold layer_dir. destruct (get_layer s ln) as [l|] eqn:El; [|discriminate].
    intros [= <-] Ht. destruct (stable_core s o HI HP ln l El Ht) as (l' & -> & -> & _). reflexivity.
  Qed.

  (** ** loading a well-formed tree *)
  Lemma split_default_spec ls x rest : split_default ls = Some (x, rest) ->
    exists pre post, ls = pre ++ x :: post /\ rest = pre ++ post /\ l_path x = DEFAULT_GLYPHS_DIRNAME.
  Proof.
    revert rest. induction ls as [|y t IH]; intros rest; cbn; [discriminate|]. destruct (is_default y) eqn:E.
    - intros [= <- <-]. exists [], t. repeat split. apply bool_decide_eq_true in E. exact E.
    - destruct (split_default t) as [[z t']|] eqn:Er; [|discriminate]. intros [= <- <-].
      destruct (IH _ eq_refl) as (pre & post & -> & -> & Hx). exists (y :: pre), post. repeat split. exact Hx.
  Qed.

  Lemma LInv_load_layer (dy : dlayer) :
    (forall g1 g2 q1 q2, dy.2 !! g1 = Some q1 -> dy.2 !! g2 = Some q2 -> lower q1 = lower q2 -> g1 = g2) ->
    dlayer_names_valid dy = true -> LInv (load_layer lower dy).
  Proof.
    destruct dy as [[n p] c]. cbn. intros H4 Hv. apply andb_true_iff in Hv. destruct Hv as [_ Hv].
    apply bool_decide_eq_true in Hv. split; [|split; [|split; [|split]]]; cbn.
    - intros k. rewrite map_lookup_imap. destruct (c !! k); cbn; split; intros [? ?]; eauto; discriminate.
    - intros k v. rewrite map_lookup_imap. destruct (c !! k); cbn; congruence.
    - intros x. rewrite elem_of_list_to_set, elem_of_list_fmap. split.
      + intros ([k q] & Hq & Hin). apply elem_of_map_to_list in Hin. exists k, q. cbn in Hq. auto.
      + intros (k & q & Hk & Hq). exists (k, q). split; [symmetry; exact Hq|]. apply elem_of_map_to_list. exact Hk.
    - exact H4.
    - intros k [q Hq]. eapply Hv. exact Hq.
  Qed.

  Lemma nodup_fmap_inj_elem {A B} (f : A -> B) (l : list A) x y :
    NoDup (f <$> l) -> x ∈ l -> y ∈ l -> f x = f y -> x = y.
  Proof.
    induction l as [|a t IH]; cbn; [intros _ H; apply elem_of_nil in H; contradiction|].
    rewrite NoDup_cons, !elem_of_cons. intros [Hn Ht] [->|Hx] [->|Hy] Hf; auto.
    - exfalso. apply Hn. rewrite Hf. apply elem_of_list_fmap. eauto.
    - exfalso. apply Hn. rewrite <- Hf. apply elem_of_list_fmap. eauto.
  Qed.

  Theorem inv_loaded d s : load d = Some s -> Inv s.
  Proof.
    unfold Layer.load.
    destruct (forallb dlayer_names_valid d) eqn:Ev; [|discriminate]. cbn [negb].
    destruct (disk_checked lower d) eqn:Ec; [|discriminate]. cbn [negb].
    unfold disk_checked in Ec. rewrite !andb_true_iff in Ec. destruct Ec as ((((_ & C2) & C3) & C4) & C5).
    apply bool_decide_eq_true in C2. rename C2 into W1. apply bool_decide_eq_true in C3. rename C3 into W2.
    assert (W3 : forall x, x ∈ d -> x.1.2 <> DEFAULT_GLYPHS_DIRNAME -> x.1.1 <> DEFAULT_LAYER_NAME).
    { intros x Hx Hne Heq. rewrite forallb_forall in C4. apply elem_of_list_In in Hx. specialize (C4 x Hx).
      rewrite (bool_decide_eq_true_2 _ Heq), (bool_decide_eq_false_2 _ Hne) in C4. discriminate. }
    assert (W4 : forall x g1 g2 q1 q2, x ∈ d -> x.2 !! g1 = Some q1 -> x.2 !! g2 = Some q2 -> lower q1 = lower q2 -> g1 = g2).
    { intros x g1 g2 q1 q2 Hx H1 H2 Hq. rewrite forallb_forall in C5. apply elem_of_list_In in Hx. specialize (C5 x Hx).
      unfold dlayer_files_ok in C5. apply andb_true_iff in C5. destruct C5 as [_ C5]. apply bool_decide_eq_true in C5.
      assert (E : (g1, q1) = (g2, q2)).
      { eapply (nodup_fmap_inj_elem (fun kv : str * str => lower kv.2)); [exact C5| | |exact Hq];
          apply elem_of_map_to_list; assumption. }
      congruence. }
    destruct (split_default (load_layer lower <$> d)) as [[x rest]|] eqn:Es; [|discriminate]. intros [= <-].
    destruct (split_default_spec _ _ _ Es) as (pre & post & Els & -> & Hx).
    assert (Hname : l_name <$> (load_layer lower <$> d) = (fun y : dlayer => y.1.1) <$> d).
    { rewrite <- list_fmap_compose. apply list_fmap_ext. intros i [[? ?] ?] _; reflexivity. }
    assert (Hpath : (fun l => lower (l_path l)) <$> (load_layer lower <$> d) = (fun y : dlayer => lower y.1.2) <$> d).
    { rewrite <- list_fmap_compose. apply list_fmap_ext. intros i [[? ?] ?] _; reflexivity. }
    rewrite Els in Hname, Hpath. rewrite <- Hname in W1. rewrite <- Hpath in W2.
    rewrite fmap_app, fmap_cons in W1, W2.
    destruct (nodup_remove_mid _ _ _ W1) as [W1a W1b]. destruct (nodup_remove_mid _ _ _ W2) as [W2a W2b].
    assert (Hmem : forall y, y ∈ pre ++ post -> exists dy, dy ∈ d /\ y = load_layer lower dy).
    { intros y Hy. assert (Hin : y ∈ load_layer lower <$> d).
      { rewrite Els. rewrite elem_of_app in *. rewrite elem_of_cons. tauto. }
      apply elem_of_list_fmap in Hin. destruct Hin as (dy & -> & Hd). eauto. }
    assert (Hnd : forall y, y ∈ pre ++ post -> l_path y <> DEFAULT_GLYPHS_DIRNAME).
    { intros y Hy Heq. apply W2b. rewrite <- fmap_app. apply elem_of_list_fmap. exists y. split; [congruence|exact Hy]. }
    split; [|split; [|split]]; cbn [layers lpset].
    - rewrite fmap_cons, fmap_app. apply NoDup_cons. split; [exact W1b|exact W1a].
    - exists x, (pre ++ post). split; [reflexivity|]. split; [exact Hx|]. repeat split.
      + apply Forall_forall. exact Hnd.
      + apply Forall_forall. intros y Hy. destruct (Hmem y Hy) as (dy & Hd & ->).
        specialize (Hnd _ Hy). destruct dy as [[n p] c]. cbn in *. apply (W3 (n, p, c) Hd). exact Hnd.
      + apply Forall_forall. intros y Hy. apply elem_of_list_to_set. apply elem_of_list_fmap. eauto.
      + rewrite fmap_app. exact W2a.
    - assert (Hall : Forall (fun l => name_validb (l_name l) = true) (load_layer lower <$> d)).
      { apply Forall_fmap. apply Forall_forall. intros dy Hd. rewrite forallb_forall in Ev.
        specialize (Ev dy). rewrite <- elem_of_list_In in Ev. specialize (Ev Hd).
        destruct dy as [[n p] c]. cbn in *. apply andb_true_iff in Ev. tauto. }
      rewrite Els in Hall. rewrite Forall_app, Forall_cons in Hall. rewrite Forall_cons, Forall_app. tauto.
    - assert (Hall : Forall LInv (load_layer lower <$> d)).
      { apply Forall_fmap. apply Forall_forall. intros dy Hd. apply LInv_load_layer.
        - intros g1 g2 q1 q2. apply (W4 dy). exact Hd.
        - rewrite forallb_forall in Ev. apply Ev. apply elem_of_list_In. exact Hd. }
      rewrite Els in Hall. rewrite Forall_app, Forall_cons in Hall. rewrite Forall_cons, Forall_app. tauto.
  Qed.

  (** ** the only reachable panic sites are the documented 99-tries panic and [Glyph::new] on an
      invalid name (which is outside the containers); in particular the [unwrap] of
      [rename_layer], the [layers[0]] index and the [expect] of [save] are unreachable *)
  Lemma on_layer_out s ln f o : (on_layer s ln f).2 = o ->
    o = OErr NoLayer \/ exists l, get_layer s ln = Some l /\ (f l).2 = o.
  Proof.
    unfold on_layer. destruct (get_layer s ln) as [l|]; [|cbn; auto].
    destruct (f l) as [l' o'] eqn:E. cbn. intros <-. right. exists l. rewrite E. auto.
  Qed.

  Lemma rename_layer_panic s old new ow site :
    Inv s -> (rename_layer s old new ow).2 = OPanic site -> site = SITE_99_TRIES.
  Proof.
    intros HI. unfold Layer.rename_layer.
    destruct (negb ow && existsb (has_name new) (layers s)) eqn:G1; [discriminate|].
    destruct (negb (existsb (has_name old) (layers s))) eqn:G2; [discriminate|].
    apply negb_false_iff in G2.
    destruct (SInv_parts s HI) as (d0 & rest0 & El & _). rewrite El in *.
    destruct (bool_decide (new = DEFAULT_LAYER_NAME) && negb (has_name old d0)); [discriminate|].
    destruct (bool_decide (old = new)) eqn:G4; [discriminate|]. apply bool_decide_eq_false in G4.
    destruct (has_name new d0) eqn:G5; [discriminate|].
    destruct (negb (name_validb new)); [discriminate|].
    set (s1 := if ow then (remove_layer s new).1 else s).
    assert (Hs1 : exists rest, layers s1 = d0 :: rest /\ (old ∈ l_name <$> rest <-> old ∈ l_name <$> rest0)).
    { unfold s1. destruct ow.
      - destruct (remove_layer_head s new d0 rest0 El) as (rest' & E1 & E2 & _). exists rest'.
        split; [exact E1|]. apply E2. congruence.
      - exists rest0. split; [exact El|tauto]. }
    destruct Hs1 as (rest & E1 & Hold). rewrite E1.
    destruct (has_name old d0) eqn:G7; [discriminate|]. apply has_name_false in G7.
    assert (Hin : old ∈ l_name <$> rest).
    { apply Hold. apply existsb_has_name in G2. rewrite fmap_cons, elem_of_cons in G2.
      destruct G2 as [G2|G2]; [congruence|exact G2]. }
    destruct (List.find (has_name old) rest) as [l|] eqn:Ef;
      [|exfalso; apply (find_none_names _ _ Ef); exact Hin].
    destruct (dir_name _ _); [discriminate|]. intros [= <-]. reflexivity.
  Qed.

  Theorem panic_sites s o site :
    Inv s -> ~ KnownOp s o -> (step s o).2 = OPanic site -> site = SITE_99_TRIES \/ site = SITE_GLYPH_NEW.
  Proof.
    intros HI HK. destruct o; cbn [Layer.step].
    - destruct (negb (name_validb g)); [intros [= <-]; auto|]. intros H. apply on_layer_out in H.
      destruct H as [H|(l & _ & H)]; [discriminate|]. destruct (insert_glyph l g); cbn in H; [discriminate|].
      injection H as <-. auto.
    - intros H. apply on_layer_out in H. destruct H as [H|(l & _ & H)]; [discriminate|]. cbn in H.
      destruct (bool_decide _); discriminate.
    - intros H. apply on_layer_out in H. destruct H as [H|(l & _ & H)]; [discriminate|].
      unfold Layer.rename_glyph in H. destruct (negb overwrite && _); [discriminate|].
      destruct (negb (bool_decide _)); [discriminate|]. destruct (negb (name_validb new)); [discriminate|].
      destruct (insert_glyph _ _); cbn in H; [discriminate|]. injection H as <-. auto.
    - intros H. apply on_layer_out in H. destruct H as [H|(l & _ & H)]; discriminate.
    - intros H. apply on_layer_out in H. destruct H as [H|(l & _ & H)]; discriminate.
    - destruct (negb (name_validb key)); [discriminate|]. destruct (negb (name_validb g)); [intros [= <-]; auto|].
      intros H. apply on_layer_out in H. destruct H as [H|(l & _ & H)]; discriminate.
    - intros H. apply on_layer_out in H. destruct H as [H|(l & _ & H)]; discriminate.
    - intros H. apply on_layer_out in H. destruct H as [H|(l & _ & H)]; discriminate.
    - unfold Layer.new_layer. repeat (destruct (_ : bool); [discriminate|]).
      destruct (dir_name _ _); cbn; [discriminate|]. intros [= <-]. auto.
    - unfold Layer.get_or_create_layer. destruct (existsb _ _); [discriminate|].
      unfold Layer.new_layer. repeat (destruct (_ : bool); [discriminate|]).
      destruct (dir_name _ _); cbn; [discriminate|]. intros [= <-]. auto.
    - unfold Layer.remove_layer. destruct (layers s); [discriminate|]. destruct (remove_first _ _) as [[? ?]|]; discriminate.
    - intros H. left. eapply rename_layer_panic; eauto.
    - discriminate.
    - discriminate.
    - rewrite (save_ok s HI). destruct (load (dl <$> layers s)); discriminate.
  Qed.

  (** ** invariants about the names themselves: generic in a predicate on glif file names
      ([Pf glyph_name file]) and one on layer directories ([Pd layer_name dir]) that hold of
      everything the file-name function returns for a valid name *)
  Lemma on_layer_Forall (P : layer -> Prop) s ln f :
    (forall l, P l -> P (f l).1) -> Forall P (layers s) -> Forall P (layers (on_layer s ln f).1).
  Proof.
    intros Hf HP. unfold on_layer. destruct (get_layer s ln) as [l|] eqn:E; [|exact HP].
    destruct (f l) as [l' o] eqn:Ef. cbn [fst layers]. unfold get_layer in E.
    eapply update_first_Forall; [exact E| |exact HP]. intros Hl. specialize (Hf l Hl). rewrite Ef in Hf. exact Hf.
  Qed.

  Section Generic.
    Variable Pf : str -> str -> Prop.
    Variable Pd : str -> str -> Prop.
    Hypothesis HPf : forall g taken p, name_validb g = true -> glif_name g taken = Some p -> Pf g p.
    Hypothesis HPd : forall n taken p, name_validb n = true -> dir_name n taken = Some p -> Pd n p.

    Definition glayer (l : layer) : Prop :=
      (forall g q, l_contents l !! g = Some q -> Pf g q) /\
      (l_path l = DEFAULT_GLYPHS_DIRNAME \/ Pd (l_name l) (l_path l)).

    Lemma g_insert l g l' : name_validb g = true -> glayer l -> insert_glyph l g = Some l' -> glayer l'.
    Proof.
      intros Hv [H1 H2] Hi. pose proof (insert_sig _ _ _ Hi) as [Hn Hp]. split; [|rewrite Hn, Hp; exact H2].
      unfold Layer.insert_glyph in Hi. destruct (l_contents l !! g) eqn:Ec.
      - injection Hi as <-. exact H1.
      - destruct (glif_name g (l_pset l)) as [p|] eqn:Ep; [|discriminate]. injection Hi as <-. cbn [l_contents].
        intros g0 q. destruct (decide (g0 = g)) as [->|Hne].
        + rewrite lookup_insert. intros [= <-]. eapply HPf; eassumption.
        + rewrite lookup_insert_ne by congruence. apply H1.
    Qed.
    Lemma g_remove l g : glayer l -> glayer (remove_glyph l g).
    Proof.
      intros [H1 H2]. split; [|exact H2]. cbn [l_contents Layer.remove_glyph]. intros g0 q Hq.
      apply lookup_delete_Some in Hq. apply H1. tauto.
    Qed.
    Lemma g_rename l old new ow : glayer l -> glayer (rename_glyph l old new ow).1.
    Proof.
      intros H. unfold Layer.rename_glyph. destruct (negb ow && _); [exact H|]. destruct (negb (bool_decide _)); [exact H|].
      destruct (negb (name_validb new)) eqn:Ev; [exact H|]. apply negb_false_iff in Ev.
      destruct (insert_glyph (remove_glyph l old) new) as [l2|] eqn:Ei; cbn [fst].
      - eapply g_insert; [exact Ev| |exact Ei]. apply g_remove. exact H.
      - apply g_remove. exact H.
    Qed.
    Lemma g_same_index l l' :
      l_name l' = l_name l -> l_path l' = l_path l ->
      (forall g q, l_contents l' !! g = Some q -> l_contents l !! g = Some q) ->
      glayer l -> glayer l'.
    Proof. intros Hn Hp Hc [H1 H2]. split; [intros g q Hq; apply H1; auto|rewrite Hn, Hp; exact H2]. Qed.

    Lemma g_new_layer s n : Forall glayer (layers s) -> Forall glayer (layers (new_layer s n).1).
    Proof.
      intros HA. unfold Layer.new_layer. destruct (bool_decide _); [exact HA|]. destruct (existsb _ _); [exact HA|].
      destruct (negb (name_validb n)) eqn:Ev; [exact HA|]. apply negb_false_iff in Ev.
      destruct (dir_name n (lpset s)) as [p|] eqn:Ep; [|exact HA]. cbn [fst layers].
      apply Forall_app. split; [exact HA|]. apply Forall_singleton. split.
      - cbn [l_contents new_layer_value]. intros g q Hq. rewrite lookup_empty in Hq. discriminate.
      - right. cbn [l_name l_path new_layer_value]. eapply HPd; eassumption.
    Qed.
    Lemma g_remove_layer s n : Forall glayer (layers s) -> Forall glayer (layers (remove_layer s n).1).
    Proof.
      intros HA. unfold Layer.remove_layer. destruct (layers s) as [|d rest] eqn:El; [cbn [fst]; rewrite El; exact HA|].
      destruct (remove_first n rest) as [[x rest']|] eqn:Er; cbn [fst layers]; [|rewrite El; exact HA].
      destruct (remove_first_split _ _ _ _ Er) as (pre & post & -> & -> & _).
      rewrite Forall_cons, Forall_app, Forall_cons in HA. rewrite Forall_cons, Forall_app. tauto.
    Qed.

    Theorem ginv_step s o : Inv s -> Forall glayer (layers s) -> Forall glayer (layers (step s o).1).
    Proof.
      intros HI HA. destruct o; cbn [Layer.step].
      - destruct (negb (name_validb g)) eqn:Ev; [exact HA|]. apply negb_false_iff in Ev.
        apply on_layer_Forall; [|exact HA]. intros l Hl.
        destruct (insert_glyph l g) as [l'|] eqn:Ei; cbn [fst]; [eapply g_insert; eauto|exact Hl].
      - apply on_layer_Forall; [|exact HA]. intros l Hl. cbn [fst]. apply g_remove. exact Hl.
      - apply on_layer_Forall; [|exact HA]. intros l Hl. apply g_rename. exact Hl.
      - apply on_layer_Forall; [|exact HA]. intros l Hl. cbn [fst].
        apply (g_same_index l); [reflexivity|reflexivity| |exact Hl]. cbn [l_contents clear]. intros g q Hq.
        rewrite lookup_empty in Hq. discriminate.
      - apply on_layer_Forall; [|exact HA]. intros l Hl. cbn [fst].
        apply (g_same_index l); [reflexivity|reflexivity| |exact Hl]. cbn [l_contents Layer.retain_glyphs]. intros g q Hq.
        apply map_filter_lookup_Some in Hq. tauto.
      - destruct (negb (name_validb key)); [exact HA|]. destruct (negb (name_validb g)); [exact HA|].
        apply on_layer_Forall; [|exact HA]. intros l Hl. cbn [fst]. unfold entry_or_insert.
        destruct (l_glyphs l !! key); [exact Hl|]. apply (g_same_index l); [reflexivity|reflexivity| |exact Hl]. auto.
      - apply on_layer_Forall; [|exact HA]. intros l Hl. cbn [fst].
        apply (g_same_index l); [reflexivity|reflexivity| |exact Hl]. auto.
      - apply on_layer_Forall; [|exact HA]. intros l Hl. exact Hl.
      - apply g_new_layer. exact HA.
      - unfold Layer.get_or_create_layer. destruct (existsb _ _); [exact HA|]. apply g_new_layer. exact HA.
      - apply g_remove_layer. exact HA.
      - (* RenameLayer *)
        unfold Layer.rename_layer. destruct (negb overwrite && _); [exact HA|].
        destruct (negb (existsb _ _)); [exact HA|]. destruct (layers s) as [|d0 r0] eqn:El; [cbn [fst]; rewrite El; exact HA|].
        destruct (bool_decide _ && _); [cbn [fst]; rewrite El; exact HA|].
        destruct (bool_decide (old = new)); [cbn [fst]; rewrite El; exact HA|].
        destruct (has_name new d0); [cbn [fst]; rewrite El; exact HA|].
        destruct (negb (name_validb new)) eqn:G6; [cbn [fst]; rewrite El; exact HA|]. apply negb_false_iff in G6.
        remember (if overwrite then (remove_layer s new).1 else s) as s1 eqn:Hs1.
        assert (HA1 : Forall glayer (layers s1)).
        { rewrite Hs1. destruct overwrite; [|rewrite El; exact HA]. apply g_remove_layer. rewrite El. exact HA. }
        assert (Hd0 : l_path d0 = DEFAULT_GLYPHS_DIRNAME).
        { destruct HI as (_ & (d & rest & E & Hd & _) & _). rewrite El in E. injection E as <- <-. exact Hd. }
        assert (Hh : forall d r, layers s1 = d :: r -> d = d0).
        { rewrite Hs1. destruct overwrite; [|intros d r E; rewrite El in E; congruence].
          destruct (remove_layer_head s new d0 r0 El) as (rest' & -> & _). intros d r E. congruence. }
        destruct (layers s1) as [|d r] eqn:E1; [cbn [fst]; rewrite E1; exact HA1|]. specialize (Hh d r eq_refl). subst d.
        destruct (has_name old d0).
        + cbn [fst layers]. rewrite Forall_cons in *. split; [|tauto].
          destruct HA1 as [[H1 _] _]. split; [exact H1|]. left. exact Hd0.
        + destruct (List.find (has_name old) r) as [x|] eqn:Ef; [|cbn [fst]; rewrite E1; exact HA1].
          destruct (dir_name new _) as [p|] eqn:Ep; cbn [fst layers]; [|rewrite ?E1; exact HA1].
          destruct (find_split _ _ _ Ef) as (pre & post & -> & Hx & Hp). rewrite update_first_split by assumption.
          rewrite Forall_cons, Forall_app, Forall_cons in HA1. rewrite Forall_cons, Forall_app, Forall_cons.
          destruct HA1 as (Ha & Hb & [Hc1 _] & Hd). split; [exact Ha|]. split; [exact Hb|]. split; [|exact Hd].
          split; [exact Hc1|]. right. cbn [l_name l_path with_name with_path]. eapply HPd; eassumption.
      - cbn [fst layers]. apply Forall_filter. exact HA.
      - cbn [fst layers]. apply Forall_filter. exact HA.
      - rewrite (save_ok s HI). destruct (load (dl <$> layers s)) as [s'|] eqn:El; cbn [fst]; [|exact HA].
        destruct (load_saved s s' HI El) as [E _]. rewrite E. exact HA.
    Qed.

    Lemma ginv_init : Forall glayer (layers init).
    Proof.
      apply Forall_singleton. split; [|left; reflexivity]. cbn [l_contents init layers default_layer new_layer_value].
      intros g q Hq. rewrite lookup_empty in Hq. discriminate.
    Qed.

    Theorem reachable_g ops : forall s s',
      Inv s -> Forall glayer (layers s) -> clean s ops -> run s ops = Some s' -> Inv s' /\ Forall glayer (layers s').
    Proof.
      induction ops as [|o r IH]; intros s s' HI HA Hc; cbn [Layer.run].
      - intros [= <-]. auto.
      - destruct Hc as [Hk Hc]. pose proof (inv_step s o HI Hk) as Hstep. pose proof (ginv_step s o HI HA) as Hstep2.
        destruct (step s o) as [s1 out] eqn:Es. cbn [fst snd] in *.
        destruct out; try (apply IH; [apply Hstep; intros site; discriminate|exact Hstep2|exact Hc]).
        discriminate.
    Qed.
  End Generic.

  (** *** instance 1: assigned names *)
  Notation assigned_layer := (assigned_layer is_upper lower).
  Notation AInv := (AInv is_upper lower).
  Theorem ainv_step s o : Inv s -> AInv s -> AInv (step s o).1.
  Proof. apply (ginv_step (fun g q => exists taken, glif_name g taken = Some q) (fun n p => exists taken, dir_name n taken = Some p)); eauto. Qed.
  Lemma ainv_init : AInv init.
  Proof. apply (ginv_init (fun g q => exists taken, glif_name g taken = Some q) (fun n p => exists taken, dir_name n taken = Some p)). Qed.
  Theorem reachable_assigned ops s s' : Inv s -> AInv s -> clean s ops -> run s ops = Some s' -> Inv s' /\ AInv s'.
  Proof. apply (reachable_g (fun g q => exists taken, glif_name g taken = Some q) (fun n p => exists taken, dir_name n taken = Some p)); eauto. Qed.

  (** *** instance 2: plain names (single normal path components) *)
  Lemma single_component_plain r : single_component r -> plain_name r = true.
  Proof.
    intros (H1 & H2 & H3 & H4 & _). unfold plain_name. rewrite !andb_true_iff, !negb_true_iff. repeat split.
    - destruct r; [congruence|reflexivity].
    - apply memb_false. exact H4.
    - destruct (str_eqb r [DOT]) eqn:E; [|reflexivity]. apply str_eqb_eq in E. congruence.
    - destruct (str_eqb r [DOT; DOT]) eqn:E; [|reflexivity]. apply str_eqb_eq in E. congruence.
  Qed.
  Lemma glif_name_plain g taken p : name_validb g = true -> glif_name g taken = Some p -> plain_name p = true.
  Proof.
    intros Hv H. apply name_validb_spec in Hv. destruct (glyph_file_name_spec _ _ _ _ _ Hv H) as ((Hs & _) & _).
    apply single_component_plain. exact Hs.
  Qed.
  Lemma dir_name_plain n taken p : name_validb n = true -> dir_name n taken = Some p -> plain_name p = true.
  Proof.
    intros Hv H. apply name_validb_spec in Hv. destruct (layer_dir_name_spec _ _ _ _ _ Hv H) as ((Hs & _) & _).
    apply single_component_plain. exact Hs.
  Qed.
  Theorem plain_step s o : Inv s -> Plain s -> Plain (step s o).1.
  Proof. apply (ginv_step (fun _ q => plain_name q = true) (fun _ p => plain_name p = true)); [apply glif_name_plain|apply dir_name_plain]. Qed.
  Lemma plain_init : Plain init.
  Proof. apply (ginv_init (fun _ q => plain_name q = true) (fun _ p => plain_name p = true)). Qed.
  Theorem reachable_plain ops s s' : Inv s -> Plain s -> clean s ops -> run s ops = Some s' -> Inv s' /\ Plain s'.
  Proof. apply (reachable_g (fun _ q => plain_name q = true) (fun _ p => plain_name p = true)); [apply glif_name_plain|apply dir_name_plain]. Qed.

  (** the checks at load make a loaded font plain *)
  Lemma plain_loaded d s : load d = Some s -> Plain s.
  Proof.
    unfold Layer.load. destruct (negb (forallb _ _)); [discriminate|].
    destruct (disk_checked lower d) eqn:Ec; [|discriminate]. cbn [negb].
    destruct (split_default (load_layer lower <$> d)) as [[x rest]|] eqn:Es; [|discriminate]. intros [= <-].
    destruct (split_default_spec _ _ _ Es) as (pre & post & Els & -> & Hx).
    unfold disk_checked in Ec. rewrite !andb_true_iff in Ec. destruct Ec as ((((C1 & _) & _) & _) & C5).
    assert (Hall : Forall plain_layer (load_layer lower <$> d)).
    { apply Forall_fmap. apply Forall_forall. intros dy Hd. rewrite forallb_forall in C1, C5.
      apply elem_of_list_In in Hd. specialize (C1 dy Hd). specialize (C5 dy Hd).
      destruct dy as [[n p] c]. unfold dlayer_files_ok in C5. cbn in *. apply andb_true_iff in C5. destruct C5 as [C5 _].
      apply bool_decide_eq_true in C5. split; [|right; exact C1]. cbn. intros g q Hq. eapply C5. exact Hq. }
    unfold Layer.Plain. cbn [layers]. rewrite Els in Hall. rewrite Forall_app, Forall_cons in Hall.
    rewrite Forall_cons, Forall_app. tauto.
  Qed.

  (** saving and loading a consistent, plain font succeeds and reproduces its layers *)
  Lemma nodup_lower_values (c : gmap str str) :
    (forall g1 g2 q1 q2, c !! g1 = Some q1 -> c !! g2 = Some q2 -> lower q1 = lower q2 -> g1 = g2) ->
    NoDup ((fun kv : str * str => lower kv.2) <$> map_to_list c).
  Proof.
    intros Hinj. apply NoDup_fmap_2_strong; [|apply NoDup_map_to_list].
    intros [g1 q1] [g2 q2] H1 H2 Heq. cbn in Heq.
    apply elem_of_map_to_list in H1, H2. assert (g1 = g2) by (eapply Hinj; eauto). subst g2. congruence.
  Qed.

  (** *** instance 3: no directory equals "glyphs" ignoring case — needs that [lower] tells
      "glyphs" from "glyphs." ++ anything (true of [str::to_lowercase]; validated by the run) *)
  Definition lower_separates : Prop :=
    forall m, lower (LAYER_PREFIX ++ m) <> lower DEFAULT_GLYPHS_DIRNAME.
  Lemma dir_name_sep n taken p :
    lower_separates -> name_validb n = true -> dir_name n taken = Some p -> lower p <> lower DEFAULT_GLYPHS_DIRNAME.
  Proof.
    intros Hs Hv H. apply name_validb_spec in Hv.
    destruct (layer_dir_name_spec _ _ _ _ _ Hv H) as (_ & (m & -> & _) & _). apply Hs.
  Qed.
  Theorem sep_step s o : lower_separates -> Inv s -> Sep lower s -> Sep lower (step s o).1.
  Proof.
    intros Hs. apply (ginv_step (fun _ _ => True) (fun _ p => lower p <> lower DEFAULT_GLYPHS_DIRNAME)); [auto|].
    intros n taken p. apply dir_name_sep. exact Hs.
  Qed.
  Lemma sep_init : Sep lower init.
  Proof. apply (ginv_init (fun _ _ => True) (fun _ p => lower p <> lower DEFAULT_GLYPHS_DIRNAME)). Qed.
  Theorem reachable_sep ops s s' : lower_separates ->
    Inv s -> Sep lower s -> clean s ops -> run s ops = Some s' -> Inv s' /\ Sep lower s'.
  Proof.
    intros Hs. apply (reachable_g (fun _ _ => True) (fun _ p => lower p <> lower DEFAULT_GLYPHS_DIRNAME)); [auto|].
    intros n taken p. apply dir_name_sep. exact Hs.
  Qed.
  Lemma sep_loaded d s : load d = Some s -> Sep lower s.
  Proof.
    unfold Layer.load. destruct (negb (forallb _ _)); [discriminate|].
    destruct (disk_checked lower d) eqn:Ec; [|discriminate]. cbn [negb].
    destruct (split_default (load_layer lower <$> d)) as [[x rest]|] eqn:Es; [|discriminate]. intros [= <-].
    destruct (split_default_spec _ _ _ Es) as (pre & post & Els & -> & Hx).
    unfold disk_checked in Ec. rewrite !andb_true_iff in Ec. destruct Ec as ((((_ & _) & C3) & _) & _).
    apply bool_decide_eq_true in C3.
    assert (Hpath : (fun l => lower (l_path l)) <$> (load_layer lower <$> d) = (fun y : dlayer => lower y.1.2) <$> d).
    { rewrite <- list_fmap_compose. apply list_fmap_ext. intros i [[? ?] ?] _; reflexivity. }
    rewrite <- Hpath, Els, fmap_app, fmap_cons in C3. destruct (nodup_remove_mid _ _ _ C3) as [_ Hn].
    unfold Layer.Sep. cbn [layers]. apply Forall_cons. split; [split; [auto|left; exact Hx]|].
    apply Forall_forall. intros y Hy. split; [auto|]. right. intros Heq. apply Hn. rewrite <- fmap_app.
    apply elem_of_list_fmap. exists y. split; [congruence|exact Hy].
  Qed.

  Lemma saved_disk_checked s : Inv s -> Plain s -> Sep lower s -> disk_checked lower (dl <$> layers s) = true.
  Proof.
    intros HI HP HS.
    destruct HI as (N1 & (d & rest & E & Hd & F1 & F2 & F3 & N2) & V & HL).
    unfold Layer.Plain in HP. unfold Layer.Sep in HS. rewrite Forall_forall in HP, HL, HS.
    unfold disk_checked. rewrite !andb_true_iff. repeat split.
    - apply forallb_forall. intros x Hx. apply elem_of_list_In in Hx. apply elem_of_list_fmap in Hx.
      destruct Hx as (l & -> & Hl). cbn. destruct (HP l Hl) as [_ [->|H]]; [reflexivity|exact H].
    - apply bool_decide_eq_true. rewrite <- list_fmap_compose. exact N1.
    - apply bool_decide_eq_true. rewrite <- list_fmap_compose. rewrite E, fmap_cons. apply NoDup_cons. split; [|exact N2].
      cbn. intros Hin. apply elem_of_list_fmap in Hin. destruct Hin as (y & Hy & Hin). cbn in Hy.
      assert (Hyl : y ∈ layers s) by (rewrite E; right; exact Hin).
      destruct (HS y Hyl) as [_ [Hp|Hp]].
      + rewrite Forall_forall in F1. apply (F1 y Hin). exact Hp.
      + apply Hp. rewrite <- Hy, Hd. reflexivity.
    - apply forallb_forall. intros x Hx. apply elem_of_list_In in Hx. apply elem_of_list_fmap in Hx.
      destruct Hx as (l & -> & Hl). cbn. rewrite E in Hl. apply elem_of_cons in Hl. destruct Hl as [->|Hl].
      + rewrite (bool_decide_eq_true_2 _ Hd). apply orb_true_r.
      + rewrite Forall_forall in F2. rewrite (bool_decide_eq_false_2 _ (F2 l Hl)). reflexivity.
    - apply forallb_forall. intros x Hx. apply elem_of_list_In in Hx. apply elem_of_list_fmap in Hx.
      destruct Hx as (l & -> & Hl). unfold dlayer_files_ok, dl. cbn. apply andb_true_iff. split.
      + apply bool_decide_eq_true. intros g q Hq. destruct (HP l Hl) as [H _]. eapply H. exact Hq.
      + apply bool_decide_eq_true. apply nodup_lower_values.
        destruct (HL l Hl) as (_ & _ & _ & H4 & _). exact H4.
  Qed.
  Theorem save_load_exact s : Inv s -> Plain s -> Sep lower s ->
    exists d, save s = SOk d /\ exists s', load d = Some s' /\ layers s' = layers s /\ Inv s' /\ Plain s' /\ Sep lower s'.
  Proof.
    intros HI HP HS. exists (dl <$> layers s). split; [apply save_ok; exact HI|].
    assert (Hsome : exists s', load (dl <$> layers s) = Some s').
    { pose proof HI as (N1 & (d & rest & E & Hd & _) & V & HL). unfold Layer.load.
      assert (Hv : forallb dlayer_names_valid (dl <$> layers s) = true).
      { apply forallb_forall. intros x Hx. apply elem_of_list_In in Hx. apply elem_of_list_fmap in Hx.
        destruct Hx as (l & -> & Hl). unfold dl, dlayer_names_valid. rewrite Forall_forall in V, HL.
        rewrite (V l Hl). cbn. apply bool_decide_eq_true. intros k q Hk.
        destruct (HL l Hl) as (_ & _ & _ & _ & H5). apply H5. eauto. }
      rewrite Hv, (saved_disk_checked s HI HP HS). cbn [negb].
      rewrite (load_layers_dl _ HL), E. cbn [split_default]. rewrite (is_default_true d Hd). eauto. }
    destruct Hsome as [s' Hs']. exists s'. split; [exact Hs'|].
    destruct (load_saved s s' HI Hs') as [E HI']. split; [exact E|]. split; [exact HI'|].
    split; [unfold Layer.Plain; rewrite E; exact HP|unfold Layer.Sep; rewrite E; exact HS].
  Qed.

  (** every name in a font built through the API satisfies the clauses of C07 *)
  Theorem assigned_portable s : Inv s -> AInv s ->
    forall l, l ∈ layers s ->
      (forall g q, l_contents l !! g = Some q ->
         portable_name q /\ (exists c t, q = c :: t /\ c <> DOT) /\ (exists m, q = m ++ GLYPH_SUFFIX)) /\
      (l_path l = DEFAULT_GLYPHS_DIRNAME \/
       (portable_name (l_path l) /\ (exists m, l_path l = LAYER_PREFIX ++ m /\ m <> []) /\ (blen (l_path l) <= MAX_LEN)%N)).
  Proof.
    intros HI HA l Hl. unfold Layer.AInv in HA. rewrite Forall_forall in HA. destruct (HA l Hl) as [H1 H2].
    destruct HI as (_ & _ & V & HL). rewrite Forall_forall in V, HL. split.
    - intros g q Hq. destruct (H1 g q Hq) as [taken Ht].
      destruct (HL l Hl) as (_ & _ & _ & _ & H5). assert (Hv : name_valid g) by (apply name_validb_spec, H5; eauto).
      destruct (glyph_file_name_spec _ _ _ _ _ Hv Ht) as (P1 & P2 & P3 & _). auto.
    - destruct H2 as [H2|[taken Ht]]; [left; exact H2|right].
      assert (Hv : name_valid (l_name l)) by (apply name_validb_spec, V; exact Hl).
      destruct (layer_dir_name_spec _ _ _ _ _ Hv Ht) as (P1 & P2 & _ & P4). auto.
  Qed.
End Containers.

(** ** refutations: the raw [Layer::entry] access (known finding) and unchecked loading *)
Definition nA : str := [65%N].
Definition s_entry1 : state := (step ascii_is_upper ascii_lower init (EntryOrInsert DEFAULT_LAYER_NAME nA nA)).1.
Definition s_entry2 : state :=
  (step ascii_is_upper ascii_lower
        (step ascii_is_upper ascii_lower init (InsertGlyph DEFAULT_LAYER_NAME nA)).1
        (EntryRemove DEFAULT_LAYER_NAME nA)).1.

Lemma default_layer_of (s : state) l rest : layers s = l :: rest -> Inv ascii_lower s -> LInv ascii_lower l.
Proof. intros E (_ & _ & _ & HL). rewrite E in HL. apply Forall_cons in HL. tauto. Qed.

(** a glyph inserted through the raw entry has no file name: the invariant is broken and
    saving drops the glyph *)
Lemma entry_or_insert_refuted :
  Inv ascii_lower init /\ KnownOp init (EntryOrInsert DEFAULT_LAYER_NAME nA nA) /\ ~ Inv ascii_lower s_entry1 /\
  exists d, save s_entry1 = SOk d /\ exists s', load ascii_lower d = Some s' /\
            report s' <> report s_entry1.
Proof.
  split; [apply inv_init|]. split.
  - cbn. split; [reflexivity|]. split; [reflexivity|]. eexists. split; reflexivity.
  - split.
    + intros HI. eapply default_layer_of in HI; [|reflexivity]. destruct HI as (H1 & _).
      specialize (H1 nA). vm_compute in H1. destruct H1 as [_ H1]. destruct H1 as [x Hx]; [eauto|discriminate].
    + eexists. split; [vm_compute; reflexivity|]. eexists. split; [vm_compute; reflexivity|].
      vm_compute. discriminate.
Qed.

(** removing through the raw entry leaves the index stale: saving panics *)
Lemma entry_remove_refuted :
  ~ Inv ascii_lower s_entry2 /\ (step ascii_is_upper ascii_lower s_entry2 SaveLoad).2 = OPanic SITE_SAVE_EXPECT.
Proof.
  split.
  - intros HI. eapply default_layer_of in HI; [|reflexivity]. destruct HI as (H1 & _).
    specialize (H1 nA). vm_compute in H1. destruct H1 as [H1 _]. destruct H1 as [x Hx]; [eauto|discriminate].
  - vm_compute. reflexivity.
Qed.

(** loading refuses duplicate layer names and directories that are equal ignoring case (fixes
    83f6c18, f6784f0); the former witness of the finding load-case-clash is refused *)
Definition nb : str := [98%N].
Definition nB : str := [66%N].
Definition clash_disk : disk :=
  [(DEFAULT_LAYER_NAME, DEFAULT_GLYPHS_DIRNAME, ∅); (nb, s2l "glyphs.A_"%string, ∅); (nB, s2l "glyphs.a_"%string, ∅)].
Definition dup_disk : disk :=
  [(DEFAULT_LAYER_NAME, DEFAULT_GLYPHS_DIRNAME, ∅); (nA, s2l "glyphs.a"%string, ∅); (nA, s2l "glyphs.b"%string, ∅)].
Definition mid_disk : disk :=
  [(nb, s2l "glyphs.a"%string, ∅); (DEFAULT_LAYER_NAME, DEFAULT_GLYPHS_DIRNAME, ∅); (nB, s2l "glyphs.A_"%string, ∅)].
Lemma load_examples :
  load ascii_lower dup_disk = None /\ load ascii_lower clash_disk = None /\
  exists s, load ascii_lower mid_disk = Some s /\ (l_name <$> layers s) = [DEFAULT_LAYER_NAME; nb; nB] /\
    exists s2, run ascii_is_upper ascii_lower s [NewLayer [97%N]; NewLayer nA] = Some s2 /\
      layer_dir s2 [97%N] = Some (s2l "glyphs.a01"%string) /\ layer_dir s2 nA = Some (s2l "glyphs.A_01"%string).
Proof.
  split; [vm_compute; reflexivity|]. split; [vm_compute; reflexivity|].
  eexists. split; [vm_compute; reflexivity|]. split; [vm_compute; reflexivity|].
  eexists. split; [vm_compute; reflexivity|]. split; vm_compute; reflexivity.
Qed.

Lemma full_refuted :
  ~ (forall is_upper lower s o, Inv lower s ->
       (forall site, (step is_upper lower s o).2 <> OPanic site) -> Inv lower (step is_upper lower s o).1).
Proof.
  intros H. destruct entry_or_insert_refuted as (HI & _ & Hn & _). apply Hn. unfold s_entry1.
  apply H; [exact HI|]. intros site. vm_compute. discriminate.
Qed.

Lemma reachable_example :
  let ops := [NewLayer nA; InsertGlyph nA nA; RenameLayer DEFAULT_LAYER_NAME nA true;
              RenameLayer nA nA true; NewLayer DEFAULT_LAYER_NAME; SaveLoad] in
  clean ascii_is_upper ascii_lower init ops /\
  exists s', run ascii_is_upper ascii_lower init ops = Some s' /\ length (layers s') = 1%nat.
Proof.
  cbv zeta. split.
  - cbn [clean]. repeat split; try (intros []); exact I.
  - eexists. split; [vm_compute; reflexivity|vm_compute; reflexivity].
Qed.

(** C07 over histories *)
Lemma distinct_over_histories is_upper lower ops s s' :
  Inv lower s -> clean is_upper lower s ops -> run is_upper lower s ops = Some s' -> distinct_paths lower s'.
Proof. intros HI Hc Hr. apply inv_distinct. eapply reachable; eauto. Qed.
Lemma distinct_example :
  let ops := [InsertGlyph DEFAULT_LAYER_NAME nA; InsertGlyph DEFAULT_LAYER_NAME [97;95]%N; NewLayer nA; NewLayer [97;95]%N] in
  exists s', run ascii_is_upper ascii_lower init ops = Some s' /\
    glyph_path s' DEFAULT_LAYER_NAME nA = Some (s2l "A_.glif"%string) /\
    glyph_path s' DEFAULT_LAYER_NAME [97;95]%N = Some (s2l "a_01.glif"%string) /\
    layer_dir s' nA = Some (s2l "glyphs.A_"%string) /\ layer_dir s' [97;95]%N = Some (s2l "glyphs.a_01"%string).
Proof. eexists. split; [vm_compute; reflexivity|]. repeat split; vm_compute; reflexivity. Qed.
