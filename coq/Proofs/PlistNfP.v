(** The normal form of plist values ([nf], Model/FontReal.v) and the equality it decides. *)
Require Import Norad.Model.GlifSpec Norad.Model.GlifEncode.
Require Import Norad.Proofs.GlifParseP Norad.Proofs.GlifLibsP.
Require Import Norad.Model.FontRT Norad.Model.FontReal Norad.Proofs.FontRTP.
From Coq Require Import Permutation.
Open Scope N_scope.

Lemma alookup_lookup {A} k (l : list (str * A)) : alookup k l = lookup k l.
Proof. induction l as [|[a x] l IH]; simpl; [reflexivity|]. rewrite IH. reflexivity. Qed.

Lemma alookup_del : forall k k' (d : dict),
  alookup k (pd_del k' d) = if str_eqb k k' then None else alookup k d.
Proof.
  intros k k' d. induction d as [|[a x] d IH]; simpl.
  - destruct (str_eqb k k'); reflexivity.
  - destruct (str_eqb a k') eqn:E; simpl.
    + rewrite IH. destruct (str_eqb k k') eqn:E2; [reflexivity|].
      apply list_eqb_N_eq in E. subst a. rewrite E2. reflexivity.
    + rewrite IH. destruct (str_eqb k a) eqn:E3; [|reflexivity].
      apply list_eqb_N_eq in E3. subst a. rewrite E. reflexivity.
Qed.

Lemma del_keys : forall k (d : dict) k', In k' (map fst (pd_del k d)) -> k' <> k /\ In k' (map fst d).
Proof.
  intros k d k' H. apply in_map_iff in H. destruct H as [[a x] [<- H]]. apply filter_In in H.
  destruct H as [H1 H2]. simpl in *. split.
  - intros ->. rewrite str_eqb_refl in H2. discriminate.
  - apply in_map_iff. exists (a, x). auto.
Qed.
Lemma NoDup_del : forall k (d : dict), NoDup (map fst d) -> NoDup (map fst (pd_del k d)).
Proof.
  intros k d. induction d as [|[a x] d IH]; simpl; intros H; [constructor|].
  inversion H as [|? ? Hn Hd]; subst. destruct (str_eqb a k); simpl; [apply IH; exact Hd|].
  constructor; [|apply IH; exact Hd]. intros Hin. apply del_keys in Hin. tauto.
Qed.
Lemma del_absent : forall k (d : dict), ~ In k (map fst d) -> pd_del k d = d.
Proof.
  intros k d. induction d as [|[a x] d IH]; simpl; intros H; [reflexivity|].
  destruct (str_eqb a k) eqn:E.
  - apply list_eqb_N_eq in E. subst a. exfalso. apply H. left. reflexivity.
  - simpl. rewrite IH; [reflexivity|]. intros Hin. apply H. right. exact Hin.
Qed.

(** ** [dedupe]: keeps what can be looked up; the identity on lists without a repeated key *)
Lemma alookup_dedupe : forall k d, alookup k (dedupe d) = alookup k d.
Proof.
  intros k d. induction d as [|[a x] d IH]; simpl; [reflexivity|].
  destruct (str_eqb k a) eqn:E; [reflexivity|]. rewrite alookup_del, E. exact IH.
Qed.
Lemma dedupe_keys : forall d k, In k (map fst (dedupe d)) -> In k (map fst d).
Proof.
  induction d as [|[a x] d IH]; simpl; intros k H; [exact H|]. destruct H as [H|H]; [auto|].
  right. apply IH. apply del_keys in H. tauto.
Qed.
Lemma dedupe_NoDup : forall d, NoDup (map fst (dedupe d)).
Proof.
  induction d as [|[a x] d IH]; simpl; [constructor|]. constructor; [|apply NoDup_del; exact IH].
  intros H. apply del_keys in H. tauto.
Qed.
Lemma dedupe_id : forall d, NoDup (map fst d) -> dedupe d = d.
Proof.
  induction d as [|[a x] d IH]; simpl; intros H; [reflexivity|]. inversion H as [|? ? Hn Hd]; subst.
  rewrite IH by exact Hd. rewrite del_absent by exact Hn. reflexivity.
Qed.

(** ** sorted lists are fixed points of [sort_keys] *)
Lemma sort_keys_id {A} (l : list (str * A)) : NoDup (map fst l) -> sorted l -> sort_keys l = l.
Proof.
  induction l as [|[k v] l IH]; simpl; intros ND H; [reflexivity|].
  inversion ND as [|? ? Hn Hd]; subst. destruct H as [H1 H2].
  unfold sort_keys in *. simpl. rewrite IH by assumption.
  apply insert_sorted_head. intros k' Hk. destruct (str_ltb k k') eqn:E; [reflexivity|].
  pose proof (H1 k' Hk) as E2. pose proof (str_ltb_total _ _ E E2). subst k'. tauto.
Qed.

(** ** the entries of a normal form *)
Definition nf_dict (d : dict) : dict := sort_keys (dedupe (map_values nf d)).
Lemma nf_dict_eq d : nf (PDict d) = PDict (nf_dict d).
Proof. reflexivity. Qed.
Lemma nf_dict_NoDup d : NoDup (map fst (nf_dict d)).
Proof.
  unfold nf_dict. eapply Permutation_NoDup; [apply Permutation_sym; apply Permutation_map; apply sort_keys_perm|].
  apply dedupe_NoDup.
Qed.
Lemma alookup_nf_dict k d : alookup k (nf_dict d) = option_map nf (alookup k d).
Proof.
  unfold nf_dict. rewrite alookup_lookup.
  rewrite <- (lookup_perm k (dedupe (map_values nf d))); [|apply dedupe_NoDup|apply Permutation_sym; apply sort_keys_perm].
  rewrite <- alookup_lookup, alookup_dedupe, alookup_lookup, lookup_map_values, <- alookup_lookup. reflexivity.
Qed.
Lemma in_nf_dict k v d : In (k, v) (nf_dict d) -> exists v0, alookup k d = Some v0 /\ v = nf v0.
Proof.
  intros H. assert (E : alookup k (nf_dict d) = Some v).
  { rewrite alookup_lookup. apply lookup_NoDup; [apply nf_dict_NoDup|exact H]. }
  rewrite alookup_nf_dict in E. destruct (alookup k d) as [v0|]; [|discriminate].
  inversion E. eauto.
Qed.

(** ** [nf] is idempotent *)
Lemma map_values_id (f : pv -> pv) d : Forall (fun kx => f (snd kx) = snd kx) d -> map_values f d = d.
Proof.
  induction 1 as [|[k x] d Hx F IH]; [reflexivity|]. unfold map_values in *. cbn [map snd] in *. rewrite Hx, IH. reflexivity.
Qed.
Lemma nf_idem : forall v, nf (nf v) = nf v.
Proof.
  intros v. induction v as [s|z|x|b|b|s|l IHl|d IHd] using pv_ind2; try reflexivity.
  rewrite nf_dict_eq. rewrite nf_dict_eq. f_equal.
  assert (Hv : Forall (fun kx : str * pv => nf (snd kx) = snd kx) (nf_dict d)).
  { apply Forall_forall. intros [k v] Hin. simpl. destruct (in_nf_dict _ _ _ Hin) as [v0 [Hl ->]].
    rewrite Forall_forall in IHd. rewrite alookup_lookup in Hl. apply lookup_In in Hl.
    apply (IHd (k, v0) Hl). }
  unfold nf_dict at 1. rewrite (map_values_id nf _ Hv).
  rewrite dedupe_id by apply nf_dict_NoDup.
  apply sort_keys_id; [apply nf_dict_NoDup|]. unfold nf_dict. apply sort_keys_sorted.
Qed.

(** ** on values without a repeated key the normal form is the recursive key sort of the writer *)
Lemma nf_sort : forall W v, pv_good W v = true -> nf v = sort_keys_rec_pv v.
Proof.
  intros W v. induction v as [s|z|x|b|b|s|l IHl|d IHd] using pv_ind2; intros H; try reflexivity.
  cbn [pv_good] in H. apply andb_true_iff in H. destruct H as [HN HE].
  cbn [nf sort_keys_rec_pv]. f_equal.
  assert (E : map_values nf d = map_values sort_keys_rec_pv d).
  { clear HN. unfold map_values. induction IHd as [|[k x] d Hx F IH]; [reflexivity|].
    cbn [forallb] in HE. apply andb_true_iff in HE. destruct HE as [H1 H2]. apply andb_true_iff in H1. destruct H1 as [_ H1].
    simpl in *. rewrite (Hx H1), (IH H2). reflexivity. }
  rewrite E. rewrite dedupe_id; [reflexivity|]. rewrite map_values_keys. apply nodup_keys_spec. exact HN.
Qed.

(** ** the equalities *)
Lemma pv_eqv_refl v : pv_eqv v v. Proof. reflexivity. Qed.
Lemma pv_eqv_sym v w : pv_eqv v w -> pv_eqv w v. Proof. unfold pv_eqv. congruence. Qed.
Lemma pv_eqv_trans u v w : pv_eqv u v -> pv_eqv v w -> pv_eqv u w. Proof. unfold pv_eqv. congruence. Qed.
Lemma pv_eqv_nf v : pv_eqv v (nf v). Proof. unfold pv_eqv. rewrite nf_idem. reflexivity. Qed.

Lemma pd_eq_orel a b : pd_eq a b <-> forall k, orel pv_eqv (alookup k a) (alookup k b).
Proof.
  unfold pd_eq, pv_eqv. split; intros H k; specialize (H k);
    destruct (alookup k a), (alookup k b); simpl in *; try congruence; try tauto; try discriminate.
Qed.
Lemma pd_eq_refl : forall d, pd_eq d d. Proof. intros d k. reflexivity. Qed.
Lemma pd_eq_sym : forall a b, pd_eq a b -> pd_eq b a. Proof. intros a b H k. symmetry. apply H. Qed.
Lemma pd_eq_trans : forall a b c, pd_eq a b -> pd_eq b c -> pd_eq a c.
Proof. intros a b c H1 H2 k. rewrite H1. apply H2. Qed.
Lemma pd_eq_nf_dict d : pd_eq d (nf_dict d).
Proof. intros k. rewrite alookup_nf_dict. destruct (alookup k d); simpl; [rewrite nf_idem|]; reflexivity. Qed.
Lemma pv_eqv_dicts a b : pv_eqv (PDict a) (PDict b) -> pd_eq a b.
Proof.
  unfold pv_eqv. rewrite !nf_dict_eq. intros H. inversion H as [H1]. intros k.
  rewrite <- !alookup_nf_dict, H1. reflexivity.
Qed.
Lemma pd_eq_dicts a b : pd_eq a b -> pv_eqv (PDict a) (PDict b).
Proof.
  (* not needed by the signature; the converse of the above *)
  intros H. unfold pv_eqv. rewrite !nf_dict_eq. f_equal.
  (* two sorted duplicate-free lists with the same lookups are equal *)
  assert (L : forall (x y : dict), NoDup (map fst x) -> NoDup (map fst y) -> sorted x -> sorted y ->
              (forall k, alookup k x = alookup k y) -> x = y).
  { induction x as [|[k v] x IH]; intros y Nx Ny Sx Sy Hl.
    - destruct y as [|[k' v'] y]; [reflexivity|]. specialize (Hl k'). simpl in Hl. rewrite str_eqb_refl in Hl. discriminate.
    - destruct y as [|[k' v'] y]; [specialize (Hl k); simpl in Hl; rewrite str_eqb_refl in Hl; discriminate|].
      inversion Nx as [|? ? Hnx Ndx]; inversion Ny as [|? ? Hny Ndy]; subst. destruct Sx as [Sx1 Sx2]. destruct Sy as [Sy1 Sy2].
      assert (Ek : k = k').
      { pose proof (Hl k) as H1. pose proof (Hl k') as H2. simpl in H1, H2. rewrite str_eqb_refl in H1, H2.
        destruct (str_eqb k k') eqn:E; [apply list_eqb_N_eq; exact E|].
        rewrite str_eqb_sym, E in H2. symmetry in H1.
        rewrite alookup_lookup in H1, H2. apply lookup_In in H1. apply lookup_In in H2.
        apply (in_map fst) in H1. apply (in_map fst) in H2. simpl in H1, H2.
        pose proof (Sy1 k H1) as A. pose proof (Sx1 k' H2) as B. exact (str_ltb_total _ _ A B). }
      subst k'. pose proof (Hl k) as H1. simpl in H1. rewrite str_eqb_refl in H1. inversion H1; subst v'. f_equal.
      apply IH; try assumption. intros k0. specialize (Hl k0). simpl in Hl.
      destruct (str_eqb k0 k) eqn:E; [|exact Hl]. apply list_eqb_N_eq in E. subst k0.
      assert (A : alookup k x = None) by (rewrite alookup_lookup; apply lookup_None; exact Hnx).
      assert (B : alookup k y = None) by (rewrite alookup_lookup; apply lookup_None; exact Hny).
      rewrite A, B. reflexivity. }
  apply L; try apply nf_dict_NoDup; try (unfold nf_dict; apply sort_keys_sorted).
  intros k. rewrite !alookup_nf_dict. apply H.
Qed.
