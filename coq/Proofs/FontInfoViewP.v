(** fontinfo.plist with both layers (Model/FontInfoView.v): the composed part is lawful. *)
Require Import Norad.Model.GlifSpec Norad.Model.GlifEncode.
Require Import Norad.Model.FontRT Norad.Model.FontRealInfo Norad.Model.FontRealPlist Norad.Model.FontRealFiles
               Norad.Model.FontInfoFile Norad.Model.FontInfoSchema Norad.Model.FontInfoView.
Require Import Norad.Proofs.FontRTP Norad.Proofs.FontRealPlistP Norad.Proofs.FontInfoFileP.
Open Scope N_scope.

Lemma save_ok_validates : forall i j, FI.fi_save i = Ok j -> FI.fi_validate i = Ok tt /\ j = i.
Proof.
  intros i j H. unfold FI.fi_save in H. destruct (FI.fi_validate i) as [[]| |]; try discriminate.
  destruct (FI.ser_angles_ok i); inversion H. auto.
Qed.
Lemma decode_save_load : forall r i, FI.decode r = Some i -> FI.fi_save i = Ok i -> FI.fi_load r = Ok i.
Proof.
  intros r i D S. unfold FI.fi_load. rewrite D. destruct (save_ok_validates _ _ S) as [V _]. rewrite V. reflexivity.
Qed.

Local Opaque font_info_schema.
Section P.
Variable pf : str -> option fl.
Variable ff : fl -> str.
Variable fi : Z -> str.
Hypothesis H_ff : forall x, fl_finite x = true -> pf (ff x) = Some x.
Hypothesis H_fi : forall z, int_ok z = true -> plist_int (fi z) = Some z.

(** a value [validate] and the serialiser accept is written, and what is written is loaded — through
    the plist tree, serde's shape, the hand-written deserialisers' checks and [validate] — as the same
    value, with the same rule-relevant view *)
Theorem fontinfo_value_roundtrip : forall v i,
  wt font_info_schema v = true -> FI.decode (raw_of_sval v) = Some i -> FI.fi_save i = Ok i ->
  exists n, save_info_file ff fi v = Some n /\ load_info_file pf n = Some v /\
            FI.fi_load (raw_of_sval v) = Ok i.
Proof.
  intros v i W D S. unfold save_info_file. rewrite D, S. eexists. split; [reflexivity|].
  pose proof (decode_save_load _ _ D S) as L. split; [|exact L].
  unfold load_info_file. rewrite (fontinfo_file_roundtrip pf ff fi H_ff H_fi v W). cbn [obind]. rewrite L. reflexivity.
Qed.

Theorem info_file_part_ok : forall O, part_ok (P_info_file pf ff fi O).
Proof.
  intros O. constructor; simpl.
  - reflexivity.
  - intros x y E. symmetry. exact E.
  - intros x y z E1 E2. congruence.
  - intros o v (W & i & D & S). destruct (fontinfo_value_roundtrip v i W D S) as (n & E1 & E2 & _).
    exists n, v. auto.
  - intros o1 o2 x c1 c2 _ H1 H2. congruence.
Qed.
End P.

(** the domain is inhabited: the font info without any field *)
Definition sval_none : sval :=
  match font_info_schema with SRec _ fs => VRec (map (fun _ => VOpt None) fs) | _ => VRec [] end.
Lemma sval_none_ok : info_value_ok sval_none.
Proof.
  split; [vm_compute; reflexivity|]. eexists. split; vm_compute; reflexivity.
Qed.
