(** Proofs about the designspace model (Model/Designspace.v): integers, property lists,
    every record, the document; the specification writer; the reader class. *)
Require Import Norad.Model.Designspace Norad.Proofs.DsXmlP.
From Coq Require Import Lia DecimalString Decimal DecimalZ DecimalN DecimalPos.
Open Scope string_scope.
Open Scope list_scope.

Arguments split_sp : simpl never.
Arguments join_sp : simpl never.
Arguments trim : simpl never.
Arguments field_list : simpl never.
Arguments print_int : simpl never.
Arguments parse_int : simpl never.

(** * Integers *)
Lemma uint_first_char : forall u, u <> Nil ->
  exists c r, NilZero.string_of_uint u = String c r /\
              Ascii.eqb c plus_c = false /\ Ascii.eqb c minus_c = false.
Proof.
  intros u H. destruct u; try congruence;
    (eexists; eexists; split; [reflexivity|split; reflexivity]).
Qed.

Lemma uint_not_0x : forall u, starts_0x (NilZero.string_of_uint u) = false.
Proof.
  intros u. destruct u as [|u|u|u|u|u|u|u|u|u|u]; [reflexivity|..]; destruct u; reflexivity.
Qed.

Lemma dec_digits_uint : forall u, u <> Nil ->
  dec_digits (NilZero.string_of_uint u) = Some (Z.of_N (N.of_uint u)).
Proof. intros u H. unfold dec_digits. now rewrite (NilZero.usu u H). Qed.

Lemma parse_int_uint : forall u, u <> Nil ->
  (Z.of_N (N.of_uint u) <= int_max)%Z ->
  parse_int (NilZero.string_of_uint u) = Some (Z.of_N (N.of_uint u)).
Proof.
  intros u Hne Hmax. set (z := Z.of_N (N.of_uint u)) in *.
  assert (Hz : (0 <= z)%Z) by (unfold z; lia).
  unfold parse_int. rewrite uint_not_0x.
  destruct (uint_first_char u Hne) as (c & r & E & Hp & Hm).
  assert (Hd : dec_digits (String c r) = Some z) by (rewrite <- E; now apply dec_digits_uint).
  assert (Pi : parse_i64 (String c r) =
               if ((int_min <=? z) && (z <? 9223372036854775808))%Z then Some z else None).
  { unfold parse_i64. rewrite Hp, Hm, Hd. reflexivity. }
  assert (Pu : parse_u64 (String c r) = Some z).
  { unfold parse_u64. rewrite Hp, Hd. apply Z.leb_le in Hmax. now rewrite Hmax. }
  rewrite E, Pi. destruct ((int_min <=? z) && (z <? 9223372036854775808))%Z; [reflexivity|exact Pu].
Qed.

Lemma parse_print_int : forall z, int_ok z = true -> parse_int (print_int z) = Some z.
Proof.
  intros z H. unfold int_ok in H. apply andb_true_iff in H as [Hlo Hhi].
  apply Z.leb_le in Hlo. apply Z.leb_le in Hhi.
  destruct z as [|p|p].
  - reflexivity.
  - unfold print_int. cbn [Z.to_int NilZero.string_of_int].
    pose proof (parse_int_uint (Pos.to_uint p) (Unsigned.to_uint_nonnil p)) as P.
    unfold N.of_uint in P. rewrite Unsigned.of_to in P. cbn [Z.of_N] in P. now apply P.
  - unfold print_int. cbn [Z.to_int NilZero.string_of_int].
    assert (S0 : starts_0x (String "-" (NilZero.string_of_uint (Pos.to_uint p))) = false)
      by (destruct (NilZero.string_of_uint (Pos.to_uint p)); reflexivity).
    unfold parse_int. rewrite S0.
    unfold parse_i64. change (Ascii.eqb "-" plus_c) with false. change (Ascii.eqb "-" minus_c) with true.
    cbn iota. rewrite (dec_digits_uint _ (Unsigned.to_uint_nonnil p)).
    unfold N.of_uint. rewrite Unsigned.of_to. cbn [Z.of_N option_map Z.opp].
    assert (R : ((int_min <=? Z.neg p) && (Z.neg p <? 9223372036854775808))%Z = true).
    { apply andb_true_iff. split; [now apply Z.leb_le|apply Z.ltb_lt; lia]. }
    now rewrite R.
Qed.

Lemma print_int_clean : forall z, edge_ws (print_int z) = false.
Proof.
  intros z. unfold print_int.
  assert (U : forall u, str_exists is_ws (NilEmpty.string_of_uint u) = false).
  { induction u; cbn; auto. }
  assert (E : forall s, str_exists is_ws s = false -> edge_ws s = false).
  { intros s. unfold edge_ws. induction s as [|c r IH]; [reflexivity|].
    cbn [str_exists lead_ws]. intros H. apply orb_false_iff in H as [Hc Hr]. rewrite Hc. cbn [orb].
    destruct r as [|c2 r2]; [exact Hc|].
    specialize (IH Hr). cbn [lead_ws] in IH. apply orb_false_iff in IH as [_ IH]. exact IH. }
  apply E. destruct z as [|p|p]; [reflexivity| |].
  - cbn [Z.to_int NilZero.string_of_int]. destruct (Pos.to_uint p); try reflexivity; apply (U _).
  - cbn [Z.to_int NilZero.string_of_int]. cbn [str_exists]. change (is_ws "-") with false. cbn [orb].
    destruct (Pos.to_uint p); try reflexivity; apply (U _).
Qed.

(** * Dictionaries *)
Lemma keys_nodup_NoDup : forall l, keys_nodup l = true -> NoDup l.
Proof.
  induction l as [|k r IH]; intros H; [constructor|].
  cbn in H. apply andb_true_iff in H as [Hk Hr]. constructor; [|now apply IH].
  intros I. apply negb_true_iff in Hk.
  assert (E : existsb (String.eqb k) r = true).
  { apply existsb_exists. exists k. split; [exact I|apply String.eqb_refl]. }
  congruence.
Qed.

Section WithL1.
  Variable L : l1.
  Hypothesis L_ok : l1_ok L.

  Let f32_pp : forall x, l_f32_parse L (l_f32_print L x) = Some x := proj1 L_ok.
  Let f32_tok : forall x, token (l_f32_print L x) := proj1 (proj2 L_ok).
  Let f64_pp : forall x, l_f64_parse L (l_f64_print L x) = Some x := proj1 (proj2 (proj2 L_ok)).
  Let f64_cl : forall x, edge_ws (l_f64_print L x) = false := proj1 (proj2 (proj2 (proj2 L_ok))).
  Let date_pp : forall x, l_date_parse L (l_date_print L x) = Some x :=
    proj1 (proj2 (proj2 (proj2 (proj2 L_ok)))).
  Let date_cl : forall x, edge_ws (l_date_print L x) = false :=
    proj1 (proj2 (proj2 (proj2 (proj2 (proj2 L_ok))))).
  Let b64_pp : forall x, l_b64_dec L (l_b64_enc L x) = Some x :=
    proj1 (proj2 (proj2 (proj2 (proj2 (proj2 (proj2 L_ok)))))).
  Let b64_cl : forall x, edge_ws (l_b64_enc L x) = false :=
    proj2 (proj2 (proj2 (proj2 (proj2 (proj2 (proj2 L_ok)))))).

  Lemma dict_insert_fresh : forall k (v : pv L) acc,
    ~ In k (map fst acc) -> dict_insert L k v acc = acc ++ [(k, v)].
  Proof.
    induction acc as [|[k' v'] r IH]; intros H; [reflexivity|].
    cbn in *. destruct (String.eqb k k') eqn:E.
    - apply String.eqb_eq in E. exfalso. apply H. left. now symmetry.
    - f_equal. apply IH. intros I. apply H. now right.
  Qed.

  Lemma dict_of_pairs_aux : forall (l acc : list (string * pv L)),
    NoDup (map fst (acc ++ l)) ->
    fold_left (fun a kv => dict_insert L (fst kv) (snd kv) a) l acc = acc ++ l.
  Proof.
    induction l as [|[k v] r IH]; intros acc H; [now rewrite app_nil_r|].
    cbn [fold_left fst snd]. rewrite dict_insert_fresh.
    - rewrite IH; rewrite <- app_assoc; [reflexivity|exact H].
    - rewrite map_app in H. cbn in H. apply NoDup_remove_2 in H.
      intros I. apply H. apply in_or_app. now left.
  Qed.

  Lemma dict_of_pairs_id : forall l : list (string * pv L),
    keys_nodup (map fst l) = true -> dict_of_pairs L l = l.
  Proof.
    intros l H. unfold dict_of_pairs. rewrite dict_of_pairs_aux; [reflexivity|].
    cbn. now apply keys_nodup_NoDup.
  Qed.

  (** * Property lists *)
  Section PvInd.
    Variable P : pv L -> Prop.
    Hypothesis Hs : forall s, P (PStr L s).
    Hypothesis Hi : forall z, P (PInt L z).
    Hypothesis Hr : forall r, P (PReal L r).
    Hypothesis Hb : forall b, P (PBool L b).
    Hypothesis Hd : forall d, P (PData L d).
    Hypothesis Ht : forall t, P (PDate L t).
    Hypothesis Ha : forall l, Forall P l -> P (PArr L l).
    Hypothesis Hm : forall l, Forall (fun kv => P (snd kv)) l -> P (PDict L l).
    Fixpoint pv_ind2 (v : pv L) : P v :=
      match v with
      | PStr _ s => Hs s
      | PInt _ z => Hi z
      | PReal _ r => Hr r
      | PBool _ b => Hb b
      | PData _ d => Hd d
      | PDate _ t => Ht t
      | PArr _ l => Ha l ((fix go (l : list (pv L)) : Forall P l :=
                             match l with
                             | [] => Forall_nil P
                             | x :: r => Forall_cons x (pv_ind2 x) (go r)
                             end) l)
      | PDict _ l => Hm l ((fix go (l : list (string * pv L)) : Forall (fun kv => P (snd kv)) l :=
                              match l with
                              | [] => Forall_nil _
                              | kv :: r => Forall_cons kv (pv_ind2 (snd kv)) (go r)
                              end) l)
      end.
  End PvInd.

  (** the inner loops of [enc_pv] / [dec_pv] under names *)
  Definition enc_arr : list (pv L) -> list node :=
    fix go (l : list (pv L)) : list node :=
      match l with [] => [] | x :: r => enc_pv L x :: go r end.
  Definition enc_ents : list (string * pv L) -> list node :=
    fix go (l : list (string * pv L)) : list node :=
      match l with
      | [] => []
      | (k, x) :: r => Elem "key" [] (text_kids k) :: enc_pv L x :: go r
      end.
  Definition dec_arr : list node -> option (list (pv L)) :=
    fix go (l : list node) : option (list (pv L)) :=
      match l with
      | [] => Some []
      | k :: r => match dec_pv L k, go r with
                  | Some v, Some vs => Some (v :: vs)
                  | _, _ => None
                  end
      end.
  Definition dec_ents : list node -> option (list (string * pv L)) :=
    fix go (l : list node) : option (list (string * pv L)) :=
      match l with
      | [] => Some []
      | Elem ktag _ kk :: r1 =>
          if tag_is ktag "key" then
            match r1 with
            | v :: r => match kids_text kk, dec_pv L v, go r with
                        | Some k, Some x, Some ps => Some ((k, x) :: ps)
                        | _, _, _ => None
                        end
            | [] => None
            end
          else None
      | Text _ :: _ => None
      end.
  Lemma enc_pv_arr : forall l, enc_pv L (PArr L l) = Elem "array" [] (enc_arr l).
  Proof. reflexivity. Qed.
  Lemma enc_pv_dict : forall l, enc_pv L (PDict L l) = Elem "dict" [] (enc_ents l).
  Proof. reflexivity. Qed.
  Lemma dec_pv_arr : forall kids, dec_pv L (Elem "array" [] kids) = option_map (PArr L) (dec_arr kids).
  Proof. reflexivity. Qed.
  Lemma dec_pv_dict : forall kids,
    dec_pv L (Elem "dict" [] kids) = option_map (fun ps => PDict L (dict_of_pairs L ps)) (dec_ents kids).
  Proof. reflexivity. Qed.

  Definition pv_ok_list : list (pv L) -> bool :=
    fix go (l : list (pv L)) : bool := match l with [] => true | x :: r => pv_ok L x && go r end.
  Definition pv_ok_ents : list (string * pv L) -> bool :=
    fix go (l : list (string * pv L)) : bool :=
      match l with [] => true | (_, x) :: r => pv_ok L x && go r end.
  Definition edge_list : list (pv L) -> bool :=
    fix go (l : list (pv L)) : bool := match l with [] => false | x :: r => pv_edge_ws L x || go r end.
  Definition edge_ents : list (string * pv L) -> bool :=
    fix go (l : list (string * pv L)) : bool :=
      match l with [] => false | (k, x) :: r => edge_ws k || pv_edge_ws L x || go r end.
  Lemma pv_ok_arr : forall l, pv_ok L (PArr L l) = pv_ok_list l. Proof. reflexivity. Qed.
  Lemma pv_ok_dict : forall l, pv_ok L (PDict L l) = keys_nodup (map fst l) && pv_ok_ents l.
  Proof. reflexivity. Qed.
  Lemma edge_arr : forall l, pv_edge_ws L (PArr L l) = edge_list l. Proof. reflexivity. Qed.
  Lemma edge_dict : forall l, pv_edge_ws L (PDict L l) = edge_ents l. Proof. reflexivity. Qed.

  Lemma leaf_text : forall s, edge_ws s = false -> kids_text (text_kids s) = Some s.
  Proof. intros s H. rewrite kids_text_text_kids. now rewrite trim_id. Qed.

  Theorem dec_enc_pv : forall v,
    pv_ok L v = true -> pv_edge_ws L v = false -> dec_pv L (enc_pv L v) = Some v.
  Proof.
    induction v as [s|z|r|b|d|t|l IH|l IH] using pv_ind2; intros Hok Hed.
    - cbn in Hed. cbn [enc_pv]. change (dec_pv L (Elem "string" [] (text_kids s)))
        with (option_map (PStr L) (kids_text (text_kids s))). now rewrite leaf_text.
    - cbn in Hok. cbn [enc_pv].
      change (dec_pv L (Elem "integer" [] (text_kids (print_int z))))
        with (bind (kids_text (text_kids (print_int z))) (fun s => option_map (PInt L) (parse_int s))).
      rewrite leaf_text by apply print_int_clean. cbn [bind]. now rewrite parse_print_int.
    - cbn [enc_pv].
      change (dec_pv L (Elem "real" [] (text_kids (l_f64_print L r))))
        with (bind (kids_text (text_kids (l_f64_print L r))) (fun s => option_map (PReal L) (l_f64_parse L s))).
      rewrite leaf_text by apply f64_cl. cbn [bind]. now rewrite f64_pp.
    - destruct b; reflexivity.
    - cbn [enc_pv].
      change (dec_pv L (Elem "data" [] (text_kids (l_b64_enc L d))))
        with (bind (kids_text (text_kids (l_b64_enc L d))) (fun s => option_map (PData L) (l_b64_dec L s))).
      rewrite leaf_text by apply b64_cl. cbn [bind]. now rewrite b64_pp.
    - cbn [enc_pv].
      change (dec_pv L (Elem "date" [] (text_kids (l_date_print L t))))
        with (bind (kids_text (text_kids (l_date_print L t))) (fun s => option_map (PDate L) (l_date_parse L s))).
      rewrite leaf_text by apply date_cl. cbn [bind]. now rewrite date_pp.
    - rewrite enc_pv_arr, dec_pv_arr. rewrite pv_ok_arr in Hok. rewrite edge_arr in Hed.
      assert (K : dec_arr (enc_arr l) = Some l).
      { induction l as [|x r IHr]; [reflexivity|].
        inversion IH as [|? ? Px Pr]; subst.
        cbn [pv_ok_list] in Hok. apply andb_true_iff in Hok as [Ho1 Ho2].
        cbn [edge_list] in Hed. apply orb_false_iff in Hed as [He1 He2].
        cbn [enc_arr dec_arr]. rewrite (Px Ho1 He1).
        fold enc_arr. fold dec_arr. now rewrite (IHr Pr Ho2 He2). }
      now rewrite K.
    - rewrite enc_pv_dict, dec_pv_dict. rewrite pv_ok_dict in Hok. rewrite edge_dict in Hed.
      apply andb_true_iff in Hok as [Hnd Hok].
      assert (K : dec_ents (enc_ents l) = Some l).
      { clear Hnd. induction l as [|[k x] r IHr]; [reflexivity|].
        inversion IH as [|? ? Px Pr]; subst. cbn [snd] in Px.
        cbn [pv_ok_ents] in Hok. apply andb_true_iff in Hok as [Ho1 Ho2].
        cbn [edge_ents] in Hed. apply orb_false_iff in Hed as [He1 He2].
        apply orb_false_iff in He1 as [Hk He1].
        cbn [enc_ents dec_ents]. change (tag_is "key" "key") with true. cbn iota.
        rewrite (leaf_text _ Hk), (Px Ho1 He1).
        fold enc_ents. fold dec_ents. now rewrite (IHr Pr Ho2 He2). }
      rewrite K. cbn [option_map]. now rewrite dict_of_pairs_id.
  Qed.

  (** * Records *)
  Definition is_elemb (n : node) : bool := match n with Elem _ _ _ => true | Text _ => false end.
  Lemma elems_all : forall l, forallb is_elemb l = true -> elems l = l.
  Proof.
    induction l as [|x r IH]; intros H; [reflexivity|].
    cbn in H. apply andb_true_iff in H as [Hx Hr]. unfold elems in *. cbn [filter].
    destruct x; [|discriminate]. now rewrite IH.
  Qed.
  Lemma forallb_map_const {A} (p : node -> bool) (f : A -> node) : forall l,
    (forall x, p (f x) = true) -> forallb p (map f l) = true.
  Proof. induction l as [|x r IH]; intros H; [reflexivity|]. cbn. now rewrite H, IH. Qed.
  Lemma elems_map {A} (f : A -> node) : forall l,
    (forall x, is_elemb (f x) = true) -> elems (map f l) = map f l.
  Proof. intros l H. apply elems_all. now apply forallb_map_const. Qed.
  Lemma field_list_map {A} (k : string) (f : A -> node) : forall l,
    (forall x, is_named k (f x) = true) -> field_list k (map f l) = Some (map f l).
  Proof.
    intros l H. rewrite <- (app_nil_r (map f l)) at 1.
    apply field_list_run; [now apply forallb_map_const|reflexivity].
  Qed.

  Lemma dec_enc_mapping : forall m, dec_mapping L (enc_mapping L m) = Some m.
  Proof.
    intros [i o]. unfold dec_mapping, enc_mapping, req_f32, f32_attr. cbn.
    rewrite !f32_pp. reflexivity.
  Qed.

  Lemma values_roundtrip : forall l : list (l_F32 L),
    all_opt (map (l_f32_parse L) (split_sp (join_sp (map (l_f32_print L) l)))) = Some l.
  Proof.
    intros l. rewrite split_join_sp.
    - apply all_opt_map. intros x _. apply f32_pp.
    - apply Forall_forall. intros s Hs. apply in_map_iff in Hs as (x & <- & _). apply f32_tok.
  Qed.

  Lemma dec_enc_axis : forall a, axis_wf L a = true -> dec_axis L (enc_axis L a) = Some a.
  Proof.
    intros [name tag dflt hidden mn mx vals mp] Hwf. unfold axis_wf in Hwf. cbn [ax_map] in Hwf.
    assert (M : forall (B : Type) (attrs : option (list (mapping L)) -> option B),
      bind (field_list "map" (elems (match mp with Some l => map (enc_mapping L) l | None => [] end)))
           (fun maps => bind (match maps with
                              | [] => Some None
                              | _ => option_map Some (all_opt (map (dec_mapping L) maps))
                              end) attrs) = attrs mp).
    { intros B attrs. destruct mp as [l|]; [|reflexivity].
      rewrite elems_map by reflexivity. rewrite field_list_map by reflexivity. cbn [bind].
      destruct l as [|m r]; [discriminate|].
      cbn [map]. rewrite dec_enc_mapping. cbn [all_opt].
      change (map (dec_mapping L) (map (enc_mapping L) r)) with
        (map (dec_mapping L) (map (enc_mapping L) r)).
      rewrite (all_opt_map (dec_mapping L) (enc_mapping L) r (fun x _ => dec_enc_mapping x)).
      reflexivity. }
    unfold dec_axis, enc_axis. cbn [ax_name ax_tag ax_default ax_hidden ax_minimum ax_maximum ax_values ax_map].
    destruct hidden, mn as [mn|], mx as [mx|], vals as [vals|];
      unfold req_attr, req_f32, f32_attr, f32_opt_attr, opt_f32, opt_attr, attr;
      cbn; rewrite ?f32_pp; cbn;
      rewrite ?values_roundtrip; cbn;
      rewrite M; reflexivity.
  Qed.

  Lemma dec_enc_condition : forall c, dec_condition L (enc_condition L c) = Some c.
  Proof.
    intros [name mn mx]. unfold dec_condition, enc_condition.
    destruct mn as [mn|], mx as [mx|];
      unfold req_attr, f32_opt_attr, opt_f32, opt_attr, attr; cbn; rewrite ?f32_pp; reflexivity.
  Qed.

  Lemma dec_enc_condset : forall cs, dec_condset L (enc_condset L cs) = Some cs.
  Proof.
    intros cs. unfold dec_condset, enc_condset.
    rewrite elems_map by reflexivity. rewrite field_list_map by reflexivity. cbn [bind].
    apply all_opt_map. intros x _. apply dec_enc_condition.
  Qed.

  Lemma dec_enc_sub : forall s,
    name_valid (sub_name s) && name_valid (sub_with s) = true -> dec_sub (enc_sub s) = Some s.
  Proof.
    intros [n w] H. cbn [sub_name sub_with] in H. unfold dec_sub, enc_sub, req_attr, attr. cbn.
    now rewrite H.
  Qed.

  Lemma req_list_map {A} (k : string) (f : A -> node) : forall l,
    l <> [] -> (forall x, is_named k (f x) = true) -> req_list k (map f l) = Some (map f l).
  Proof.
    intros l Hne H. unfold req_list. rewrite field_list_map by exact H.
    destruct l; [congruence|reflexivity].
  Qed.

  Lemma dec_enc_rule : forall r, rule_wf L r = true -> dec_rule L (enc_rule L r) = Some r.
  Proof.
    intros [name css subs] H. unfold rule_wf in H. cbn [r_condsets r_subs] in H.
    apply andb_true_iff in H as [H Hv]. apply andb_true_iff in H as [Hc Hs].
    unfold dec_rule, enc_rule. cbn [r_name r_condsets r_subs].
    assert (E : elems (map (enc_condset L) css ++ map enc_sub subs)
                = map (enc_condset L) css ++ map enc_sub subs).
    { apply elems_all. rewrite forallb_app. rewrite !forallb_map_const by reflexivity. reflexivity. }
    rewrite E.
    assert (F1 : req_list "conditionset" (map (enc_condset L) css ++ map enc_sub subs)
                 = Some (map (enc_condset L) css)).
    { unfold req_list. rewrite field_list_run.
      - destruct css; [discriminate|reflexivity].
      - now apply forallb_map_const.
      - now apply forallb_map_const. }
    assert (F2 : req_list "sub" (map (enc_condset L) css ++ map enc_sub subs) = Some (map enc_sub subs)).
    { unfold req_list. rewrite field_list_skip by (now apply forallb_map_const).
      rewrite field_list_map by reflexivity. destruct subs; [discriminate|reflexivity]. }
    rewrite F1, F2. cbn [bind].
    rewrite (all_opt_map (dec_condset L) (enc_condset L) css (fun x _ => dec_enc_condset x)). cbn [bind].
    rewrite (all_opt_map dec_sub enc_sub subs).
    - cbn [bind]. destruct name; reflexivity.
    - intros x Hx. apply dec_enc_sub. rewrite forallb_forall in Hv. now apply Hv.
  Qed.

  Lemma dec_enc_rules : forall r,
    forallb (rule_wf L) (rs_rules L r) = true -> dec_rules L (enc_rules L r) = Some r.
  Proof.
    intros [p rs] H. cbn [rs_rules] in H. unfold dec_rules, enc_rules. cbn [rs_processing rs_rules].
    rewrite elems_map by reflexivity. rewrite field_list_map by reflexivity.
    assert (A : attr "processing" [("processing", processing_str p)] = Some (processing_str p)) by reflexivity.
    rewrite A. replace (parse_processing (processing_str p)) with (Some p) by (destruct p; reflexivity).
    cbn [bind]. rewrite (all_opt_map (dec_rule L) (enc_rule L) rs).
    - reflexivity.
    - intros x Hx. apply dec_enc_rule. rewrite forallb_forall in H. now apply H.
  Qed.

  Lemma dec_enc_dimension : forall d, dec_dimension L (enc_dimension L d) = Some d.
  Proof.
    intros [name u x y]. unfold dec_dimension, enc_dimension.
    destruct u as [u|], x as [x|], y as [y|];
      unfold req_attr, f32_opt_attr, opt_f32, opt_attr, attr; cbn; rewrite ?f32_pp; reflexivity.
  Qed.

  Lemma dec_wrapped_map {A} (inner outer : string) (f : A -> node) (g : node -> option A) : forall l a,
    l <> [] -> (forall x, is_named inner (f x) = true) -> (forall x, is_elemb (f x) = true) ->
    (forall x, In x l -> g (f x) = Some x) ->
    dec_wrapped inner g (Elem outer a (map f l)) = Some l.
  Proof.
    intros l a Hne Hn He Hg. unfold dec_wrapped. rewrite elems_map by exact He.
    rewrite req_list_map by assumption. cbn [bind]. now apply all_opt_map.
  Qed.

  Lemma dec_enc_location : forall l rest,
    l <> [] -> forallb (not_named "location") rest = true ->
    dec_location_field L (enc_location L l :: rest) = Some l.
  Proof.
    intros l rest Hne Hr. unfold dec_location_field, field_one.
    change (enc_location L l :: rest) with ([enc_location L l] ++ rest).
    rewrite field_list_run by (reflexivity || exact Hr).
    unfold enc_location. apply dec_wrapped_map; try reflexivity; [exact Hne|].
    intros x _. apply dec_enc_dimension.
  Qed.

  Lemma dec_enc_source : forall s,
    nonempty (s_location L s) = true -> dec_source L (enc_source L s) = Some s.
  Proof.
    intros [fam sty name fname layer loc] H. cbn [s_location] in H.
    unfold dec_source, enc_source. cbn [s_familyname s_stylename s_name s_filename s_layer s_location].
    change (elems [enc_location L loc]) with [enc_location L loc].
    rewrite dec_enc_location by (reflexivity || (destruct loc; [discriminate|congruence])).
    destruct fam, sty, name, layer; reflexivity.
  Qed.

  Lemma dec_enc_lib_node : forall l,
    dict_ok L l = true -> dict_edge_ws L l = false -> dec_lib L (enc_lib L l) = Some l.
  Proof.
    intros l Hok Hed. unfold dec_lib, enc_lib.
    change (elems [enc_pv L (PDict L l)]) with [enc_pv L (PDict L l)].
    change (field_one "dict" [enc_pv L (PDict L l)]) with (Some (Some (enc_pv L (PDict L l)))).
    cbv iota beta. now rewrite (dec_enc_pv (PDict L l) Hok Hed).
  Qed.

  Lemma dec_enc_lib_field : forall l pre,
    dict_ok L l = true -> dict_edge_ws L l = false ->
    forallb (not_named "lib") pre = true ->
    dec_lib_field L (pre ++ enc_lib_field L l) = Some l.
  Proof.
    intros l pre Hok Hed Hp. unfold dec_lib_field, field_one.
    rewrite field_list_skip by exact Hp.
    destruct l as [|kv r]; [reflexivity|].
    change (field_list "lib" (enc_lib_field L (kv :: r))) with (Some [enc_lib L (kv :: r)]).
    now apply dec_enc_lib_node.
  Qed.

  Lemma dec_enc_instance : forall i,
    nonempty (i_location L i) && dict_ok L (i_lib L i) = true ->
    dict_edge_ws L (i_lib L i) = false ->
    dec_instance L (enc_instance L i) = Some i.
  Proof.
    intros [fam sty name fname ps smf sms loc lib] H Hed. cbn [i_location i_lib] in *.
    apply andb_true_iff in H as [Hl Hok].
    unfold dec_instance, enc_instance.
    cbn [i_familyname i_stylename i_name i_filename i_postscriptfontname i_stylemapfamilyname
         i_stylemapstylename i_location i_lib].
    assert (E : elems (enc_location L loc :: enc_lib_field L lib) = enc_location L loc :: enc_lib_field L lib).
    { destruct lib; reflexivity. }
    rewrite E.
    rewrite dec_enc_location; [| destruct loc; [discriminate|congruence] | destruct lib; reflexivity].
    cbn [bind].
    change (enc_location L loc :: enc_lib_field L lib) with ([enc_location L loc] ++ enc_lib_field L lib).
    rewrite dec_enc_lib_field by (assumption || reflexivity). cbn [bind].
    destruct fam, sty, name, fname, ps, smf, sms; reflexivity.
  Qed.

  (** * The document *)
  Lemma field_list_mid : forall k pre X post,
    forallb (not_named k) pre = true -> forallb (is_named k) X = true ->
    forallb (not_named k) post = true -> field_list k (pre ++ X ++ post) = Some X.
  Proof. intros k pre X post H1 H2 H3. rewrite field_list_skip by exact H1. now apply field_list_run. Qed.

  Lemma wrapped_named {A} (k outer : string) (f : A -> node) (l : list A) (b : bool) :
    String.eqb k outer = b ->
    forallb (fun n => Bool.eqb (is_named k n) b) (wrapped outer f l) = true.
  Proof. intros H. destruct l; [reflexivity|]. cbn. rewrite H. now destruct b. Qed.
  Lemma wrapped_not_named {A} (k outer : string) (f : A -> node) (l : list A) :
    String.eqb k outer = false -> forallb (not_named k) (wrapped outer f l) = true.
  Proof. intros H. destruct l; [reflexivity|]. cbn. unfold not_named. cbn. now rewrite H. Qed.
  Lemma wrapped_is_named {A} (outer : string) (f : A -> node) (l : list A) :
    forallb (is_named outer) (wrapped outer f l) = true.
  Proof. destruct l; [reflexivity|]. cbn. now rewrite String.eqb_refl. Qed.
  Lemma wrapped_elems {A} (outer : string) (f : A -> node) (l : list A) :
    forallb is_elemb (wrapped outer f l) = true.
  Proof. destruct l; reflexivity. Qed.

  Definition rules_part (r : rules L) : list node :=
    match rs_rules L r with [] => [] | _ => [enc_rules L r] end.
  Lemma rules_part_not_named : forall k r,
    String.eqb k "rules" = false -> forallb (not_named k) (rules_part r) = true.
  Proof.
    intros k r H. unfold rules_part. destruct (rs_rules L r); [reflexivity|].
    cbn. unfold not_named. cbn. now rewrite H.
  Qed.
  Lemma rules_part_named : forall r, forallb (is_named "rules") (rules_part r) = true.
  Proof. intros r. unfold rules_part. destruct (rs_rules L r); reflexivity. Qed.
  Lemma lib_field_not_named : forall k l,
    String.eqb k "lib" = false -> forallb (not_named k) (enc_lib_field L l) = true.
  Proof. intros k l H. destruct l; [reflexivity|]. cbn. unfold not_named. cbn. now rewrite H. Qed.

  Lemma ds_encode_kids : forall d,
    ds_encode L d =
    Elem "designspace" [("format", l_f32_print L (ds_format L d))]
         (wrapped "axes" (enc_axis L) (ds_axes L d) ++ rules_part (ds_rules L d)
          ++ wrapped "sources" (enc_source L) (ds_sources L d)
          ++ wrapped "instances" (enc_instance L) (ds_instances L d)
          ++ enc_lib_field L (ds_lib L d)).
  Proof. reflexivity. Qed.

  Theorem decode_encode : forall d,
    ds_wf L d -> ~ KnownClass_C18 L d -> ds_decode L (ds_encode L d) = Some d.
  Proof.
    intros [fmt axes rls srcs insts lib] Hwf Hk.
    unfold ds_wf, ds_wfb in Hwf. unfold KnownClass_C18, known_class_b in Hk.
    cbn [ds_axes ds_rules ds_sources ds_instances ds_lib] in *.
    apply not_true_is_false in Hk. apply orb_false_iff in Hk as [Hk_lib Hk_inst].
    repeat (apply andb_true_iff in Hwf as [Hwf ?]).
    rename H into Hlib, H0 into Hinst, H1 into Hsloc, H2 into Hsrc, H3 into Hrules, H4 into Haxwf.
    rename Hwf into Hax.
    rewrite ds_encode_kids. cbn [ds_format ds_axes ds_rules ds_sources ds_instances ds_lib].
    set (A := wrapped "axes" (enc_axis L) axes).
    set (R := rules_part rls).
    set (S := wrapped "sources" (enc_source L) srcs).
    set (I := wrapped "instances" (enc_instance L) insts).
    set (B := enc_lib_field L lib).
    unfold ds_decode.
    assert (E : elems (A ++ R ++ S ++ I ++ B) = A ++ R ++ S ++ I ++ B).
    { apply elems_all. rewrite !forallb_app. unfold A, S, I, R, B.
      rewrite !wrapped_elems. cbn [andb].
      unfold rules_part. destruct (rs_rules L rls); destruct lib; reflexivity. }
    rewrite E.
    assert (Fmt : req_f32 L "format" [("format", l_f32_print L fmt)] = Some fmt).
    { unfold req_f32, attr. cbn. apply f32_pp. }
    rewrite Fmt. cbn [bind].
    (* axes *)
    assert (FA : field_one "axes" (A ++ R ++ S ++ I ++ B) = Some (Some (Elem "axes" [] (map (enc_axis L) axes)))).
    { unfold field_one. rewrite (field_list_run "axes" A (R ++ S ++ I ++ B)).
      - unfold A. destruct axes; [discriminate|reflexivity].
      - apply wrapped_is_named.
      - rewrite !forallb_app. unfold R, S, I, B.
        rewrite rules_part_not_named, !wrapped_not_named, lib_field_not_named by reflexivity. reflexivity. }
    rewrite FA.
    rewrite (dec_wrapped_map "axis" "axes" (enc_axis L) (dec_axis L) axes []);
      [| destruct axes; [discriminate|congruence] | reflexivity | reflexivity |
         intros x Hx; apply dec_enc_axis; rewrite forallb_forall in Haxwf; now apply Haxwf].
    cbn [bind].
    (* rules *)
    assert (FR : match field_one "rules" (A ++ R ++ S ++ I ++ B) with
                 | Some None => Some {| rs_processing := PFirst; rs_rules := [] |}
                 | Some (Some n) => dec_rules L n
                 | None => None
                 end = Some rls).
    { unfold field_one. rewrite (field_list_mid "rules" A R (S ++ I ++ B)).
      - unfold rules_wf in Hrules. apply andb_true_iff in Hrules as [Hr1 Hr2].
        unfold R, rules_part. destruct rls as [p rs]. cbn [rs_rules rs_processing] in *.
        destruct rs as [|r0 rs].
        + destruct p; [reflexivity|discriminate].
        + now apply dec_enc_rules.
      - unfold A. now apply wrapped_not_named.
      - apply rules_part_named.
      - rewrite !forallb_app. unfold S, I, B.
        rewrite !wrapped_not_named, lib_field_not_named by reflexivity. reflexivity. }
    rewrite FR. cbn [bind].
    (* sources *)
    assert (FS : field_one "sources" (A ++ R ++ S ++ I ++ B) = Some (Some (Elem "sources" [] (map (enc_source L) srcs)))).
    { unfold field_one. rewrite (app_assoc A R). rewrite (field_list_mid "sources" (A ++ R) S (I ++ B)).
      - unfold S. destruct srcs; [discriminate|reflexivity].
      - rewrite forallb_app. unfold A, R. rewrite wrapped_not_named, rules_part_not_named by reflexivity. reflexivity.
      - apply wrapped_is_named.
      - rewrite forallb_app. unfold I, B. rewrite wrapped_not_named, lib_field_not_named by reflexivity. reflexivity. }
    rewrite FS.
    rewrite (dec_wrapped_map "source" "sources" (enc_source L) (dec_source L) srcs []);
      [| destruct srcs; [discriminate|congruence] | reflexivity | reflexivity |
         intros x Hx; apply dec_enc_source; rewrite forallb_forall in Hsloc; now apply Hsloc].
    cbn [bind].
    (* instances *)
    assert (FI : match field_one "instances" (A ++ R ++ S ++ I ++ B) with
                 | Some None => Some []
                 | Some (Some n) => dec_wrapped "instance" (dec_instance L) n
                 | None => None
                 end = Some insts).
    { unfold field_one.
      replace (A ++ R ++ S ++ I ++ B) with ((A ++ R ++ S) ++ I ++ B) by (now rewrite <- !app_assoc).
      rewrite (field_list_mid "instances" (A ++ R ++ S) I B).
      - unfold I. destruct insts as [|i0 ir]; [reflexivity|]. cbn [wrapped].
        apply dec_wrapped_map; try reflexivity; [congruence|].
        intros x Hx. apply dec_enc_instance.
        + rewrite forallb_forall in Hinst. now apply Hinst.
        + destruct (dict_edge_ws L (i_lib L x)) eqn:Ed; [|reflexivity].
          assert (Ex : existsb (fun i => dict_edge_ws L (i_lib L i)) (i0 :: ir) = true).
          { apply existsb_exists. exists x. now split. }
          congruence.
      - rewrite !forallb_app. unfold A, R, S.
        rewrite !wrapped_not_named, rules_part_not_named by reflexivity. reflexivity.
      - apply wrapped_is_named.
      - unfold B. now apply lib_field_not_named. }
    rewrite FI. cbn [bind].
    (* lib *)
    replace (A ++ R ++ S ++ I ++ B) with ((A ++ R ++ S ++ I) ++ B) by (now rewrite <- !app_assoc).
    unfold B. rewrite dec_enc_lib_field; [reflexivity|assumption|assumption|].
    rewrite !forallb_app. unfold A, R, S, I.
    rewrite !wrapped_not_named, rules_part_not_named by reflexivity. reflexivity.
  Qed.

  (** * The general form: what decode (encode d) is for EVERY well-formed document *)
  Definition trim_list : list (pv L) -> list (pv L) :=
    fix go (l : list (pv L)) : list (pv L) :=
      match l with [] => [] | x :: r => trim_pv L x :: go r end.
  Definition trim_ents : list (string * pv L) -> list (string * pv L) :=
    fix go (l : list (string * pv L)) : list (string * pv L) :=
      match l with [] => [] | (k, x) :: r => (trim k, trim_pv L x) :: go r end.
  Lemma trim_pv_arr : forall l, trim_pv L (PArr L l) = PArr L (trim_list l).
  Proof. reflexivity. Qed.
  Lemma trim_pv_dict : forall l, trim_pv L (PDict L l) = PDict L (dict_of_pairs L (trim_ents l)).
  Proof. reflexivity. Qed.

  Theorem dec_enc_pv_gen : forall v, pv_ok L v = true -> dec_pv L (enc_pv L v) = Some (trim_pv L v).
  Proof.
    induction v as [s|z|r|b|d|t|l IH|l IH] using pv_ind2; intros Hok.
    - cbn [enc_pv trim_pv]. change (dec_pv L (Elem "string" [] (text_kids s)))
        with (option_map (PStr L) (kids_text (text_kids s))). now rewrite kids_text_text_kids.
    - apply dec_enc_pv; [exact Hok|reflexivity].
    - apply dec_enc_pv; reflexivity.
    - apply dec_enc_pv; reflexivity.
    - apply dec_enc_pv; reflexivity.
    - apply dec_enc_pv; reflexivity.
    - rewrite enc_pv_arr, dec_pv_arr, trim_pv_arr. rewrite pv_ok_arr in Hok.
      assert (K : dec_arr (enc_arr l) = Some (trim_list l)).
      { induction l as [|x r IHr]; [reflexivity|].
        inversion IH as [|? ? Px Pr]; subst.
        cbn [pv_ok_list] in Hok. apply andb_true_iff in Hok as [Ho1 Ho2].
        cbn [enc_arr dec_arr trim_list]. rewrite (Px Ho1).
        fold enc_arr. fold dec_arr. fold trim_list. now rewrite (IHr Pr Ho2). }
      now rewrite K.
    - rewrite enc_pv_dict, dec_pv_dict, trim_pv_dict. rewrite pv_ok_dict in Hok.
      apply andb_true_iff in Hok as [_ Hok].
      assert (K : dec_ents (enc_ents l) = Some (trim_ents l)).
      { induction l as [|[k x] r IHr]; [reflexivity|].
        inversion IH as [|? ? Px Pr]; subst. cbn [snd] in Px.
        cbn [pv_ok_ents] in Hok. apply andb_true_iff in Hok as [Ho1 Ho2].
        cbn [enc_ents dec_ents trim_ents]. change (tag_is "key" "key") with true. cbn iota.
        rewrite kids_text_text_kids, (Px Ho1).
        fold enc_ents. fold dec_ents. fold trim_ents. now rewrite (IHr Pr Ho2). }
      now rewrite K.
  Qed.

  Lemma all_opt_map_gen {A B} (f : B -> option A) (g : A -> B) (h : A -> A) : forall l,
    (forall x, In x l -> f (g x) = Some (h x)) -> all_opt (map f (map g l)) = Some (map h l).
  Proof.
    induction l as [|x l IH]; intros H; [reflexivity|].
    cbn. rewrite (H x (or_introl eq_refl)), IH; [reflexivity|].
    intros y Hy. apply H. now right.
  Qed.
  Lemma dec_wrapped_map_gen {A} (inner outer : string) (f : A -> node) (g : node -> option A) (h : A -> A) :
    forall l a,
    l <> [] -> (forall x, is_named inner (f x) = true) -> (forall x, is_elemb (f x) = true) ->
    (forall x, In x l -> g (f x) = Some (h x)) ->
    dec_wrapped inner g (Elem outer a (map f l)) = Some (map h l).
  Proof.
    intros l a Hne Hn He Hg. unfold dec_wrapped. rewrite elems_map by exact He.
    rewrite req_list_map by assumption. cbn [bind]. now apply all_opt_map_gen.
  Qed.

  Lemma dec_enc_lib_node_gen : forall l,
    dict_ok L l = true -> dec_lib L (enc_lib L l) = Some (trim_dict L l).
  Proof.
    intros l Hok. unfold dec_lib, enc_lib.
    change (elems [enc_pv L (PDict L l)]) with [enc_pv L (PDict L l)].
    change (field_one "dict" [enc_pv L (PDict L l)]) with (Some (Some (enc_pv L (PDict L l)))).
    cbv iota beta. rewrite (dec_enc_pv_gen (PDict L l) Hok). unfold trim_dict.
    now rewrite trim_pv_dict.
  Qed.
  Lemma dec_enc_lib_field_gen : forall l pre,
    dict_ok L l = true -> forallb (not_named "lib") pre = true ->
    dec_lib_field L (pre ++ enc_lib_field L l) = Some (trim_dict L l).
  Proof.
    intros l pre Hok Hp. unfold dec_lib_field, field_one.
    rewrite field_list_skip by exact Hp.
    destruct l as [|kv r]; [reflexivity|].
    change (field_list "lib" (enc_lib_field L (kv :: r))) with (Some [enc_lib L (kv :: r)]).
    now apply dec_enc_lib_node_gen.
  Qed.
  Lemma dec_enc_instance_gen : forall i,
    nonempty (i_location L i) && dict_ok L (i_lib L i) = true ->
    dec_instance L (enc_instance L i) = Some (trim_instance L i).
  Proof.
    intros [fam sty name fname ps smf sms loc lib] H. cbn [i_location i_lib] in *.
    apply andb_true_iff in H as [Hl Hok].
    unfold dec_instance, enc_instance, trim_instance.
    cbn [i_familyname i_stylename i_name i_filename i_postscriptfontname i_stylemapfamilyname
         i_stylemapstylename i_location i_lib].
    assert (E : elems (enc_location L loc :: enc_lib_field L lib) = enc_location L loc :: enc_lib_field L lib).
    { destruct lib; reflexivity. }
    rewrite E.
    rewrite dec_enc_location; [| destruct loc; [discriminate|congruence] | destruct lib; reflexivity].
    cbn [bind].
    change (enc_location L loc :: enc_lib_field L lib) with ([enc_location L loc] ++ enc_lib_field L lib).
    rewrite dec_enc_lib_field_gen by (assumption || reflexivity). cbn [bind].
    destruct fam, sty, name, fname, ps, smf, sms; reflexivity.
  Qed.

  Theorem decode_encode_gen : forall d,
    ds_wf L d -> ds_decode L (ds_encode L d) = Some (ds_trim L d).
  Proof.
    intros [fmt axes rls srcs insts lib] Hwf.
    unfold ds_wf, ds_wfb in Hwf.
    cbn [ds_axes ds_rules ds_sources ds_instances ds_lib] in *.
    repeat (apply andb_true_iff in Hwf as [Hwf ?]).
    rename H into Hlib, H0 into Hinst, H1 into Hsloc, H2 into Hsrc, H3 into Hrules, H4 into Haxwf.
    rename Hwf into Hax.
    rewrite ds_encode_kids. cbn [ds_format ds_axes ds_rules ds_sources ds_instances ds_lib].
    set (A := wrapped "axes" (enc_axis L) axes).
    set (R := rules_part rls).
    set (S := wrapped "sources" (enc_source L) srcs).
    set (I := wrapped "instances" (enc_instance L) insts).
    set (B := enc_lib_field L lib).
    unfold ds_decode.
    assert (E : elems (A ++ R ++ S ++ I ++ B) = A ++ R ++ S ++ I ++ B).
    { apply elems_all. rewrite !forallb_app. unfold A, S, I, R, B.
      rewrite !wrapped_elems. cbn [andb].
      unfold rules_part. destruct (rs_rules L rls); destruct lib; reflexivity. }
    rewrite E.
    assert (Fmt : req_f32 L "format" [("format", l_f32_print L fmt)] = Some fmt).
    { unfold req_f32, attr. cbn. apply f32_pp. }
    rewrite Fmt. cbn [bind].
    (* axes *)
    assert (FA : field_one "axes" (A ++ R ++ S ++ I ++ B) = Some (Some (Elem "axes" [] (map (enc_axis L) axes)))).
    { unfold field_one. rewrite (field_list_run "axes" A (R ++ S ++ I ++ B)).
      - unfold A. destruct axes; [discriminate|reflexivity].
      - apply wrapped_is_named.
      - rewrite !forallb_app. unfold R, S, I, B.
        rewrite rules_part_not_named, !wrapped_not_named, lib_field_not_named by reflexivity. reflexivity. }
    rewrite FA.
    rewrite (dec_wrapped_map "axis" "axes" (enc_axis L) (dec_axis L) axes []);
      [| destruct axes; [discriminate|congruence] | reflexivity | reflexivity |
         intros x Hx; apply dec_enc_axis; rewrite forallb_forall in Haxwf; now apply Haxwf].
    cbn [bind].
    (* rules *)
    assert (FR : match field_one "rules" (A ++ R ++ S ++ I ++ B) with
                 | Some None => Some {| rs_processing := PFirst; rs_rules := [] |}
                 | Some (Some n) => dec_rules L n
                 | None => None
                 end = Some rls).
    { unfold field_one. rewrite (field_list_mid "rules" A R (S ++ I ++ B)).
      - unfold rules_wf in Hrules. apply andb_true_iff in Hrules as [Hr1 Hr2].
        unfold R, rules_part. destruct rls as [p rs]. cbn [rs_rules rs_processing] in *.
        destruct rs as [|r0 rs].
        + destruct p; [reflexivity|discriminate].
        + now apply dec_enc_rules.
      - unfold A. now apply wrapped_not_named.
      - apply rules_part_named.
      - rewrite !forallb_app. unfold S, I, B.
        rewrite !wrapped_not_named, lib_field_not_named by reflexivity. reflexivity. }
    rewrite FR. cbn [bind].
    (* sources *)
    assert (FS : field_one "sources" (A ++ R ++ S ++ I ++ B) = Some (Some (Elem "sources" [] (map (enc_source L) srcs)))).
    { unfold field_one. rewrite (app_assoc A R). rewrite (field_list_mid "sources" (A ++ R) S (I ++ B)).
      - unfold S. destruct srcs; [discriminate|reflexivity].
      - rewrite forallb_app. unfold A, R. rewrite wrapped_not_named, rules_part_not_named by reflexivity. reflexivity.
      - apply wrapped_is_named.
      - rewrite forallb_app. unfold I, B. rewrite wrapped_not_named, lib_field_not_named by reflexivity. reflexivity. }
    rewrite FS.
    rewrite (dec_wrapped_map "source" "sources" (enc_source L) (dec_source L) srcs []);
      [| destruct srcs; [discriminate|congruence] | reflexivity | reflexivity |
         intros x Hx; apply dec_enc_source; rewrite forallb_forall in Hsloc; now apply Hsloc].
    cbn [bind].
    (* instances *)
    assert (FI : match field_one "instances" (A ++ R ++ S ++ I ++ B) with
                 | Some None => Some []
                 | Some (Some n) => dec_wrapped "instance" (dec_instance L) n
                 | None => None
                 end = Some (map (trim_instance L) insts)).
    { unfold field_one.
      replace (A ++ R ++ S ++ I ++ B) with ((A ++ R ++ S) ++ I ++ B) by (now rewrite <- !app_assoc).
      rewrite (field_list_mid "instances" (A ++ R ++ S) I B).
      - unfold I. destruct insts as [|i0 ir]; [reflexivity|]. cbn [wrapped].
        apply dec_wrapped_map_gen; try reflexivity; [congruence|].
        intros x Hx. apply dec_enc_instance_gen.
        rewrite forallb_forall in Hinst. now apply Hinst.
      - rewrite !forallb_app. unfold A, R, S.
        rewrite !wrapped_not_named, rules_part_not_named by reflexivity. reflexivity.
      - apply wrapped_is_named.
      - unfold B. now apply lib_field_not_named. }
    rewrite FI. cbn [bind].
    (* lib *)
    replace (A ++ R ++ S ++ I ++ B) with ((A ++ R ++ S ++ I) ++ B) by (now rewrite <- !app_assoc).
    unfold B. rewrite dec_enc_lib_field_gen; [reflexivity|assumption|].
    rewrite !forallb_app. unfold A, R, S, I.
    rewrite !wrapped_not_named, rules_part_not_named by reflexivity. reflexivity.
  Qed.

  Lemma NoDup_app_snoc {A} : forall (l : list A) x, ~ In x l -> NoDup l -> NoDup (l ++ [x]).
  Proof.
    induction l as [|y l IH]; intros x Hn Hd; [constructor; [intros []|constructor]|].
    inversion Hd as [|? ? Hy Hl]; subst. cbn. constructor.
    - intros I. apply in_app_or in I as [I|I]; [now apply Hy|].
      cbn in I. destruct I as [I|[]]. subst. apply Hn. now left.
    - apply IH; [|exact Hl]. intros I. apply Hn. now right.
  Qed.

  (** * The class is exact *)
  Lemma dict_insert_present : forall k (v : pv L) acc,
    In k (map fst acc) -> length (dict_insert L k v acc) = length acc.
  Proof.
    induction acc as [|[k' v'] r IH]; intros H; [destruct H|].
    cbn [dict_insert]. destruct (String.eqb k k') eqn:E; [reflexivity|].
    cbn [length]. f_equal. apply IH. cbn in H. destruct H as [H|H]; [|exact H].
    apply String.eqb_neq in E. congruence.
  Qed.
  Definition dict_fold (ps acc : list (string * pv L)) : list (string * pv L) :=
    fold_left (fun a kv => dict_insert L (fst kv) (snd kv) a) ps acc.
  Lemma dict_fold_bound : forall ps acc, length (dict_fold ps acc) <= length acc + length ps.
  Proof.
    induction ps as [|[k v] r IH]; intros acc; [cbn; lia|].
    cbn [dict_fold fold_left fst snd]. fold (dict_fold r (dict_insert L k v acc)).
    specialize (IH (dict_insert L k v acc)).
    destruct (in_dec string_dec k (map fst acc)) as [I|N].
    - rewrite (dict_insert_present k v acc I) in IH. cbn [length]. lia.
    - rewrite (dict_insert_fresh k v acc N) in *. rewrite app_length in IH. cbn [length] in *. lia.
  Qed.
  Lemma dict_fold_nodup : forall ps acc,
    length (dict_fold ps acc) = length acc + length ps ->
    NoDup (map fst acc) -> NoDup (map fst (acc ++ ps)).
  Proof.
    induction ps as [|[k v] r IH]; intros acc Hl Hn; [now rewrite app_nil_r|].
    cbn [dict_fold fold_left fst snd] in Hl. fold (dict_fold r (dict_insert L k v acc)) in Hl.
    destruct (in_dec string_dec k (map fst acc)) as [I|N].
    - exfalso. pose proof (dict_fold_bound r (dict_insert L k v acc)) as B.
      rewrite (dict_insert_present k v acc I) in B. cbn [length] in Hl. lia.
    - rewrite (dict_insert_fresh k v acc N) in Hl.
      replace (acc ++ (k, v) :: r) with ((acc ++ [(k, v)]) ++ r) by (now rewrite <- app_assoc).
      apply IH.
      + rewrite app_length. cbn [length] in *. lia.
      + rewrite map_app. cbn [map fst]. apply NoDup_app_snoc; assumption.
  Qed.

  Lemma trim_fix_edge : forall s, trim s = s -> edge_ws s = false.
  Proof. intros s H. destruct (edge_ws s) eqn:E; [|reflexivity]. now apply trim_changes in E. Qed.

  Lemma trim_ents_length : forall l, length (trim_ents l) = length l.
  Proof. induction l as [|[k x] r IH]; [reflexivity|]. cbn [trim_ents length]. fold trim_ents. now rewrite IH. Qed.

  (** a dictionary that survives trimming and re-insertion was not touched by either *)
  Lemma dict_rebuild_fix : forall l, dict_of_pairs L (trim_ents l) = l -> trim_ents l = l.
  Proof.
    intros l H.
    assert (N : NoDup (map fst ([] ++ trim_ents l))).
    { apply dict_fold_nodup; [|constructor].
      change (dict_fold (trim_ents l) []) with (dict_of_pairs L (trim_ents l)).
      rewrite H. cbn [length]. now rewrite trim_ents_length. }
    unfold dict_of_pairs in H. rewrite dict_of_pairs_aux in H by exact N. exact H.
  Qed.

  Theorem trim_pv_fix : forall v, trim_pv L v = v -> pv_edge_ws L v = false.
  Proof.
    induction v as [s|z|r|b|d|t|l IH|l IH] using pv_ind2; intros H; try reflexivity.
    - cbn in *. injection H as H. now apply trim_fix_edge.
    - rewrite trim_pv_arr in H. injection H as H. rewrite edge_arr.
      induction l as [|x r IHr]; [reflexivity|].
      inversion IH as [|? ? Px Pr]; subst.
      cbn [trim_list] in H. fold trim_list in H. injection H as H1 H2.
      cbn [edge_list]. rewrite (Px H1). fold edge_list. now rewrite (IHr Pr H2).
    - rewrite trim_pv_dict in H. injection H as H. apply dict_rebuild_fix in H. rewrite edge_dict.
      induction l as [|[k x] r IHr]; [reflexivity|].
      inversion IH as [|? ? Px Pr]; subst. cbn [snd] in Px.
      cbn [trim_ents] in H. fold trim_ents in H. injection H as H1 H2 H3.
      cbn [edge_ents]. rewrite (trim_fix_edge _ H1), (Px H2). fold edge_ents. now rewrite (IHr Pr H3).
  Qed.

  Lemma trim_dict_fix : forall l, trim_dict L l = l -> dict_edge_ws L l = false.
  Proof.
    intros l H. unfold dict_edge_ws. apply trim_pv_fix. unfold trim_dict in H.
    rewrite trim_pv_dict in *. now rewrite H.
  Qed.

  Lemma map_fix {A} (f : A -> A) : forall l, map f l = l -> forall x, In x l -> f x = x.
  Proof.
    induction l as [|y l IH]; intros H x I; [destruct I|].
    cbn in H. injection H as H1 H2. destruct I as [<-|I]; [exact H1|now apply IH].
  Qed.

  Theorem ds_trim_fix : forall d, ds_trim L d = d -> ~ KnownClass_C18 L d.
  Proof.
    intros [fmt axes rls srcs insts lib] H. unfold ds_trim in H.
    cbn [ds_format ds_axes ds_rules ds_sources ds_instances ds_lib] in H.
    injection H as Hi Hl.
    unfold KnownClass_C18, known_class_b. cbn [ds_lib ds_instances].
    rewrite (trim_dict_fix _ Hl). cbn [orb].
    assert (E : existsb (fun i => dict_edge_ws L (i_lib L i)) insts = false).
    { destruct (existsb (fun i => dict_edge_ws L (i_lib L i)) insts) eqn:Ex; [|reflexivity].
      apply existsb_exists in Ex as (x & Hx & Ed).
      pose proof (map_fix _ _ Hi x Hx) as Fx.
      assert (Fl : trim_dict L (i_lib L x) = i_lib L x).
      { destruct x. unfold trim_instance in Fx. cbn in *. now injection Fx. }
      rewrite (trim_dict_fix _ Fl) in Ed. discriminate. }
    rewrite E. discriminate.
  Qed.

  (** for a well-formed document the round trip holds exactly outside the class *)
  Theorem decode_encode_iff : forall d,
    ds_wf L d -> (ds_decode L (ds_encode L d) = Some d <-> ~ KnownClass_C18 L d).
  Proof.
    intros d Hwf. split.
    - intros H. rewrite (decode_encode_gen d Hwf) in H. injection H as H. now apply ds_trim_fix.
    - now apply decode_encode.
  Qed.
End WithL1.

(** * The specification writer gives the same tree up to attribute order *)
Lemma norm_elem : forall n a k, norm_node (Elem n a k) = Elem n (sort_attrs a) (map norm_node k).
Proof.
  intros n a k. reflexivity.
Qed.

Section Spec.
  Variable L : l1.

  Lemma enc_is_spec_plist : forall v, enc_pv L v = spec_plist L v.
  Proof.
    induction v as [s|z|r|b|d|t|l IH|l IH] using (pv_ind2 L); try reflexivity.
    - destruct b; reflexivity.
    - cbn [enc_pv spec_plist]. f_equal.
      induction l as [|x r IHr]; [reflexivity|]. inversion IH as [|? ? Px Pr]; subst.
      now rewrite Px, (IHr Pr).
    - cbn [enc_pv spec_plist]. f_equal.
      induction l as [|[k x] r IHr]; [reflexivity|]. inversion IH as [|? ? Px Pr]; subst.
      cbn [snd] in Px. now rewrite Px, (IHr Pr).
  Qed.

  Lemma spec_lib_field : forall l, enc_lib_field L l = spec_lib L l.
  Proof.
    intros [|kv r]; [reflexivity|]. unfold enc_lib_field, spec_lib, enc_lib.
    now rewrite enc_is_spec_plist.
  Qed.

  Lemma norm_map_ext {A} (f g : A -> node) : forall l,
    (forall x, norm_node (f x) = norm_node (g x)) -> map norm_node (map f l) = map norm_node (map g l).
  Proof. intros l H. rewrite !map_map. apply map_ext. exact H. Qed.

  Lemma spec_dimension_ok : forall d, norm_node (enc_dimension L d) = norm_node (spec_dimension L d).
  Proof. intros [name [u|] [x|] [y|]]; reflexivity. Qed.

  Lemma spec_location_ok : forall l, norm_node (enc_location L l) = norm_node (spec_location L l).
  Proof.
    intros l. unfold enc_location, spec_location. rewrite !norm_elem. f_equal.
    apply norm_map_ext. apply spec_dimension_ok.
  Qed.

  Lemma spec_axis_ok : forall a, norm_node (enc_axis L a) = norm_node (spec_axis L a).
  Proof.
    intros [name tag dflt hidden mn mx vals mp]. unfold enc_axis, spec_axis. rewrite !norm_elem.
    cbn [ax_name ax_tag ax_default ax_hidden ax_minimum ax_maximum ax_values ax_map]. f_equal.
    destruct hidden, mn, mx, vals; reflexivity.
  Qed.

  Lemma spec_rule_ok : forall r, norm_node (enc_rule L r) = norm_node (spec_rule L r).
  Proof.
    intros [name css subs]. unfold enc_rule, spec_rule. rewrite !norm_elem.
    cbn [r_name r_condsets r_subs].
    assert (K : map norm_node (map (enc_condset L) css ++ map enc_sub subs) =
                map norm_node (map (fun cs => Elem "conditionset" []
                                 (map (fun c => Elem "condition"
                                         (spec_attr_str "name" (c_name L c)
                                          ++ spec_opt (spec_attr_num L "minimum") (c_minimum L c)
                                          ++ spec_opt (spec_attr_num L "maximum") (c_maximum L c)) []) cs)) css
                               ++ map (fun s => Elem "sub" (spec_attr_str "name" (sub_name s)
                                                             ++ spec_attr_str "with" (sub_with s)) []) subs)).
    { rewrite !map_app. f_equal.
      apply norm_map_ext. intros cs. unfold enc_condset. rewrite !norm_elem. f_equal.
      apply norm_map_ext. intros [n [mn|] [mx|]]; reflexivity. }
    rewrite K. destruct name; reflexivity.
  Qed.

  Lemma spec_source_ok : forall s, norm_node (enc_source L s) = norm_node (spec_source L s).
  Proof.
    intros [fam sty name fname layer loc]. unfold enc_source, spec_source. rewrite !norm_elem.
    cbn [s_familyname s_stylename s_name s_filename s_layer s_location].
    cbn [map]. rewrite spec_location_ok.
    destruct fam, sty, name, layer; reflexivity.
  Qed.

  Lemma spec_instance_ok : forall i, norm_node (enc_instance L i) = norm_node (spec_instance L i).
  Proof.
    intros [fam sty name fname ps smf sms loc lib]. unfold enc_instance, spec_instance.
    rewrite !norm_elem.
    cbn [i_familyname i_stylename i_name i_filename i_postscriptfontname i_stylemapfamilyname
         i_stylemapstylename i_location i_lib].
    cbn [map]. rewrite spec_location_ok, spec_lib_field.
    destruct fam, sty, name, fname, ps, smf, sms; reflexivity.
  Qed.

  Lemma spec_group_ok {A} (outer : string) (f g : A -> node) : forall l,
    (forall x, norm_node (f x) = norm_node (g x)) ->
    map norm_node (wrapped outer f l) = map norm_node (spec_group outer g l).
  Proof.
    intros [|x r] H; [reflexivity|]. unfold wrapped, spec_group.
    change (map norm_node [Elem outer [] (map f (x :: r))] = map norm_node [Elem outer [] (map g (x :: r))]).
    cbn [map]. rewrite !norm_elem.
    f_equal. f_equal. now apply (norm_map_ext f g (x :: r)).
  Qed.

  Theorem encode_is_spec : forall d, norm_node (ds_encode L d) = norm_node (spec_ds_write L d).
  Proof.
    intros [fmt axes rls srcs insts lib]. unfold ds_encode, spec_ds_write. rewrite !norm_elem.
    cbn [ds_format ds_axes ds_rules ds_sources ds_instances ds_lib]. f_equal.
    rewrite !map_app. f_equal; [|f_equal; [|f_equal; [|f_equal]]].
    - apply spec_group_ok. apply spec_axis_ok.
    - unfold spec_rules. destruct rls as [p rs]. cbn [rs_rules rs_processing].
      destruct rs as [|r0 rs]; [reflexivity|]. unfold enc_rules. cbn [rs_rules rs_processing].
      pose proof (norm_map_ext (enc_rule L) (spec_rule L) (r0 :: rs) spec_rule_ok) as K.
      cbn [map]. rewrite !norm_elem.
      change (enc_rule L r0 :: map (enc_rule L) rs) with (map (enc_rule L) (r0 :: rs)).
      rewrite K. destruct p; reflexivity.
    - apply spec_group_ok. apply spec_source_ok.
    - apply spec_group_ok. apply spec_instance_ok.
    - now rewrite spec_lib_field.
  Qed.

  (** * What a conforming XML reader finds *)
  Theorem reader_sees_encoded : forall d,
    node_unclean (ds_encode L d) = false -> reader_view (ds_encode L d) = Some (ds_encode L d).
  Proof. intros d. apply reader_view_clean. Qed.
  Theorem reader_class_exact : forall d,
    reader_view (ds_encode L d) = Some (ds_encode L d) <-> node_unclean (ds_encode L d) = false.
  Proof. intros d. split; [apply reader_view_fix|apply reader_view_clean]. Qed.
End Spec.

(** * A concrete L1 instance (integers for numbers and dates, brackets for base64): shows the
    hypotheses [l1_ok] are satisfiable and carries the witnesses of the refutations. *)
Definition toy_parse (s : string) : option Z :=
  match NilZero.int_of_string s with Some i => Some (Z.of_int i) | None => None end.
Fixpoint drop_last (s : string) : string :=
  match s with
  | EmptyString => EmptyString
  | String c EmptyString => EmptyString
  | String c r => String c (drop_last r)
  end.
Definition toy_b64_enc (s : string) : string := String "[" (s ++ "]").
Definition toy_b64_dec (s : string) : option string :=
  match s with String _ r => Some (drop_last r) | EmptyString => None end.
Definition toy : l1 :=
  {| l_F32 := Z; l_f32_print := print_int; l_f32_parse := toy_parse;
     l_F64 := Z; l_f64_print := print_int; l_f64_parse := toy_parse;
     l_DATE := Z; l_date_print := print_int; l_date_parse := toy_parse;
     l_b64_enc := toy_b64_enc; l_b64_dec := toy_b64_dec |}.

Lemma toy_parse_print : forall z, toy_parse (print_int z) = Some z.
Proof.
  intros z. unfold toy_parse, print_int. rewrite NilZero.isi.
  - now rewrite DecimalZ.of_to.
  - destruct z; cbn; try discriminate. intros E. injection E as E. exact (Unsigned.to_uint_nonnil _ E).
  - destruct z; cbn; try discriminate. intros E. injection E as E. exact (Unsigned.to_uint_nonnil _ E).
Qed.

Lemma uint_no_ws : forall u, str_exists is_ws (NilEmpty.string_of_uint u) = false.
Proof. induction u; cbn; auto. Qed.
Lemma print_int_no_ws : forall z, str_exists is_ws (print_int z) = false.
Proof.
  intros z. unfold print_int. destruct z as [|p|p]; [reflexivity| |].
  - cbn [Z.to_int NilZero.string_of_int]. destruct (Pos.to_uint p); try reflexivity; apply uint_no_ws.
  - cbn [Z.to_int NilZero.string_of_int]. cbn [str_exists]. change (is_ws "-") with false. cbn [orb].
    destruct (Pos.to_uint p); try reflexivity; apply uint_no_ws.
Qed.
Lemma no_ws_no_space : forall s, str_exists is_ws s = false -> str_exists is_space s = false.
Proof.
  induction s as [|c r IH]; intros H; [reflexivity|]. cbn in *.
  apply orb_false_iff in H as [Hc Hr]. rewrite (IH Hr).
  unfold is_ws in Hc. apply orb_false_iff in Hc as [Hc _]. apply orb_false_iff in Hc as [Hc _].
  apply orb_false_iff in Hc as [Hc _]. unfold is_space. now rewrite Hc.
Qed.
Lemma print_int_token : forall z, token (print_int z).
Proof.
  intros z. split.
  - unfold print_int. destruct z as [|p|p]; cbn; try discriminate.
    destruct (Pos.to_uint p); discriminate.
  - apply no_ws_no_space. apply print_int_no_ws.
Qed.
Lemma drop_last_snoc : forall s c, drop_last (s ++ String c "")%string = s.
Proof.
  induction s as [|a r IH]; intros c; [reflexivity|].
  cbn [append drop_last]. rewrite IH. destruct r; reflexivity.
Qed.
Lemma bracket_clean : forall s, edge_ws (toy_b64_enc s) = false.
Proof.
  intros s. unfold toy_b64_enc, edge_ws. cbn [lead_ws]. change (is_ws "[") with false. cbn [orb].
  assert (T : forall t, trail_ws (t ++ "]")%string = false).
  { induction t as [|a r IH]; [reflexivity|]. cbn [append trail_ws].
    destruct (r ++ "]")%string eqn:E; [destruct r; discriminate|]. exact IH. }
  specialize (T s). cbn [trail_ws]. destruct (s ++ "]")%string eqn:E; [destruct s; discriminate|exact T].
Qed.

Lemma toy_ok : l1_ok toy.
Proof.
  unfold l1_ok. cbn [toy l_f32_parse l_f32_print l_f64_parse l_f64_print l_date_parse l_date_print
                     l_b64_enc l_b64_dec].
  split; [exact toy_parse_print|]. split; [exact print_int_token|].
  split; [exact toy_parse_print|]. split; [exact print_int_clean|].
  split; [exact toy_parse_print|]. split; [exact print_int_clean|].
  split; [|exact bracket_clean].
  intros x. unfold toy_b64_dec, toy_b64_enc. now rewrite drop_last_snoc.
Qed.

(** a small well-formed document: one discrete hidden axis with a map, a rule, a source, an
    instance with a lib, a document lib with every plist type *)
Definition toy_dim (n : string) (u x y : option Z) : dimension toy := Build_dimension toy n u x y.
Definition toy_doc (s : string) : doc toy :=
  Build_doc toy 5%Z
    [Build_axis toy "Weight" "wght" 400%Z true (Some 100%Z) None (Some [100%Z; 400%Z])
                (Some [Build_mapping toy 100%Z (-5)%Z])]
    (Build_rules toy PLast
       [Build_rule toy (Some "r") [[]; [Build_condition toy "Weight" None (Some 3%Z)]]
                   [Build_subst "a" "a.alt"]])
    [Build_source toy None (Some "") None "A.ufo" None [toy_dim "Weight" None (Some 100%Z) None]]
    [Build_instance toy (Some "F") None None None None None None
                    [toy_dim "Weight" (Some 1%Z) None None]
                    [("k", PArr toy [PBool toy true; PDict toy []])]]
    [("s", PStr toy s); ("i", PInt toy (-7)); ("r", PReal toy 2%Z); ("d", PData toy "bytes");
     ("t", PDate toy 0%Z); ("", PStr toy "")].

(** ([vm_compute] on a goal would also normalise the functions inside the record [toy]; the
    casts below let the kernel compare by evaluation instead) *)
Lemma toy_doc_wf : forall s, ds_wf toy (toy_doc s).
Proof. intros s. vm_cast_no_check (eq_refl true). Qed.
Lemma toy_doc_clean : ~ KnownClass_C18 toy (toy_doc "a b").
Proof.
  unfold KnownClass_C18. intros H.
  assert (E : known_class_b toy (toy_doc "a b") = false) by (vm_cast_no_check (eq_refl false)).
  congruence.
Qed.
Lemma toy_doc_in_class : KnownClass_C18 toy (toy_doc " a").
Proof. vm_cast_no_check (eq_refl true). Qed.
Lemma toy_doc_trimmed : ds_decode toy (ds_encode toy (toy_doc " a")) = Some (toy_doc "a").
Proof. vm_cast_no_check (eq_refl (Some (toy_doc "a"))). Qed.
Lemma toy_doc_not_preserved : ds_decode toy (ds_encode toy (toy_doc " a")) <> Some (toy_doc " a").
Proof. rewrite toy_doc_trimmed. intros E. injection E as E. discriminate E. Qed.
Lemma toy_doc_preserved : ds_decode toy (ds_encode toy (toy_doc "a b")) = Some (toy_doc "a b").
Proof. vm_cast_no_check (eq_refl (Some (toy_doc "a b"))). Qed.

(** * The vocabulary table is the vocabulary the encoder uses *)
Definition strip_at (s : string) : string :=
  match s with String c r => if Ascii.eqb c "@" then r else s | EmptyString => s end.
Definition vocab_names : list string :=
  flat_map (fun t => match t with
                     | (_, xml, fields) =>
                         (match xml with EmptyString => [] | _ => [xml] end)
                         ++ map (fun f => match f with (_, key, _) => strip_at key end) fields
                     end) ds_vocab
  ++ map snd ds_wrappers ++ plist_write_tags ++ [plist_key_tag].
Fixpoint names_of_node (n : node) : list string :=
  match n with
  | Text _ => []
  | Elem name attrs kids =>
      name :: map fst attrs
      ++ (fix go (l : list node) : list string :=
            match l with [] => [] | k :: r => names_of_node k ++ go r end) kids
  end.
Definition mem_str (s : string) (l : list string) : bool := existsb (String.eqb s) l.
Definition same_names (a b : list string) : bool :=
  forallb (fun s => mem_str s b) a && forallb (fun s => mem_str s a) b.

(** a document in which every optional attribute and every element kind occurs *)
Definition full_doc : doc toy :=
  Build_doc toy 5%Z
    [Build_axis toy "Weight" "wght" 400%Z true (Some 100%Z) (Some 900%Z) (Some [100%Z; 400%Z])
                (Some [Build_mapping toy 100%Z (-5)%Z])]
    (Build_rules toy PLast
       [Build_rule toy (Some "r") [[Build_condition toy "Weight" (Some 1%Z) (Some 3%Z)]]
                   [Build_subst "a" "a.alt"]])
    [Build_source toy (Some "F") (Some "S") (Some "n") "A.ufo" (Some "layer")
                  [toy_dim "Weight" (Some 1%Z) (Some 100%Z) (Some 2%Z)]]
    [Build_instance toy (Some "F") (Some "S") (Some "n") (Some "f") (Some "ps") (Some "smf") (Some "sms")
                    [toy_dim "Weight" (Some 1%Z) None None]
                    [("k", PArr toy [PBool toy true; PBool toy false; PDict toy []])]]
    [("s", PStr toy "x"); ("i", PInt toy (-7)); ("r", PReal toy 2%Z); ("d", PData toy "bytes");
     ("t", PDate toy 0%Z)].
Lemma full_doc_uses_vocab : same_names (names_of_node (ds_encode toy full_doc)) vocab_names = true.
Proof. vm_cast_no_check (eq_refl true). Qed.
Lemma full_doc_roundtrip : ds_decode toy (ds_encode toy full_doc) = Some full_doc.
Proof. vm_cast_no_check (eq_refl (Some full_doc)). Qed.
