(** Laws of the three plist-file codecs (Model/FontRealPlist.v), from the value-level read-back of
    the plist codec ([pv_read_back] = C02_lib_value_read_back). *)
Require Import Norad.Model.GlifSpec Norad.Model.GlifEncode Norad.Proofs.GlifLibsP.
Require Import Norad.Model.FontRT Norad.Model.FontRealPlist Norad.Proofs.FontRTP.
Open Scope N_scope.

Arguments Z.of_N : simpl never.
Arguments Z.to_N : simpl never.
Arguments Z.pow : simpl never.
Arguments Z.eqb : simpl never.
Arguments Z.leb : simpl never.
Arguments Z.ltb : simpl never.

Section P.
Variable pf : str -> option fl.
Variable ff : fl -> str.
Variable fi : Z -> str.
Hypothesis H_ff : forall x, fl_finite x = true -> pf (ff x) = Some x.
Hypothesis H_fi : forall z, int_ok z = true -> plist_int (fi z) = Some z.

Lemma tree_value : forall v, pv_good 0 v = true -> plist_value pf (plist_tree ff fi v) = Some v.
Proof. intros v H. exact (pv_read_back pf ff fi o_plain H_ff H_fi v H). Qed.

Lemma plist_part_ok {O X} (to : X -> pv) (of : pv -> option X) (w : X -> Prop) :
  (forall x, w x -> pv_good 0 (to x) = true /\ of (to x) = Some x) ->
  part_ok (@plist_part pf ff fi O X to of w).
Proof.
  intros H. constructor; simpl.
  - reflexivity.
  - intros x y E. symmetry. exact E.
  - intros x y z E1 E2. congruence.
  - intros o x Hw. destruct (H x Hw) as [G R]. eexists. exists x. split; [reflexivity|].
    rewrite (tree_value _ G). simpl. auto.
  - intros o1 o2 x c1 c2 _ H1 H2. inversion H1; inversion H2; subst. reflexivity.
Qed.

Lemma plist_part_e_ok {O X} (to : X -> pv) (of : pv -> option X) (w : X -> Prop) (e : X -> X -> Prop) :
  (forall x, e x x) -> (forall x y, e x y -> e y x) -> (forall x y z, e x y -> e y z -> e x z) ->
  (forall x, w x -> pv_good 0 (to x) = true /\ exists x', of (to x) = Some x' /\ e x x') ->
  part_ok (@plist_part_e pf ff fi O X to of w e).
Proof.
  intros R Sy T H. constructor; simpl; auto.
  - intros o x Hw. destruct (H x Hw) as [G [x' [Hx He]]]. eexists. exists x'. split; [reflexivity|].
    rewrite (tree_value _ G). simpl. auto.
  - intros o1 o2 x c1 c2 _ H1 H2. inversion H1; inversion H2; subst. reflexivity.
Qed.

(** ** metainfo *)
Lemma int_ok_small : forall n, n < 2 ^ 32 -> int_ok (Z.of_N n) = true.
Proof.
  intros n H. unfold int_ok. apply andb_true_iff. split; [apply Z.leb_le|apply Z.ltb_lt].
  - assert (0 <= Z.of_N n)%Z by apply N2Z.is_nonneg. assert (- 2 ^ 63 <= 0)%Z by (vm_compute; discriminate). lia.
  - apply N2Z.inj_lt in H. change (Z.of_N (2 ^ 32)) with (2 ^ 32)%Z in H.
    assert (2 ^ 32 < 2 ^ 64)%Z by (vm_compute; reflexivity). lia.
Qed.

Lemma meta_rt : forall m, wf_meta m -> pv_good 0 (meta_pv m) = true /\ pv_meta (meta_pv m) = Some m.
Proof.
  intros [c v mi] [Hv Hm]. simpl in Hv, Hm.
  assert (Hvi : int_ok (Z.of_N v) = true).
  { apply int_ok_small. destruct Hv as [ -> | [ -> | -> ] ]; vm_compute; reflexivity. }
  assert (Hmi : int_ok (Z.of_N mi) = true) by (apply int_ok_small; exact Hm).
  assert (Hvr : ((Z.of_N v =? 1) || (Z.of_N v =? 2) || (Z.of_N v =? 3))%Z = true)
    by (destruct Hv as [ -> | [ -> | -> ] ]; reflexivity).
  assert (Hmr : ((0 <=? Z.of_N mi) && (Z.of_N mi <? 2 ^ 32))%Z = true).
  { apply andb_true_iff. split; [apply Z.leb_le; apply N2Z.is_nonneg|apply Z.ltb_lt].
    apply N2Z.inj_lt in Hm. exact Hm. }
  unfold meta_pv, pv_meta. cbn [m_creator m_version m_minor].
  destruct c as [c|]; destruct (mi =? 0) eqn:E0; cbn [app];
    (split; [cbn [pv_good map fst forallb nodup_keys]; rewrite ?Hvi, ?Hmi; reflexivity|]);
    simpl; rewrite ?Hvr, ?Hmr, ?N2Z.id; try (apply N.eqb_eq in E0; subst mi); reflexivity.
Qed.

Lemma meta_part_ok : forall O, part_ok (P_meta_real pf ff fi O).
Proof. intros O. apply plist_part_ok. exact meta_rt. Qed.

(** norad's metainfo with the minor version of a decoded one is writable *)
Lemma pv_meta_norad : forall v m, pv_meta v = Some m ->
  wf_meta {| m_creator := Some NORAD_CREATOR; m_version := 3; m_minor := m_minor m |}.
Proof.
  intros v m Hd. destruct v; try discriminate. unfold pv_meta in Hd.
  destruct (match alookup k_creator d with None => Some None | Some (PStr c) => Some (Some c) | Some _ => None end); [|discriminate].
  destruct (alookup k_fv d) as [[| z | | | | | |]|]; try discriminate.
  destruct ((z =? 1) || (z =? 2) || (z =? 3))%Z; [|discriminate].
  destruct (alookup k_fvm d) as [[| z2 | | | | | |]|]; try discriminate.
  - destruct ((0 <=? z2) && (z2 <? 2 ^ 32))%Z eqn:E; [|discriminate]. inversion Hd; subst m.
    split; [simpl; auto|]. apply andb_true_iff in E. destruct E as [E1 E2]. apply Z.leb_le in E1. apply Z.ltb_lt in E2.
    change (2 ^ 32)%Z with 4294967296%Z in E2. change (2 ^ 32) with 4294967296. cbn [m_minor]. lia.
  - inversion Hd; subst m. split; [simpl; auto|reflexivity].
Qed.

(** ** layercontents *)
Lemma lc_rt : forall l, wf_lc l -> pv_good 0 (lc_pv l) = true /\ pv_lc (lc_pv l) = Some l.
Proof.
  intros l H. unfold lc_pv, pv_lc. split.
  - cbn [pv_good]. rewrite forallb_forall. intros x Hx. apply in_map_iff in Hx. destruct Hx as [e [<- _]]. reflexivity.
  - induction H as [|[n d] l Hn F IH]; [reflexivity|]. simpl in Hn. cbn [map omapM fst snd]. rewrite Hn. cbn [obind].
    rewrite IH. reflexivity.
Qed.
Lemma lc_part_ok : forall O, part_ok (P_lc_real pf ff fi O).
Proof. intros O. apply plist_part_ok. exact lc_rt. Qed.

Lemma pv_lc_names : forall v l, pv_lc v = Some l -> wf_lc l.
Proof.
  intros v l H. destruct v; try discriminate. simpl in H. apply omapM_Forall2 in H.
  unfold wf_lc. clear -H. induction H as [|x e xs l Hx F IH]; constructor; [|exact IH].
  destruct x as [| | | | | |[|[s1| | | | | | |] [|[s2| | | | | | |] [|? ?]]]|]; try discriminate.
  destruct (name_valid s1) eqn:E; [|discriminate]. inversion Hx; subst. exact E.
Qed.

(** ** contents: BTreeMap insertion keeps strictly ascending keys and rebuilds an ascending list *)
Lemma bt_insert_keys {A} : forall k (v : A) l k', In k' (map fst (bt_insert k v l)) -> k' = k \/ In k' (map fst l).
Proof.
  induction l as [|[a x] l IH]; simpl; intros k' H.
  - destruct H as [<-|[]]. auto.
  - destruct (str_ltb k a); [simpl in H; destruct H as [<-|[<-|H]]; auto|].
    destruct (str_ltb a k); simpl in H.
    + destruct H as [<-|H]; auto. destruct (IH _ H); auto.
    + destruct H as [<-|H]; auto.
Qed.

Lemma bt_insert_ssorted {A} : forall k (v : A) l, ssorted l -> ssorted (bt_insert k v l).
Proof.
  induction l as [|[a x] l IH]; simpl; intros H; [split; [intros ? []|exact I]|].
  destruct H as [H1 H2]. destruct (str_ltb k a) eqn:E1.
  - simpl. split; [|split; assumption]. intros k' [<-|Hk]; [exact E1|]. eapply str_ltb_trans; [exact E1|apply H1; exact Hk].
  - destruct (str_ltb a k) eqn:E2; simpl.
    + split; [|apply IH; exact H2]. intros k' Hk. destruct (bt_insert_keys _ _ _ _ Hk) as [->|Hk']; [exact E2|apply H1; exact Hk'].
    + pose proof (str_ltb_total _ _ E1 E2) as ->. split; assumption.
Qed.

Lemma bt_insert_last {A} : forall k (v : A) l,
  (forall k', In k' (map fst l) -> str_ltb k' k = true) -> bt_insert k v l = l ++ [(k, v)].
Proof.
  induction l as [|[a x] l IH]; simpl; intros H; [reflexivity|].
  assert (Ha : str_ltb a k = true) by (apply H; auto).
  destruct (str_ltb k a) eqn:E; [pose proof (str_ltb_trans _ _ _ E Ha) as C; rewrite str_ltb_irrefl in C; discriminate|].
  rewrite Ha. rewrite IH; [reflexivity|]. intros; apply H; auto.
Qed.

Lemma fold_bt_ssorted {A} : forall (l acc : list (str * A)),
  ssorted l -> (forall a b, In a (map fst acc) -> In b (map fst l) -> str_ltb a b = true) ->
  fold_left (fun acc e => bt_insert (fst e) (snd e) acc) l acc = acc ++ l.
Proof.
  induction l as [|[k v] l IH]; simpl; intros acc Hs Hlt; [rewrite app_nil_r; reflexivity|].
  destruct Hs as [H1 H2]. rewrite bt_insert_last by (intros; apply Hlt; auto).
  rewrite IH; [rewrite <- app_assoc; reflexivity|exact H2|].
  intros a b Ha Hb. rewrite map_app in Ha. apply in_app_or in Ha. destruct Ha as [Ha|[<-|[]]].
  - apply Hlt; auto.
  - apply H1. exact Hb.
Qed.

Lemma fold_bt_sorted_any {A} : forall (l acc : list (str * A)), ssorted acc ->
  ssorted (fold_left (fun acc e => bt_insert (fst e) (snd e) acc) l acc).
Proof. induction l as [|e l IH]; simpl; intros acc H; [exact H|]. apply IH. apply bt_insert_ssorted. exact H. Qed.

Lemma ssorted_nodup {A} : forall (l : list (str * A)), ssorted l -> NoDup (map fst l).
Proof.
  induction l as [|[k v] l IH]; simpl; intros H; [constructor|]. destruct H as [H1 H2].
  constructor; [|apply IH; exact H2]. intros HI. specialize (H1 k HI). rewrite str_ltb_irrefl in H1. discriminate.
Qed.

Lemma ct_rt : forall l, wf_ct l -> pv_good 0 (ct_pv l) = true /\ pv_ct (ct_pv l) = Some l.
Proof.
  intros l [Hs Hn]. unfold ct_pv, pv_ct. split.
  - cbn [pv_good]. apply andb_true_iff. split.
    + apply nodup_keys_spec. rewrite map_map. simpl. apply ssorted_nodup. exact Hs.
    + rewrite forallb_forall. intros x Hx. apply in_map_iff in Hx. destruct Hx as [e [<- _]]. reflexivity.
  - assert (E : omapM (fun kx : str * pv => match snd kx with
                                           | PStr f => if name_valid (fst kx) then Some (fst kx, f) else None
                                           | _ => None
                                           end) (map (fun e : str * str => (fst e, PStr (snd e))) l) = Some l).
    { clear Hs. induction Hn as [|[k f] l Hk F IH]; [reflexivity|]. simpl in Hk. cbn [map omapM fst snd]. rewrite Hk.
      cbn [obind]. rewrite IH. reflexivity. }
    rewrite E. simpl. f_equal. rewrite (fold_bt_ssorted l [] Hs); [reflexivity|]. intros a b [].
Qed.
Lemma ct_part_ok : forall O, part_ok (P_contents_real pf ff fi O).
Proof. intros O. apply plist_part_ok. exact ct_rt. Qed.

Lemma pv_ct_wf : forall v l, pv_ct v = Some l -> wf_ct l.
Proof.
  intros v l H. destruct v; try discriminate. simpl in H.
  destruct (omapM _ d) as [l0|] eqn:E; [|discriminate]. inversion H; subst l. clear H. split.
  - apply fold_bt_sorted_any. exact I.
  - apply omapM_Forall2 in E.
    assert (Hn : Forall (fun e : str * str => name_valid (fst e) = true) l0).
    { clear -E. induction E as [|x e xs l Hx F IH]; constructor; [|exact IH].
      destruct (snd x); try discriminate. destruct (name_valid (fst x)) eqn:En; [|discriminate]. inversion Hx; subst. exact En. }
    clear E. assert (G : forall l acc, Forall (fun e : str * str => name_valid (fst e) = true) l ->
                                      Forall (fun e : str * str => name_valid (fst e) = true) acc ->
                Forall (fun e : str * str => name_valid (fst e) = true)
                       (fold_left (fun acc e => bt_insert (fst e) (snd e) acc) l acc)).
    { induction l as [|e l IH]; simpl; intros acc Hl Ha; [exact Ha|]. inversion Hl; subst. apply IH; [assumption|].
      clear -Ha H1. induction Ha as [|[a x] acc Hx F IH]; simpl; [constructor; [exact H1|constructor]|].
      destruct (str_ltb (fst e) a); [constructor; [exact H1|constructor; assumption]|].
      destruct (str_ltb a (fst e)); constructor; auto. }
    apply G; [exact Hn|constructor].
Qed.

End P.
