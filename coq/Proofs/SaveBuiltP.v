(** Bridge between the container model of C06/C07 (Model/Layer.v: names are code-point lists,
    file names are texts) and the save model (Model/Save.v: layer directories and glif paths are
    [Path::components] lists): the abstraction [rel_of] parses a text the way
    [std::path::Path::components] does (Model/Store.v, C16), and a plain name parses to exactly
    one normal component.  Hence every API-reachable font is [layers_safe]. *)
Require Import Norad.Model.Base Norad.Model.FileName Norad.Model.Layer Norad.Proofs.LayerP.
Require Norad.Model.Store Norad.Proofs.StoreInvP.
From stdpp Require Import gmap strings.
From Norad.Model Require Import Fs Save.
Open Scope list_scope.

(** a text as a Coq string (byte view; the theorems do not depend on this function) *)
Definition str_text (s : str) : string :=
  String.string_of_list_ascii (List.map Ascii.ascii_of_N s).
Definition to_comp (c : Store.comp) : comp :=
  match c with
  | Store.Normal s => Normal (str_text s)
  | Store.ParentDir => ParentDir
  | Store.CurDir => CurDir
  | Store.RootDir => RootDir
  end.
(** how [path.join(text)] sees a text taken from a container *)
Definition rel_of (q : str) : rel := List.map to_comp (Store.components q).

Lemma segments_no_sep (q : str) :
  memb 47%N q = false -> Store.segments q = [q].
Proof.
  induction q as [|c q IH]; [reflexivity|]. cbn [memb Store.segments].
  intros H. apply orb_false_iff in H as [Hc Hq]. unfold Store.SEP.
  rewrite N.eqb_sym in Hc. rewrite Hc. rewrite (IH Hq). reflexivity.
Qed.

Lemma plain_components (q : str) : plain_name q = true -> Store.components q = [Store.Normal q].
Proof.
  unfold plain_name. intros H.
  apply andb_true_iff in H as [H Hdd]. apply andb_true_iff in H as [H Hd].
  apply andb_true_iff in H as [Hnil Hsep].
  apply negb_true_iff in Hnil, Hsep, Hd, Hdd.
  destruct q as [|c q]; [discriminate|].
  unfold Store.components, Store.is_absolute.
  assert (Hc : (c =? Store.SEP)%N = false).
  { cbn [memb] in Hsep. apply orb_false_iff in Hsep as [Hc _]. unfold Store.SEP. by rewrite N.eqb_sym. }
  rewrite Hc. rewrite (segments_no_sep _ Hsep). cbn [flat_map app].
  unfold Store.first_comp, Store.is_nil, Store.is_dot, Store.is_dotdot.
  unfold DOT in Hd, Hdd. unfold Store.DOT. rewrite Hd, Hdd. reflexivity.
Qed.
Lemma plain_rel_of (q : str) : plain_name q = true -> single_normal (rel_of q).
Proof. intros H. unfold rel_of. rewrite (plain_components q H). by eexists. Qed.

(** [fa] abstracts the containers [s]: layer by layer the same directory, and every glif path
    that would be written is the file name of some entry of the layer's index *)
Definition abstracts_containers (fa : font_abs) (s : state) : Prop :=
  Forall2 (fun la l =>
             la_dir la = rel_of (l_path l) /\
             Forall (fun g => exists k q, l_contents l !! k = Some q /\ g_path g = rel_of q) (la_glifs la))
          (fa_layers fa) (layers s).

Lemma default_dir_plain : plain_name DEFAULT_GLYPHS_DIRNAME = true.
Proof. vm_compute. reflexivity. Qed.

Lemma plain_abstraction_safe fa s : Plain s -> abstracts_containers fa s -> layers_safe fa.
Proof.
  unfold Plain, abstracts_containers, layers_safe. intros Hp Ha.
  induction Ha as [|la l las ls [Hd Hg] _ IH]; [constructor|].
  inversion Hp as [|? ? [Hfiles Hdir] Hps]; subst. constructor; [|by apply IH].
  split.
  - rewrite Hd. apply plain_rel_of. destruct Hdir as [->|H]; [apply default_dir_plain|exact H].
  - eapply Forall_impl; [exact Hg|]. intros g (k & q & Hk & ->). apply plain_rel_of. by eapply Hfiles.
Qed.

Section Reach.
  Variable is_upper : N -> bool.
  Variable lower : str -> str.

  (** any history of API operations (without the raw entry access, not panicking) from a state
      that has the container invariant and plain names *)
  Lemma safe_after_history ops s0 s fa :
    Inv lower s0 -> Plain s0 -> clean is_upper lower s0 ops -> run is_upper lower s0 ops = Some s ->
    abstracts_containers fa s -> layers_safe fa.
  Proof.
    intros Hi Hp Hc Hr Ha.
    destruct (reachable_plain is_upper lower ops s0 s Hi Hp Hc Hr) as [_ Hps].
    by eapply plain_abstraction_safe.
  Qed.
  Lemma safe_when_built ops s fa :
    clean is_upper lower init ops -> run is_upper lower init ops = Some s ->
    abstracts_containers fa s -> layers_safe fa.
  Proof. apply safe_after_history; [apply inv_init|apply plain_init]. Qed.
  Lemma safe_when_loaded_and_modified d s0 ops s fa :
    load lower d = Some s0 -> clean is_upper lower s0 ops -> run is_upper lower s0 ops = Some s ->
    abstracts_containers fa s -> layers_safe fa.
  Proof. intros Hl. apply safe_after_history; [by eapply inv_loaded|by eapply plain_loaded]. Qed.
End Reach.

(** store keys: under C16's invariant a key consists of normal components only and is kept in
    plain form, so joining it onto the data / images directory is appending plain names, which is
    how the save model treats [st_cells] keys *)
Definition key_of (t : str) : list string := List.map str_text (Store.names (Store.components t)).
Lemma store_key_plain (t : str) :
  Store.all_normal (Store.components t) = true -> List.map to_comp (Store.components t) = List.map Normal (key_of t).
Proof.
  unfold key_of. induction (Store.components t) as [|c p IH]; [reflexivity|].
  cbn [Store.all_normal forallb List.map Store.names]. intros H. apply andb_true_iff in H as [Hc Hp].
  fold (Store.all_normal p) in Hp. unfold Store.names in IH. rewrite (IH Hp).
  destruct c; try discriminate. reflexivity.
Qed.

Require Norad.Proofs.StoreSaveP.
Lemma store_keys_plain k its t c :
  Store.C16_inv k its -> In (t, c) its ->
  List.map to_comp (Store.components t) = List.map Normal (key_of t) /\ key_of t <> [].
Proof.
  intros Hi Hin. destruct (StoreSaveP.inv_clauses k its Hi t c Hin) as (Hne & _ & Hall & Hreb & _).
  split; [by apply store_key_plain|].
  unfold key_of. destruct (Store.components t) as [|x p] eqn:E; [|discriminate].
  exfalso. apply Hne. rewrite <- Hreb. reflexivity.
Qed.

(** the canonical abstraction of a container state (contents are irrelevant for paths) *)
Definition abs_layer (l : layer) : layer_abs :=
  Save.Layer (str_text (l_name l)) (rel_of (l_path l)) (Content 0 false) None
             (List.map (fun kv => Glif (rel_of kv.2) (Some (Content 0 false))) (map_to_list (l_contents l))).
Definition abs_font (s : state) : font_abs :=
  Font 3 false true true (Content 0 false) None None None None None (Content 0 false)
       (List.map abs_layer (layers s)) (Store [] []) (Store [] []).
Lemma abs_font_abstracts s : abstracts_containers (abs_font s) s.
Proof.
  unfold abstracts_containers, abs_font. cbn [fa_layers].
  induction (layers s) as [|l ls IH]; [constructor|]. cbn [List.map]. constructor; [|exact IH].
  split; [reflexivity|]. cbn [la_glifs abs_layer]. apply Forall_forall. intros g Hg.
  apply elem_of_list_fmap in Hg as ([k q] & -> & Hkq). apply elem_of_map_to_list in Hkq.
  exists k, q. split; [exact Hkq|reflexivity].
Qed.
