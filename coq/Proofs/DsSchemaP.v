(** Laws of the schema table (Model/DsSchema.v): the flat attribute codec round-trips exactly
    when the flags agree; the table's flags agree; the hand-written encoder of Model/Designspace.v
    writes the attributes the table prescribes; [ds_wf] is the conjunction of the hypotheses the
    table leaves and the type invariants of the Rust values. *)
Require Import Norad.Model.DsSchema Norad.Model.Designspace Norad.Proofs.DsXmlP.
From Coq Require Import Lia.
Open Scope string_scope.
Open Scope list_scope.

(** * The flat codec *)
Lemma ov_eqb_eq : forall a b, ov_eqb a b = true -> a = b.
Proof.
  intros [x|] [y|] H; cbn in H; try discriminate; [|reflexivity].
  apply String.eqb_eq in H. now subst.
Qed.

Lemma attr_cons_other : forall k k' v r, String.eqb k k' = false -> attr k ((k', v) :: r) = attr k r.
Proof. intros k k' v r H. unfold attr. cbn [find fst]. now rewrite H. Qed.
Lemma attr_cons_same : forall k v r, attr k ((k, v) :: r) = Some v.
Proof. intros k v r. unfold attr. cbn [find fst]. now rewrite String.eqb_refl. Qed.

Lemma awrite_no_key : forall fs vs k,
  existsb (String.eqb k) (map a_key fs) = false -> attr k (awrite fs vs) = None.
Proof.
  induction fs as [|f fs IH]; intros vs k H; [reflexivity|].
  destruct vs as [|v vs]; [reflexivity|].
  cbn [map existsb] in H. apply orb_false_iff in H as [Hk Hr].
  cbn [awrite]. destruct (omitted f v); [now apply IH|].
  destruct v as [t|]; [|now apply IH].
  rewrite attr_cons_other by exact Hk. now apply IH.
Qed.

Lemma aread_skip : forall fs k t attrs,
  existsb (String.eqb k) (map a_key fs) = false -> aread fs ((k, t) :: attrs) = aread fs attrs.
Proof.
  induction fs as [|f fs IH]; intros k t attrs H; [reflexivity|].
  cbn [map existsb] in H. apply orb_false_iff in H as [Hk Hr].
  cbn [aread]. rewrite attr_cons_other.
  - now rewrite (IH k t attrs Hr).
  - rewrite String.eqb_sym. exact Hk.
Qed.

Theorem aflat_rt : forall fs vs,
  aflat_ok fs = true -> awt_all fs vs = true -> aread fs (awrite fs vs) = Some vs.
Proof.
  unfold aflat_ok. induction fs as [|f fs IH]; intros vs Hok Hwt.
  - destruct vs; [reflexivity|discriminate].
  - destruct vs as [|v vs]; [discriminate|].
    apply andb_true_iff in Hok as [Hnd Hall]. cbn [map nodup_str] in Hnd.
    apply andb_true_iff in Hnd as [Hk Hnd]. apply negb_true_iff in Hk.
    cbn [forallb] in Hall. apply andb_true_iff in Hall as [Hf Hall].
    cbn [awt_all] in Hwt. apply andb_true_iff in Hwt as [Hv Hwt].
    assert (IH' : aread fs (awrite fs vs) = Some vs).
    { apply IH; [|exact Hwt]. now rewrite Hnd, Hall. }
    cbn [awrite aread]. destruct (omitted f v) eqn:Om.
    + (* left out: the reader's value for an absent attribute is the omitted one *)
      rewrite (awrite_no_key fs vs (a_key f) Hk), IH'.
      unfold omitted in Om. unfold afield_ok in Hf.
      destruct (a_omit f) as [c|]; [|discriminate].
      destruct (a_absent f) as [d|]; [|discriminate].
      apply ov_eqb_eq in Om. apply ov_eqb_eq in Hf. now subst.
    + destruct v as [t|].
      * rewrite attr_cons_same. rewrite (aread_skip fs (a_key f) t _ Hk), IH'. reflexivity.
      * cbn [awt] in Hv. congruence.
Qed.

(** Non-vacuity of the flag check: a field left out when it is "false" but read as "true" when
    absent is refused by [aflat_ok], and indeed loses a value. *)
Definition bad_flat : list afield :=
  [ {| a_key := "hidden"; a_omit := Some (Some "false"); a_absent := Some (Some "true") |};
    {| a_key := "name"; a_omit := None; a_absent := None |} ].
Lemma bad_flat_refused : aflat_ok bad_flat = false.
Proof. reflexivity. Qed.
Lemma bad_flat_loses_a_value :
  awt_all bad_flat [Some "false"; Some "x"] = true /\
  aread bad_flat (awrite bad_flat [Some "false"; Some "x"]) = Some [Some "true"; Some "x"].
Proof. split; reflexivity. Qed.
Lemma flag_check_not_vacuous :
  ~ (forall fs vs, awt_all fs vs = true -> aread fs (awrite fs vs) = Some vs).
Proof.
  intros H. specialize (H bad_flat [Some "false"; Some "x"] eq_refl).
  destruct bad_flat_loses_a_value as [_ E]. rewrite E in H. discriminate.
Qed.
(** the same at the level of the table: skip predicate with a default FUNCTION, or skip without default *)
Definition bad_field_1 : sfield := ("hidden", "@hidden", "bool", "is_false", "fn:default_true", "").
Definition bad_field_2 : sfield := ("filename", "@filename", "String", "String::is_empty", "", "").
Definition bad_field_3 : sfield := ("instances", "instances", "Vec<Instance>", "Vec::is_empty", "", "serde_impls::instances").
Lemma bad_fields_flagged :
  field_verdict ds_helpers bad_field_1 = VBad /\ field_verdict ds_helpers bad_field_2 = VBad /\
  field_verdict ds_helpers bad_field_3 = VNeedNonEmpty.
Proof. repeat split; reflexivity. Qed.

(** * The table of this tree *)
Lemma ds_schema_ok : ds_schema_rt_ok ds_helpers ds_schema = true.
Proof. vm_compute. reflexivity. Qed.
Lemma ds_schema_hyps : ds_hyps ds_helpers ds_schema = ds_expected_hyps.
Proof. vm_compute. reflexivity. Qed.
Lemma ds_attr_views_ok : forallb (fun st => aflat_ok (attr_view st)) ds_schema = true.
Proof. vm_compute. reflexivity. Qed.

(** * The encoder writes the attributes the table prescribes *)
Definition attrs_of (n : node) : list (string * string) :=
  match n with Elem _ a _ => a | Text _ => [] end.
Definition b2s (b : bool) : string := if b then "true" else "false".

Section Tie.
  Variable L : l1.
  Local Notation pf := (l_f32_print L).
  Definition axis_vals (a : axis L) : list (option string) :=
    [Some (ax_name L a); Some (ax_tag L a); Some (pf (ax_default L a)); Some (b2s (ax_hidden L a));
     option_map pf (ax_minimum L a); option_map pf (ax_maximum L a);
     option_map (fun l => join_sp (map pf l)) (ax_values L a)].
  Lemma enc_axis_attrs : forall a, attrs_of (enc_axis L a) = awrite (attr_view_of "Axis") (axis_vals a).
  Proof. intros [n t d [|] [mn|] [mx|] [vs|] mp]; reflexivity. Qed.
  Lemma enc_mapping_attrs : forall m,
    attrs_of (enc_mapping L m) = awrite (attr_view_of "AxisMapping") [Some (pf (m_input L m)); Some (pf (m_output L m))].
  Proof. intros [i o]. reflexivity. Qed.
  Lemma enc_condition_attrs : forall c,
    attrs_of (enc_condition L c) =
    awrite (attr_view_of "Condition") [Some (c_name L c); option_map pf (c_minimum L c); option_map pf (c_maximum L c)].
  Proof. intros [n [mn|] [mx|]]; reflexivity. Qed.
  Lemma enc_dimension_attrs : forall d,
    attrs_of (enc_dimension L d) =
    awrite (attr_view_of "Dimension")
           [Some (d_name L d); option_map pf (d_uservalue L d); option_map pf (d_xvalue L d); option_map pf (d_yvalue L d)].
  Proof. intros [n [u|] [x|] [y|]]; reflexivity. Qed.
  Lemma enc_source_attrs : forall s,
    attrs_of (enc_source L s) =
    awrite (attr_view_of "Source")
           [s_familyname L s; s_stylename L s; s_name L s; Some (s_filename L s); s_layer L s].
  Proof. intros [[f|] [st|] [n|] fn [l|] loc]; reflexivity. Qed.
  Lemma enc_instance_attrs : forall i,
    attrs_of (enc_instance L i) =
    awrite (attr_view_of "Instance")
           [i_familyname L i; i_stylename L i; i_name L i; i_filename L i; i_postscriptfontname L i;
            i_stylemapfamilyname L i; i_stylemapstylename L i].
  Proof. intros [[a|] [b|] [c|] [d|] [e|] [f|] [g|] loc lib]; reflexivity. Qed.
  Lemma enc_sub_attrs : forall s,
    attrs_of (enc_sub s) = awrite (attr_view_of "Substitution") [Some (sub_name s); Some (sub_with s)].
  Proof. intros [n w]. reflexivity. Qed.
  Lemma enc_rule_attrs : forall r, attrs_of (enc_rule L r) = awrite (attr_view_of "Rule") [r_name L r].
  Proof. intros [[n|] cs ss]; reflexivity. Qed.
  Lemma enc_rules_attrs : forall r,
    attrs_of (enc_rules L r) = awrite (attr_view_of "Rules") [Some (processing_str (rs_processing L r))].
  Proof. intros [p rs]. reflexivity. Qed.
  Lemma ds_encode_attrs : forall d,
    attrs_of (ds_encode L d) = awrite (attr_view_of "DesignSpaceDocument") [Some (pf (ds_format L d))].
  Proof. intros d. reflexivity. Qed.

  (** consequently the attributes of an axis (likewise the others) read back through the flat
      reader as the values that were written, by [aflat_rt] and [ds_attr_views_ok] *)
  Lemma axis_attrs_read_back : forall a,
    aread (attr_view_of "Axis") (attrs_of (enc_axis L a)) = Some (axis_vals a).
  Proof.
    intros a. rewrite enc_axis_attrs. apply aflat_rt; [reflexivity|].
    destruct a as [n t d h [mn|] [mx|] [vs|] mp]; reflexivity.
  Qed.

  (** * [ds_wf] = the hypotheses the table leaves + the type invariants of the Rust values *)
  (** one conjunct per entry of [ds_expected_hyps], in that order *)
  Definition ds_flag_hyps (d : doc L) : bool :=
    nonempty (ds_axes L d)                                                            (* DesignSpaceDocument.axes *)
    && match rs_rules L (ds_rules L d), rs_processing L (ds_rules L d) with [], PLast => false | _, _ => true end
                                                                                      (* DesignSpaceDocument.rules *)
    && nonempty (ds_sources L d)                                                      (* DesignSpaceDocument.sources *)
    && forallb (axis_wf L) (ds_axes L d)                                              (* Axis.map *)
    && forallb (fun r => nonempty (r_condsets L r)) (rs_rules L (ds_rules L d))       (* Rule.condition_sets *)
    && forallb (fun r => nonempty (r_subs L r)) (rs_rules L (ds_rules L d))           (* Rule.substitutions *)
    && forallb (fun s => nonempty (s_location L s)) (ds_sources L d)                  (* Source.location *)
    && forallb (fun i => nonempty (i_location L i)) (ds_instances L d).               (* Instance.location *)
  (** what a Rust value satisfies by construction: glyph names valid, dictionary keys unique,
      integers in the plist range *)
  Definition ds_type_inv (d : doc L) : bool :=
    forallb (fun r => forallb (fun s => name_valid (sub_name s) && name_valid (sub_with s)) (r_subs L r))
            (rs_rules L (ds_rules L d))
    && forallb (fun i => dict_ok L (i_lib L i)) (ds_instances L d)
    && dict_ok L (ds_lib L d).

  Lemma forallb_and {A} (p q : A -> bool) : forall l,
    forallb (fun x => p x && q x) l = forallb p l && forallb q l.
  Proof.
    induction l as [|x l IH]; [reflexivity|]. cbn. rewrite IH.
    destruct (p x), (q x), (forallb p l), (forallb q l); reflexivity.
  Qed.

  Theorem ds_wf_is_flags_and_invariants : forall d,
    ds_wfb L d = true <-> ds_flag_hyps d = true /\ ds_type_inv d = true.
  Proof.
    intros d. unfold ds_wfb, ds_flag_hyps, ds_type_inv, rules_wf.
    assert (R : forallb (rule_wf L) (rs_rules L (ds_rules L d)) =
                forallb (fun r => nonempty (r_condsets L r)) (rs_rules L (ds_rules L d))
                && forallb (fun r => nonempty (r_subs L r)) (rs_rules L (ds_rules L d))
                && forallb (fun r => forallb (fun s => name_valid (sub_name s) && name_valid (sub_with s)) (r_subs L r))
                           (rs_rules L (ds_rules L d))).
    { unfold rule_wf. now rewrite !forallb_and. }
    rewrite R. rewrite (forallb_and (fun i => nonempty (i_location L i)) (fun i => dict_ok L (i_lib L i))).
    repeat rewrite andb_true_iff. tauto.
  Qed.
End Tie.
