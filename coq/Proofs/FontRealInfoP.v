(** Laws of the real font-info part (Model/FontRealInfo.v), from C13's theorems. *)
Require Import Norad.Model.FontInfo Norad.Proofs.FontInfoP.
Require Import Norad.Model.FontRT Norad.Model.FontRealInfo Norad.Proofs.FontRTP.
Open Scope N_scope.

Lemma set_guides_same : forall i, set_guides i (FI.i_guides i) = i.
Proof. intros []. reflexivity. Qed.

Lemma map_pairs_guides : forall gs : list (rline * option str),
  map (fun g => (FI.g_line g, FI.g_id g)) (map (fun p : rline * option str => FI.Build_guide (fst p) (snd p)) gs) = gs.
Proof. induction gs as [|[ln id] gs IH]; simpl; [reflexivity|]. rewrite IH. reflexivity. Qed.
Lemma map_guides_pairs : forall gs : list FI.guide,
  map (fun p : rline * option str => FI.Build_guide (fst p) (snd p)) (map (fun g => (FI.g_line g, FI.g_id g)) gs) = gs.
Proof. induction gs as [|[ln id] gs IH]; simpl; [reflexivity|]. rewrite IH. reflexivity. Qed.

Lemma to_of_info : forall i, to_info (of_info i) = i.
Proof.
  intros [a b gs c d e f g h k l m n o p q]. unfold to_info, of_info, set_guides. simpl.
  destruct gs as [gs|]; simpl; [rewrite map_guides_pairs|]; reflexivity.
Qed.

Lemma of_to_info : forall si, FI.i_guides (fst si) = None -> of_info (to_info si) = si.
Proof.
  intros [[a b g0 c d e f g h k l m n o p q] gs] H. simpl in H. subst g0.
  unfold of_info, to_info, set_guides. simpl.
  destruct gs as [gs|]; simpl; [rewrite map_pairs_guides|]; reflexivity.
Qed.

Section PartP.
Variables C O : Type.
Variable inj : FI.raw -> C.
Variable prj : C -> option FI.raw.
Hypothesis prj_inj : forall r, prj (inj r) = Some r.

(** the real codec round-trips exactly on its domain (C13_entry_points_agree: what save writes
    loads back as the same info) *)
Lemma info_real_ok : part_ok (P_info_real C O inj prj).
Proof.
  constructor.
  - reflexivity.
  - intros x y H. symmetry. exact H.
  - intros x y z H1 H2. congruence.
  - intros o si (Hg & Hwt & Hv & Hs). simpl.
    assert (Hsave : FI.fi_save (to_info si) = Ok (to_info si)).
    { unfold FI.fi_save. rewrite Hv, Hs. reflexivity. }
    rewrite Hsave. eexists. exists si. split; [reflexivity|]. split; [|reflexivity].
    rewrite prj_inj. destruct (entry_points_agree (to_info si) Hwt) as [_ H].
    rewrite (H _ Hsave). rewrite of_to_info by exact Hg. reflexivity.
  - intros o1 o2 x c1 c2 _ H1 H2. simpl in H1, H2. rewrite H1 in H2. inversion H2. reflexivity.
Qed.

End PartP.

Lemma info_is_none_spec : forall i, info_is_none i = true <-> i = info_none.
Proof.
  intros i. split.
  - destruct i as [a b gs c d e f g h k l m n o p q]. unfold info_is_none. simpl. intros H.
    repeat (apply andb_true_iff in H; destruct H as [H ?]).
    repeat match goal with X : is_none ?x = true |- _ => destruct x; [discriminate X|clear X] end.
    reflexivity.
  - intros ->. reflexivity.
Qed.

Lemma si_real_sample_wf : wf_sinfo si_real_sample.
Proof.
  unfold wf_sinfo. split; [reflexivity|]. split; [|split; vm_compute; reflexivity].
  unfold FI.info_wt, si_real_sample, to_info, set_guides. simpl.
  split; [intros; discriminate|]. split; [intros; discriminate|].
  intros c s H. inversion H; subst. split; vm_compute; discriminate.
Qed.
