(** Laws of the real font-info part (Model/FontRealInfo.v), from C13's theorems. *)
Require Import Norad.Model.FontInfo Norad.Proofs.FontInfoP.
Require Import Norad.Model.FontRT Norad.Model.FontRealInfo Norad.Proofs.FontRTP.
Open Scope N_scope.

Lemma set_guides_same : forall i, set_guides i (FI.i_guides i) = i.
Proof. intros []. reflexivity. Qed.

Lemma map_pairs_guides : forall gs : list (rline * option str),
  map (fun g => (FI.g_line g, FI.g_id g)) (map (fun p : rline * option str => FI.Build_guide (fst p) (snd p)) gs) = gs.
Proof. induction gs as [|[ln id] gs IH]; simpl; [reflexivity|]. rewrite IH. reflexivity. Qed.
Lemma map_guides_pairs : forall gs : list FI.guide,
  map (fun p : rline * option str => FI.Build_guide (fst p) (snd p)) (map (fun g => (FI.g_line g, FI.g_id g)) gs) = gs.
Proof. induction gs as [|[ln id] gs IH]; simpl; [reflexivity|]. rewrite IH. reflexivity. Qed.

Lemma to_of_info : forall i, to_info (of_info i) = i.
Proof.
  intros [a b gs c d e f g h k l m n o p q]. unfold to_info, of_info, set_guides. simpl.
  destruct gs as [gs|]; simpl; [rewrite map_guides_pairs|]; reflexivity.
Qed.

Lemma of_to_info : forall si, FI.i_guides (fst si) = None -> of_info (to_info si) = si.
Proof.
  intros [[a b g0 c d e f g h k l m n o p q] gs] H. simpl in H. subst g0.
  unfold of_info, to_info, set_guides. simpl.
  destruct gs as [gs|]; simpl; [rewrite map_pairs_guides|]; reflexivity.
Qed.

Section PartP.
Variables C O : Type.
Variable inj : FI.raw -> C.
Variable prj : C -> option FI.raw.
Hypothesis prj_inj : forall r, prj (inj r) = Some r.

(** the real codec round-trips exactly on its domain (C13_entry_points_agree: what save writes
    loads back as the same info) *)
Lemma info_real_ok : part_ok (P_info_real C O inj prj).
Proof.
  constructor.
  - reflexivity.
  - intros x y H. symmetry. exact H.
  - intros x y z H1 H2. congruence.
  - intros o si (Hg & Hwt & Hv & Hs). simpl.
    assert (Hsave : FI.fi_save (to_info si) = Ok (to_info si)).
    { unfold FI.fi_save. rewrite Hv, Hs. reflexivity. }
    rewrite Hsave. eexists. exists si. split; [reflexivity|]. split; [|reflexivity].
    rewrite prj_inj. destruct (entry_points_agree (to_info si) Hwt) as [_ H].
    rewrite (H _ Hsave). rewrite of_to_info by exact Hg. reflexivity.
  - intros o1 o2 x c1 c2 _ H1 H2. simpl in H1, H2. rewrite H1 in H2. inversion H2. reflexivity.
Qed.

End PartP.

Lemma info_is_none_spec : forall i, info_is_none i = true <-> i = info_none.
Proof.
  intros i. split.
  - destruct i as [a b gs c d e f g h k l m n o p q]. unfold info_is_none. simpl. intros H.
    repeat (apply andb_true_iff in H; destruct H as [H ?]).
    repeat match goal with X : is_none ?x = true |- _ => destruct x; [discriminate X|clear X] end.
    reflexivity.
  - intros ->. reflexivity.
Qed.

Lemma si_real_sample_wf : wf_sinfo si_real_sample.
Proof.
  unfold wf_sinfo. split; [reflexivity|]. split; [|split; vm_compute; reflexivity].
  unfold FI.info_wt, si_real_sample, to_info, set_guides. simpl.
  split; [intros; discriminate|]. split; [intros; discriminate|].
  intros c s H. inversion H; subst. split; vm_compute; discriminate.
Qed.

(** ** closedness: what [fi_load] returns is in the codec's domain (C13_load_only_valid) and its
    guideline identifiers are distinct *)
Lemma uint_le_bound : forall max z n, FI.uint_le max z = Some n -> n <= max.
Proof.
  intros max z n H. unfold FI.uint_le in H.
  destruct ((0 <=? z) && (z <=? Z.of_N max))%Z eqn:E; [|discriminate]. inversion H; subst.
  apply andb_true_iff in E. destruct E as [E1 E2]. apply Z.leb_le in E1, E2. lia.
Qed.
Lemma fi_mapM_Forall {A B} (f : A -> option B) (P : B -> Prop) :
  (forall a b, f a = Some b -> P b) -> forall l l', FI.mapM f l = Some l' -> Forall P l'.
Proof.
  intros Hf. induction l as [|a l IH]; simpl; intros l' H; [inversion H; constructor|].
  destruct (f a) as [b|] eqn:Ea; [|discriminate]. destruct (FI.mapM f l) as [r|] eqn:Er; [|discriminate].
  inversion H; subst. constructor; eauto.
Qed.

Lemma build_wt : forall r i, FI.build r = Some i -> FI.info_wt i.
Proof.
  intros r i H. unfold FI.build in H.
  repeat match type of H with (if ?c then None else _) = Some _ => destruct c; [discriminate|] end.
  destruct (FI.omap (FI.mapM FI.gasp_of) (FI.r_hgasp r)) as [gasp|] eqn:Eg; [|discriminate].
  destruct (FI.omap (FI.mapM FI.guide_of) (FI.r_hguides r)) as [gu|] eqn:Eu; [|discriminate].
  destruct (FI.omap (FI.mapM (FI.uint_le FI.U8_MAX)) (FI.r_hselection r)) as [sel|] eqn:Es; [|discriminate].
  destruct (FI.omap FI.class_of (FI.r_hclass r)) as [cls|] eqn:Ec; [|discriminate].
  inversion H; subst i. clear H. unfold FI.info_wt. simpl. split; [|split].
  - intros l ->. unfold FI.omap in Eg. destruct (FI.r_hgasp r) as [x|]; [|discriminate].
    destruct (FI.mapM FI.gasp_of x) as [y|] eqn:Em; [|discriminate]. inversion Eg; subst y.
    eapply fi_mapM_Forall; [|exact Em]. intros a b Hab. unfold FI.gasp_of in Hab.
    destruct (forallb _ _); [|discriminate]. eapply uint_le_bound; eauto.
  - intros l ->. unfold FI.omap in Es. destruct (FI.r_hselection r) as [x|]; [|discriminate].
    destruct (FI.mapM (FI.uint_le FI.U8_MAX) x) as [y|] eqn:Em; [|discriminate]. inversion Es; subst y.
    eapply fi_mapM_Forall; [|exact Em]. intros a b Hab. eapply uint_le_bound; eauto.
  - intros c s ->. unfold FI.omap in Ec. destruct (FI.r_hclass r) as [x|]; [|discriminate].
    destruct (FI.class_of x) as [y|] eqn:Em; [|discriminate]. inversion Ec; subst y. unfold FI.class_of in Em.
    destruct (FI.mapM (FI.uint_le FI.U8_MAX) x) as [[|a [|b [|? ?]]]|] eqn:Ex; try discriminate.
    inversion Em; subst. pose proof (fi_mapM_Forall _ (fun n => n <= FI.U8_MAX) (uint_le_bound FI.U8_MAX) _ _ Ex) as F.
    inversion F as [|? ? Ha F']; subst. inversion F' as [|? ? Hb _]; subst. auto.
Qed.

Section Closed.
Variables C O : Type.
Variable inj : FI.raw -> C.
Variable prj : C -> option FI.raw.

Lemma info_real_closed : part_closed (P_info_real C O inj prj).
Proof.
  intros c si H. simpl in H. destruct (prj c) as [r|]; [|discriminate].
  destruct (FI.fi_load r) as [i| |] eqn:El; try discriminate. inversion H; subst si. clear H.
  change (wf_sinfo (of_info i)). unfold wf_sinfo. rewrite to_of_info. split; [reflexivity|].
  unfold FI.fi_load in El. destruct (FI.decode r) as [i'|] eqn:Ed; [|discriminate].
  destruct (FI.fi_validate i') as [[]| |] eqn:Ev; try discriminate. inversion El; subst i'.
  unfold FI.decode in Ed. destruct (FI.build r) as [j|] eqn:Eb; [|discriminate].
  destruct (FI.deser_angles_ok j) eqn:Ea; [|discriminate]. inversion Ed; subst j.
  split; [eapply build_wt; eauto|]. split; [exact Ev|].
  unfold FI.ser_angles_ok. unfold FI.deser_angles_ok, FI.opt_all in Ea. destruct (FI.i_guides i); exact Ea.
Qed.
End Closed.

Lemma guide_ids_some_ids : forall (gs : list (rline * option str)),
  FI.guide_ids (map (fun p : rline * option str => FI.Build_guide (fst p) (snd p)) gs) = some_ids (map snd gs).
Proof.
  induction gs as [|[l [id|]] gs IH]; simpl; [reflexivity| |]; unfold FI.guide_ids in *; simpl; rewrite IH; reflexivity.
Qed.

Lemma info_ok_real_nodup : forall D (i : finfo rinfo rline D),
  info_ok_real i = true -> NoDup (some_ids (map FontRT.g_id (match i_guides i with Some l => l | None => [] end))).
Proof.
  intros D i H. unfold info_ok_real in H.
  destruct (FI.fi_validate _) as [[]| |] eqn:Ev; try discriminate.
  apply validate_iff_spec in Ev. destruct Ev as (_ & _ & Hnd & _).
  destruct (i_guides i) as [gs|]; [|constructor]. simpl in Hnd.
  assert (E : FI.i_guides (to_info (i_rest i, Some (map (fun g => (g_body g, FontRT.g_id g)) gs))) =
              Some (map (fun p : rline * option str => FI.Build_guide (fst p) (snd p))
                        (map (fun g => (g_body g, FontRT.g_id g)) gs))) by reflexivity.
  specialize (Hnd _ E). cbv beta in Hnd. rewrite guide_ids_some_ids, map_map in Hnd. exact Hnd.
Qed.
