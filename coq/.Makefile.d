Model/Base.vo Model/Base.glob Model/Base.v.beautified Model/Base.required_vo: Model/Base.v 
Model/Base.vio: Model/Base.v 
Model/Base.vos Model/Base.vok Model/Base.required_vos: Model/Base.v 
Model/Contour.vo Model/Contour.glob Model/Contour.v.beautified Model/Contour.required_vo: Model/Contour.v Model/Base.vo
Model/Contour.vio: Model/Contour.v Model/Base.vio
Model/Contour.vos Model/Contour.vok Model/Contour.required_vos: Model/Contour.v Model/Base.vos
Proofs/ContourP.vo Proofs/ContourP.glob Proofs/ContourP.v.beautified Proofs/ContourP.required_vo: Proofs/ContourP.v Model/Base.vo Model/Contour.vo
Proofs/ContourP.vio: Proofs/ContourP.v Model/Base.vio Model/Contour.vio
Proofs/ContourP.vos Proofs/ContourP.vok Proofs/ContourP.required_vos: Proofs/ContourP.v Model/Base.vos Model/Contour.vos
Props/C11.vo Props/C11.glob Props/C11.v.beautified Props/C11.required_vo: Props/C11.v Model/Base.vo Model/Contour.vo Proofs/ContourP.vo
Props/C11.vio: Props/C11.v Model/Base.vio Model/Contour.vio Proofs/ContourP.vio
Props/C11.vos Props/C11.vok Props/C11.required_vos: Props/C11.v Model/Base.vos Model/Contour.vos Proofs/ContourP.vos
Run/C11.vo Run/C11.glob Run/C11.v.beautified Run/C11.required_vo: Run/C11.v Model/Base.vo Model/Contour.vo
Run/C11.vio: Run/C11.v Model/Base.vio Model/Contour.vio
Run/C11.vos Run/C11.vok Run/C11.required_vos: Run/C11.v Model/Base.vos Model/Contour.vos
