(** Executable glue of the C02 correspondence run: a case is a glyph value, write options and the
    tables of the library formatters / readers observed for the values of that glyph; the dumps
    are the encoder's tree and the outcome of reading it back. *)
Require Export Norad.Run.RunBase Norad.Run.Pack Norad.Run.GlifDump Norad.Run.C12 Norad.Model.GlifEncode.
Open Scope N_scope.

(** ---------- decoding of the transported glyph (format of GlifDump.tm_glyph, dictionaries in
    their iteration order) ---------- *)
Definition opt_of_xt {A} (f : xt -> A) (x : xt) : option A :=
  match x with XL [v] => Some (f v) | _ => None end.
Fixpoint pv_of_xt (x : xt) : pv :=
  match x with
  | XL [XN 0; XS s] => PStr s
  | XL [XN 1; XN neg; XN a] => PInt (if 0 <? neg then (- Z.of_N a)%Z else Z.of_N a)
  | XL [XN 2; f] => PReal (fl_of_xt f)
  | XL [XN 3; XN b] => PBool (0 <? b)
  | XL [XN 4; XS b] => PData b
  | XL [XN 5; XS s] => PDate s
  | XL [XN 6; XL l] => PArr (map pv_of_xt l)
  | XL [XN 7; XL l] =>
      PDict (map (fun e => match e with XL [XS k; v] => (k, pv_of_xt v) | _ => ([], PBool false) end) l)
  | _ => PBool false
  end.
Definition dict_of_xt (x : xt) : dict := match pv_of_xt x with PDict d => d | _ => [] end.
Definition color_of_xt (x : xt) : color :=
  match x with
  | XL [r; g; b; a] => (fl_of_xt r, fl_of_xt g, fl_of_xt b, fl_of_xt a)
  | _ => (f0, f0, f0, f0)
  end.
Definition transform_of_xt (x : xt) : transform :=
  match x with
  | XL [a; b; c; d; e; f] => mkT (fl_of_xt a) (fl_of_xt b) (fl_of_xt c) (fl_of_xt d) (fl_of_xt e) (fl_of_xt f)
  | _ => t_identity
  end.
Definition ptype_of_N (n : N) : ptype :=
  match n with 0 => Move | 1 => Line | 2 => Off | 3 => Curve | _ => QCurve end.
Definition point_of_xt (x : xt) : point :=
  match x with
  | XL [px; py; XN t; XN sm; nm; id; lib] =>
      mkPoint (fl_of_xt px) (fl_of_xt py) (ptype_of_N t) (0 <? sm) (opt_of_xt str_of_xt nm)
              (opt_of_xt str_of_xt id) (opt_of_xt dict_of_xt lib)
  | _ => mkPoint f0 f0 Off false None None None
  end.
Definition contour_of_xt (x : xt) : contour :=
  match x with
  | XL [id; lib; XL pts] => mkContour (map point_of_xt pts) (opt_of_xt str_of_xt id) (opt_of_xt dict_of_xt lib)
  | _ => mkContour [] None None
  end.
Definition comp_of_xt (x : xt) : component :=
  match x with
  | XL [XS b; t; id; lib] => mkComp b (transform_of_xt t) (opt_of_xt str_of_xt id) (opt_of_xt dict_of_xt lib)
  | _ => mkComp [] t_identity None None
  end.
Definition anchor_of_xt (x : xt) : anchor :=
  match x with
  | XL [ax; ay; nm; c; id; lib] =>
      mkAnchor (fl_of_xt ax) (fl_of_xt ay) (opt_of_xt str_of_xt nm) (opt_of_xt color_of_xt c)
               (opt_of_xt str_of_xt id) (opt_of_xt dict_of_xt lib)
  | _ => mkAnchor f0 f0 None None None None
  end.
Definition line_of_xt (x : xt) : line :=
  match x with
  | XL [XN 0; v] => LVert (fl_of_xt v)
  | XL [XN 1; v] => LHoriz (fl_of_xt v)
  | XL [XN 2; a; b; c] => LAngle (fl_of_xt a) (fl_of_xt b) (fl_of_xt c)
  | _ => LVert f0
  end.
Definition guide_of_xt (x : xt) : guideline :=
  match x with
  | XL [l; nm; c; id; lib] =>
      mkGuide (line_of_xt l) (opt_of_xt str_of_xt nm) (opt_of_xt color_of_xt c)
              (opt_of_xt str_of_xt id) (opt_of_xt dict_of_xt lib)
  | _ => mkGuide (LVert f0) None None None None
  end.
Definition image_of_xt (x : xt) : image :=
  match x with
  | XL [XS f; c; t] => mkImage f (opt_of_xt color_of_xt c) (transform_of_xt t)
  | _ => mkImage [] None t_identity
  end.
Definition glyph_of_xt (x : xt) : glyph :=
  match x with
  | XL [XS name; w; h; XL cps; note; img; XL gu; XL an; XL ks; XL cs; lib] =>
      mkGlyph name (fl_of_xt w) (fl_of_xt h)
              (map (fun c => match c with XN n => n | _ => 0 end) cps)
              (opt_of_xt str_of_xt note) (opt_of_xt image_of_xt img)
              (map guide_of_xt gu) (map anchor_of_xt an) (map comp_of_xt ks) (map contour_of_xt cs)
              (dict_of_xt lib)
  | _ => glyph_new []
  end.

(** ---------- formatter tables ---------- *)
Fixpoint fl_lookup (x : fl) (t : list (fl * str)) : str :=
  match t with [] => [] | (y, s) :: r => if fl_same x y then s else fl_lookup x r end.
Definition fl_table_of_xt (x : xt) : list (fl * str) :=
  match x with
  | XL l => map (fun e => match e with XL [f; XS s] => (fl_of_xt f, s) | _ => (FNaN, []) end) l
  | _ => []
  end.
Fixpoint z_lookup (z : Z) (t : list (Z * str)) : str :=
  match t with [] => [] | (y, s) :: r => if (z =? y)%Z then s else z_lookup z r end.
Definition z_table_of_xt (x : xt) : list (Z * str) :=
  match x with
  | XL l => map (fun e => match e with
                          | XL [XN neg; XN a; XS s] => ((if 0 <? neg then (- Z.of_N a)%Z else Z.of_N a), s)
                          | _ => (0%Z, [])
                          end) l
  | _ => []
  end.
Fixpoint n_lookup (n : N) (t : list (N * str)) : str :=
  match t with [] => [] | (y, s) :: r => if n =? y then s else n_lookup n r end.
Definition n_table_of_xt (x : xt) : list (N * str) :=
  match x with
  | XL l => map (fun e => match e with XL [XN c; XS s] => (c, s) | _ => (0, []) end) l
  | _ => []
  end.

(** ---------- dump of a tree ---------- *)
Definition tm_attrs (a : attrs) : tm := L_ (map (fun kv => L_ [tm_str (fst kv); tm_str (snd kv)]) a).
Fixpoint tm_node (n : node) : tm :=
  match n with
  | Empty name a => L_ [N_ 0; tm_str name; tm_attrs a]
  | Elem name a kids => L_ [N_ 1; tm_str name; tm_attrs a; L_ (map tm_node kids)]
  | Text s => L_ [N_ 2; tm_str s]
  | CData s => L_ [N_ 3; tm_str s]
  | Comment s => L_ [N_ 4; tm_str s]
  | Decl => L_ [N_ 5]
  | PI s => L_ [N_ 7; tm_str s]
  | DocType s => L_ [N_ 6; tm_str s]
  end.

Definition upos_of_xt (x : xt) : upos :=
  match x with
  | XL [XN 0; XS k] => UGlyph k
  | XL [XN 1; XN i] => UAnchor (N.to_nat i)
  | XL [XN 2; XN i] => UGuide (N.to_nat i)
  | XL [XN 3; XN i] => UContour (N.to_nat i)
  | XL [XN 4; XN i; XN j] => UPoint (N.to_nat i) (N.to_nat j)
  | XL [XN 5; XN i] => UComp (N.to_nat i)
  | _ => UGlyph []
  end.
Record c02case := mkCase {
  c_glyph : glyph; c_opts : wopts;
  c_ff : list (fl * str); c_ff3 : list (fl * str); c_fi : list (Z * str); c_fh : list (N * str);
  c_pf : list (str * option fl);
  c_op : wop; c_uids : list upos }.
(** a case: glyph, options, formatter tables and, for the items of a write history, the
    operation (0 encode, 1 save) and the positions of UID values *)
Definition c02case_of_xt (x : xt) : c02case :=
  match x with
  | XL [g; XL [XN ch; XN cnt; XN sq]; XL [t1; t2; t3; t4; XL t5]] =>
      mkCase (glyph_of_xt g) (mkOpts ch (N.to_nat cnt) (0 <? sq))
             (fl_table_of_xt t1) (fl_table_of_xt t2) (z_table_of_xt t3) (n_table_of_xt t4)
             (map pf_entry_of_xt t5) OpEncode []
  | XL [g; XL [XN ch; XN cnt; XN sq]; XL [t1; t2; t3; t4; XL t5]; XL [XN op; XL us]] =>
      mkCase (glyph_of_xt g) (mkOpts ch (N.to_nat cnt) (0 <? sq))
             (fl_table_of_xt t1) (fl_table_of_xt t2) (z_table_of_xt t3) (n_table_of_xt t4)
             (map pf_entry_of_xt t5) (if 0 <? op then OpSave else OpEncode) (map upos_of_xt us)
  | _ => mkCase (glyph_new []) (mkOpts 9 1 false) [] [] [] [] [] OpEncode []
  end.

Definition encode_case (c : c02case) : res node :=
  run_op (fun x => fl_lookup x (c_ff c)) (fun x => fl_lookup x (c_ff3 c))
         (fun z => z_lookup z (c_fi c)) (fun n => n_lookup n (c_fh c))
         (c_op c, c_opts c, mkW (c_glyph c) (c_uids c)).
(** class predicates of the glyph: [F3] *)
Definition run_classes (c : c02case) : tm :=
  L_ [tm_bool (c02_f3 (c_opts c) (c_glyph c))].
(** (tree the encoder produces, outcome of reading it back, classes) *)
Definition run_c02 (x : xt) : tm :=
  let c := c02case_of_xt x in
  match encode_case c with
  | Ok t => L_ [L_ [N_ 0; tm_node t]; tm_res (parse_glif (pf_of (c_pf c)) (written_doc t)); run_classes c]
  | Err e => L_ [L_ [N_ 1; N_ (gerr_code e)]; L_ []; run_classes c]
  | Panic s => L_ [L_ [N_ 2; N_ s]; L_ []; run_classes c]
  end.
