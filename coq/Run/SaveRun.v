(** Executable glue for the correspondence runs of C08 and C09: the harness prints a font
    abstraction, a target, the sandbox before the call (as an entry list) and what the
    implementation did; the model's [save] is run on the same input and compared. *)
From stdpp Require Import gmap strings.
From Norad.Model Require Import Fs Save.
Open Scope string_scope.
Open Scope list_scope.

(** short constructors for the generated case files *)
Definition C (tok : N) (png : bool) : content := Content tok png.
Definition F (tok : N) (png : bool) : snode := File (Content tok png).
Definition D : snode := Dir.
Definition fs_of (es : list (path * snode)) : sfs := list_to_map es.

(** what the harness saw *)
Inductive obs := Obs (o : outcome) | ObsPanic | ObsOther.

Global Instance topfile_eq_dec : EqDecision topfile. Proof. solve_decision. Defined.
Global Instance layer_err_eq_dec : EqDecision layer_err. Proof. solve_decision. Defined.
Global Instance werr_eq_dec : EqDecision werr. Proof. solve_decision. Defined.
Global Instance outcome_eq_dec : EqDecision outcome. Proof. solve_decision. Defined.
Global Instance snode_eq_dec : EqDecision snode. Proof. solve_decision. Defined.

Record scase := SCase {
  sc_font : font_abs;
  sc_target : path;
  sc_before : list (path * snode);
  sc_obs : obs;
  sc_after : list (path * snode);
}.

(** printable view of a tree: directories as [None], files as [Some (token, png)] *)
Definition view (m : sfs) : list (path * option (N * bool)) :=
  map (λ e, (e.1, match e.2 with File c => Some (c_tok c, c_png c) | Dir => None end)) (map_to_list m).

Definition run_case (c : scase) : outcome * sfs := save (sc_font c) (sc_target c) (fs_of (sc_before c)).
Definition case_ok (c : scase) : bool :=
  let r := run_case c in
  match sc_obs c with
  | Obs o => bool_decide (o = r.1) && bool_decide (fs_of (sc_after c) = r.2)
  | _ => false
  end.

Fixpoint smismatches_aux (i : N) (cs : list scase) : list (N * outcome * list (path * option (N * bool))) :=
  match cs with
  | [] => []
  | c :: r =>
      if case_ok c then smismatches_aux (i + 1) r
      else let o := run_case c in (i, o.1, view o.2) :: smismatches_aux (i + 1) r
  end.
Definition smismatches (cs : list scase) := smismatches_aux 0%N cs.

(** the class predicate of F8, executable, so that harness and model can be compared on it *)
Definition in_F8 (f : font_abs) : bool := negb (layers_safeb f).
Definition f8_bits (cs : list scase) : list N := map (λ c, if in_F8 (sc_font c) then 1%N else 0%N) cs.
