(** Executable glue for the correspondence run of C06 / C07 (containers): histories of container
    operations are run through the model; after every operation the outcome and the state as
    seen through the public getters (probed over the run's name table) are compared with what
    norad did.  Histories come either as a trie that is enumerated here in the same depth-first
    order as in the harness (only the expected observations are handed in), or as listed
    random histories.  All data is text inside string literals (see Run/C07.v for why). *)
From stdpp Require Import gmap.
Require Import Norad.Run.RunBase Norad.Model.FileName Norad.Model.Layer Norad.Run.C07.
Open Scope N_scope.

(** ** text helpers *)
Definition idx_of_char (c : N) : nat :=
  N.to_nat (if c <? 58 then c - 48 else c - 97 + 10).
Definition char_of_idx (i : nat) : N :=
  let n := N.of_nat i in if n <? 10 then 48 + n else 97 + n - 10.
Definition ch (s : string) : N := match bytes_of s with c :: _ => c | [] => 0 end.

Section Run.
  Variable up : list N.
  Variable low : list (N * list N).
  Variable names : list str.

  Notation is_upper := (mk_upper up).
  Notation lower := (mk_lower low).
  Definition nm (c : N) : str := nth (idx_of_char c) names [].

  (** ** operations from text *)
  Fixpoint read_keep (s : str) (acc : list str) : list str * str :=
    match s with
    | [] => (List.rev acc, [])
    | c :: r => if c =? 46 then (List.rev acc, r) else read_keep r (nm c :: acc)
    end.
  Definition bit (c : N) : bool := c =? 49.
  Fixpoint parse_ops (fuel : nat) (s : str) : list op :=
    match fuel with
    | O => []
    | S f =>
        match s with
        | [] => []
        | c :: r =>
            if c =? ch "I" then match r with l :: g :: r' => InsertGlyph (nm l) (nm g) :: parse_ops f r' | _ => [] end
            else if c =? ch "R" then match r with l :: g :: r' => RemoveGlyph (nm l) (nm g) :: parse_ops f r' | _ => [] end
            else if c =? ch "N" then match r with l :: o :: n :: w :: r' => RenameGlyph (nm l) (nm o) (nm n) (bit w) :: parse_ops f r' | _ => [] end
            else if c =? ch "C" then match r with l :: r' => ClearLayer (nm l) :: parse_ops f r' | _ => [] end
            else if c =? ch "T" then match r with l :: r' => let '(k, r'') := read_keep r' [] in RetainGlyphs (nm l) k :: parse_ops f r'' | _ => [] end
            else if c =? ch "E" then match r with l :: k :: g :: r' => EntryOrInsert (nm l) (nm k) (nm g) :: parse_ops f r' | _ => [] end
            else if c =? ch "X" then match r with l :: k :: r' => EntryRemove (nm l) (nm k) :: parse_ops f r' | _ => [] end
            else if c =? ch "U" then match r with l :: r' => TouchGlyphs (nm l) :: parse_ops f r' | _ => [] end
            else if c =? ch "n" then match r with x :: r' => NewLayer (nm x) :: parse_ops f r' | _ => [] end
            else if c =? ch "g" then match r with x :: r' => GetOrCreateLayer (nm x) :: parse_ops f r' | _ => [] end
            else if c =? ch "r" then match r with x :: r' => RemoveLayer (nm x) :: parse_ops f r' | _ => [] end
            else if c =? ch "m" then match r with o :: n :: w :: r' => RenameLayer (nm o) (nm n) (bit w) :: parse_ops f r' | _ => [] end
            else if c =? ch "t" then let '(k, r') := read_keep r [] in RetainLayers k :: parse_ops f r'
            else if c =? ch "e" then RemoveEmptyLayers :: parse_ops f r
            else if c =? ch "S" then SaveLoad :: parse_ops f r
            else []
        end
    end.
  Definition ops_of (s : str) : list op := parse_ops (List.length s) s.

  (** ** observation text *)
  Definition out_text (o : out) : str :=
    match o with
    | OOk => [ch "k"] | OSome => [ch "s"] | ONone => [ch "n"]
    | OErr Duplicate => [ch "D"] | OErr Missing => [ch "M"] | OErr Invalid => [ch "V"]
    | OErr ReservedName => [ch "Z"] | OErr NoLayer => [ch "L"] | OErr SaveErr => [ch "W"]
    | OErr LoadErr => [ch "Y"]
    | OPanic site => [ch "P"; 48 + (if site <? 10 then site else 9)]
    end.
  Fixpoint index_of (n : str) (l : list str) (i : nat) : option nat :=
    match l with
    | [] => None
    | x :: r => if seqb x n then Some i else index_of n r (S i)
    end.
  Definition name_text (n : str) : str :=
    match index_of n names 0 with Some i => [char_of_idx i] | None => ch "?" :: n end.
  Fixpoint probes (l : layer) (ns : list str) (i : nat) : str :=
    match ns with
    | [] => []
    | n :: r =>
        match l_glyphs l !! n, l_contents l !! n with
        | None, None => probes l r (S i)
        | g, p =>
            char_of_idx i ::
            match g with Some inner => name_text inner | None => [ch "-"] end ++
            ch "=" :: match p with Some q => q | None => [ch "-"] end ++
            ch "," :: probes l r (S i)
        end
    end.
  Definition layer_text (l : layer) : str :=
    name_text (l_name l) ++ ch ":" :: l_path l ++ ch ":" :: probes l names 0 ++ [ch ";"].
  Definition state_text (s : state) : str := flat_map layer_text (layers s).

  (** ** start states *)
  Definition parse_contents (s : str) : gmap str str :=
    fold_right (fun e m => match e with
                           | g :: eq :: file => if eq =? ch "=" then <[nm g := file]> m else m
                           | _ => m
                           end) ∅ (split (ch ",") s).
  Definition parse_dlayer (s : str) : option dlayer :=
    match split (ch ":") s with
    | [n :: nil; dir; cs] => Some (nm n, dir, parse_contents cs)
    | _ => None
    end.
  Definition parse_disk (s : str) : disk :=
    flat_map (fun x => match parse_dlayer x with Some d => [d] | None => [] end)
             (removelast (split (ch ";") s)).
  (** "N" = Font::new(); otherwise the text of a disk tree that is loaded *)
  Definition start_state (s : str) : option state :=
    match s with
    | [c] => if c =? ch "N" then Some (init) else None
    | _ => load lower (parse_disk s)
    end.

  (** does the start tree load at all? (compared with [Font::load]) *)
  Definition loads (start : string) : bool :=
    match start_state (text [start]) with Some _ => true | None => false end.

  Notation step := (step is_upper lower).

  (** ** comparison: an expected line is  outcode "|" (state text or "=")  *)
  Definition obs_text (prev : str) (o : out) (s : state) : str * str :=
    let st := state_text s in
    (out_text o ++ ch "|" :: (if seqb st prev then [ch "="] else st), st).
  Definition is_panic (o : out) : bool := match o with OPanic _ => true | _ => false end.

  (** trie: depth-first, operations in alphabet order, no children below a panic; [lines] is
      consumed in the same order; result: indices of differing nodes with the model's text *)
  Fixpoint trie (d : nat) (alphabet : list op) (s : state) (prev : str) (i : N) (lines : list str)
    : list (N * str) * N * list str :=
    match d with
    | O => ([], i, lines)
    | S d' =>
        fold_left
          (fun acc o =>
             let '(diffs, i, lines) := acc in
             let '(s', out) := step s o in
             let '(txt, st) := obs_text prev out s' in
             let '(diffs1, lines1) :=
               match lines with
               | l :: r => (if seqb l txt then diffs else (i, txt) :: diffs, r)
               | [] => ((i, txt) :: diffs, [])
               end in
             if is_panic out then (diffs1, i + 1, lines1)
             else
               let '(diffs2, i2, lines2) := trie d' alphabet s' st (i + 1) lines1 in
               (diffs2 ++ diffs1, i2, lines2))
          alphabet ([], i, lines)
    end.

  (** apply a prefix; [None] if it panics *)
  Fixpoint apply_prefix (s : state) (ops : list op) : option state :=
    match ops with
    | [] => Some s
    | o :: r => let '(s', out) := step s o in if is_panic out then None else apply_prefix s' r
    end.

  Definition run_trie (start alphabet prefix state0 : string) (depth : nat) (chunks : list string)
    : list (N * str) :=
    match start_state (text [start]) with
    | None => [(999999, [])]
    | Some s0 =>
        match apply_prefix s0 (ops_of (text [prefix])) with
        | None => [(999998, [])]
        | Some s =>
            if negb (seqb (state_text s) (text [state0])) then [(999995, state_text s)]
            else
            let lines := removelast (split 10 (text chunks)) in
            let '(diffs, _, rest) := trie depth (ops_of (text [alphabet])) s (state_text s) 0 lines in
            match rest with
            | [] => List.rev diffs
            | _ => List.rev ((999997, []) :: diffs)
            end
        end
    end.

  (** listed history:  start "#" ops "#" start-state "#" obs "#" obs ...   (one observation per
      operation; the history ends after a panic) *)
  Fixpoint run_ops (s : state) (prev : str) (i : N) (ops : list op) (obs : list str) : list (N * str) :=
    match ops, obs with
    | o :: ops', e :: obs' =>
        let '(s', out) := step s o in
        let '(txt, st) := obs_text prev out s' in
        let d := if seqb e txt then [] else [(i, txt)] in
        if is_panic out then d else d ++ run_ops s' st (i + 1) ops' obs'
    | _, _ => []
    end.
  Definition run_history (line : str) : list (N * str) :=
    match split (ch "#") line with
    | st :: ops :: st0 :: obs =>
        match start_state st with
        | None => [(999999, [])]
        | Some s => if negb (seqb (state_text s) st0) then [(999995, state_text s)]
                    else run_ops s (state_text s) 0 (ops_of ops) obs
        end
    | _ => [(999996, [])]
    end.
  Fixpoint run_histories_aux (i : N) (ls : list str) : list (N * list (N * str)) :=
    match ls with
    | [] => []
    | l :: r => match run_history l with
                | [] => run_histories_aux (i + 1) r
                | d => (i, d) :: run_histories_aux (i + 1) r
                end
    end.
  Definition run_histories (chunks : list string) : list (N * list (N * str)) :=
    run_histories_aux 0 (removelast (split 10 (text chunks))).
End Run.
