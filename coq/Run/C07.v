(** Executable glue for the correspondence run of C07 (function level).

    The harness hands in, as text, what norad returned; the model is run under the run's own
    [is_upper]/[lower] tables (taken from rustc's std for exactly the characters in use) and
    only the disagreeing cases are printed.  Every case is a *chain*: the name is converted
    k+1 times, each time with the lower-cased earlier results as the taken-set (what a
    container does); every step is compared.

    Data comes in as UTF-8 text inside Coq string literals because the front-end cost of Coq is
    per syntax node: a string costs one node per byte, a list of numerals five times that. *)
Require Import Norad.Run.RunBase Norad.Model.FileName.
Open Scope N_scope.

(** ** text decoding *)
Definition bytes_of (s : string) : list N := map N_of_ascii (list_ascii_of_string s).
Fixpoint utf8_dec (bs : list N) (need acc : N) : str :=
  match bs with
  | [] => []
  | b :: r =>
      if need =? 0 then
        if b <? 128 then b :: utf8_dec r 0 0
        else if b <? 224 then utf8_dec r 1 (b - 192)
        else if b <? 240 then utf8_dec r 2 (b - 224)
        else utf8_dec r 3 (b - 240)
      else
        let acc' := acc * 64 + (b - 128) in
        if need =? 1 then acc' :: utf8_dec r 0 0 else utf8_dec r (need - 1) acc'
  end.
Definition text (chunks : list string) : str := utf8_dec (bytes_of (cat chunks)) 0 0.

(** split at a separator code point *)
Fixpoint split_aux (sep : N) (cur : str) (s : str) : list str :=
  match s with
  | [] => [rev cur]
  | c :: r => if c =? sep then rev cur :: split_aux sep [] r else split_aux sep (c :: cur) r
  end.
Definition split (sep : N) (s : str) : list str := split_aux sep [] s.

(** run-length markup: ~n~c = c repeated n times; ^n^cd = cd repeated n times *)
Definition TILDE : N := 126.
Definition CARET : N := 94.
Fixpoint read_num (s : str) (stop : N) (acc : N) : N * str :=
  match s with
  | [] => (acc, [])
  | c :: r => if c =? stop then (acc, r) else read_num r stop (acc * 10 + (c - 48))
  end.
Fixpoint expand (fuel : nat) (s : str) : str :=
  match fuel with
  | O => []
  | S f =>
      match s with
      | [] => []
      | c :: r =>
          if c =? TILDE then
            let '(n, r1) := read_num r TILDE 0 in
            match r1 with
            | x :: r2 => repeat x (N.to_nat n) ++ expand f r2
            | [] => []
            end
          else if c =? CARET then
            let '(n, r1) := read_num r CARET 0 in
            match r1 with
            | x :: y :: r2 => List.concat (repeat [x; y] (N.to_nat n)) ++ expand f r2
            | _ => []
            end
          else c :: expand f r
      end
  end.
Definition unrle (s : str) : str := expand (List.length s) s.

(** ** tables *)
(** the table is sorted by code point *)
Fixpoint assoc (c : N) (tab : list (N * list N)) : option (list N) :=
  match tab with
  | [] => None
  | (k, v) :: r => if k =? c then Some v else if c <? k then None else assoc c r
  end.
Definition mk_upper (tab : list N) (c : N) : bool := memb c tab.
(** [str::to_lowercase] = concatenation of [char::to_lowercase] (true away from U+03A3, which
    the generators avoid) *)
Definition mk_lower (tab : list (N * list N)) (s : str) : str :=
  flat_map (fun c => match assoc c tab with Some l => l | None => [c] end) s.

(** ** one step outcome: result ([None] = panic) and membership in the known class F1 *)
Definition outcome := (option str * bool)%type.
Definition outcome_eqb (a b : outcome) : bool :=
  match fst a, fst b with
  | None, None => true
  | Some x, Some y => str_eqb x y
  | _, _ => false
  end && Bool.eqb (snd a) (snd b).

(** expected field: "%" = panic; "$" ++ text = the full result; otherwise the part between
    prefix and suffix; a trailing "@" marks the known class *)
Definition PERCENT : N := 37.
Definition DOLLAR : N := 36.
Definition AT : N := 64.
Definition dec_outcome (prefix suffix : str) (f : str) : outcome :=
  let '(body, k) :=
    match rev f with
    | c :: r => if c =? AT then (rev r, true) else (f, false)
    | [] => (f, false)
    end in
  match body with
  | c :: r =>
      if c =? PERCENT then (None, k)
      else if c =? DOLLAR then (Some (unrle r), k)
      else (Some (prefix ++ unrle body ++ suffix), k)
  | [] => (Some (prefix ++ suffix), k)
  end.

(** lazy comparisons ([&&]/[||] evaluate both sides under vm_compute) *)
Fixpoint seqb (a b : str) : bool :=
  match a, b with
  | [], [] => true
  | x :: a', y :: b' => if x =? y then seqb a' b' else false
  | _, _ => false
  end.
Fixpoint mem_str (a : str) (l : list str) : bool :=
  match l with [] => false | b :: r => if seqb a b then true else mem_str a r end.

Section Run.
  Variable up : list N.
  Variable low : list (N * list N).

  (** the chain: convert [name] again and again, feeding the lower-cased results back.  The
      taken names are kept reversed and compared from the end (they differ in the counter
      digits, the common stems are long); this is the caller's closure, not the model. *)
  Fixpoint chain (fuel : nat) (name prefix suffix : str) (taken_rev : list str) : list outcome :=
    match fuel with
    | O => []
    | S f =>
        let acc := fun cand => negb (mem_str (rev_append cand []) taken_rev) in
        let r := u2f (mk_upper up) (mk_lower low) name prefix suffix acc in
        let k := clipped_clashb (mk_upper up) (mk_lower low) name prefix suffix acc in
        (r, k) :: match r with
                  | Some x => chain f name prefix suffix (rev_append (mk_lower low x) [] :: taken_rev)
                  | None => []
                  end
    end.

  (** compare a chain with the expected fields; yields (step, model outcome) of differing steps *)
  Fixpoint cmp_chain (i : N) (ms es : list outcome) : list (N * outcome) :=
    match ms, es with
    | m :: ms', e :: es' =>
        if outcome_eqb m e then cmp_chain (i + 1) ms' es' else (i, m) :: cmp_chain (i + 1) ms' es'
    | [], [] => []
    | m :: _, [] => [(i, m)]
    | [], _ :: _ => [(i, (Some [], false))]
    end.

  Definition HASH : N := 35.
  Definition NL : N := 10.

  (** a listed case: prefix # suffix # name # r0 # r1 # ... *)
  Definition run_line (line : str) : list (N * outcome) :=
    match split HASH line with
    | p :: s :: n :: rs =>
        let prefix := unrle p in let suffix := unrle s in let name := unrle n in
        let es := map (dec_outcome prefix suffix) rs in
        cmp_chain 0 (chain (List.length es) name prefix suffix []) es
    | _ => [(999, (None, false))]
    end.
  Fixpoint run_lines_aux (i : N) (ls : list str) : list (N * list (N * outcome)) :=
    match ls with
    | [] => []
    | l :: r =>
        match run_line l with
        | [] => run_lines_aux (i + 1) r
        | d => (i, d) :: run_lines_aux (i + 1) r
        end
    end.
  (** lines are terminated by a newline *)
  Definition run_listed (chunks : list string) : list (N * list (N * outcome)) :=
    run_lines_aux 0 (removelast (split NL (text chunks))).

  (** enumerated cases: all names [w ++ tail] with [w] of length [len] over [alphabet], first
      character varying fastest; each with a chain of two steps; expected = lines "r0#r1" *)
  Fixpoint words (alphabet : str) (len : nat) : list str :=
    match len with
    | O => [[]]
    | S k => flat_map (fun t => map (fun c => c :: t) alphabet) (words alphabet k)
    end.
  Definition run_enum (alphabet : str) (len : nat) (tail prefix suffix : str) (chunks : list string)
    : list (N * list (N * outcome)) :=
    let names := map (fun w => w ++ tail) (words alphabet len) in
    let lines := removelast (split NL (text chunks)) in
    (fix go (i : N) (ns : list str) (ls : list str) : list (N * list (N * outcome)) :=
       match ns, ls with
       | n :: ns', l :: ls' =>
           let es := map (dec_outcome prefix suffix) (split HASH l) in
           match cmp_chain 0 (chain (List.length es) n prefix suffix []) es with
           | [] => go (i + 1) ns' ls'
           | d => (i, d) :: go (i + 1) ns' ls'
           end
       | [], [] => []
       | _, _ => [(i, [(999, (None, false))])]
       end) 0 names lines.
End Run.
