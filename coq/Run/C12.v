(** Executable glue of the C12 correspondence run: a case is a document tree plus the table of
    [f64::from_str] results for the strings occurring in it; the dump is the parser outcome. *)
Require Export Norad.Run.RunBase Norad.Run.Pack Norad.Run.GlifDump Norad.Model.GlifSpec.
Open Scope N_scope.

Definition case := (doc * list (str * option fl))%type.
(** the reader's outcome, the verdict of the rule predicate and the class predicates *)
Definition run_case (c : case) : tm :=
  let pf := pf_of (snd c) in
  L_ [tm_res (parse_glif pf (fst c));
      L_ [tm_bool (glif_okb pf (fst c)); tm_bool (f14b (fst c)); tm_bool (f16b (fst c));
          tm_bool (f17b (fst c))]].

(** ---------- decoding of the transported case ---------- *)
Definition str_of_xt (x : xt) : str := match x with XS s => s | _ => [] end.
Definition attrs_of_xt (x : xt) : attrs :=
  match x with
  | XL l => map (fun a => match a with XL [k; v] => (str_of_xt k, str_of_xt v) | _ => ([], []) end) l
  | _ => []
  end.
Fixpoint node_of_xt (x : xt) : node :=
  match x with
  | XL [XN 0; XS name; a] => Empty name (attrs_of_xt a)
  | XL [XN 1; XS name; a; XL kids] => Elem name (attrs_of_xt a) (map node_of_xt kids)
  | XL [XN 2; XS s] => Text s
  | XL [XN 3; XS s] => CData s
  | XL [XN 4; XS s] => Comment s
  | XL [XN 6; XS s] => DocType s
  | _ => Decl
  end.
Definition fl_of_xt (x : xt) : fl :=
  match x with
  | XL [XN 0; XN neg; XN m; XN e] => FFin (0 <? neg) m (Z.of_N e - 2000)
  | XL [XN 1; XN neg] => FInf (0 <? neg)
  | _ => FNaN
  end.
Definition pf_entry_of_xt (x : xt) : str * option fl :=
  match x with
  | XL [XS s; XL [v]] => (s, Some (fl_of_xt v))
  | XL [XS s; _] => (s, None)
  | _ => ([], None)
  end.
Definition case_of_xt (x : xt) : case :=
  match x with
  | XL [XL d; XL t] => (map node_of_xt d, map pf_entry_of_xt t)
  | _ => ([], [])
  end.
Definition run_packed (x : xt) : tm := run_case (case_of_xt x).
