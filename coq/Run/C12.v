(** Executable glue of the C12 correspondence run: a case is a document tree plus the table of
    [f64::from_str] results for the strings occurring in it; the dump is the parser outcome. *)
Require Export Norad.Run.RunBase Norad.Run.GlifDump Norad.Model.GlifParse.
Open Scope N_scope.

Definition case := (doc * list (str * option fl))%type.
Definition run_case (c : case) : tm := tm_res (parse_glif (pf_of (snd c)) (fst c)).
