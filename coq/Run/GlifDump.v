(** Dump of glyph values and parser outcomes as [tm] trees (shared by the C12 and C02 runs).
    Definitions only. *)
Require Import Norad.Run.RunBase Norad.Model.GlifParse.
Open Scope N_scope.

Definition tm_fl (x : fl) : tm :=
  match x with
  | FFin n m e => L_ [N_ 0; tm_bool n; N_ m; N_ (Z.to_N (e + 2000))]
  | FInf n => L_ [N_ 1; tm_bool n]
  | FNaN => L_ [N_ 2]
  end.

Fixpoint tm_pv (v : pv) : tm :=
  match v with
  | PStr s => L_ [N_ 0; tm_str s]
  | PInt z => L_ [N_ 1; tm_bool (z <? 0)%Z; N_ (Z.abs_N z)]
  | PReal x => L_ [N_ 2; tm_fl x]
  | PBool b => L_ [N_ 3; tm_bool b]
  | PData b => L_ [N_ 4; tm_str b]
  | PDate s => L_ [N_ 5; tm_str s]
  | PArr l => L_ [N_ 6; L_ (map tm_pv l)]
  | PDict d =>
      L_ [N_ 7; L_ (map (fun kv => L_ [tm_str (fst kv); snd kv])
                        (sort_keys ((fix go (l : dict) : list (str * tm) :=
                                       match l with [] => [] | (k, x) :: r => (k, tm_pv x) :: go r end) d)))]
  end.
Definition tm_dict (d : dict) : tm := tm_pv (PDict d).

Definition tm_color (c : color) : tm :=
  let '(r, g, b, a) := c in L_ [tm_fl r; tm_fl g; tm_fl b; tm_fl a].
Definition tm_transform (t : transform) : tm :=
  L_ [tm_fl (xScale t); tm_fl (xyScale t); tm_fl (yxScale t); tm_fl (yScale t);
      tm_fl (xOffset t); tm_fl (yOffset t)].
Definition tm_ptype (t : ptype) : tm :=
  N_ (match t with Move => 0 | Line => 1 | Off => 2 | Curve => 3 | QCurve => 4 end).
Definition tm_point (p : point) : tm :=
  L_ [tm_fl (px p); tm_fl (py p); tm_ptype (ptyp p); tm_bool (psmooth p); tm_opt tm_str (pname p);
      tm_opt tm_str (pid p); tm_opt tm_dict (plib p)].
Definition tm_contour (c : contour) : tm :=
  L_ [tm_opt tm_str (cid c); tm_opt tm_dict (clib c); L_ (map tm_point (cpoints c))].
Definition tm_comp (c : component) : tm :=
  L_ [tm_str (cbase c); tm_transform (ctrans c); tm_opt tm_str (coid c); tm_opt tm_dict (colib c)].
Definition tm_anchor (a : anchor) : tm :=
  L_ [tm_fl (ax a); tm_fl (ay a); tm_opt tm_str (aname a); tm_opt tm_color (acolor a);
      tm_opt tm_str (aid a); tm_opt tm_dict (alib a)].
Definition tm_line (l : line) : tm :=
  match l with
  | LVert x => L_ [N_ 0; tm_fl x]
  | LHoriz y => L_ [N_ 1; tm_fl y]
  | LAngle x y d => L_ [N_ 2; tm_fl x; tm_fl y; tm_fl d]
  end.
Definition tm_guide (g : guideline) : tm :=
  L_ [tm_line (gline g); tm_opt tm_str (guname g); tm_opt tm_color (gcolor g);
      tm_opt tm_str (guid g); tm_opt tm_dict (gulib g)].
Definition tm_image (i : image) : tm :=
  L_ [tm_str (ifile i); tm_opt tm_color (icolor i); tm_transform (itrans i)].
Definition tm_glyph (g : glyph) : tm :=
  L_ [tm_str (gname g); tm_fl (gwidth g); tm_fl (gheight g); L_ (map N_ (gcps g));
      tm_opt tm_str (gnote g); tm_opt tm_image (gimage g); L_ (map tm_guide (gguides g));
      L_ (map tm_anchor (ganchors g)); L_ (map tm_comp (gcomps g));
      L_ (map tm_contour (gcontours g)); tm_dict (glib g)].

Definition cerr_code (e : cerr) : N :=
  match e with
  | UnexpectedMove => 1 | AfterOff => 2 | SmoothOff => 3 | TooMany => 4 | Trailing => 5
  | UnreachableMove => 6
  end.
Definition gerr_code (e : gerr) : N :=
  match e with
  | EUnsupportedGlifVersion => 10 | EUnknownPointType => 11 | EWrongFirstElement => 12
  | EMissingCloseTag => 13 | EBadHexValue => 14 | EBadNumber => 15 | EBadColor => 16
  | EBadAnchor => 17 | EBadPoint => 18 | EBadGuideline => 19 | EBadImage => 20
  | EBadIdentifier => 21 | EInvalidName => 22 | EBadLib => 23 | EUnexpectedElement => 24
  | EUnexpectedAttribute => 25 | EDuplicateIdentifier => 26 | EUnexpectedPointField => 27
  | EUnexpectedComponentField => 28 | EUnexpectedAnchorField => 29
  | EUnexpectedGuidelineField => 30 | EUnexpectedImageField => 31 | EDuplicateElement => 32
  | EUnexpectedV1Element => 33 | EUnexpectedV1Attribute => 34 | EComponentEmptyBase => 35
  | EComponentMissingBase => 36 | ELibMustBeDictionary => 37 | EBadAngle => 38
  | EContour e => cerr_code e
  | EXmlAttr => 39 | EPublicObjectLibsMustBeDictionary => 40 | EObjectLibMustBeDictionary => 41
  | EPlistWrite => 42 | EPreexistingObjectLibs => 43
  end.

Definition tm_res (r : res glyph) : tm :=
  match r with
  | Ok g => L_ [N_ 0; tm_glyph g]
  | Err e => L_ [N_ 1; N_ (gerr_code e)]
  | Panic s => L_ [N_ 2; N_ s]
  end.

(** [f64::from_str] restricted to the strings of one case, as observed by the harness *)
Definition pf_of (tbl : list (str * option fl)) (s : str) : option fl :=
  match lookup s tbl with Some r => r | None => None end.
