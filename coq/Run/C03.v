(** Executable glue for the C03 correspondence run: the site models of Model/Totality.v are run on
    the same inputs / histories as the implementation and must predict its full observable
    outcome (returned value, error variant per operation, final state, panic or not). *)
Require Import Norad.Run.RunBase Norad.Model.Totality.
Open Scope N_scope.

(* ------------------------------------------------------------------------------------------ *)
(** * user_name_to_file_name: (name, prefix, suffix, number of candidates the closure rejects)  *)

(** the alphabet of the run has no upper-case letters beyond A-Z and U+00C9 *)
Definition is_upper_run (c : N) : bool := ((65 <=? c) && (c <=? 90)) || (c =? 201).
Definition u2f_case : Type := str * str * str * nat.
Definition run_u2f (c : u2f_case) : tm :=
  let '(name, prefix, suffix, reject) := c in
  match u2f is_upper_run (fun s => s) (fun n _ => (reject <=? n)%nat) name prefix suffix with
  | Ok r => L_ [N_ 0; tm_str r]
  | Err _ => L_ [N_ 2]
  | Panic s => L_ [N_ 1; N_ s]
  end.

(* ------------------------------------------------------------------------------------------ *)
(** * histories of layer operations                                                            *)

(** names by index: 0 public.default, 1 a, 2 b, 3 c, 4 the empty (invalid) name *)
Definition nm (i : N) : str :=
  match i with 0 => DEFAULT_LAYER_NAME | 1 => [97] | 2 => [98] | 3 => [99] | _ => [] end.
Definition nm_index (s : str) : N :=
  if str_eqb s DEFAULT_LAYER_NAME then 0 else if str_eqb s [97] then 1 else if str_eqb s [98] then 2
  else if str_eqb s [99] then 3 else 4.
Definition fresh_run (n : str) (_ : lc) : str := [103;108;121;112;104;115;46] ++ n.   (* "glyphs." ++ n: never "glyphs" *)

Inductive lcop :=
| ONew (n : N) | ORemove (n : N) | ORename (a b : N) (ow : bool) | OGet (n : N)
| ORetain (mask : N) | OAssign (dst src : N) | ODefault.

Definition ecode (e : lerr) : N :=
  match e with Duplicate => 1 | Missing => 2 | ReservedName => 3 | Invalid => 4 end.

(** one operation: (code, state) or a panic; codes: 0 ok, 1-4 NamingError variants, 5 nothing
    removed / name not found *)
Definition lc_step (s : lc) (o : lcop) : result (N * lc) unit :=
  match o with
  | ONew n => match new_layer name_valid fresh_run s (nm n) with
              | Ok s' => Ok (0, s') | Err e => Ok (ecode e, s) | Panic p => Panic p end
  | ORemove n => Ok (if existsb (has_name (nm n)) (tl s) then 0 else 5, lc_remove (nm n) s)
  | ORename a b ow => match rename_layer name_valid fresh_run s (nm a) (nm b) ow with
                      | Ok s' => Ok (0, s') | Err e => Ok (ecode e, s) | Panic p => Panic p end
  | OGet n => match position (has_name (nm n)) s with
              | Some i => match nth_error s i with Some _ => Ok (0, s) | None => Panic SITE_INDEX end
              | None => match new_layer name_valid fresh_run s (nm n) with
                        | Ok s' => Ok (0, s') | Err e => Ok (ecode e, s) | Panic p => Panic p end
              end
  | ORetain mask => Ok (0, filter (fun l => is_default l || N.testbit mask (nm_index (lname l))) s)
  | OAssign d sr =>
      match position (has_name (nm d)) s, position (has_name (nm sr)) s with
      | Some i, Some j => match nth_error s j with
                          | Some v => Ok (0, set_nth i (fun _ => v) s)
                          | None => Panic SITE_INDEX end
      | _, _ => Ok (5, s)
      end
  | ODefault => match layer0 s with Ok _ => Ok (0, s) | Err _ => Ok (9, s) | Panic p => Panic p end
  end.
Fixpoint lc_run (s : lc) (ops : list lcop) (codes : list tm) : tm :=
  match ops with
  | [] => L_ [L_ (rev codes); L_ (map (fun l => L_ [N_ (nm_index (lname l)); tm_bool (is_default l)]) s); N_ 0]
  | o :: r => match lc_step s o with
              | Ok (c, s') => lc_run s' r (N_ c :: codes)
              | Err _ => L_ [L_ (rev codes); L_ []; N_ 2]
              | Panic p => L_ [L_ (rev codes); L_ []; N_ 1]
              end
  end.
Definition run_lc (ops : list lcop) : tm := lc_run lc_default ops [].

(* ------------------------------------------------------------------------------------------ *)
(** * histories of glyph operations on one layer, then save                                     *)

Inductive layop :=
| PInsert (n : N) | PRemove (n : N) | PRename (a b : N) (ow : bool) | PClear | PRetain (mask : N)
| PEntryInsert (n : N) | PEntryRemove (n : N).

Definition lay_step (s : lay) (o : layop) : result (N * lay) unit :=
  match o with
  | PInsert n => Ok (0, insert_glyph s (nm n))
  | PRemove n => let (s', found) := remove_glyph s (nm n) in Ok (if found then 0 else 5, s')
  | PRename a b ow => match rename_glyph name_valid s (nm a) (nm b) ow with
                      | Ok s' => Ok (0, s') | Err e => Ok (ecode e, s) | Panic p => Panic p end
  | PClear => Ok (0, {| glyphs := []; contents := [] |})
  | PRetain mask => match gstep name_valid s (GRetain (fun n => N.testbit mask (nm_index n))) with
                    | Ok s' => Ok (0, s') | _ => Panic SITE_UNREACHABLE end
  | PEntryInsert n => Ok (0, {| glyphs := sadd (nm n) (glyphs s); contents := contents s |})
  | PEntryRemove n => Ok (if smem (nm n) (glyphs s) then 0 else 5,
                          {| glyphs := sdel (nm n) (glyphs s); contents := contents s |})
  end.
Definition lay_dump (s : lay) : tm :=
  L_ (map (fun i => L_ [tm_bool (smem (nm i) (glyphs s)); tm_bool (smem (nm i) (contents s))]) [1;2;3]).
Fixpoint lay_run (s : lay) (ops : list layop) (codes : list tm) : tm :=
  match ops with
  | [] => L_ [L_ (rev codes); lay_dump s; N_ (match lay_save s with Ok _ => 0 | Err _ => 2 | Panic _ => 1 end)]
  | o :: r => match lay_step s o with
              | Ok (c, s') => lay_run s' r (N_ c :: codes)
              | Err _ => L_ [L_ (rev codes); L_ []; N_ 2]
              | Panic p => L_ [L_ (rev codes); L_ []; N_ 3]
              end
  end.
Definition run_lay (ops : list layop) : tm := lay_run {| glyphs := []; contents := [] |} ops [].
