(** Executable glue for the correspondence run of C10: the C15 case (groups, kerning, names)
    plus the UFO 1 feature data; the model's load outcome and feature text are compared with
    what the implementation returned on the first of its repeated loads. Definitions only. *)
Require Import Norad.Run.RunBase Norad.Model.Groups Norad.Run.C15.
Open Scope N_scope.

(** classes, order list, blocks (ascending by tag: the BTreeMap), features.fea - as name indices *)
Definition fcase : Type := (option N * option (list N) * option (list (N * N)) * option N)%type.

(** the feature text a load returns: for format 1 the converted lib data if that is non-empty,
    else the content of features.fea (src/font.rs, load_impl) *)
Definition load_features (tb : list str) (ver : N) (f : fcase) : str :=
  let '(classes, order, feats, fea) := f in
  let base := match fea with Some t => nm tb t | None => [] end in
  if ver =? 1 then
    match feature_text (option_map (nm tb) classes) (option_map (map (nm tb)) order)
                       (option_map (map (fun p => (nm tb (fst p), nm tb (snd p)))) feats) with
    | [] => base
    | t => t
    end
  else base.

Definition run_case10 (tb : list str) (c : case) (f : fcase) : otm :=
  let core := match run_case tb c with
              | OL [load; _; f21; pc] => OL [load; f21; pc]
              | o => o
              end in
  OL [core; OS (un (load_features tb (c_ver c) f))].

Fixpoint mism10_aux (ts : list string) (tb : list str) (cs : list (N * (case * fcase * etm)))
  : list (N * otm) :=
  match cs with
  | [] => []
  | (i, (c, f, e)) :: r =>
      let m := run_case10 tb c f in
      if otm_eqb m (resolve ts e) then mism10_aux ts tb r else (i, m) :: mism10_aux ts tb r
  end.
Definition mism10 (ts : list string) (cs : list (N * (case * fcase * etm))) : list (N * otm) :=
  mism10_aux ts (map b ts) cs.
