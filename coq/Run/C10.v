(** Executable glue for the correspondence run of C10: the C15 case (groups, kerning, names)
    plus the UFO 1 feature data; the model's load outcome and feature text are compared with
    what the implementation returned on the first of its repeated loads. Definitions only. *)
Require Import Norad.Run.RunBase Norad.Model.Groups Norad.Model.StoreWrite Norad.Run.C15.
Open Scope N_scope.

(** classes, order list, blocks (ascending by tag: the BTreeMap), features.fea - as name indices *)
Definition fcase : Type := (option N * option (list N) * option (list (N * N)) * option N)%type.

(** the feature text a load returns: for format 1 the converted lib data if that is non-empty,
    else the content of features.fea (src/font.rs, load_impl) *)
Definition load_features (tb : list str) (ver : N) (f : fcase) : str :=
  let '(classes, order, feats, fea) := f in
  let base := match fea with Some t => nm tb t | None => [] end in
  if ver =? 1 then
    match feature_text (option_map (nm tb) classes) (option_map (map (nm tb)) order)
                       (option_map (map (fun p => (nm tb (fst p), nm tb (snd p)))) feats) with
    | [] => base
    | t => t
    end
  else base.

Definition run_case10 (tb : list str) (c : case) (f : fcase) : otm :=
  let core := match run_case tb c with
              | OL [load; _] => load
              | o => o
              end in
  OL [core; OS (un (load_features tb (c_ver c) f))].

(** one store: entries (ascending keys; the model may take any order, C10_store_write_commutes),
    and what the save left below the store's directory: directories and files with content *)
Definition scase : Type :=
  (list (list N * list N) * list (list N) * list (list N * list N))%type.

Definition store_ok (tb : list str) (sc : scase) : bool :=
  let '(entries, odirs, ofiles) := sc in
  let cp := map (nm tb) in
  let es := map (fun e => (cp (fst e), snd e)) entries in
  let od := map cp odirs in
  let ofl := map (fun e => (cp (fst e), snd e)) ofiles in
  match write_all es ([], []) with
  | None => false
  | Some s =>
      forallb (fun d => is_dir d s) od &&
      forallb (fun d => existsb (path_eqb d) od) (fst s) &&
      forallb (fun e => match flookup (fst e) (snd s) with
                        | Some bs => list_eqb N.eqb bs (snd e) | None => false end) ofl &&
      forallb (fun e => existsb (fun o => path_eqb (fst e) (fst o)) ofl) (snd s)
  end.

Fixpoint mism10_aux (ts : list string) (tb : list str)
         (cs : list (N * (case * fcase * etm * scase * scase))) : list (N * otm) :=
  match cs with
  | [] => []
  | (i, (c, f, e, sd, si)) :: r =>
      let m := run_case10 tb c f in
      let rest := mism10_aux ts tb r in
      let r1 := if otm_eqb m (resolve ts e) then rest else (i, m) :: rest in
      if store_ok tb sd && store_ok tb si then r1
      else (i, OL [OS "store tree differs from the model of the writing loop"%string]) :: r1
  end.
Definition mism10 (ts : list string) (cs : list (N * (case * fcase * etm * scase * scase)))
  : list (N * otm) :=
  mism10_aux ts (map b ts) cs.

(** fonts built by store calls: the tree below data/ and images/ of the first instance against
    the model of the writing loop (entries in ascending key order) *)
Fixpoint store_mism_aux (tb : list str) (cs : list (N * (scase * scase))) : list N :=
  match cs with
  | [] => []
  | (i, (sd, si)) :: r =>
      if store_ok tb sd && store_ok tb si then store_mism_aux tb r else i :: store_mism_aux tb r
  end.
Definition store_mism (ts : list string) (cs : list (N * (scase * scase))) : list N :=
  store_mism_aux (map b ts) cs.
