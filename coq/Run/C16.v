(** Executable glue for the correspondence run of C16: exhaustive enumeration of histories on
    empty stores (digest per history) and structured "world" cases (a font with both stores,
    loaded lazily from generated trees, the disk changing between operations, then save). *)
Require Import Norad.Run.RunBase Norad.Model.Store.
Open Scope N_scope.

(** * Codes shared with harness/src/c16.rs *)
Definition serr_code (e : serr) : N :=
  match e with
  | DirUnderFile => 1 | EmptyPath => 2 | NotPlainFileOrDir => 3 | PathIsAbsolute => 4
  | InvalidPathComponent => 5 | NotPlainFile => 6 | Subdir => 7 | InvalidImage => 8 | Io => 9
  | PathNotUnicode => 10
  end.
Definition oerr_code (o : option serr) : N := match o with None => 0 | Some e => serr_code e end.

(** * Part A: exhaustive histories on an empty store *)

Definition kA : str := [97].  Definition kB : str := [98].  Definition kUA : str := [65].
(** the key alphabet: a, a/b, a/b/c, b, a/, ./a, a//b, .., ../x, /a, "", A *)
Definition key_alpha : list str :=
  [ [97]; [97;47;98]; [97;47;98;47;99]; [98]; [97;47]; [46;47;97]; [97;47;47;98]; [46;46];
    [46;46;47;120]; [47;97]; []; [65] ].
Definition nkeys : N := 12.

(** data: op i<12 inserts key i with content [pos]; 12..23 removes key i-12; 24 clears.
    image: op i<36 inserts key i/3 with content kind i mod 3; 36..47 removes; 48 clears. *)
Definition img_content (c pos : N) : bytes :=
  match c with
  | 0 => PNG_SIG ++ [pos]
  | 1 => [137; 80; 78; 71; 13; 10; 26; 11; pos]
  | _ => []
  end.
Definition nth_key (i : N) : str := nth (N.to_nat i) key_alpha [].

Definition nops (k : kind) : N := match k with KData => 25 | KImage => 49 end.
Definition apply_op (k : kind) (i pos : N) (its : items) : N * items :=
  match k with
  | KData =>
      if i <? 12 then let '(r, s) := insert KData (nth_key i) [pos] its in (oerr_code r, s)
      else if i <? 24 then (0, remove (nth_key (i - 12)) its)
      else (0, clear its)
  | KImage =>
      if i <? 36 then
        let '(r, s) := insert KImage (nth_key (i / 3)) (img_content (i mod 3) pos) its in
        (oerr_code r, s)
      else if i <? 48 then (0, remove (nth_key (i - 36)) its)
      else (0, clear its)
  end.

Definition canon_keys (k : kind) : list str :=
  match k with
  | KData => [ [97]; [97;47;98]; [97;47;98;47;99]; [98]; [65] ]
  | KImage => [ [97]; [98]; [65] ]
  end.
Fixpoint index_of (t : str) (l : list str) (i : N) : option N :=
  match l with
  | [] => None
  | x :: r => if str_eqb x t then Some i else index_of t r (i + 1)
  end.
Definition content_id (k : kind) (b : bytes) : option N :=
  match k with
  | KData => match b with [p] => if p <? 5 then Some (p + 1) else None | _ => None end
  | KImage =>
      if starts_with PNG_SIG b
      then match skipn 8 b with [p] => if p <? 5 then Some (p + 1) else None | _ => None end
      else None
  end.
Definition UNKNOWN : N := 100000.
(** state code through the public view: every key (its text) with its content *)
Definition state_code (k : kind) (its : items) : N :=
  fold_left
    (fun acc kc =>
       match index_of (fst kc) (canon_keys k) 0, snd kc with
       | Some i, Loaded b =>
           match content_id k b with
           | Some v => acc + v * 6 ^ i
           | None => acc + UNKNOWN
           end
       | _, _ => acc + UNKNOWN
       end) its 0.
Definition digest (r : N) (k : kind) (its : items) : N := r * 8000 + state_code k its.

Fixpoint range (n : nat) : list N :=
  match n with O => [] | S m => range m ++ [N.of_nat m] end.
(** constants: recomputing the index list at every node of the enumeration is very slow *)
Definition ops25 : list N := Eval vm_compute in range 25.
Definition ops49 : list N := Eval vm_compute in range 49.
Definition op_list (k : kind) : list N := match k with KData => ops25 | KImage => ops49 end.

(** all histories extending the current one by at most [rem] operations, depth first,
    each emitted when reached *)
Fixpoint enum (k : kind) (rem : nat) (pos : N) (its : items) (acc : list N) : list N :=
  match rem with
  | O => acc
  | S m =>
      fold_left
        (fun acc i =>
           let '(r, s) := apply_op k i pos its in
           enum k m (pos + 1) s (digest r k s :: acc))
        (op_list k) acc
  end.

(** run a prefix, return (result code of its last operation, state, length) *)
Fixpoint run_prefix (k : kind) (pre : list N) (pos : N) (r : N) (its : items) : N * items * N :=
  match pre with
  | [] => (r, its, pos)
  | i :: rest => let '(r', s) := apply_op k i pos its in run_prefix k rest (pos + 1) r' s
  end.
(** digests of the history [pre] and of all its extensions by <= rem ops, LAST FIRST *)
Definition enum_from_rev (k : kind) (pre : list N) (rem : nat) : list N :=
  let '(r, s, pos) := run_prefix k pre 0 0 [] in
  enum k rem pos s [digest r k s].
Definition enum_from (k : kind) (pre : list N) (rem : nat) : list N :=
  rev_append (enum_from_rev k pre rem) [].

(** three characters per digest, base 64, characters '0'..; tail recursive, takes the digests
    last first and returns the characters in history order *)
Definition enc_rev (l : list N) : list ascii :=
  fold_left (fun out d =>
               ascii_of_N (48 + (d / 4096) mod 64) :: ascii_of_N (48 + (d / 64) mod 64)
                          :: ascii_of_N (48 + d mod 64) :: out) l [].

(** one shard: positions (character index, model, expected) where the digests differ *)
Definition diff_shard (k : kind) (pre : list N) (rem : nat) (expected : list string) :=
  diff_aux 0 (enc_rev (enum_from_rev k pre rem)) (list_ascii_of_string (cat expected)) [].
Definition diff_shards (k : kind) (l : list (list N * nat * list string)) :=
  map (fun x => let '(pre, rem, e) := x in diff_shard k pre rem e) l.

(** * Part B: world cases *)

Inductive wop :=
| WInsert (k : kind) (raw : str) (data : bytes)
| WRemove (k : kind) (raw : str)
| WGet (k : kind) (raw : str)
| WClear (k : kind)
| WIter (k : kind)
| WContains (k : kind) (raw : str)
| WDisk (k : kind) (d : disk)      (* <ufo>/data or <ufo>/images now has this content *)
| WSave.
Record wcase := { w_dd : option disk; w_di : option disk; w_ops : list wop }.

Record world := { x_dd : disk; x_di : disk; x_data : items; x_imgs : items }.
Definition wdisk (w : world) (k : kind) : disk := match k with KData => x_dd w | KImage => x_di w end.
Definition wstore (w : world) (k : kind) : items :=
  match k with KData => x_data w | KImage => x_imgs w end.
Definition with_store (w : world) (k : kind) (s : items) : world :=
  match k with
  | KData => {| x_dd := x_dd w; x_di := x_di w; x_data := s; x_imgs := x_imgs w |}
  | KImage => {| x_dd := x_dd w; x_di := x_di w; x_data := x_data w; x_imgs := s |}
  end.
Definition with_disk (w : world) (k : kind) (d : disk) : world :=
  match k with
  | KData => {| x_dd := d; x_di := x_di w; x_data := x_data w; x_imgs := x_imgs w |}
  | KImage => {| x_dd := x_dd w; x_di := d; x_data := x_data w; x_imgs := x_imgs w |}
  end.

(** sorting by text *)
Fixpoint str_ltb (a b : str) : bool :=
  match a, b with
  | [], [] => false
  | [], _ :: _ => true
  | _ :: _, [] => false
  | x :: a', y :: b' => (x <? y) || ((x =? y) && str_ltb a' b')
  end.
Fixpoint ins_sorted {A} (key : A -> str) (x : A) (l : list A) : list A :=
  match l with
  | [] => [x]
  | y :: r => if str_ltb (key y) (key x) then y :: ins_sorted key x r else x :: l
  end.
Definition sort_by {A} (key : A -> str) (l : list A) : list A :=
  fold_left (fun acc x => ins_sorted key x acc) l [].

Definition tm_bytes (b : bytes) : tm := L_ (map N_ b).
Definition tm_gres (g : gres) : tm :=
  match g with
  | GOk b => L_ [N_ 0; tm_bytes b]
  | GErr e => L_ [N_ 1; N_ (serr_code e)]
  | GPanic => L_ [N_ 2]
  end.
Definition tm_keys (its : items) : tm := L_ (map tm_bytes (sort_by (fun t => t) (keys its))).

(** the target after a successful save: everything bound under data/ and images/ *)
Fixpoint dedupe (fs : afs) (seen : list (list str)) : list (list str * fent) :=
  match fs with
  | [] => []
  | (p, e) :: r =>
      if existsb (names_eqb p) seen then dedupe r seen
      else match e with
           | Some x => (p, x) :: dedupe r (p :: seen)
           | None => dedupe r (p :: seen)
           end
  end.
Definition tm_tree (fs : afs) : tm :=
  let ents := filter (fun pe => match fst pe with
                                | n :: _ => str_eqb n DATA_DIR || str_eqb n IMAGES_DIR
                                | [] => false
                                end) (dedupe fs []) in
  L_ (map (fun pe => L_ [tm_bytes (join (fst pe));
                         match snd pe with AFile b => L_ [tm_bytes b] | ADir => L_ [] end])
          (sort_by (fun pe => join (fst pe)) ents)).

Definition wstep (w : world) (o : wop) : tm * world :=
  match o with
  | WInsert k raw data =>
      let '(r, s) := insert k raw data (wstore w k) in
      (L_ [N_ (oerr_code r); tm_keys s], with_store w k s)
  | WRemove k raw => let s := remove raw (wstore w k) in (L_ [tm_keys s], with_store w k s)
  | WClear k => let s := clear (wstore w k) in (L_ [tm_keys s], with_store w k s)
  | WGet k raw =>
      let '(g, s) := get k (wdisk w k) raw (wstore w k) in
      (L_ [tm_opt tm_gres g; tm_keys s], with_store w k s)
  | WIter k =>
      let '(l, s) := iter k (wdisk w k) (wstore w k) in
      (L_ (map (fun tg => L_ [tm_bytes (fst tg); tm_gres (snd tg)]) (sort_by fst l)),
       with_store w k s)
  | WContains k raw => (tm_bool (contains_key raw (wstore w k)), w)
  | WDisk k d => (L_ [], with_disk w k d)
  | WSave =>
      let '(r, fs, s1, s2) := save (x_dd w) (x_di w) (x_data w) (x_imgs w) None in
      let w' := {| x_dd := x_dd w; x_di := x_di w; x_data := s1; x_imgs := s2 |} in
      (match r, fs with
       | SaveOk, Some fs => L_ [N_ 0; tm_tree fs]
       | SaveOk, None => L_ [N_ 9]
       | SaveInvalidEntry _ _, _ => L_ [N_ 1]
       | SaveFsError _, _ => L_ [N_ 2]
       | SavePanic, _ => L_ [N_ 3]
       end, w')
  end.
Fixpoint wrun (w : world) (ops : list wop) : list tm :=
  match ops with
  | [] => []
  | o :: r => let '(t, w') := wstep w o in t :: wrun w' r
  end.

Definition disk_of (d : option disk) : disk := match d with Some x => x | None => [] end.
(** Font::load: data first, then images; a listing error ends the case *)
Definition run_case (c : wcase) : tm :=
  match load_store KData (w_dd c) with
  | Err e => L_ [L_ [N_ 1; N_ (serr_code e)]]
  | Panic _ => L_ [N_ 99]
  | Ok sd =>
      match load_store KImage (w_di c) with
      | Err e => L_ [L_ [N_ 2; N_ (serr_code e)]]
      | Panic _ => L_ [N_ 99]
      | Ok si =>
          L_ (N_ 0 :: tm_keys sd :: tm_keys si :: wrun {| x_dd := disk_of (w_dd c); x_di := disk_of (w_di c);
                              x_data := sd; x_imgs := si |} (w_ops c))
      end
  end.

(** glyph::Image::new on a list of file names *)
Definition run_glyph_image (raws : list str) : tm :=
  L_ (map (fun r => N_ (oerr_code (glyph_image_new r))) raws).
