(** Executable glue for the correspondence run of C17: the harness prints the abstract file
    system of each generated UFO once, and per load the request, the paths it replaced by garbage
    or removed, and what Font::load_requested_data returned; the model's [load] runs on the same
    input. *)
From stdpp Require Import gmap strings.
From Norad.Model Require Import Fs Save Request.
Open Scope string_scope.
Open Scope list_scope.

Inductive lobs := OOk (f : lfont) | OErr (e : lerr) | OPanic | OOther.
Record lcase := LCase {
  lc_fs : lfs; lc_req : request;
  lc_garbage : list path;   (* replaced by a file that parses as nothing (also: a directory replaced
                               by a plain file or by a link to one) *)
  lc_dirs : list path;      (* a file replaced by a directory *)
  lc_removed : list path;   (* removed; a dangling link or a link loop is as good as absent *)
  lc_obs : lobs;
}.
Definition corrupt (gs ds rs : list path) (m : lfs) : lfs :=
  foldr (λ p acc, delete p acc)
        (foldr (λ p acc, <[p := Dir]> acc) (foldr (λ p acc, <[p := File (LGarbage 7)]> acc) m gs) ds) rs.

Global Instance layer_lerr_eq_dec : EqDecision layer_lerr. Proof. solve_decision. Defined.
Global Instance lerr_eq_dec : EqDecision lerr. Proof. solve_decision. Defined.
Global Instance llayer_eq_dec : EqDecision llayer. Proof. solve_decision. Defined.

Definition same_keys (a b : list (list string)) : bool :=
  bool_decide ((list_to_set a : gset (list string)) = list_to_set b) && bool_decide (length a = length b).
Definition lfont_eqb (a b : lfont) : bool :=
  bool_decide (lf_meta a = lf_meta b) && bool_decide (lf_lib a = lf_lib b) &&
  bool_decide (lf_info a = lf_info b) && bool_decide (lf_groups a = lf_groups b) &&
  bool_decide (lf_kerning a = lf_kerning b) && bool_decide (lf_features a = lf_features b) &&
  bool_decide (map (λ l, (ll_name l, ll_dir l, ll_glyphs l, ll_files l, ll_info l)) (lf_layers a)
               = map (λ l, (ll_name l, ll_dir l, ll_glyphs l, ll_files l, ll_info l)) (lf_layers b)) &&
  same_keys (lf_data a) (lf_data b) && same_keys (lf_images a) (lf_images b).

Definition run_lcase (c : lcase) : lerr + lfont :=
  (load (lc_req c) ["u"] (corrupt (lc_garbage c) (lc_dirs c) (lc_removed c) (lc_fs c))).1.
Definition lcase_ok (c : lcase) : bool :=
  match run_lcase c, lc_obs c with
  | inr f, OOk g => lfont_eqb f g
  | inl e, OErr e' => bool_decide (e = e')
  | _, _ => false
  end.
Fixpoint lmismatches_aux (i : N) (cs : list lcase) : list (N * (lerr + lfont)) :=
  match cs with
  | [] => []
  | c :: r => if lcase_ok c then lmismatches_aux (i + 1) r else (i, run_lcase c) :: lmismatches_aux (i + 1) r
  end.
Definition lmismatches (cs : list lcase) := lmismatches_aux 0%N cs.

(** the model's own statement of C17 evaluated on a case: the partial load equals the restricted
    full load (when the full load of the pristine tree succeeds) *)
Definition restrict_ok (c : lcase) : bool :=
  match (load req_all ["u"] (lc_fs c)).1 with
  | inr full =>
      match run_lcase c with
      | inr f => lfont_eqb f (restrict (lc_req c) full)
      | inl _ => false
      end
  | inl _ => true
  end.
Definition restrict_failures (cs : list lcase) : list N :=
  (fix go (i : N) (cs : list lcase) : list N :=
     match cs with [] => [] | c :: r => if restrict_ok c then go (i + 1)%N r else i :: go (i + 1)%N r end) 0%N cs.
