(** Executable glue of the correspondence runs of C01 / C04 / C05: the font-level model is
    evaluated on the toy instance (Model/FontToy.v), where every part is reduced to what decides
    norad's own logic, and its result is printed as a dump tree the driver compares with what the
    implementation did (file set, layercontents order, contents, dictionary keys, object libs,
    feature bytes; in the other direction the loaded font's skeleton). *)
Require Import Norad.Run.RunBase Norad.Model.FontRT Norad.Model.FontToy.
From Coq Require Import DecimalString.
Open Scope N_scope.

(** a dump tree as JSON text (nested arrays of numbers): printing one string literal is an order
    of magnitude cheaper than printing the constructor tree *)
Fixpoint tm_ser (t : tm) (k : string) : string :=
  match t with
  | N_ n => append (NilZero.string_of_uint (N.to_uint n)) k
  | L_ l => String "["%char
              ((fix go (first : bool) (l : list tm) (k : string) : string :=
                  match l with
                  | [] => k
                  | x :: r => let rest := tm_ser x (go false r k) in
                              if first then rest else String ","%char rest
                  end) true l (String "]"%char k))
  end.
Definition tm_json (t : tm) : string := tm_ser t EmptyString.

Definition tm_pair {A B} (f : A -> tm) (g : B -> tm) (p : A * B) : tm := L_ [f (fst p); g (snd p)].
Definition tm_path (p : path) : tm := tm_list tm_str p.

(** dictionaries are dumped with their keys in lexicographic code-point order (the order of keys
    is not observable) *)
Fixpoint str_ltb (a b : str) : bool :=
  match a, b with
  | [], [] => false
  | [], _ :: _ => true
  | _ :: _, [] => false
  | x :: a', y :: b' => if x <? y then true else if y <? x then false else str_ltb a' b'
  end.
Fixpoint ins_sorted (k : str) (v : tm) (l : list (str * tm)) : list (str * tm) :=
  match l with
  | [] => [(k, v)]
  | (k', v') :: r => if str_ltb k k' then (k, v) :: l else (k', v') :: ins_sorted k v r
  end.
Definition sort_pairs (l : list (str * tm)) : list (str * tm) :=
  fold_right (fun e acc => ins_sorted (fst e) (snd e) acc) [] l.
Fixpoint tm_pv (v : tpv) : tm :=
  match v with
  | TLeaf n => N_ n
  | TDict l => L_ (map (fun e : str * tm => L_ [tm_str (fst e); snd e])
                       (sort_pairs ((fix go (l : list (str * tpv)) : list (str * tm) :=
                                       match l with [] => [] | (k, x) :: r => (k, tm_pv x) :: go r end) l)))
  end.
Definition tm_dict (d : tdict) : tm := tm_pv (TDict d).

Definition tm_meta (m : meta) : tm := L_ [tm_opt tm_str (m_creator m); N_ (m_version m); N_ (m_minor m)].

Definition tm_content (c : tcontent) : tm :=
  match c with
  | CMeta m => L_ [N_ 0; tm_meta m]
  | CInfo si => L_ [N_ 1; N_ (fst si);
                    tm_opt (tm_list (tm_pair N_ (tm_opt tm_str))) (snd si)]
  | CDict d => L_ [N_ 2; tm_dict d]
  | CGroups g => L_ [N_ 3; N_ g]
  | CKerning k => L_ [N_ 4; N_ k]
  | CPairs l => L_ [N_ 5; tm_list (tm_pair tm_str tm_str) l]
  | CLi v => L_ [N_ 6; tm_opt N_ (fst v); tm_opt tm_dict (snd v)]
  | CGlif g => L_ [N_ 7; tm_str (fst g); N_ (snd g)]
  end.

Definition tm_ldir (d : str * ldir toy_sig) : tm :=
  L_ [tm_str (fst d); tm_opt tm_content (ld_contents toy_sig (snd d));
      tm_opt tm_content (ld_info toy_sig (snd d));
      tm_list (tm_pair tm_str tm_content) (ld_glifs toy_sig (snd d))].

(** the tree: its paths (with norad's names) and the content of every file *)
Definition tm_tree (t : tree toy_sig) : tm :=
  L_ [tm_list tm_path (paths_of toy_sig norad_names t);
      tm_opt tm_content (t_meta toy_sig t); tm_opt tm_content (t_info toy_sig t);
      tm_opt tm_content (t_lib toy_sig t); tm_opt tm_content (t_groups toy_sig t);
      tm_opt tm_content (t_kerning toy_sig t); tm_opt tm_str (t_features toy_sig t);
      tm_opt tm_content (t_lcontents toy_sig t); tm_list tm_ldir (t_dirs toy_sig t)].

Definition tm_serr (e : serr) : tm :=
  match e with
  | SDowngrade => N_ 1 | SPreexistingObjectLibs => N_ 2 | SInvalidGroups => N_ 3 | SInvalidInfo => N_ 4
  | SWrite n => L_ [N_ 5; N_ n]
  end.

(** [Font::save]: 0 + tree | 1 + error | 2 + panic site *)
Definition run_save (f : font toy_sig) : tm :=
  match save toy_sig 0 f with
  | Ok t => L_ [N_ 0; tm_tree t]
  | Err e => L_ [N_ 1; tm_serr e]
  | Panic n => L_ [N_ 2; N_ n]
  end.

Definition tm_guide (g : guideline N tdict) : tm :=
  L_ [N_ (g_body g); tm_opt tm_str (g_id g); tm_opt tm_dict (g_lib g)].
Definition tm_layer (l : layer N tdict (str * N)) : tm :=
  L_ [tm_str (l_name l); tm_str (l_dir l); tm_opt N_ (l_color l); tm_dict (l_lib l);
      tm_list (fun e : str * str * (str * N) =>
                 L_ [tm_str (fst (fst e)); tm_str (snd (fst e)); tm_str (fst (snd e)); N_ (snd (snd e))])
              (l_glyphs l)].
Definition tm_font (f : font toy_sig) : tm :=
  L_ [tm_meta (f_meta toy_sig f);
      N_ (i_rest (f_info toy_sig f)); tm_opt (tm_list tm_guide) (i_guides (f_info toy_sig f));
      tm_dict (f_lib toy_sig f); N_ (f_groups toy_sig f); N_ (f_kerning toy_sig f);
      tm_str (f_features toy_sig f); tm_list tm_layer (f_layers toy_sig f);
      tm_list (fun e : path * bytes => tm_path (fst e)) (f_data toy_sig f);
      tm_list (fun e : path * bytes => tm_path (fst e)) (f_images toy_sig f)].

Definition tm_lerr (e : lerr) : tm :=
  match e with
  | LMissingMetaInfo => N_ 1 | LParse n => L_ [N_ 2; N_ n] | LInvalidInfo => N_ 3 | LInvalidGroups => N_ 4
  | LObjectLibsMustBeDict => N_ 5 | LGuidelineLibMustBeDict => N_ 6 | LMissingLayerContents => N_ 7
  | LMissingDefaultLayer => N_ 8 | LMissingContents => N_ 9 | LGlyph => N_ 10 | LLegacy => N_ 11
  end.

(** [Font::load] *)
Definition run_load (t : tree toy_sig) : tm :=
  match load toy_sig t with
  | Ok f => L_ [N_ 0; tm_font f]
  | Err e => L_ [N_ 1; tm_lerr e]
  | Panic n => L_ [N_ 2; N_ n]
  end.

(** the independent reader of the specification on the same tree: 0 + font | 1 *)
Definition run_spec_read (t : tree toy_sig) : tm :=
  match spec_read toy_sig t with Some f => L_ [N_ 0; tm_font f] | None => L_ [N_ 1] end.

(** save then load then save again (C04): the two trees *)
Definition run_resave (t : tree toy_sig) : tm :=
  match load toy_sig t with
  | Ok f => match save toy_sig 0 f with
            | Ok t' => L_ [N_ 0; tm_font f; tm_tree t'; run_load t']
            | Err e => L_ [N_ 1; tm_font f; tm_serr e]
            | Panic n => L_ [N_ 2; N_ n]
            end
  | Err e => L_ [N_ 3; tm_lerr e]
  | Panic n => L_ [N_ 4; N_ n]
  end.

(** constructors with short names for the generated case files *)
Definition F := Build_font toy_sig.
Definition T := Build_tree toy_sig.
Definition D := Build_ldir toy_sig.
Definition M (c : option str) (v mi : N) : meta := {| m_creator := c; m_version := v; m_minor := mi |}.
Definition I (r : N) (g : option (list (guideline N tdict))) : finfo N N tdict := {| i_rest := r; i_guides := g |}.
Definition G := tguide.
Definition Ly := tlayer.

Definition j_save (f : font toy_sig) : string := tm_json (run_save f).
Definition j_load (t : tree toy_sig) : string := tm_json (run_load t).
Definition j_spec_read (t : tree toy_sig) : string := tm_json (run_spec_read t).
Definition j_resave (t : tree toy_sig) : string := tm_json (run_resave t).

(** comparison inside Coq (printing a dump costs far more than computing it): the driver sends the
    dump of what the implementation did and gets one boolean per case *)
Definition c_save (f : font toy_sig) (e : tm) : bool := tm_eqb (run_save f) e.
Definition c_load (t : tree toy_sig) (e : tm) : bool := tm_eqb (run_load t) e.
Definition c_spec_read (t : tree toy_sig) (e : tm) : bool := tm_eqb (run_spec_read t) e.
Definition c_resave (t : tree toy_sig) (e : tm) : bool := tm_eqb (run_resave t) e.
