(** Correspondence run of C01: see Run/FontRun.v. *)
Require Export Norad.Run.RunBase Norad.Run.FontRun.
