(** Helpers shared by the executable correspondence files (Run/). Definitions only. *)
Require Export Norad.Model.Base.
From Coq Require Export Ascii String.

(** a long string arrives as a list of short literals (a 100 000-character literal overflows
    the parser's stack) *)
Definition cat (l : list string) : string :=
  string_of_list_ascii (List.concat (map list_ascii_of_string l)).

Definition digit (n : N) : ascii := ascii_of_N (48 + n).

(** positions where two character lists differ: (index, model, expected) *)
Fixpoint diff_aux (i : N) (ms es : list ascii) (acc : list (N * ascii * ascii))
  : list (N * ascii * ascii) :=
  match ms, es with
  | m :: ms', e :: es' =>
      diff_aux (i + 1) ms' es' (if Ascii.eqb m e then acc else (i, m, e) :: acc)
  | [], [] => rev acc
  | m :: _, [] => rev ((i, m, "?"%char) :: acc)
  | [], e :: _ => rev ((i, "?"%char, e) :: acc)
  end.

Fixpoint tm_eqb (a b : tm) {struct a} : bool :=
  match a, b with
  | N_ x, N_ y => N.eqb x y
  | L_ xs, L_ ys =>
      (fix go (xs ys : list tm) {struct xs} : bool :=
         match xs, ys with
         | [], [] => true
         | x :: xs', y :: ys' => tm_eqb x y && go xs' ys'
         | _, _ => false
         end) xs ys
  | _, _ => false
  end.

(** indices (and model outputs) of the cases whose model dump differs from the expected one *)
Fixpoint mismatches_aux {A} (f : A -> tm) (i : N) (cs : list (A * tm)) : list (N * tm) :=
  match cs with
  | [] => []
  | (a, e) :: r =>
      let m := f a in
      if tm_eqb m e then mismatches_aux f (i + 1) r else (i, m) :: mismatches_aux f (i + 1) r
  end.
Definition mismatches {A} (f : A -> tm) (cs : list (A * tm)) : list (N * tm) :=
  mismatches_aux f 0%N cs.
