(** Transport of structured case data into Coq as lists of primitive 63-bit integers (the only
    literals Coq reads quickly): a byte stream, 7 bytes per integer, holding a prefix encoding
    of a generic tree [xt].  Glue of the correspondence runs only; nothing here is used by a
    theorem.

    byte stream grammar:  0 varint            number
                          1 varint bytes      text (UTF-8, decoded to code points)
                          4 varint bytes      raw bytes
                          2 ... 3             list
    varint = little-endian base 128, high bit = continuation. *)
Require Import Norad.Run.RunBase.
From Coq Require Import Uint63.
Open Scope N_scope.

Inductive xt : Type := XN (n : N) | XS (s : str) | XL (l : list xt).

(** ---------- integers to bytes ---------- *)
(** a primitive integer below 256 as [N], through its bits (Uint63.to_Z walks all 63 bits) *)
Definition bit (b : int) (k : int) (w : N) : N :=
  if Uint63.eqb (Uint63.land (Uint63.lsr b k) 1%uint63) 0%uint63 then 0 else w.
Definition byte_N (b : int) : N :=
  bit b 0%uint63 1 + bit b 1%uint63 2 + bit b 2%uint63 4 + bit b 3%uint63 8 + bit b 4%uint63 16
  + bit b 5%uint63 32 + bit b 6%uint63 64 + bit b 7%uint63 128.
Definition nth_byte (i : int) (k : int) : N := byte_N (Uint63.land (Uint63.lsr i k) 255%uint63).
Definition int_bytes (i : int) : list N :=
  [nth_byte i 0%uint63; nth_byte i 8%uint63; nth_byte i 16%uint63; nth_byte i 24%uint63;
   nth_byte i 32%uint63; nth_byte i 40%uint63; nth_byte i 48%uint63].
(** first integer = number of payload bytes *)
Definition unpack (l : list int) : list N :=
  match l with
  | [] => []
  | n :: r => firstn (Z.to_nat (Uint63.to_Z n)) (flat_map int_bytes r)
  end.

(** ---------- UTF-8 ---------- *)
Fixpoint utf8_decode (fuel : nat) (b : list N) : str :=
  match fuel with
  | O => []
  | S f =>
    match b with
    | [] => []
    | c :: r =>
        if c <? 128 then c :: utf8_decode f r
        else if c <? 224 then
          match r with
          | c1 :: r' => (c - 192) * 64 + (c1 - 128) :: utf8_decode f r'
          | _ => []
          end
        else if c <? 240 then
          match r with
          | c1 :: c2 :: r' => (c - 224) * 4096 + (c1 - 128) * 64 + (c2 - 128) :: utf8_decode f r'
          | _ => []
          end
        else
          match r with
          | c1 :: c2 :: c3 :: r' =>
              (c - 240) * 262144 + (c1 - 128) * 4096 + (c2 - 128) * 64 + (c3 - 128) :: utf8_decode f r'
          | _ => []
          end
    end
  end.

(** ---------- the tree parser: one pass over the bytes with an explicit stack ---------- *)
Inductive mode :=
| MTag
| MVar (kind : N) (acc : N) (mul : N)           (* reading the varint of a number / a length *)
| MBytes (kind : N) (todo : N) (acc : list N).  (* reading [todo] more bytes of a text *)

Definition push (x : xt) (stack : list (list xt)) : list (list xt) :=
  match stack with
  | top :: rest => (x :: top) :: rest
  | [] => [[x]]
  end.
Definition finish_bytes (kind : N) (acc : list N) : xt :=
  let b := rev acc in
  if kind =? 1 then XS (utf8_decode (S (List.length b)) b) else XS b.

Fixpoint deser (bs : list N) (m : mode) (stack : list (list xt)) : list (list xt) :=
  match bs with
  | [] => stack
  | c :: r =>
      match m with
      | MTag =>
          if c =? 2 then deser r MTag ([] :: stack)
          else if c =? 3 then
            match stack with
            | top :: rest => deser r MTag (push (XL (rev top)) rest)
            | [] => []
            end
          else deser r (MVar c 0 1) stack
      | MVar kind acc mul =>
          let acc' := acc + (c mod 128) * mul in
          if c <? 128 then
            if kind =? 0 then deser r MTag (push (XN acc') stack)
            else if acc' =? 0 then deser r MTag (push (finish_bytes kind []) stack)
            else deser r (MBytes kind acc' []) stack
          else deser r (MVar kind acc' (mul * 128)) stack
      | MBytes kind todo acc =>
          if todo =? 1 then deser r MTag (push (finish_bytes kind (c :: acc)) stack)
          else deser r (MBytes kind (todo - 1) (c :: acc)) stack
      end
  end.

(** the (single) tree of a packed stream; [XL []] if the stream is malformed *)
Definition decode (l : list int) : xt :=
  match deser (unpack l) MTag [[]] with
  | [[x]] => x
  | _ => XL []
  end.

(** ---------- generic conversions ---------- *)
Fixpoint tm_of_xt (x : xt) : tm :=
  match x with
  | XN n => N_ n
  | XS s => tm_str s
  | XL l => L_ (map tm_of_xt l)
  end.

(** indices (and model outputs) of the cases whose model dump differs from the expected one;
    a case = (packed input, packed expected dump) *)
Fixpoint mismatches_packed_aux (f : xt -> tm) (i : N) (cs : list (list int * list int))
  : list (N * tm) :=
  match cs with
  | [] => []
  | (a, e) :: r =>
      let m := f (decode a) in
      if tm_eqb m (tm_of_xt (decode e)) then mismatches_packed_aux f (i + 1) r
      else (i, m) :: mismatches_packed_aux f (i + 1) r
  end.
Definition mismatches_packed (f : xt -> tm) (cs : list (list int * list int)) : list (N * tm) :=
  mismatches_packed_aux f 0 cs.
