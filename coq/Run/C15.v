(** Executable glue for the correspondence run of C15: cases arrive with names as Coq strings
    (raw UTF-8 bytes), the model runs on byte lists, the outcome is dumped into a tree with
    string leaves and compared with what the implementation did. Definitions only. *)
Require Import Norad.Run.RunBase Norad.Model.Groups.
From Coq Require Import Uint63.
Open Scope N_scope.

Inductive otm : Type := ON (n : N) | OS (s : string) | OL (l : list otm).

Fixpoint otm_eqb (a b : otm) {struct a} : bool :=
  match a, b with
  | ON x, ON y => N.eqb x y
  | OS x, OS y => String.eqb x y
  | OL xs, OL ys =>
      (fix go (xs ys : list otm) {struct xs} : bool :=
         match xs, ys with
         | [], [] => true
         | x :: xs', y :: ys' => otm_eqb x y && go xs' ys'
         | _, _ => false
         end) xs ys
  | _, _ => false
  end.

Definition b (s : string) : str := map N_of_ascii (list_ascii_of_string s).
Definition un (l : str) : string := string_of_list_ascii (map ascii_of_N l).

(** Names arrive as indices into the run's name table (a string literal costs ten term nodes
    per byte), kerning values as indices into a value table (values are only copied). *)
Record case : Type := mkcase {
  c_ver : N;
  c_groups : option (list (N * list N));
  c_kerning : option (list (N * list (N * N)));
  c_interned : list N;
  c_glyphs : list N }.

(** expected outcome as sent by the harness: [EI i] is the i-th name of the table *)
Inductive etm : Type := EN (n : N) | EI (i : N) | EL (l : list etm).

Definition nm (tb : list str) (i : N) : str := nth (N.to_nat i) tb [].
Fixpoint resolve (ts : list string) (e : etm) : otm :=
  match e with
  | EN n => ON n
  | EI i => OS (nth (N.to_nat i) ts EmptyString)
  | EL l => OL (map (resolve ts) l)
  end.

Definition conv_groups (tb : list str) (g : list (N * list N)) : groups :=
  map (fun e => (nm tb (fst e), map (nm tb) (snd e))) g.
Definition conv_kerning (tb : list str) (k : list (N * list (N * N))) : kerning :=
  map (fun e => (nm tb (fst e), map (fun p => (nm tb (fst p), snd p)) (snd e))) k.

Definition o_groups (g : groups) : otm :=
  OL (map (fun e => OL [OS (un (fst e)); OL (map (fun m => OS (un m)) (snd e))]) g).
Definition o_kerning (k : kerning) : otm :=
  OL (map (fun e => OL [OS (un (fst e));
                        OL (map (fun p => OL [OS (un (fst p)); ON (snd p)]) (snd e))]) k).
Definition o_gerr (e : gerr) : otm :=
  match e with
  | InvalidName => OL [ON 0]
  | Overlap gl gr => OL [ON 1; OS (un gl); OS (un gr)]
  end.

Definition run_case (tb : list str) (c : case) : otm :=
  let g := option_map (conv_groups tb) (c_groups c) in
  let k := option_map (conv_kerning tb) (c_kerning c) in
  let interned := map (nm tb) (c_interned c) in
  let glyphs := map (nm tb) (c_glyphs c) in
  let v3 := (c_ver c =? 3) in
  let load :=
    match load_gk v3 g k interned with
    | Ok (g', k') => OL [ON 0; o_groups g'; o_kerning k']
    | Err (LInvalidGroups e) => OL [ON 1; o_gerr e]
    | Err (LUpconversionFailure e) => OL [ON 2; o_gerr e]
    | Panic s => OL [ON 9; ON s]
    end in
  let save :=
    match g with
    | None => OL []
    | Some g0 => match save_groups g0 with
                 | Ok _ => OL [ON 0]
                 | Err e => OL [ON 1; o_gerr e]
                 | Panic s => OL [ON 9; ON s]
                 end
    end in
  let flags :=
    match g with
    | Some g0 =>
        match validate_groups g0 with
        | Ok _ =>
            if v3 then (false, false)
            else
              let k0 := kern_or_empty k in
              (negb (same_candsb g0 k0 interned glyphs),
               match upconvert_tables g0 k0 interned with
               | Ok (_, r1, r2) => negb (no_pair_collision r1 r2 k0)
               | _ => false
               end)
        | _ => (false, false)
        end
    | None => (false, false)
    end in
  OL [load; save; ON (if fst flags then 1 else 0); ON (if snd flags then 1 else 0)].

(** [(global index, case, expected)]: indices and model outcomes of the cases on which model
    and implementation differ *)
Fixpoint mism_aux (ts : list string) (tb : list str) (cs : list (N * (case * etm)))
  : list (N * otm) :=
  match cs with
  | [] => []
  | (i, (c, e)) :: r =>
      let m := run_case tb c in
      if otm_eqb m (resolve ts e) then mism_aux ts tb r else (i, m) :: mism_aux ts tb r
  end.
Definition mism (ts : list string) (cs : list (N * (case * etm))) : list (N * otm) :=
  mism_aux ts (map b ts) cs.

(** ** the enumerated cases: generated here from their index exactly as harness/src/c15.rs
    ([Exh::case]) generates them; the implementation's outcome arrives as a hash of its dump *)
Definition feed (h : int) (x : N) : int :=
  Uint63.add (Uint63.add (Uint63.mul h 1000003%uint63) (Uint63.of_Z (Z.of_N x))) 1%uint63.
Fixpoint otm_hash_go (o : otm) (h : int) {struct o} : int :=
  match o with
  | ON n => feed (feed h 1) n
  | OS s => let bs := b s in
            fold_left feed bs (feed (feed h 2) (N.of_nat (length bs)))
  | OL l => (fix go (l : list otm) (h : int) {struct l} : int :=
               match l with [] => h | x :: r => go r (otm_hash_go x h) end)
              l (feed (feed h 3) (N.of_nat (length l)))
  end.
(** arithmetic modulo 2^63 (primitive integers; harness: [o_hash]) *)
Definition otm_hash (o : otm) : int := otm_hash_go o 7%uint63.

Definition range5 : list N := [0;1;2;3;4].
Definition range25 : list N := map N.of_nat (seq 0 25).
Definition pairs_lt (r : list N) : list (list N) :=
  flat_map (fun a => map (fun c => [a; c]) (filter (fun c => a <? c) r)) r.
Definition subsets_le3 : list (list N) :=
  [[]] ++ map (fun a => [a]) range5 ++ pairs_lt range5 ++
  flat_map (fun a => flat_map (fun c => map (fun d => [a; c; d])
                                            (filter (fun d => c <? d) range5))
                              (filter (fun c => a <? c) range5)) range5.
Definition pairsets_le2 : list (list N) :=
  [[]] ++ map (fun a => [a]) range25 ++ pairs_lt range25.

Definition universe (u : N) : list str :=
  match u with
  | 0 => map b ["A"; "@MMK_L_A"; "@MMK_R_A"; "public.kern1.A"; "public.kern2.A"]
  | _ => map b ["A"; "A1"; "@MMK_L_A"; "public.kern1.A"; "public.kern1.A1"]
  end%string.
Definition member_names : list str := map b ["m0"; "m1"; "m2"; "m3"; "m4"]%string.

Definition exh_decode (uni : list str) (mvs : N) (idx : N)
  : groups * kerning * list name :=
  let gv := idx mod 6 in
  let i1 := idx / 6 in
  let mv := i1 mod mvs in
  let i2 := i1 / mvs in
  let pi := i2 mod 326 in
  let gi := i2 / 326 in
  let u := fun i => nth (N.to_nat i) uni [] in
  let x := b "x" in
  let g := fold_left (fun acc i =>
                        let m := nth (N.to_nat i) member_names [] in
                        minsert (u i) (match mv with 0 => [m] | 1 => [x] | _ => [m; x] end) acc)
                     (nth (N.to_nat gi) subsets_le3 []) [] in
  let k := fst (fold_left (fun st p =>
                        let '(acc, j) := st in
                        let a := u (p / 5) in
                        let row := match lookup a acc with Some r => r | None => [] end in
                        (minsert a (minsert (u (p mod 5)) j row) acc, j + 1))
                     (nth (N.to_nat pi) pairsets_le2 []) ([], 1)) in
  let glyphs := match gv with 0 => [] | _ => [u (gv - 1)] end in
  (g, k, glyphs).

Definition exh_run (uni : list str) (mvs : N) (idx : N) : otm :=
  let '(g, k, glyphs) := exh_decode uni mvs idx in
  (* names travel through [run_case] by table index: build a private table *)
  let load :=
    match load_gk false (Some g) (Some k) glyphs with
    | Ok (g', k') => OL [ON 0; o_groups g'; o_kerning k']
    | Err (LInvalidGroups e) => OL [ON 1; o_gerr e]
    | Err (LUpconversionFailure e) => OL [ON 2; o_gerr e]
    | Panic s => OL [ON 9; ON s]
    end in
  let save :=
    match save_groups g with
    | Ok _ => OL [ON 0]
    | Err e => OL [ON 1; o_gerr e]
    | Panic s => OL [ON 9; ON s]
    end in
  let pc :=
    match validate_groups g with
    | Ok _ => match upconvert_tables g k glyphs with
              | Ok (_, r1, r2) => negb (no_pair_collision r1 r2 k)
              | _ => false
              end
    | _ => false
    end in
  OL [load; save; ON 0; ON (if pc then 1 else 0)].

(** cases [first], [first+stride], ... of universe [u]; [hs] the implementation's hashes *)
Fixpoint exh_mism_aux (uni : list str) (mvs idx stride : N) (hs : list int) : list (N * otm) :=
  match hs with
  | [] => []
  | h :: r =>
      let m := exh_run uni mvs idx in
      if Uint63.eqb (otm_hash m) h then exh_mism_aux uni mvs (idx + stride) stride r
      else (idx, m) :: exh_mism_aux uni mvs (idx + stride) stride r
  end.
Definition exh_mism (u mvs first stride : N) (hs : list int) : list (N * otm) :=
  exh_mism_aux (universe u) mvs first stride hs.
