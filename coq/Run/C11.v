(** Executable enumeration of the contour model for the correspondence run of C11. *)
Require Import Norad.Run.RunBase Norad.Model.Contour.
Open Scope N_scope.

(** symbol d in 0..9 : type = d / 2 in [move,line,offcurve,curve,qcurve], smooth = d mod 2 *)
Definition sym (d : N) : pt :=
  ((match d / 2 with 0 => Move | 1 => Line | 2 => Off | 3 => Curve | _ => QCurve end),
   N.odd d).
Definition syms : list pt := map sym [0;1;2;3;4;5;6;7;8;9].

(** all sequences of length n, first symbol most significant *)
Fixpoint seqs (n : nat) : list (list pt) :=
  match n with
  | O => [[]]
  | S k => flat_map (fun s => map (fun t => s :: t) (seqs k)) syms
  end.

(** verdict code: 0 accepted (kept or dropped-empty), 1.. error kinds *)
Definition verdict (pts : list pt) : N :=
  match build pts with
  | inr _ => 0
  | inl UnexpectedMove => 1
  | inl AfterOff => 2
  | inl SmoothOff => 3
  | inl TooMany => 4
  | inl Trailing => 5
  | inl UnreachableMove => 6
  end.
(** model verdict and spec verdict ('L' legal / 'I' illegal would be redundant by the theorem,
    but printing both lets the driver show which side moved when they differ) *)
Definition verdicts (n : nat) : string :=
  string_of_list_ascii (map (fun s => digit (verdict s)) (seqs n)).
Definition legals (n : nat) : string :=
  string_of_list_ascii (map (fun s => if legalb s then "1"%char else "0"%char) (seqs n)).

(** random long sequences arrive as digit strings *)
Definition of_digits (s : string) : list pt :=
  map (fun a => sym (N_of_ascii a - 48)) (list_ascii_of_string s).
Definition run_cases (cs : list string) : string :=
  string_of_list_ascii (map (fun s => digit (verdict (of_digits s))) cs).
Definition run_legal (cs : list string) : string :=
  string_of_list_ascii (map (fun s => if legalb (of_digits s) then "1"%char else "0"%char) cs).

(** chunked output (a 100 000-character string literal is slow to read back and print) *)
Fixpoint chunk_aux {A} (k : nat) (cur : list A) (n : nat) (l : list A) : list (list A) :=
  match l with
  | [] => match cur with [] => [] | _ => [rev cur] end
  | x :: r => match n with
              | O => rev cur :: chunk_aux k [x] (pred k) r
              | S m => chunk_aux k (x :: cur) m r
              end
  end.
Definition chunks {A} (k : nat) (l : list A) : list (list A) := chunk_aux k [] k l.
Definition verdict_chunks (n : nat) : list string :=
  map string_of_list_ascii (chunks 500 (map (fun s => digit (verdict s)) (seqs n))).
Definition legal_chunks (n : nat) : list string :=
  map string_of_list_ascii
      (chunks 500 (map (fun s => if legalb s then "1"%char else "0"%char) (seqs n))).
Definition case_chunks (cs : list string) : list string :=
  map string_of_list_ascii (chunks 500 (map (fun s => digit (verdict (of_digits s))) cs)).
Definition case_legal_chunks (cs : list string) : list string :=
  map string_of_list_ascii
      (chunks 500 (map (fun s => if legalb (of_digits s) then "1"%char else "0"%char) cs)).

(** comparison inside Coq: the expected verdicts come in as one string literal, only the
    disagreeing positions (index, model verdict, expected) are printed *)
Definition diff_verdicts (n : nat) (expected : string) :=
  diff_aux 0 (map (fun s => digit (verdict s)) (seqs n)) (list_ascii_of_string expected) [].
Definition diff_legal (n : nat) (expected : string) :=
  diff_aux 0 (map (fun s => if legalb s then "1"%char else "0"%char) (seqs n))
           (list_ascii_of_string expected) [].
Definition diff_cases (cs : list string) (expected : string) :=
  diff_aux 0 (map (fun s => digit (verdict (of_digits s))) cs) (list_ascii_of_string expected) [].
Definition diff_cases_legal (cs : list string) (expected : string) :=
  diff_aux 0 (map (fun s => if legalb (of_digits s) then "1"%char else "0"%char) cs)
           (list_ascii_of_string expected) [].

(** sharded enumeration: all sequences [prefix ++ t] with [t] of length [n] *)
Definition diff_verdicts_from (prefix : string) (n : nat) (expected : list string) :=
  diff_aux 0 (map (fun s => digit (verdict (of_digits prefix ++ s))) (seqs n))
           (list_ascii_of_string (cat expected)) [].
Definition diff_legal_from (prefix : string) (n : nat) (expected : list string) :=
  diff_aux 0 (map (fun s => if legalb (of_digits prefix ++ s) then "1"%char else "0"%char) (seqs n))
           (list_ascii_of_string (cat expected)) [].
Definition diff_cases_l (cs : list string) (expected : list string) :=
  diff_cases cs (cat expected).
Definition diff_cases_legal_l (cs : list string) (expected : list string) :=
  diff_cases_legal cs (cat expected).
