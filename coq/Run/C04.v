(** Correspondence run of C04: see Run/FontRun.v. *)
Require Export Norad.Run.RunBase Norad.Run.FontRun.
