(** Executable glue for the correspondence run of C13: the wire format of the cases the harness
    prints (all numerals in [Z]), the model's outcome at the three entry points, the dump to
    [tm] for comparison, and the property oracle evaluated with [fi_specb]. *)
Require Import Norad.Run.RunBase Norad.Model.FontInfo.
Open Scope Z_scope.

(** ---------- wire constructors (every numeral is a Z) ---------- *)
Definition zs (l : list Z) : list N := map Z.to_N l.
Definition fnan (neg : bool) : fl := FNaN neg.
Definition finf (neg : bool) : fl := FInf neg.
Definition ffin (neg : bool) (m e : Z) : fl := FFin neg (Z.to_N m) e.
Definition wi (a b : Z) : witem := (Z.to_nat a, Z.to_nat b).
Definition oz2nat (o : option Z) : option nat := option_map Z.to_nat o.
Definition ozs (o : option (list Z)) : option (list N) := option_map zs o.

Definition gd (kind : Z) (deg : fl) (id : option (list Z)) : guide :=
  {| g_line := match kind with 0 => LVert | 1 => LHoriz | _ => LAngle deg end; g_id := ozs id |}.
Definition rgd (x y : bool) (angle : option fl) (id : option (list Z)) : rguide :=
  {| rg_x := x; rg_y := y; rg_angle := angle; rg_id := ozs id |}.

Definition mkinfo (date : option (list Z)) (gasp : option (list Z)) (guides : option (list guide))
    (sel : option (list Z)) (cls : option (Z * Z))
    (blue oblue fblue foblue stemh stemv : option (list Z))
    (wext : option (list (list witem))) (wcred wcopy wdescr wtrade : option Z) : info :=
  {| i_date := ozs date; i_gasp := ozs gasp; i_guides := guides; i_selection := ozs sel;
     i_class := option_map (fun p => (Z.to_N (fst p), Z.to_N (snd p))) cls;
     i_blue := blue; i_oblue := oblue; i_fblue := fblue; i_foblue := foblue;
     i_stemh := stemh; i_stemv := stemv; i_wext := wext;
     i_wcredits := oz2nat wcred; i_wcopyright := oz2nat wcopy; i_wdescr := oz2nat wdescr;
     i_wtrade := oz2nat wtrade |}.

Definition mkraw (date : option (list Z)) (gasp : option (list (Z * list Z)))
    (guides : option (list rguide)) (sel cls panose : option (list Z)) (width charset : option Z)
    (u32s : list Z) (upm : option fl)
    (blue oblue fblue foblue stemh stemv : option (list Z))
    (wext : option (list (list witem))) (wcred wcopy wdescr wtrade : option Z)
    (unknown : bool) : raw :=
  {| r_hdate := ozs date; r_hgasp := gasp; r_hguides := guides; r_hselection := sel;
     r_hclass := cls; r_hpanose := panose; r_hwidth := width; r_hcharset := charset;
     r_hu32s := u32s; r_hupm := upm;
     r_hblue := blue; r_hoblue := oblue; r_hfblue := fblue; r_hfoblue := foblue;
     r_hstemh := stemh; r_hstemv := stemv; r_hwext := wext;
     r_hwcredits := oz2nat wcred; r_hwcopyright := oz2nat wcopy; r_hwdescr := oz2nat wdescr;
     r_hwtrade := oz2nat wtrade; r_hunknown := unknown |}.

(** errors as the harness prints them *)
Definition elistlen (name : string) (max_len len : Z) : fi_err :=
  EListLen name (Z.to_nat max_len) (Z.to_nat len).

(** what was observed at one entry point *)
Inductive obs :=
| ONA                        (* the case has no in-memory FontInfo (validate / save not applicable) *)
| OOk (i : info)             (* accepted; the info validated / found in the written file / loaded *)
| OInvalid (e : fi_err)      (* rejected by validate() *)
| OParse                     (* rejected by the deserialiser (load only) *)
| OOther (code : Z).         (* any other error, or a panic *)

Record case := mkcase { c_raw : raw; c_val : obs; c_save : obs; c_load : obs; c_load2 : obs; c_load1 : obs }.

(** ---------- the model's outcomes ---------- *)
Definition m_val (r : raw) : obs :=
  match build r with
  | None => ONA
  | Some i => match fi_validate i with Ok _ => OOk i | Err e => OInvalid e | Panic s => OOther (100 + Z.of_N s) end
  end.
Definition m_save (r : raw) : obs :=
  match build r with
  | None => ONA
  | Some i => match fi_save i with
              | Ok j => OOk j | Err (SInvalid e) => OInvalid e | Err SSerialize => OOther 7
              | Panic s => OOther (100 + Z.of_N s) end
  end.
Definition m_load (r : raw) : obs :=
  match fi_load r with
  | Ok i => OOk i
  | Err LParse => OParse
  | Err (LInvalid e) => OInvalid e
  | Panic s => OOther (100 + Z.of_N s)
  end.

(** a format-2 fontinfo.plist has the date, the selection bits, the family class and the six
    PostScript lists, with the same types; its loader copies them and then calls validate().
    The format-1 loader takes the six lists from lib.plist and calls validate() again. *)
Definition is_none {A} (o : option A) : bool := match o with None => true | Some _ => false end.
Definition v2_applicable (r : raw) : bool :=
  is_none (r_hgasp r) && is_none (r_hguides r) && is_none (r_hpanose r) && is_none (r_hwidth r) &&
  is_none (r_hcharset r) && (match r_hu32s r with [] => true | _ => false end) && is_none (r_hupm r) &&
  is_none (r_hwext r) && is_none (r_hwcredits r) && is_none (r_hwcopyright r) && is_none (r_hwdescr r) &&
  is_none (r_hwtrade r) && negb (r_hunknown r).
Definition v1_applicable (r : raw) : bool :=
  v2_applicable r && is_none (r_hdate r) && is_none (r_hselection r) && is_none (r_hclass r) &&
  negb (is_none (r_hblue r) && is_none (r_hoblue r) && is_none (r_hfblue r) && is_none (r_hfoblue r) &&
        is_none (r_hstemh r) && is_none (r_hstemv r)).
Definition m_load2 (r : raw) : obs := if v2_applicable r then m_load r else ONA.
Definition m_load1 (r : raw) : obs := if v1_applicable r then m_load r else ONA.

(** ---------- dump ---------- *)
Definition tm_z (z : Z) : tm := if z <? 0 then L_ [N_ (Z.to_N (- z))] else N_ (Z.to_N z).
Definition tm_nat (n : nat) : tm := N_ (N.of_nat n).
Definition tm_string (s : string) : tm :=
  L_ (map (fun a => N_ (N_of_ascii a)) (list_ascii_of_string s)).
Definition tm_fl (d : fl) : tm :=
  match d with
  | FNaN n => L_ [N_ 2; tm_bool n]
  | FInf n => L_ [N_ 1; tm_bool n]
  | FFin n m e => if (m =? 0)%N then L_ [N_ 0; tm_bool n] else L_ [N_ 0; tm_bool n; N_ m; tm_z e]
  end.
Definition tm_guide (g : guide) : tm :=
  L_ [match g_line g with LVert => N_ 0 | LHoriz => N_ 1 | LAngle d => L_ [tm_fl d] end;
      tm_opt tm_str (g_id g)].
Definition tm_info (i : info) : tm :=
  L_ [tm_opt tm_str (i_date i); tm_opt (tm_list N_) (i_gasp i); tm_opt (tm_list tm_guide) (i_guides i);
      tm_opt (tm_list N_) (i_selection i); tm_opt (fun p => L_ [N_ (fst p); N_ (snd p)]) (i_class i);
      tm_opt (tm_list tm_z) (i_blue i); tm_opt (tm_list tm_z) (i_oblue i);
      tm_opt (tm_list tm_z) (i_fblue i); tm_opt (tm_list tm_z) (i_foblue i);
      tm_opt (tm_list tm_z) (i_stemh i); tm_opt (tm_list tm_z) (i_stemv i);
      tm_opt (tm_list (tm_list (fun it : witem => L_ [tm_nat (fst it); tm_nat (snd it)]))) (i_wext i);
      tm_opt tm_nat (i_wcredits i); tm_opt tm_nat (i_wcopyright i); tm_opt tm_nat (i_wdescr i);
      tm_opt tm_nat (i_wtrade i)].
Definition tm_err (e : fi_err) : tm :=
  match e with
  | EDate => L_ [N_ 1] | EGasp => L_ [N_ 2] | EAngle => L_ [N_ 3] | EDupId => L_ [N_ 4]
  | ESelection => L_ [N_ 5] | EClass => L_ [N_ 6]
  | EListLen n m l => L_ [N_ 7; tm_string n; tm_nat m; tm_nat l]
  | EPairs n => L_ [N_ 8; tm_string n]
  | EWoff w => L_ [N_ 9; tm_string w]
  end.
Definition tm_obs (o : obs) : tm :=
  match o with
  | ONA => L_ [N_ 0]
  | OOk i => L_ [N_ 1; tm_info i]
  | OInvalid e => L_ [N_ 2; tm_err e]
  | OParse => L_ [N_ 3]
  | OOther c => L_ [N_ 4; tm_z c]
  end.
(** the mantissa/exponent pair of a float is normalised (odd mantissa) before comparing *)
Fixpoint norm_fuel (k : nat) (m : N) (e : Z) : N * Z :=
  match k with
  | O => (m, e)
  | S k' => if (m =? 0)%N then (0%N, 0) else if N.even m then norm_fuel k' (m / 2)%N (e + 1) else (m, e)
  end.
Definition norm_fl (d : fl) : fl :=
  match d with FFin n m e => let '(m', e') := norm_fuel 2100 m e in FFin n m' e' | _ => d end.
Definition norm_guide (g : guide) : guide :=
  {| g_line := match g_line g with LAngle d => LAngle (norm_fl d) | l => l end; g_id := g_id g |}.
Definition norm_info (i : info) : info :=
  {| i_date := i_date i; i_gasp := i_gasp i; i_guides := option_map (map norm_guide) (i_guides i);
     i_selection := i_selection i; i_class := i_class i; i_blue := i_blue i; i_oblue := i_oblue i;
     i_fblue := i_fblue i; i_foblue := i_foblue i; i_stemh := i_stemh i; i_stemv := i_stemv i;
     i_wext := i_wext i; i_wcredits := i_wcredits i; i_wcopyright := i_wcopyright i;
     i_wdescr := i_wdescr i; i_wtrade := i_wtrade i |}.
Definition norm_obs (o : obs) : obs := match o with OOk i => OOk (norm_info i) | _ => o end.
Definition obs_eqb (a b : obs) : bool := tm_eqb (tm_obs (norm_obs a)) (tm_obs (norm_obs b)).

(** ---------- per-case check ---------- *)
Definition accepted (o : obs) : bool := match o with OOk _ => true | _ => false end.
Definition holds_violating (o : obs) : bool := match o with OOk j => negb (fi_specb j) | _ => false end.
Definition flag (b : bool) (code : Z) : list Z := if b then [code] else [].
Definition is_panic (o : obs) : bool := match o with OOther 9 => true | _ => false end.

(** codes: 1/2/3/4/5 the model's outcome at validate/save/load/load of format 2/load of format 1
    differs from the implementation's; 11/12/13/16/17 the implementation's verdict there differs
    from the specification; 14/15/18/19 the written file / the loaded font (format 3, 2, 1) holds
    an info that violates the specification *)
Definition check_case (c : case) : list Z :=
  let r := c_raw c in
  flag (negb (obs_eqb (m_val r) (c_val c))) 1 ++
  flag (negb (obs_eqb (m_save r) (c_save c))) 2 ++
  flag (negb (obs_eqb (m_load r) (c_load c))) 3 ++
  flag (negb (obs_eqb (m_load2 r) (c_load2 c))) 4 ++
  flag (negb (obs_eqb (m_load1 r) (c_load1 c))) 5 ++
  match build r with
  | Some i => flag (negb (Bool.eqb (accepted (c_val c)) (fi_specb i))) 11 ++
              flag (negb (Bool.eqb (accepted (c_save c)) (fi_specb i))) 12
  | None => []
  end ++
  flag (negb (Bool.eqb (accepted (c_load c))
                       (match decode r with Some i => fi_specb i | None => false end))) 13 ++
  flag (holds_violating (c_save c)) 14 ++
  flag (holds_violating (c_load c)) 15 ++
  (let spec_says := match decode r with Some i => fi_specb i | None => false end in
   flag (v2_applicable r && negb (Bool.eqb (accepted (c_load2 c)) spec_says)) 16 ++
   flag (v1_applicable r && negb (Bool.eqb (accepted (c_load1 c)) spec_says)) 17) ++
  flag (holds_violating (c_load2 c)) 18 ++
  flag (holds_violating (c_load1 c)) 19 ++
  (* a panic (the harness reports it as OOther 9) is never an answer: neither accepted nor refused *)
  flag (existsb is_panic [c_val c; c_save c; c_load c; c_load2 c; c_load1 c]) 20.

Fixpoint check_all (k : Z) (cs : list case) : list (Z * list Z) :=
  match cs with
  | [] => []
  | c :: r => match check_case c with
              | [] => check_all (k + 1) r
              | l => (k, l) :: check_all (k + 1) r
              end
  end.
(** summary of what the shard exercised: (accepted by the spec, rejected, not representable) *)
Definition tally (cs : list case) : Z * Z * Z :=
  fold_left (fun '(a, b, n) c =>
               match build (c_raw c) with
               | None => (a, b, n + 1)
               | Some i => if fi_specb i then (a + 1, b, n) else (a, b + 1, n)
               end) cs (0, 0, 0).
