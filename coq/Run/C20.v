(** Executable glue for the correspondence run of C20: the IEEE-double instance of the path and
    transform models (Coq primitive floats), the input generators shared with the harness
    (63-bit integer arithmetic only, so that both sides derive the same inputs from the run's
    key), and per-case 6-bit fingerprints of the results. Definitions only. *)
Require Import Norad.Run.RunBase Norad.Model.Contour Norad.Model.Path.
From Coq Require Import Floats Uint63.
Local Open Scope uint63_scope.

(** ---------- 63-bit mixing (harness: same operations on u64 masked to 63 bits) ---------- *)
Definition mix (z : int) : int :=
  let z := (z lxor (z >> 30)) * 0x3F58476D1CE4E5B9 in
  let z := (z lxor (z >> 27)) * 0x14D049BB133111EB in
  z lxor (z >> 31).
Definition draw (key a b : int) : int :=
  mix (mix (key + a * 0x1E3779B97F4A7C15 + b * 0x2545F4914F6CDD1D) + 0x632BE59BD9B4E019).
Definition hstep (h v : int) : int := mix (h * 0x2545F4914F6CDD1D + v + 0x1E3779B97F4A7C15).

(** ---------- doubles from / to their fields (sign, biased exponent, fraction) ---------- *)
Definition two52 : int := 0x10000000000000.
Definition of_fields (s e frac : int) : float :=
  let m := if e =? 0 then frac else frac + two52 in
  let e1 := if e =? 0 then 1 else e in
  (* value = m * 2^(e1 - 1075); ldshiftexp f k = f * 2^(k - 2101) *)
  let f := ldshiftexp (PrimFloat.of_uint63 m) (e1 + 1026) in
  if s =? 0 then f else PrimFloat.opp f.

Definition to_fields (f : float) : int * int * int :=
  match PrimFloat.classify f with
  | NaN => (0, 2047, 1)
  | PInf => (0, 2047, 0)
  | NInf => (1, 2047, 0)
  | PZero => (0, 0, 0)
  | NZero => (1, 0, 0)
  | _ =>
      let s := if PrimFloat.ltb f PrimFloat.zero then 1 else 0 in
      let '(m, e) := frshiftexp (PrimFloat.abs f) in      (* |f| = m * 2^(e - 2101), m in [0.5, 1) *)
      let mant := normfr_mantissa m in                     (* m * 2^53, in [2^52, 2^53) *)
      if 1080 <=? e then (s, e - 1079, mant - two52)       (* normal *)
      else (s, 0, mant >> (1080 - e))                      (* subnormal *)
  end.

Definition hash_float (h : int) (f : float) : int :=
  let '(s, e, frac) := to_fields f in
  hstep (hstep h (s * 2048 + e)) frac.

(** ---------- the generator of doubles ---------- *)
Definition specials : list (int * int * int) :=
  [(0, 0, 0); (1, 0, 0); (0, 1023, 0); (1, 1023, 0); (0, 1022, 0); (0, 2046, 0xFFFFFFFFFFFFF);
   (1, 2046, 0xFFFFFFFFFFFFF); (0, 1, 0); (0, 0, 1); (0, 0, 0xFFFFFFFFFFFFF); (0, 1075, 0);
   (0, 1076, 1); (0, 1023, 1); (0, 1022, 0xFFFFFFFFFFFFF); (0, 1024, 0x8000000000000);
   (1, 1021, 0)].
Definition int_float (k off : int) : float :=    (* the integer k - off *)
  if off <=? k then PrimFloat.of_uint63 (k - off) else PrimFloat.opp (PrimFloat.of_uint63 (off - k)).
Definition gen_float (d1 d2 : int) : float :=
  let cat := d1 land 7 in
  let sgn := (d1 >> 3) land 1 in
  let u := d1 >> 4 in
  let frac := d2 land 0xFFFFFFFFFFFFF in
  if cat <=? 1 then int_float (u mod 2001) 1000
  else if cat =? 2 then
    let k := u mod 8001 in
    if 4000 <=? k then ldshiftexp (PrimFloat.of_uint63 (k - 4000)) 2099
    else PrimFloat.opp (ldshiftexp (PrimFloat.of_uint63 (4000 - k)) 2099)
  else if cat <=? 4 then of_fields sgn (993 + u mod 61) frac
  else if cat =? 5 then of_fields sgn (1 + u mod 2046) frac
  else if cat =? 6 then of_fields sgn (u mod 2047) frac
  else let '(s, e, fr) := nth (Z.to_nat (Uint63.to_Z (u land 15))) specials (0, 0, 0) in of_fields s e fr.
(** mode 0: small integers only; 1: moderate exponents only; otherwise the full mix *)
Definition force_cat (mode d1 : int) : int :=
  if mode =? 0 then (d1 >> 3) << 3
  else if mode =? 1 then ((d1 >> 3) << 3) + 3
  else d1.

(** ---------- IEEE-double instances ---------- *)
Definition fpt := (float * float)%type.
(** kurbo [Point::midpoint]: Point::new(0.5 * (self.x + other.x), 0.5 * (self.y + other.y)) *)
Definition fmid (a b : fpt) : fpt :=
  (PrimFloat.mul 0.5 (PrimFloat.add (fst a) (fst b)), PrimFloat.mul 0.5 (PrimFloat.add (snd a) (snd b)))%float.
Definition fto_path := to_path fpt fmid.
Definition fspec_path := spec_path fpt fmid.
Definition ftransform := transform float PrimFloat.add PrimFloat.mul.
Definition fkurbo_apply := kurbo_apply float PrimFloat.add PrimFloat.mul.

Definition hash_pt (h : int) (p : fpt) : int := hash_float (hash_float h (fst p)) (snd p).
Definition hash_el (h : int) (e : pathel fpt) : int :=
  match e with
  | MoveTo p => hash_pt (hstep h 1) p
  | LineTo p => hash_pt (hstep h 2) p
  | QuadTo a p => hash_pt (hash_pt (hstep h 3) a) p
  | CurveTo a b p => hash_pt (hash_pt (hash_pt (hstep h 4) a) b) p
  | ClosePath => hstep h 5
  end.
Definition hash_result (r : result (list (pathel fpt)) perr) : int :=
  match r with
  | Ok els => fold_left hash_el els 17
  | Err TooManyOffCurves => 2
  | Err BadPoint => 3
  | Panic _ => 4
  end.
Definition char_of (h : int) : ascii := ascii_of_N (48 + Z.to_N (Uint63.to_Z (h land 63))).

(** ---------- contours ---------- *)
(** digit coding of Run/C11.v: type = d / 2 in [move,line,offcurve,curve,qcurve], smooth = d mod 2 *)
Definition sym (d : N) : pt :=
  ((match d / 2 with 0 => Move | 1 => Line | 2 => Off | 3 => Curve | _ => QCurve end)%N, N.odd d).
Definition of_digits (s : string) : list pt :=
  map (fun a => sym (N_of_ascii a - 48)) (list_ascii_of_string s).

(** coordinates of the exhaustive part: point i is (2^(i+1), 1000 + 3 (i+1)^2): all points, all
    midpoints of two points and all coordinates pairwise distinct, all arithmetic exact *)
Fixpoint with_coords_exh (i : int) (l : list pt) : list (point fpt) :=
  match l with
  | [] => []
  | p :: r => (p, (PrimFloat.of_uint63 (1 << (i + 1)),
                   PrimFloat.of_uint63 (1000 + 3 * (i + 1) * (i + 1)))) :: with_coords_exh (i + 1) r
  end.
(** coordinates of random contour number [j], derived from the run's key *)
Fixpoint with_coords_rand (kc j mode i : int) (l : list pt) : list (point fpt) :=
  match l with
  | [] => []
  | p :: r =>
      (p, (gen_float (force_cat mode (draw kc j (4 * i))) (draw kc j (4 * i + 1)),
           gen_float (force_cat mode (draw kc j (4 * i + 2))) (draw kc j (4 * i + 3))))
        :: with_coords_rand kc j mode (i + 1) r
  end.
Definition rand_contour (key j : int) (l : list pt) : list (point fpt) :=
  let kc := mix (key + 2) in
  with_coords_rand kc j (draw kc j 1048576 mod 3) 0 l.

Definition model_char (c : list (point fpt)) : ascii := char_of (hash_result (fto_path c)).
(** '-' when the sequence is illegal (the property says nothing), else the outline's fingerprint *)
Definition spec_char (c : list (point fpt)) : ascii :=
  if legalb (types fpt c) then char_of (hash_result (Ok (fspec_path c))) else "-"%char.

(** all type sequences of length n (smooth = false), first symbol most significant *)
Definition syms5 : list pt := [(Move, false); (Line, false); (Off, false); (Curve, false); (QCurve, false)].
Fixpoint seqs5 (n : nat) : list (list pt) :=
  match n with
  | O => [[]]
  | S k => flat_map (fun s => map (fun t => s :: t) (seqs5 k)) syms5
  end.
Definition of_digits5 (s : string) : list pt :=
  map (fun a => nth (N.to_nat (N_of_ascii a - 48)) syms5 (QCurve, false)) (list_ascii_of_string s).

(** exhaustive shard: all sequences [prefix ++ t], t of length n; expected = harness characters *)
Definition diff_model_exh (prefix : string) (n : nat) (expected : list string) :=
  diff_aux 0 (map (fun t => model_char (with_coords_exh 0 (of_digits5 prefix ++ t))) (seqs5 n))
           (list_ascii_of_string (cat expected)) [].
Definition diff_spec_exh (prefix : string) (n : nat) (expected : list string) :=
  diff_aux 0 (map (fun t => spec_char (with_coords_exh 0 (of_digits5 prefix ++ t))) (seqs5 n))
           (list_ascii_of_string (cat expected)) [].

(** random contours: digit strings (C11 coding), numbered from [base] *)
Fixpoint rand_chars (f : list (point fpt) -> ascii) (key j : int) (cs : list string) : list ascii :=
  match cs with
  | [] => []
  | s :: r => f (rand_contour key j (of_digits s)) :: rand_chars f key (j + 1) r
  end.
Definition diff_model_rand (key base : int) (cs : list string) (expected : list string) :=
  diff_aux 0 (rand_chars model_char key base cs) (list_ascii_of_string (cat expected)) [].
Definition diff_spec_rand (key base : int) (cs : list string) (expected : list string) :=
  diff_aux 0 (rand_chars spec_char key base cs) (list_ascii_of_string (cat expected)) [].

(** ---------- transforms ---------- *)
Definition tr_case (key i : int) : affine float * fpt :=
  let kt := mix (key + 1) in
  let mode := draw kt i 100 land 3 in
  let g := fun j => gen_float (force_cat mode (draw kt i (2 * j))) (draw kt i (2 * j + 1)) in
  (mkaffine (g 0) (g 1) (g 2) (g 3) (g 4) (g 5), (g 6, g 7)).
Definition tr_char (key i : int) : ascii :=
  let '(t, p) := tr_case key i in
  char_of (hash_pt 29 (ftransform t p)).
(** the kurbo side of the model, and the round trip *)
Definition tr_kurbo_char (key i : int) : ascii :=
  let '(t, p) := tr_case key i in
  char_of (hash_pt 29 (fkurbo_apply (to_kurbo float (from_kurbo float (to_kurbo float t))) p)).
Definition tr_chars (f : int -> int -> ascii) (key i : int) (n : N) : list ascii :=
  rev (snd (N.iter n (fun st => (fst st + 1, f key (fst st) :: snd st)) (i, []))).
Definition diff_transform (key base : int) (n : N) (expected : list string) :=
  diff_aux 0 (tr_chars tr_char key base n) (list_ascii_of_string (cat expected)) [].
Definition diff_transform_kurbo (key base : int) (n : N) (expected : list string) :=
  diff_aux 0 (tr_chars tr_kurbo_char key base n) (list_ascii_of_string (cat expected)) [].

(** ---------- readable dumps for replay files (mismatching cases only) ---------- *)
Definition bits_of (f : float) : Z :=
  let '(s, e, frac) := to_fields f in
  (Uint63.to_Z s * 2 ^ 63 + Uint63.to_Z e * 2 ^ 52 + Uint63.to_Z frac)%Z.
Definition dump_pt (p : fpt) : list Z := [bits_of (fst p); bits_of (snd p)].
Definition dump_el (e : pathel fpt) : Z * list Z :=
  match e with
  | MoveTo p => (1, dump_pt p)
  | LineTo p => (2, dump_pt p)
  | QuadTo a p => (3, dump_pt a ++ dump_pt p)
  | CurveTo a b p => (4, dump_pt a ++ dump_pt b ++ dump_pt p)
  | ClosePath => (5, [])
  end%Z.
(** (code, elements): code 0 = Ok, 2 = TooManyOffCurves, 3 = BadPoint, 4 = panic *)
Definition dump_result (r : result (list (pathel fpt)) perr) : Z * list (Z * list Z) :=
  match r with
  | Ok els => (0, map dump_el els)
  | Err TooManyOffCurves => (2, [])
  | Err BadPoint => (3, [])
  | Panic _ => (4, [])
  end%Z.
Definition dump_contour (c : list (point fpt)) :=
  (legalb (types fpt c), dump_result (fto_path c), dump_result (Ok (fspec_path c))).
Definition dump_transform (key i : int) :=
  let '(t, p) := tr_case key i in
  (map bits_of [x_scale t; xy_scale t; yx_scale t; y_scale t; x_offset t; y_offset t; fst p; snd p],
   dump_pt (ftransform t p), dump_pt (fkurbo_apply (to_kurbo float t) p)).

(** ---------- the property's predicate on an implementation path (given as a dump) ---------- *)
Definition dump_eqb (a b : Z * list (Z * list Z)) : bool :=
  Z.eqb (fst a) (fst b) &&
  list_eqb (fun x y => Z.eqb (fst x) (fst y) && list_eqb Z.eqb (snd x) (snd y)) (snd a) (snd b).
(** the contour is legal and the path is one of the outlines the specification allows *)
Definition outline_ok (c : list (point fpt)) (impl : Z * list (Z * list Z)) : bool :=
  legalb (types fpt c) &&
  existsb (fun path => dump_eqb (dump_result (Ok path)) impl) (valid_outlines fpt fmid c).
