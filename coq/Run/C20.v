(** Executable glue for the correspondence run of C20: the IEEE-double instance of the path and
    transform models (Coq primitive floats), the input generators shared with the harness
    (63-bit integer arithmetic only, so that both sides derive the same inputs from the run's
    key), and per-case 6-bit fingerprints of the results. Definitions only. *)
Require Import Norad.Run.RunBase Norad.Model.Contour Norad.Model.Path.
From Coq Require Import Floats Uint63.
Local Open Scope uint63_scope.

(** ---------- 63-bit mixing (harness: same operations on u64 masked to 63 bits) ---------- *)
Definition mix (z : int) : int :=
  let z := (z lxor (z >> 30)) * 0x3F58476D1CE4E5B9 in
  let z := (z lxor (z >> 27)) * 0x14D049BB133111EB in
  z lxor (z >> 31).
Definition draw (key a b : int) : int :=
  mix (mix (key + a * 0x1E3779B97F4A7C15 + b * 0x2545F4914F6CDD1D) + 0x632BE59BD9B4E019).
Definition hstep (h v : int) : int := mix (h * 0x2545F4914F6CDD1D + v + 0x1E3779B97F4A7C15).

(** ---------- doubles from / to their fields (sign, biased exponent, fraction) ---------- *)
Definition two52 : int := 0x10000000000000.
Definition of_fields (s e frac : int) : float :=
  let m := if e =? 0 then frac else frac + two52 in
  let e1 := if e =? 0 then 1 else e in
  (* value = m * 2^(e1 - 1075); ldshiftexp f k = f * 2^(k - 2101) *)
  let f := ldshiftexp (PrimFloat.of_uint63 m) (e1 + 1026) in
  if s =? 0 then f else PrimFloat.opp f.

Definition to_fields (f : float) : int * int * int :=
  match PrimFloat.classify f with
  | NaN => (0, 2047, 1)
  | PInf => (0, 2047, 0)
  | NInf => (1, 2047, 0)
  | PZero => (0, 0, 0)
  | NZero => (1, 0, 0)
  | _ =>
      let s := if PrimFloat.ltb f PrimFloat.zero then 1 else 0 in
      let '(m, e) := frshiftexp (PrimFloat.abs f) in      (* |f| = m * 2^(e - 2101), m in [0.5, 1) *)
      let mant := normfr_mantissa m in                     (* m * 2^53, in [2^52, 2^53) *)
      if 1080 <=? e then (s, e - 1079, mant - two52)       (* normal *)
      else (s, 0, mant >> (1080 - e))                      (* subnormal *)
  end.

Definition hash_float (h : int) (f : float) : int :=
  let '(s, e, frac) := to_fields f in
  hstep (hstep h (s * 2048 + e)) frac.

(** ---------- the generator of doubles ---------- *)
Definition specials : list (int * int * int) :=
  [(0, 0, 0); (1, 0, 0); (0, 1023, 0); (1, 1023, 0); (0, 1022, 0); (0, 2046, 0xFFFFFFFFFFFFF);
   (1, 2046, 0xFFFFFFFFFFFFF); (0, 1, 0); (0, 0, 1); (0, 0, 0xFFFFFFFFFFFFF); (0, 1075, 0);
   (0, 1076, 1); (0, 1023, 1); (0, 1022, 0xFFFFFFFFFFFFF); (0, 1024, 0x8000000000000);
   (1, 1021, 0)].
Definition int_float (k off : int) : float :=    (* the integer k - off *)
  if off <=? k then PrimFloat.of_uint63 (k - off) else PrimFloat.opp (PrimFloat.of_uint63 (off - k)).
Definition gen_float (d1 d2 : int) : float :=
  let cat := d1 land 7 in
  let sgn := (d1 >> 3) land 1 in
  let u := d1 >> 4 in
  let frac := d2 land 0xFFFFFFFFFFFFF in
  if cat <=? 1 then int_float (u mod 2001) 1000
  else if cat =? 2 then
    let k := u mod 8001 in
    if 4000 <=? k then ldshiftexp (PrimFloat.of_uint63 (k - 4000)) 2099
    else PrimFloat.opp (ldshiftexp (PrimFloat.of_uint63 (4000 - k)) 2099)
  else if cat <=? 4 then of_fields sgn (993 + u mod 61) frac
  else if cat =? 5 then of_fields sgn (1 + u mod 2046) frac
  else if cat =? 6 then of_fields sgn (u mod 2047) frac
  else let '(s, e, fr) := nth (Z.to_nat (Uint63.to_Z (u land 15))) specials (0, 0, 0) in of_fields s e fr.
(** mode 0: small integers only; 1: moderate exponents only; otherwise the full mix *)
Definition force_cat (mode d1 : int) : int :=
  if mode =? 0 then (d1 >> 3) << 3
  else if mode =? 1 then ((d1 >> 3) << 3) + 3
  else d1.

(** ---------- IEEE-double instances ---------- *)
Definition fpt := (float * float)%type.
(** kurbo [Point::midpoint]: Point::new(0.5 * (self.x + other.x), 0.5 * (self.y + other.y)) *)
Definition fmid (a b : fpt) : fpt :=
  (PrimFloat.mul 0.5 (PrimFloat.add (fst a) (fst b)), PrimFloat.mul 0.5 (PrimFloat.add (snd a) (snd b)))%float.
Definition fto_path := to_path fpt fmid.
Definition fspec_path := spec_path fpt fmid.
Definition ftransform := transform float PrimFloat.add PrimFloat.mul.
Definition fkurbo_apply := kurbo_apply float PrimFloat.add PrimFloat.mul.

Definition hash_pt (h : int) (p : fpt) : int := hash_float (hash_float h (fst p)) (snd p).
Definition hash_el (h : int) (e : pathel fpt) : int :=
  match e with
  | MoveTo p => hash_pt (hstep h 1) p
  | LineTo p => hash_pt (hstep h 2) p
  | QuadTo a p => hash_pt (hash_pt (hstep h 3) a) p
  | CurveTo a b p => hash_pt (hash_pt (hash_pt (hstep h 4) a) b) p
  | ClosePath => hstep h 5
  end.
Definition hash_result (r : result (list (pathel fpt)) perr) : int :=
  match r with
  | Ok els => fold_left hash_el els 17
  | Err TooManyOffCurves => 2
  | Err BadPoint => 3
  | Panic _ => 4
  end.
(** ---------- contours ---------- *)
(** digit coding of Run/C11.v: type = d / 2 in [move,line,offcurve,curve,qcurve], smooth = d mod 2 *)
Definition sym (d : int) : pt :=
  (let t := d >> 1 in
   if t =? 0 then Move else if t =? 1 then Line else if t =? 2 then Off else if t =? 3 then Curve else QCurve,
   (d land 1) =? 1).
Definition of_digits (s : string) : list pt :=
  map (fun a => sym (Uint63.of_Z (Z.of_N (N_of_ascii a - 48)))) (list_ascii_of_string s).
(** type digits 0..4 (smooth = false) *)
Definition of_digits5 (s : string) : list pt :=
  map (fun a => sym (2 * Uint63.of_Z (Z.of_N (N_of_ascii a - 48)))) (list_ascii_of_string s).

(** coordinates of the exhaustive part: point i is (2^(i+1), 1000 + 3 (i+1)^2): all points, all
    midpoints of two points and all coordinates pairwise distinct, all arithmetic exact *)
Fixpoint with_coords_exh (i : int) (l : list pt) : list (point fpt) :=
  match l with
  | [] => []
  | p :: r => (p, (PrimFloat.of_uint63 (1 << (i + 1)),
                   PrimFloat.of_uint63 (1000 + 3 * (i + 1) * (i + 1)))) :: with_coords_exh (i + 1) r
  end.
(** sequence number [idx] of length [n]: base-5 digits of [idx], most significant first *)
Fixpoint seq_of_index (n : nat) (idx : int) (acc : list pt) : list pt :=
  match n with
  | O => acc
  | S k => seq_of_index k (idx / 5) (sym (2 * (idx mod 5)) :: acc)
  end.
Definition exh_contour (n : nat) (idx : int) : list (point fpt) :=
  with_coords_exh 0 (seq_of_index n idx []).

(** random contour number [j]: type sequence and coordinates derived from the run's key *)
Fixpoint walk (kg j : int) (fuel : nat) (is_open : bool) (i offs : int) : list int :=
  match fuel with
  | O => []
  | S k =>
      let d := draw kg j (10 + i) in
      let r := d mod 100 in
      let t := if (i =? 0) && is_open then 0
               else if offs =? 0 then (if r <? 25 then 1 else if r <? 60 then 2 else if r <? 80 then 3 else 4)
               else if offs =? 1 then (if r <? 40 then 2 else if r <? 75 then 3 else 4)
               else if r <? 15 then 2
               else if r <? 55 then (if offs =? 2 then 3 else 4)
               else 4 in
      let sm := if (t =? 2) then 0 else if ((d >> 20) mod 3 =? 0) then 1 else 0 in
      (2 * t + sm) :: walk kg j k is_open (i + 1) (if t =? 2 then offs + 1 else 0)
  end.
Fixpoint uniform (kg j : int) (fuel : nat) (i : int) : list int :=
  match fuel with
  | O => []
  | S k => (draw kg j (10 + i) mod 10) :: uniform kg j k (i + 1)
  end.
Fixpoint set_nth (q : int) (v : int) (i : int) (l : list int) : list int :=
  match l with
  | [] => []
  | x :: r => (if i =? q then v else x) :: set_nth q v (i + 1) r
  end.
Fixpoint drop_offs (l : list int) : list int :=
  match l with
  | x :: r => if (x >> 1) =? 2 then drop_offs r else l
  | [] => []
  end.
Definition gen_digits (key j : int) : list int :=
  let kg := mix (key + 3) in
  let d0 := draw kg j 0 in
  let len := if j mod 40 =? 0 then 60 + d0 mod 141 else 1 + d0 mod 24 in
  let fuel := Z.to_nat (Uint63.to_Z len) in
  let ds :=
    if draw kg j 1 mod 12 =? 0 then uniform kg j fuel 0
    else
      let w := walk kg j fuel (draw kg j 2 mod 3 =? 0) 0 0 in
      let e := draw kg j 3 mod 24 in
      if e <? 2 then map (fun _ => 4) w
      else if e <? 5 then set_nth (draw kg j 4 mod len) (draw kg j 5 mod 10) 0 w
      else w in
  match ds with
  | first :: rest => if (first >> 1) =? 0 then first :: rev (drop_offs (rev rest)) else ds
  | [] => []
  end.
Fixpoint with_coords_rand (kc j mode i : int) (l : list pt) : list (point fpt) :=
  match l with
  | [] => []
  | p :: r =>
      (p, (gen_float (force_cat mode (draw kc j (4 * i))) (draw kc j (4 * i + 1)),
           gen_float (force_cat mode (draw kc j (4 * i + 2))) (draw kc j (4 * i + 3))))
        :: with_coords_rand kc j mode (i + 1) r
  end.
Definition rand_contour_of (key j : int) (l : list pt) : list (point fpt) :=
  let kc := mix (key + 2) in
  (* the enumerated part of the segment-list stream uses small integers (readable replays) *)
  let mode := if (1073741824 <=? j) && (j <? 1073741824 + 567) then 0 else draw kc j 1048576 mod 3 in
  with_coords_rand kc j mode 0 l.
Definition rand_contour (key j : int) : list (point fpt) :=
  rand_contour_of key j (map sym (gen_digits key j)).

(** per-case 63-bit fingerprints *)
Definition model_h (c : list (point fpt)) : int := hash_result (fto_path c).
(** 1 when the sequence is illegal (the property says nothing), else the outline's fingerprint *)
Definition spec_h (c : list (point fpt)) : int :=
  if legalb (types fpt c) then hash_result (Ok (fspec_path c)) else 1.

(** ---------- transforms ---------- *)
Definition tr_case (key i : int) : affine float * fpt :=
  let kt := mix (key + 1) in
  let mode := draw kt i 100 land 3 in
  let g := fun j => gen_float (force_cat mode (draw kt i (2 * j))) (draw kt i (2 * j + 1)) in
  (mkaffine (g 0) (g 1) (g 2) (g 3) (g 4) (g 5), (g 6, g 7)).
Definition tr_h (key i : int) : int :=
  let '(t, p) := tr_case key i in hash_pt 29 (ftransform t p).
(** the kurbo side of the model: Affine * Point of the converted transform, then the six fields
    of the transform converted to kurbo and back *)
Definition trk_h (key i : int) : int :=
  let '(t, p) := tr_case key i in
  let b := from_kurbo float (to_kurbo float t) in
  fold_left hash_float [x_scale b; xy_scale b; yx_scale b; y_scale b; x_offset b; y_offset b]
            (hash_pt 29 (fkurbo_apply (to_kurbo float t) p)).

(** ---------- what a shard prints ---------- *)
(** fingerprints of the cases base .. base+count-1 folded block-wise ([bsize] per block, the last
    block may be shorter); the harness prints the same numbers *)
Definition block_sum (f : int -> int) (base : int) (n : N) : int :=
  snd (N.iter n (fun st => (fst st + 1, hstep (snd st) (f (fst st)))) (base, 0)).
Fixpoint block_sums_aux (f : int -> int) (fuel : nat) (base : int) (count bsize : N) : list int :=
  match fuel with
  | O => []
  | S k => if (count =? 0)%N then []
           else let n := N.min count bsize in
                block_sum f base n :: block_sums_aux f k (base + Uint63.of_Z (Z.of_N n)) (count - n) bsize
  end.
Definition block_sums (f : int -> int) (base : int) (count bsize : N) : list int :=
  block_sums_aux f (S (N.to_nat (count / bsize))) base count bsize.
Definition case_hashes (f : int -> int) (base : int) (count : N) : list int :=
  rev (snd (N.iter count (fun st => (fst st + 1, f (fst st) :: snd st)) (base, []))).

Definition exh_model (n : nat) (idx : int) : int := model_h (exh_contour n idx).
Definition exh_spec (n : nat) (idx : int) : int := spec_h (exh_contour n idx).
Definition rand_model (key j : int) : int := model_h (rand_contour key j).
Definition rand_spec (key j : int) : int := spec_h (rand_contour key j).

(** ---------- readable dumps for replay files (mismatching cases only) ---------- *)
Definition bits_of (f : float) : Z :=
  let '(s, e, frac) := to_fields f in
  (Uint63.to_Z s * 2 ^ 63 + Uint63.to_Z e * 2 ^ 52 + Uint63.to_Z frac)%Z.
Definition dump_pt (p : fpt) : list Z := [bits_of (fst p); bits_of (snd p)].
Definition dump_el (e : pathel fpt) : Z * list Z :=
  match e with
  | MoveTo p => (1, dump_pt p)
  | LineTo p => (2, dump_pt p)
  | QuadTo a p => (3, dump_pt a ++ dump_pt p)
  | CurveTo a b p => (4, dump_pt a ++ dump_pt b ++ dump_pt p)
  | ClosePath => (5, [])
  end%Z.
(** (code, elements): code 0 = Ok, 2 = TooManyOffCurves, 3 = BadPoint, 4 = panic *)
Definition dump_result (r : result (list (pathel fpt)) perr) : Z * list (Z * list Z) :=
  match r with
  | Ok els => (0, map dump_el els)
  | Err TooManyOffCurves => (2, [])
  | Err BadPoint => (3, [])
  | Panic _ => (4, [])
  end%Z.
Definition dump_contour (c : list (point fpt)) :=
  (legalb (types fpt c), dump_result (fto_path c), dump_result (Ok (fspec_path c))).
Definition dump_transform (key i : int) :=
  let '(t, p) := tr_case key i in
  (map bits_of [x_scale t; xy_scale t; yx_scale t; y_scale t; x_offset t; y_offset t; fst p; snd p],
   dump_pt (ftransform t p), dump_pt (fkurbo_apply (to_kurbo float t) p)).

(** ---------- the property's predicate on an implementation path (given as a dump) ---------- *)
Definition dump_eqb (a b : Z * list (Z * list Z)) : bool :=
  Z.eqb (fst a) (fst b) &&
  list_eqb (fun x y => Z.eqb (fst x) (fst y) && list_eqb Z.eqb (snd x) (snd y)) (snd a) (snd b).
(** the contour is legal and the path is one of the outlines the specification allows *)
Definition outline_ok (c : list (point fpt)) (impl : Z * list (Z * list Z)) : bool :=
  legalb (types fpt c) &&
  existsb (fun path => dump_eqb (dump_result (Ok path)) impl) (valid_outlines fpt fmid c).
Definition digits_of (key j : int) : list Z := map Uint63.to_Z (gen_digits key j).

(** ---------- the segment-list stream ----------
    Legal contours built as lists of SEGMENTS (line | cubic with 0/1/2 off-curves | qcurve after
    k off-curves | all off-curves), open, or closed under a rotation: long quadratic runs mixed
    with cubics, run lengths around the powers of two, cumulative counts.  Case [j]:
      j < 213          : line, k off-curves, qcurve, off, off, curve  (k = j / 3 in 0..70;
                         j mod 3 = 0 closed as written, 1 closed under a drawn rotation, 2 open)
      213 <= j < 567   : line, k1 offs, qcurve, k2 offs, qcurve, off, off, curve for every (k1, k2)
                         with k1 + k2 in {15, 16, 31, 47, 63} (closed under a rotation / open)
      otherwise        : a drawn list of up to 12 segments, at most 150 points. *)
Definition D_MOVE : int := 0.  Definition D_LINE : int := 2.  Definition D_OFF : int := 4.
Definition D_CURVE : int := 6. Definition D_QCURVE : int := 8.
Definition offs_n (k : int) : list int := repeat D_OFF (Z.to_nat (Uint63.to_Z k)).
Definition seg_sums : list nat := [15; 16; 31; 47; 63]%nat.
Definition seg_triples : list (int * int) :=
  flat_map (fun s => map (fun k1 => (Uint63.of_Z (Z.of_nat k1), Uint63.of_Z (Z.of_nat (s - k1))))
                         (seq 0 (S s))) seg_sums.
Definition N_PAIRS : int := 213.
Definition N_TRIPLES : int := 354.     (* 2 * 177 *)
Definition special_runs : list int := [14; 15; 16; 17; 30; 31; 32; 33; 63; 64; 65].
Definition nth_int {A} (i : int) (l : list A) (d : A) : A := nth (Z.to_nat (Uint63.to_Z i)) l d.
Definition irot (k : int) (l : list int) : list int := rot (Z.to_nat (Uint63.to_Z k)) l.
Definition ilen (l : list int) : int := Uint63.of_Z (Z.of_nat (length l)).

(** drawn segments: [i] = segment number, [len] = points so far *)
Fixpoint seg_walk (ks j : int) (fuel : nat) (i len : int) : list int :=
  match fuel with
  | O => []
  | S f =>
      let d := draw ks j (10 + i) in
      let r := d mod 100 in
      let e := d >> 8 in
      let sm := if (e >> 20) mod 3 =? 0 then 1 else 0 in
      let sg :=
        if r <? 20 then [D_LINE + sm]
        else if r <? 30 then [D_CURVE + sm]
        else if r <? 45 then [D_OFF; D_CURVE + sm]
        else if r <? 70 then [D_OFF; D_OFF; D_CURVE + sm]
        else
          let r2 := e mod 10 in
          let k := if r2 <? 5 then (e >> 4) mod 41
                   else if r2 <? 8 then nth_int ((e >> 4) mod 11) special_runs 0
                   else (e >> 4) mod 4 in
          offs_n k ++ [D_QCURVE + sm] in
      let len' := len + ilen sg in
      if 150 <? len' then [] else sg ++ seg_walk ks j f (i + 1) len'
  end.
Definition seg_digits (key j : int) : list int :=
  let ks := mix (key + 4) in
  let rotd := fun l => irot (draw ks j 4 mod ilen l) l in
  if j <? N_PAIRS then
    let k := j / 3 in
    let v := j mod 3 in
    let body := offs_n k ++ [D_QCURVE; D_OFF; D_OFF; D_CURVE] in
    if v =? 0 then D_LINE :: body else if v =? 1 then rotd (D_LINE :: body) else D_MOVE :: body
  else if j <? N_PAIRS + N_TRIPLES then
    let t := j - N_PAIRS in
    let '(k1, k2) := nth_int (t / 2) seg_triples (0, 0) in
    let body := offs_n k1 ++ [D_QCURVE] ++ offs_n k2 ++ [D_QCURVE; D_OFF; D_OFF; D_CURVE] in
    if t mod 2 =? 0 then rotd (D_LINE :: body) else D_MOVE :: body
  else if draw ks j 2 mod 12 =? 0 then offs_n (1 + draw ks j 3 mod 40)
  else
    let nseg := 1 + draw ks j 0 mod 12 in
    let w := seg_walk ks j (Z.to_nat (Uint63.to_Z nseg)) 0 0 in
    match w with
    | [] => [D_LINE]
    | _ => if draw ks j 1 mod 3 =? 0 then D_MOVE :: w else rotd w
    end.
Definition seg_contour (key j : int) : list (point fpt) :=
  rand_contour_of key (j + 1073741824) (map sym (seg_digits key j)).
Definition seg_model (key j : int) : int := model_h (seg_contour key j).
Definition seg_spec (key j : int) : int := spec_h (seg_contour key j).
Definition seg_digits_of (key j : int) : list Z := map Uint63.to_Z (seg_digits key j).
