(** Executable glue of the file-codec correspondence (C01 / C04): the tree-level codecs of the seven
    plist files (Model/FontRealPlist.v, Model/FontRealFiles.v) are run on the value a file denotes
    and on the XML tree found on disk.  The library functions (number text, number reading, bit
    patterns) are tables of what was observed for the values of the case. *)
Require Import Norad.Model.GlifSpec Norad.Model.GlifEncode.
Require Import Norad.Model.FontRT Norad.Model.FontReal Norad.Model.FontRealPlist Norad.Model.FontRealFiles.
Open Scope N_scope.

(** ---------- tables ---------- *)
Record tabs : Type := {
  tb_ff : list (fl * str); tb_ff3 : list (fl * str); tb_fi : list (Z * str);
  tb_pf : list (str * fl); tb_bits : list (N * fl) }.
Fixpoint fl_lookup (x : fl) (t : list (fl * str)) : str :=
  match t with [] => [] | (y, s) :: r => if fl_same x y then s else fl_lookup x r end.
Fixpoint z_lookup (z : Z) (t : list (Z * str)) : str :=
  match t with [] => [] | (y, s) :: r => if (z =? y)%Z then s else z_lookup z r end.
Fixpoint s_lookup (s : str) (t : list (str * fl)) : option fl :=
  match t with [] => None | (y, x) :: r => if str_eqb s y then Some x else s_lookup s r end.
Fixpoint bits_to_fl (v : N) (t : list (N * fl)) : fl :=
  match t with [] => FNaN | (y, x) :: r => if v =? y then x else bits_to_fl v r end.
Fixpoint fl_to_bits (x : fl) (t : list (N * fl)) : N :=
  match t with [] => 0 | (y, z) :: r => if fl_same x z then y else fl_to_bits x r end.
Definition T_ff (t : tabs) (x : fl) : str := fl_lookup x (tb_ff t).
Definition T_ff3 (t : tabs) (x : fl) : str := fl_lookup x (tb_ff3 t).
Definition T_fi (t : tabs) (z : Z) : str := z_lookup z (tb_fi t).
Definition T_pf (t : tabs) (s : str) : option fl := s_lookup s (tb_pf t).
Definition T_of_bits (t : tabs) (v : N) : fl := bits_to_fl v (tb_bits t).
Definition T_to_bits (t : tabs) (x : fl) : N := fl_to_bits x (tb_bits t).

(** ---------- equalities ---------- *)
Definition attrs_eqb (a b : attrs) : bool :=
  list_eqb (fun x y : str * str => str_eqb (fst x) (fst y) && str_eqb (snd x) (snd y)) a b.
Fixpoint node_eqb (a b : node) : bool :=
  match a, b with
  | Empty n1 a1, Empty n2 a2 => str_eqb n1 n2 && attrs_eqb a1 a2
  | Elem n1 a1 k1, Elem n2 a2 k2 =>
      str_eqb n1 n2 && attrs_eqb a1 a2 &&
      (fix go (x y : list node) : bool :=
         match x, y with
         | [], [] => true
         | p :: x', q :: y' => node_eqb p q && go x' y'
         | _, _ => false
         end) k1 k2
  | Text s1, Text s2 => str_eqb s1 s2
  | CData s1, CData s2 => str_eqb s1 s2
  | Comment s1, Comment s2 => str_eqb s1 s2
  | Decl, Decl => true
  | PI s1, PI s2 => str_eqb s1 s2
  | DocType s1, DocType s2 => str_eqb s1 s2
  | _, _ => false
  end.
Fixpoint pv_eqb (a b : pv) : bool :=
  match a, b with
  | PStr s1, PStr s2 => str_eqb s1 s2
  | PInt z1, PInt z2 => (z1 =? z2)%Z
  | PReal x1, PReal x2 => fl_same x1 x2
  | PBool b1, PBool b2 => Bool.eqb b1 b2
  | PData d1, PData d2 => str_eqb d1 d2
  | PDate s1, PDate s2 => str_eqb s1 s2
  | PArr l1, PArr l2 =>
      (fix go (x y : list pv) : bool :=
         match x, y with
         | [], [] => true
         | p :: x', q :: y' => pv_eqb p q && go x' y'
         | _, _ => false
         end) l1 l2
  | PDict d1, PDict d2 =>
      (fix go (x y : list (str * pv)) : bool :=
         match x, y with
         | [], [] => true
         | (k1, p) :: x', (k2, q) :: y' => str_eqb k1 k2 && pv_eqb p q && go x' y'
         | _, _ => false
         end) d1 d2
  | _, _ => false
  end.
(** plist values up to the order of dictionary keys EVERYWHERE, below arrays too (the dump of a
    loaded font lists every dictionary in key order, so the order inside arrays is not available to
    the comparison; [nf] itself goes through dictionaries only, as the writer's sort does) *)
Fixpoint nf_all (v : pv) : pv :=
  match v with
  | PDict d => PDict (sort_keys (dedupe (map_values nf_all d)))
  | PArr l => PArr (map nf_all l)
  | _ => v
  end.
Definition pv_same (a b : pv) : bool := pv_eqb (nf_all a) (nf_all b).
Definition opt_eqb {A} (e : A -> A -> bool) (a b : option A) : bool :=
  match a, b with Some x, Some y => e x y | None, None => true | _, _ => false end.
Definition pairs_eqb (a b : list (str * str)) : bool :=
  list_eqb (fun x y : str * str => str_eqb (fst x) (fst y) && str_eqb (snd x) (snd y)) a b.
Definition meta_eqb (a b : meta) : bool :=
  opt_eqb str_eqb (m_creator a) (m_creator b) && (m_version a =? m_version b) && (m_minor a =? m_minor b).
Definition color_eqb (a b : color) : bool :=
  let '(r1, g1, b1, a1) := a in let '(r2, g2, b2, a2) := b in
  fl_same r1 r2 && fl_same g1 g2 && fl_same b1 b2 && fl_same a1 a2.
Definition li_eqb (a b : option color * option dict) : bool :=
  opt_eqb color_eqb (fst a) (fst b) && opt_eqb (fun x y => pv_same (PDict x) (PDict y)) (snd a) (snd b).
Definition groups_eqb (a b : GR.groups) : bool :=
  list_eqb (fun x y : str * list str => str_eqb (fst x) (fst y) && list_eqb str_eqb (snd x) (snd y)) a b.
Definition kerning_eqb (a b : GR.kerning) : bool :=
  list_eqb (fun x y : str * list (str * N) =>
              str_eqb (fst x) (fst y) &&
              list_eqb (fun p q : str * N => str_eqb (fst p) (fst q) && (snd p =? snd q)) (snd x) (snd y)) a b.

(** ---------- the check: 0 = the model writes the tree on disk and reads it back as the value;
    1 = the model's tree differs; 2 = the model does not read the tree; 3 = it reads another value.
    [chk_r]: reading only (the value is what norad loaded from a foreign file) ---------- *)
Definition chk {X} (to : X -> pv) (of : pv -> option X) (eqb : X -> X -> bool) (t : tabs) (x : X) (n : node) : N :=
  if negb (node_eqb (plist_tree (T_ff t) (T_fi t) (to x)) n) then 1
  else match obind (plist_value (T_pf t) n) of with
       | None => 2
       | Some x' => if eqb x x' then 0 else 3
       end.
Definition chk_r {X} (of : pv -> option X) (eqb : X -> X -> bool) (t : tabs) (x : X) (n : node) : N :=
  match obind (plist_value (T_pf t) n) of with
  | None => 2
  | Some x' => if eqb x x' then 0 else 3
  end.
(** the model refuses the tree (norad refused the file) *)
Definition chk_none {X} (of : pv -> option X) (t : tabs) (n : node) : N :=
  match obind (plist_value (T_pf t) n) of with None => 0 | Some _ => 4 end.

Definition dict_same (a b : dict) : bool := pv_same (PDict a) (PDict b).
Definition k_meta : tabs -> meta -> node -> N := chk meta_pv pv_meta meta_eqb.
Definition k_lc : tabs -> list (str * str) -> node -> N := chk lc_pv pv_lc pairs_eqb.
Definition k_ct : tabs -> list (str * str) -> node -> N := chk ct_pv pv_ct pairs_eqb.
Definition k_lib : tabs -> dict -> node -> N := chk lib_pv pv_lib dict_same.
Definition k_li (t : tabs) : option color * option dict -> node -> N :=
  chk (li_pv (T_ff3 t)) (pv_li (T_pf t)) li_eqb t.
Definition k_groups : tabs -> GR.groups -> node -> N := chk groups_pv pv_groups groups_eqb.
Definition k_kerning (t : tabs) : GR.kerning -> node -> N :=
  chk (kerning_pv (T_of_bits t)) (pv_kerning (T_to_bits t)) kerning_eqb t.

Definition r_meta : tabs -> meta -> node -> N := chk_r pv_meta meta_eqb.
Definition r_lc : tabs -> list (str * str) -> node -> N := chk_r pv_lc pairs_eqb.
Definition r_ct : tabs -> list (str * str) -> node -> N := chk_r pv_ct pairs_eqb.
Definition r_lib : tabs -> dict -> node -> N := chk_r pv_lib dict_same.
Definition r_li (t : tabs) : option color * option dict -> node -> N := chk_r (pv_li (T_pf t)) li_eqb t.
Definition r_groups : tabs -> GR.groups -> node -> N := chk_r pv_groups groups_eqb.
Definition r_kerning (t : tabs) : GR.kerning -> node -> N := chk_r (pv_kerning (T_to_bits t)) kerning_eqb t.

(** ---------- fontinfo.plist: the schema-directed codec on norad's FontInfo schema ---------- *)
Require Import Norad.Model.FontRealInfo Norad.Model.FontInfoFile Norad.Model.FontInfoSchema Norad.Model.FontInfoView.
Fixpoint sval_eqb (a b : sval) : bool :=
  match a, b with
  | VStr s1, VStr s2 => str_eqb s1 s2
  | VBool b1, VBool b2 => Bool.eqb b1 b2
  | VInt z1, VInt z2 => (z1 =? z2)%Z
  | VNum x1, VNum x2 => fl_same x1 x2
  | VList l1, VList l2 | VRec l1, VRec l2 =>
      (fix go (x y : list sval) : bool :=
         match x, y with
         | [], [] => true
         | p :: x', q :: y' => sval_eqb p q && go x' y'
         | _, _ => false
         end) l1 l2
  | VOpt None, VOpt None => true
  | VOpt (Some x), VOpt (Some y) => sval_eqb x y
  | _, _ => false
  end.
(** 5 = the value handed over is not a value of the schema (the driver's conversion is off) *)
(** 6 = the hand-written deserialisers' checks and [validate], run on the view of the value
    ([FI.fi_load (raw_of_sval v)], Model/FontInfoView.v), refuse a file norad loaded *)
Definition view_loads (v : sval) : bool :=
  match FI.fi_load (raw_of_sval v) with Ok _ => true | _ => false end.
Definition k_info (t : tabs) (v : sval) (n : node) : N :=
  if negb (wt font_info_schema v) then 5
  else match chk (write_s font_info_schema) (read_s font_info_schema) sval_eqb t v n with
       | 0 => if view_loads v then 0 else 6
       | c => c
       end.
Definition r_info (t : tabs) (v : sval) (n : node) : N :=
  match chk_r (read_s font_info_schema) sval_eqb t v n with
  | 0 => if view_loads v then 0 else 6
  | c => c
  end.
