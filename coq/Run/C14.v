(** Executable glue for the correspondence run of C14: generated format-1/2 UFO trees as
    Gallina terms, dump of the model's / the specification's outcome as a [tm] tree in the
    format the harness prints what norad did. *)
From Coq Require Import Ascii String.
Require Export Norad.Run.RunBase Norad.Model.Upconv.
Open Scope string_scope.
Open Scope Z_scope.

(** byte lists to strings (string values arrive as byte lists: no escaping issues) *)
Definition bs (l : list Z) : string := string_of_list_ascii (map (fun z => ascii_of_N (Z.to_N z)) l).
Definition tm_bytes (s : string) : tm := L_ (map (fun a => N_ (N_of_ascii a)) (list_ascii_of_string s)).

Definition tm_Z (z : Z) : tm :=
  if z <? 0 then L_ [N_ 1; N_ (Z.to_N (- z))] else L_ [N_ 0; N_ (Z.to_N z)].

Definition tm_f64 (x : f64) : tm :=
  match f_norm x with
  | Fin m e => L_ [N_ 0; tm_Z m; tm_Z e]
  | NegZero => L_ [N_ 1]
  | Inf n => L_ [N_ 2; tm_bool n]
  | NaN => L_ [N_ 3]
  end.

Definition tm_val (v : val) : tm :=
  match v with
  | VNum x => L_ [N_ 0; tm_f64 x]
  | VInt z => L_ [N_ 1; tm_Z z]
  | VStr s => L_ [N_ 2; tm_bytes s]
  | VBool b => L_ [N_ 3; tm_bool b]
  | VNums l => L_ [N_ 4; L_ (map tm_f64 l)]
  | VInts l => L_ [N_ 5; L_ (map tm_Z l)]
  end.

(** the info: the attributes that are set, in format-3 attribute order, as (index, value) *)
Fixpoint tm_info_aux (i : kv) (idx : N) (keys : list string) : list tm :=
  match keys with
  | [] => []
  | k :: keys' =>
      match get i k with
      | Some v => L_ [N_ idx; tm_val v] :: tm_info_aux i (idx + 1)%N keys'
      | None => tm_info_aux i (idx + 1)%N keys'
      end
  end.
Definition tm_info (i : kv) : tm := L_ (tm_info_aux i 0%N ufo3_order).

Fixpoint tm_pval (p : pval) : tm :=
  match p with
  | PInt z => L_ [N_ 0; tm_Z z]
  | PReal x => L_ [N_ 1; tm_f64 x]
  | PStr s => L_ [N_ 2; tm_bytes s]
  | PBool b => L_ [N_ 3; tm_bool b]
  | PData s => L_ [N_ 4; tm_bytes s]
  | PArr l => L_ [N_ 5; L_ (map tm_pval l)]
  | PDict d => L_ [N_ 6; L_ (map (fun kp => match kp with (k, q) => L_ [tm_bytes k; tm_pval q] end) d)]
  end.

(** the top level of the lib is compared as a map: sorted by key *)
Fixpoint insert_kp (kp : string * pval) (l : pdict) : pdict :=
  match l with
  | [] => [kp]
  | x :: l' => if str_leb (fst kp) (fst x) then kp :: l else x :: insert_kp kp l'
  end.
Definition sort_dict (d : pdict) : pdict := fold_right insert_kp [] d.
Definition tm_lib (d : pdict) : tm :=
  L_ (map (fun kp => match kp with (k, q) => L_ [tm_bytes k; tm_pval q] end) (sort_dict d)).

Definition tm_cerr (e : cerr) : tm :=
  match e with
  | UnknownFontStyle z => L_ [N_ 1; tm_Z z]
  | UnknownMsCharSet z => L_ [N_ 2; tm_Z z]
  | UnknownWidthClass s => L_ [N_ 3; tm_bytes s]
  | IllTyped => L_ [N_ 4]
  end.
Definition tm_kerr (e : kerr) : tm :=
  match e with
  | KConv c => tm_cerr c
  | KBadDate => L_ [N_ 5]
  | KSelection => L_ [N_ 6]
  | KFamilyClass => L_ [N_ 7]
  | KListLen name max len => L_ [N_ 8; tm_bytes name; tm_Z max; tm_Z len]
  | KListPairs name => L_ [N_ 9; tm_bytes name]
  | KOther name => L_ [N_ 10; tm_bytes name]
  end.
Definition tm_lerr (e : lerr) : tm :=
  match e with
  | EFontInfoParse => L_ [N_ 1]
  | EFontInfoUpconv k => L_ [N_ 2; tm_kerr k]
  | ELibParse => L_ [N_ 3]
  | EV1Lib k => L_ [N_ 4; tm_kerr k]
  | EVersion => L_ [N_ 9]
  end.

Definition tm_outcome (r : result loaded lerr) : tm :=
  match r with
  | Ok l => L_ [N_ 0; tm_Z (l_version l); tm_info (l_info l); tm_bytes (l_features l); tm_lib (l_lib l)]
  | Err e => L_ [N_ 1; tm_lerr e]
  | Panic s => L_ [N_ 2; N_ s]
  end.

Definition mk (v : Z) (fi : option pdict) (lib : option pdict) (fea : option string) : ufo :=
  {| u_version := v; u_fontinfo := fi; u_lib := lib; u_features := fea |}.

(** a case: the request (lib?, features?) and the tree *)
Definition rq (l f : bool) : request := {| q_lib := l; q_features := f |}.
Definition case := (request * ufo)%type.
Definition run_model (c : case) : tm := tm_outcome (load_model (fst c) (snd c)).
Definition run_spec (c : case) : tm := tm_outcome (load_spec (fst c) (snd c)).

(** does the legacy fontinfo have the legacy types?  (the property speaks about legacy
    attributes with legal values; ill-typed files are compared with the model only) *)
Definition well_typed (u : ufo) : bool :=
  match u_fontinfo u with
  | Some raw =>
      match decode_fields (if u_version u =? 1 then v1_schema else v2_schema) raw with
      | Some _ => true
      | None => false
      end
  | None => true
  end.
Definition typed_flags (cs : list (case * tm)) : list bool := map (fun c => well_typed (snd (fst c))) cs.
