(** Correspondence run of C05: see Run/FontRun.v. *)
Require Export Norad.Run.RunBase Norad.Run.FontRun.
