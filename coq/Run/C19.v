(** Executable glue for the correspondence run of C19: a generated UFO arrives as
    (name table, layers of tasks with names as table indices, seed); the model loads it under
    pseudo-random schedules derived from the seed (uniform, bursty, reversed), sequentially, and
    by the specification, and dumps the font with names as table indices. *)
Require Import Norad.Run.RunBase Norad.Model.Interleave.
Open Scope N_scope.

Definition ctask := (N * option str * list N * option N)%type.
  (* key, plain file name of the contents value (None: not plain), interned names (inner name, bases), payload or failure *)
Definition clayer := (N * list ctask)%type.           (* layer name, tasks in the order of contents *)
Definition case := (list str * list clayer * N)%type. (* table, layers, seed *)

Definition tbl (t : list str) (i : N) : str := nth (N.to_nat i) t [].
Fixpoint idx_of (t : list str) (c : str) (i : N) : N :=
  match t with
  | [] => 999999999
  | x :: r => if str_eqb x c then i else idx_of r c (i + 1)
  end.

Fixpoint mapi_aux {A B} (f : N -> A -> B) (i : N) (l : list A) : list B :=
  match l with [] => [] | x :: r => f i x :: mapi_aux f (i + 1) r end.
Definition mapi {A B} (f : N -> A -> B) (l : list A) : list B := mapi_aux f 0 l.

(** every request is its own allocation *)
Definition mk_task (t : list str) (li ti : N) (ct : ctask) : task :=
  let '(k, file, reqs, out) := ct in
  let base := li * 1099511627776 + ti * 1048576 in
  mkTask (tbl t k, base) file (mapi (fun j r => (tbl t r, base + 1 + j)) reqs)
         (match out with Some p => TOk p | None => TErr 1 end).
Definition mk_layers (t : list str) (ls : list clayer) : list layer_in :=
  mapi (fun li l => (tbl t (fst l), mapi (fun ti ct => mk_task t li ti ct) (snd l))) ls.

(** schedules: a 64-bit LCG; every draw picks a thread and lets it run for 1..burst steps *)
Definition lcg (x : N) : N := (x * 6364136223846793005 + 1442695040888963407) mod 18446744073709551616.
Fixpoint gen_sched (fuel : nat) (x n burst : N) : list nat :=
  match fuel with
  | O => []
  | S f => let x' := lcg x in
           let th := N.to_nat ((x' / 8589934592) mod n) in
           let k := N.to_nat (1 + (x' / 1048576) mod burst) in
           repeat th k ++ gen_sched f x' n burst
  end.
Definition total_steps (ts : list task) : nat :=
  fold_left (fun a t => (a + 3 * length (prog_of t) + 1)%nat) ts 0%nat.
Definition sched_for (seed : N) (li : N) (ts : list task) : list nat :=
  let n := N.of_nat (length ts) in
  if n =? 0 then [] else
  let x := lcg (seed * 1000003 + li) in
  match x mod 3 with
  | 0 => gen_sched (2 * total_steps ts) x n 1
  | 1 => gen_sched (total_steps ts) x n 5
  | _ => (* the second half of the threads runs first, in reverse, then a random tail *)
         flat_map (fun i => repeat i (3 * length (prog_of (nth i ts (mkTask ([], 0%N) None [] (TErr 0%N)))) + 1)%nat)
                  (rev (seq (length ts / 2) (length ts - length ts / 2)))
         ++ gen_sched (total_steps ts) x n 2
  end.

Definition dump_font (t : list str) (o : option (list (str * omap glyphC))) : tm :=
  match o with
  | None => L_ []
  | Some ls =>
      L_ [L_ (map (fun lm : str * omap glyphC =>
                L_ [N_ (idx_of t (fst lm) 0);
                    L_ (map (fun kg : str * glyphC =>
                               let '(k, (nmc, bases, p)) := kg in
                               L_ [N_ (idx_of t k 0); N_ (idx_of t nmc 0);
                                   L_ (map (fun b => N_ (idx_of t b 0)) bases); N_ p]) (snd lm))]) ls)]
  end.

(** the model's prediction; if the three ways of computing it disagree (impossible by
    C19_par_eq_seq, kept as a run-time cross-check of the executable definitions) all three are shown *)
Definition run_case (c : case) : tm :=
  let '(t, cls, seed) := c in
  let ls := mk_layers t cls in
  let scheds := mapi (fun li l => sched_for seed li (snd l)) ls in
  let par := dump_font t (erase_font (snd (par_font ascii_lower scheds [] ls))) in
  let sq := dump_font t (erase_font (snd (seq_font ascii_lower [] ls))) in
  let sp := dump_font t (spec_font ascii_lower ls) in
  if tm_eqb par sq && tm_eqb par sp then par else L_ [N_ 666; par; sq; sp].

(** how racy the schedules of a case were: number of [get]s that returned the caller's own
    allocation although the interner holds another one for the same content (both-miss races) *)
Definition races (c : case) : N :=
  let '(t, cls, seed) := c in
  let ls := mk_layers t cls in
  let scheds := mapi (fun li l => sched_for seed li (snd l)) ls in
  (fix go (scheds : list (list nat)) (s : nset) (ls : list layer_in) (acc : N) : N :=
     match ls with
     | [] => acc
     | (_, ts) :: r =>
         let st := run (hd [] scheds) s (map prog_of ts) in
         let lost := fold_left (fun a th =>
                       fold_left (fun a m => match lookup (m_set st) (content m) with
                                             | Some m' => if snd m' =? snd m then a else a + 1
                                             | None => a + 1000000 end) (th_got th) a) (m_thr st) 0 in
         go (tl scheds) (m_set st) r (acc + lost)
     end) scheds [] ls 0.
