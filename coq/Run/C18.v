(** Executable glue for the correspondence run of C18: the designspace model instantiated with
    floats / dates carried as their printed text (what the harness observed from [Display] and
    [to_xml_format]), a concrete base64, short constructor names for the generated case files,
    equality on documents, and the per-case comparison. *)
Require Import Norad.Run.RunBase Norad.Model.Designspace.
From Coq Require Import Uint63.
Open Scope string_scope.

(** ** L1 instances used for execution only (nothing is proved about them) *)
(** a float travels as its [Display] text; parsing accepts exactly texts over the alphabet of
    such texts (the decoder-side cases only ever replace a float by text outside it) *)
Definition float_char (c : ascii) : bool :=
  let n := N_of_ascii c in
  ((48 <=? n) && (n <=? 57))%N || existsb (N.eqb n) [46; 45; 101; 105; 110; 102; 78; 97]%N.
Fixpoint all_chars (f : ascii -> bool) (s : string) : bool :=
  match s with EmptyString => true | String c r => f c && all_chars f r end.
Definition float_parse (s : string) : option string :=
  match s with
  | EmptyString => None
  | _ => if all_chars float_char s then Some s else None
  end.
Definition id_s (s : string) : string := s.
(** a date travels as its plist XML text; parsing accepts the RFC 3339 shape
    YYYY-MM-DDTHH:MM:SS[.fraction]Z that [to_xml_format] produces *)
Definition is_digit (c : ascii) : bool := let n := N_of_ascii c in ((48 <=? n) && (n <=? 57))%N.
Definition date_shape (l : list ascii) : bool :=
  match l with
  | y1 :: y2 :: y3 :: y4 :: d1 :: m1 :: m2 :: d2 :: a1 :: a2 :: t :: h1 :: h2 :: c1 :: i1 :: i2
       :: c2 :: s1 :: s2 :: rest =>
      forallb is_digit [y1; y2; y3; y4; m1; m2; a1; a2; h1; h2; i1; i2; s1; s2]
      && Ascii.eqb d1 "-" && Ascii.eqb d2 "-" && Ascii.eqb t "T" && Ascii.eqb c1 ":" && Ascii.eqb c2 ":"
      && match rest with
         | [z] => Ascii.eqb z "Z"
         | dot :: f :: more =>
             Ascii.eqb dot "." && is_digit f
             && match rev more with z :: ds => Ascii.eqb z "Z" && forallb is_digit ds | [] => false end
         | [] => false
         end
  | _ => false
  end.
Definition date_parse_s (s : string) : option string :=
  if date_shape (list_ascii_of_string s) then Some s else None.

(** base64, standard alphabet, padded, canonical *)
Definition b64_alphabet : list ascii :=
  list_ascii_of_string "ABCDEFGHIJKLMNOPQRSTUVWXYZabcdefghijklmnopqrstuvwxyz0123456789+/".
Definition b64_char (n : N) : ascii := nth (N.to_nat n) b64_alphabet "?"%char.
Definition pad_c : ascii := "="%char.
Fixpoint b64_enc_l (l : list N) : list ascii :=
  match l with
  | a :: b :: c :: r =>
      let n := (a * 65536 + b * 256 + c)%N in
      b64_char (n / 262144) :: b64_char ((n / 4096) mod 64) :: b64_char ((n / 64) mod 64)
               :: b64_char (n mod 64) :: b64_enc_l r
  | [a; b] =>
      let n := (a * 65536 + b * 256)%N in
      [b64_char (n / 262144); b64_char ((n / 4096) mod 64); b64_char ((n / 64) mod 64); pad_c]
  | [a] =>
      let n := (a * 65536)%N in
      [b64_char (n / 262144); b64_char ((n / 4096) mod 64); pad_c; pad_c]
  | [] => []
  end.
Definition bytes_of (s : string) : list N := map N_of_ascii (list_ascii_of_string s).
Definition string_of_bytes (l : list N) : string := string_of_list_ascii (map ascii_of_N l).
Definition b64_enc_s (s : string) : string := string_of_list_ascii (b64_enc_l (bytes_of s)).

Fixpoint index_of (c : ascii) (l : list ascii) (i : N) : option N :=
  match l with
  | [] => None
  | x :: r => if Ascii.eqb c x then Some i else index_of c r (i + 1)%N
  end.
Definition b64_val (c : ascii) : option N := index_of c b64_alphabet 0.
Fixpoint b64_dec_l (fuel : nat) (l : list ascii) : option (list N) :=
  match fuel with
  | O => None
  | S f =>
      match l with
      | [] => Some []
      | [a; b; c; d] =>
          match b64_val a, b64_val b with
          | Some x, Some y =>
              if Ascii.eqb c pad_c && Ascii.eqb d pad_c then
                if N.eqb (y mod 16) 0 then Some [(x * 4 + y / 16)%N] else None
              else match b64_val c with
                   | Some z =>
                       if Ascii.eqb d pad_c then
                         if N.eqb (z mod 4) 0
                         then Some [(x * 4 + y / 16)%N; ((y mod 16) * 16 + z / 4)%N] else None
                       else match b64_val d with
                            | Some w => Some [(x * 4 + y / 16)%N; ((y mod 16) * 16 + z / 4)%N;
                                              ((z mod 4) * 64 + w)%N]
                            | None => None
                            end
                   | None => None
                   end
          | _, _ => None
          end
      | a :: b :: c :: d :: r =>
          match b64_val a, b64_val b, b64_val c, b64_val d, b64_dec_l f r with
          | Some x, Some y, Some z, Some w, Some rest =>
              Some ((x * 4 + y / 16)%N :: ((y mod 16) * 16 + z / 4)%N :: ((z mod 4) * 64 + w)%N :: rest)
          | _, _, _, _, _ => None
          end
      | _ => None
      end
  end.
Definition b64_dec_s (s : string) : option string :=
  option_map string_of_bytes (b64_dec_l (S (String.length s)) (list_ascii_of_string s)).

(** ** The instantiated model *)
Definition RL : l1 :=
  {| l_F32 := string; l_f32_print := id_s; l_f32_parse := float_parse;
     l_F64 := string; l_f64_print := id_s; l_f64_parse := float_parse;
     l_DATE := string; l_date_print := id_s; l_date_parse := date_parse_s;
     l_b64_enc := b64_enc_s; l_b64_dec := b64_dec_s |}.
Notation Pv := (pv RL).
Notation Doc := (doc RL).
Definition enc : Doc -> node := ds_encode RL.
Definition dec : node -> option Doc := ds_decode RL.
Definition wfb : Doc -> bool := ds_wfb RL.
Definition classb : Doc -> bool := known_class_b RL.
Definition spec_write : Doc -> node := spec_ds_write RL.

(** a string with bytes the case-file writer prefers not to put into a literal *)
Definition bs (l : list N) : string := string_of_bytes l.

(** Strings in the generated case files travel packed, seven bytes per primitive integer
    (big-endian, the last one padded with zero bytes), with their length: Coq reads integer
    literals an order of magnitude faster than string literals. *)
Definition ascii_of_int (i : int) : ascii :=
  Ascii (negb (Uint63.eqb (i land 1) 0)) (negb (Uint63.eqb (i land 2) 0)) (negb (Uint63.eqb (i land 4) 0))
        (negb (Uint63.eqb (i land 8) 0)) (negb (Uint63.eqb (i land 16) 0)) (negb (Uint63.eqb (i land 32) 0))
        (negb (Uint63.eqb (i land 64) 0)) (negb (Uint63.eqb (i land 128) 0)).
Fixpoint unpack (l : list int) : list ascii :=
  match l with
  | [] => []
  | i :: r => ascii_of_int (i >> 48) :: ascii_of_int (i >> 40) :: ascii_of_int (i >> 32)
              :: ascii_of_int (i >> 24) :: ascii_of_int (i >> 16) :: ascii_of_int (i >> 8)
              :: ascii_of_int i :: unpack r
  end.
Definition u (len : nat) (l : list int) : string := string_of_list_ascii (firstn len (unpack l)).

(** short constructors for the generated case files *)
Definition S_ (s : string) : Pv := PStr RL s.
Definition I_ (z : Z) : Pv := PInt RL z.
Definition R_ (r : string) : Pv := PReal RL r.
Definition B_ (b : bool) : Pv := PBool RL b.
Definition D_ (d : string) : Pv := PData RL d.
Definition T_ (t : string) : Pv := PDate RL t.
Definition A_ (l : list Pv) : Pv := PArr RL l.
Definition M_ (l : list (string * Pv)) : Pv := PDict RL l.
Definition Mp : string -> string -> mapping RL := Build_mapping RL.
Definition Ax : string -> string -> string -> bool -> option string -> option string ->
                option (list string) -> option (list (mapping RL)) -> axis RL := Build_axis RL.
Definition Co : string -> option string -> option string -> condition RL := Build_condition RL.
Definition Su := Build_subst.
Definition Ru := Build_rule RL.
Definition Rs := Build_rules RL.
Definition Di : string -> option string -> option string -> option string -> dimension RL :=
  Build_dimension RL.
Definition So := Build_source RL.
Definition In := Build_instance RL.
Definition Ds : string -> list (axis RL) -> rules RL -> list (source RL) -> list (instance RL) ->
                list (string * Pv) -> Doc := Build_doc RL.

(** the vocabulary as constants (an identifier is read faster than a literal) *)
Definition q_designspace : string := "designspace".
Definition q_axes : string := "axes".
Definition q_axis : string := "axis".
Definition q_map : string := "map".
Definition q_rules : string := "rules".
Definition q_rule : string := "rule".
Definition q_conditionset : string := "conditionset".
Definition q_condition : string := "condition".
Definition q_sub : string := "sub".
Definition q_sources : string := "sources".
Definition q_source : string := "source".
Definition q_location : string := "location".
Definition q_dimension : string := "dimension".
Definition q_instances : string := "instances".
Definition q_instance : string := "instance".
Definition q_lib : string := "lib".
Definition q_dict : string := "dict".
Definition q_key : string := "key".
Definition q_string : string := "string".
Definition q_integer : string := "integer".
Definition q_real : string := "real".
Definition q_data : string := "data".
Definition q_date : string := "date".
Definition q_array : string := "array".
Definition q_true : string := "true".
Definition q_false : string := "false".
Definition q_name : string := "name".
Definition q_tag : string := "tag".
Definition q_default : string := "default".
Definition q_hidden : string := "hidden".
Definition q_minimum : string := "minimum".
Definition q_maximum : string := "maximum".
Definition q_values : string := "values".
Definition q_input : string := "input".
Definition q_output : string := "output".
Definition q_processing : string := "processing".
Definition q_with : string := "with".
Definition q_uservalue : string := "uservalue".
Definition q_xvalue : string := "xvalue".
Definition q_yvalue : string := "yvalue".
Definition q_familyname : string := "familyname".
Definition q_stylename : string := "stylename".
Definition q_filename : string := "filename".
Definition q_layer : string := "layer".
Definition q_postscriptfontname : string := "postscriptfontname".
Definition q_stylemapfamilyname : string := "stylemapfamilyname".
Definition q_stylemapstylename : string := "stylemapstylename".
Definition q_format : string := "format".
Definition q_unknown : string := "unknown".
Definition q_copy : string := "copy".
Definition q_zz : string := "zz".
Definition q_first : string := "first".
Definition q_last : string := "last".

(** ** Equality on instantiated documents *)
Definition opt_eqb {A} (e : A -> A -> bool) (a b : option A) : bool :=
  match a, b with
  | None, None => true
  | Some x, Some y => e x y
  | _, _ => false
  end.
Definition seqb := String.eqb.
Definition oseqb := opt_eqb seqb.
Fixpoint pv_eqb (a b : Pv) {struct a} : bool :=
  match a, b with
  | PStr _ x, PStr _ y => seqb x y
  | PInt _ x, PInt _ y => Z.eqb x y
  | PReal _ x, PReal _ y => seqb x y
  | PBool _ x, PBool _ y => Bool.eqb x y
  | PData _ x, PData _ y => seqb x y
  | PDate _ x, PDate _ y => seqb x y
  | PArr _ x, PArr _ y =>
      (fix go (x y : list Pv) {struct x} : bool :=
         match x, y with
         | [], [] => true
         | p :: x', q :: y' => pv_eqb p q && go x' y'
         | _, _ => false
         end) x y
  | PDict _ x, PDict _ y =>
      (fix go (x y : list (string * Pv)) {struct x} : bool :=
         match x, y with
         | [], [] => true
         | (k, p) :: x', (k', q) :: y' => seqb k k' && pv_eqb p q && go x' y'
         | _, _ => false
         end) x y
  | _, _ => false
  end.
Definition dict_eqb (a b : list (string * Pv)) : bool := pv_eqb (M_ a) (M_ b).
Definition mapping_eqb (a b : mapping RL) : bool :=
  seqb (m_input _ a) (m_input _ b) && seqb (m_output _ a) (m_output _ b).
Definition axis_eqb (a b : axis RL) : bool :=
  seqb (ax_name _ a) (ax_name _ b) && seqb (ax_tag _ a) (ax_tag _ b)
  && seqb (ax_default _ a) (ax_default _ b) && Bool.eqb (ax_hidden _ a) (ax_hidden _ b)
  && oseqb (ax_minimum _ a) (ax_minimum _ b) && oseqb (ax_maximum _ a) (ax_maximum _ b)
  && opt_eqb (list_eqb seqb) (ax_values _ a) (ax_values _ b)
  && opt_eqb (list_eqb mapping_eqb) (ax_map _ a) (ax_map _ b).
Definition condition_eqb (a b : condition RL) : bool :=
  seqb (c_name _ a) (c_name _ b) && oseqb (c_minimum _ a) (c_minimum _ b)
  && oseqb (c_maximum _ a) (c_maximum _ b).
Definition subst_eqb (a b : subst) : bool :=
  seqb (sub_name a) (sub_name b) && seqb (sub_with a) (sub_with b).
Definition rule_eqb (a b : rule RL) : bool :=
  oseqb (r_name _ a) (r_name _ b)
  && list_eqb (list_eqb condition_eqb) (r_condsets _ a) (r_condsets _ b)
  && list_eqb subst_eqb (r_subs _ a) (r_subs _ b).
Definition processing_eqb (a b : processing) : bool :=
  match a, b with PFirst, PFirst => true | PLast, PLast => true | _, _ => false end.
Definition rules_eqb (a b : rules RL) : bool :=
  processing_eqb (rs_processing _ a) (rs_processing _ b)
  && list_eqb rule_eqb (rs_rules _ a) (rs_rules _ b).
Definition dimension_eqb (a b : dimension RL) : bool :=
  seqb (d_name _ a) (d_name _ b) && oseqb (d_uservalue _ a) (d_uservalue _ b)
  && oseqb (d_xvalue _ a) (d_xvalue _ b) && oseqb (d_yvalue _ a) (d_yvalue _ b).
Definition source_eqb (a b : source RL) : bool :=
  oseqb (s_familyname _ a) (s_familyname _ b) && oseqb (s_stylename _ a) (s_stylename _ b)
  && oseqb (s_name _ a) (s_name _ b) && seqb (s_filename _ a) (s_filename _ b)
  && oseqb (s_layer _ a) (s_layer _ b)
  && list_eqb dimension_eqb (s_location _ a) (s_location _ b).
Definition instance_eqb (a b : instance RL) : bool :=
  oseqb (i_familyname _ a) (i_familyname _ b)
  && oseqb (i_stylename _ a) (i_stylename _ b)
  && oseqb (i_name _ a) (i_name _ b) && oseqb (i_filename _ a) (i_filename _ b)
  && oseqb (i_postscriptfontname _ a) (i_postscriptfontname _ b)
  && oseqb (i_stylemapfamilyname _ a) (i_stylemapfamilyname _ b)
  && oseqb (i_stylemapstylename _ a) (i_stylemapstylename _ b)
  && list_eqb dimension_eqb (i_location _ a) (i_location _ b)
  && dict_eqb (i_lib _ a) (i_lib _ b).
Definition doc_eqb (a b : Doc) : bool :=
  seqb (ds_format _ a) (ds_format _ b)
  && list_eqb axis_eqb (ds_axes _ a) (ds_axes _ b)
  && rules_eqb (ds_rules _ a) (ds_rules _ b)
  && list_eqb source_eqb (ds_sources _ a) (ds_sources _ b)
  && list_eqb instance_eqb (ds_instances _ a) (ds_instances _ b)
  && dict_eqb (ds_lib _ a) (ds_lib _ b).

(** ** Hashes.  The case files carry documents and trees once; what the implementation produced
    (the tree the independent reader found in the file, the document [load] returned) arrives as a
    64-bit hash of a canonical traversal, computed the same way by the driver. *)
Definition hprime : int := 1099511628211%uint63.
Definition hinit : int := 5472609002491880229%uint63.      (* the FNV offset basis mod 2^63 *)
(** arithmetic of primitive integers is modulo 2^63 *)
Definition mix (h n : int) : int := ((h lxor n) * hprime)%uint63.
Definition bit (b : bool) (v : int) : int := if b then v else 0%uint63.
Definition int_of_ascii (c : ascii) : int :=
  match c with
  | Ascii b0 b1 b2 b3 b4 b5 b6 b7 =>
      (bit b0 1 + bit b1 2 + bit b2 4 + bit b3 8 + bit b4 16 + bit b5 32 + bit b6 64 + bit b7 128)%uint63
  end.
Fixpoint hash_bytes (h : int) (s : string) : int :=
  match s with
  | EmptyString => h
  | String c r => hash_bytes (mix h (int_of_ascii c)) r
  end.
Definition hash_str (h : int) (s : string) : int := mix (hash_bytes (mix h 1000%uint63) s) 1001%uint63.
Fixpoint hash_node (h : int) (n : node) : int :=
  match n with
  | Text s => hash_str (mix h 2000%uint63) s
  | Elem name attrs kids =>
      let h1 := hash_str (mix h 2001%uint63) name in
      let h2 := fold_left (fun a kv => hash_str (hash_str (mix a 2002%uint63) (fst kv)) (snd kv)) attrs h1 in
      mix ((fix go (h : int) (l : list node) : int :=
              match l with [] => h | k :: r => go (hash_node h k) r end) (mix h2 2003%uint63) kids) 2004%uint63
  end.

(** a faithful dump of a document as a tree (every field explicit), so that the same hash serves *)
Definition T0 (n : string) : node := Elem n [] [].
Definition dump_s (tag : string) (s : string) : node := Elem tag [("v", s)] [].
Definition dump_os (tag : string) (o : option string) : node :=
  match o with None => Elem tag [] [] | Some s => Elem tag [("v", s)] [] end.
Fixpoint dump_pv (v : Pv) : node :=
  match v with
  | PStr _ s => dump_s "s" s
  | PInt _ z => dump_s "i" (print_int z)
  | PReal _ r => dump_s "r" r
  | PBool _ b => T0 (if b then "bt" else "bf")
  | PData _ d => dump_s "d" d
  | PDate _ t => dump_s "t" t
  | PArr _ l => Elem "a" [] ((fix go (l : list Pv) : list node :=
                                  match l with [] => [] | x :: r => dump_pv x :: go r end) l)
  | PDict _ l => Elem "m" [] ((fix go (l : list (string * Pv)) : list node :=
                                   match l with
                                   | [] => []
                                   | (k, x) :: r => dump_s "k" k :: dump_pv x :: go r
                                   end) l)
  end.
Definition dump_dims (l : list (dimension RL)) : node :=
  Elem "loc" [] (map (fun d : dimension RL => Elem "dim" [] [dump_s "name" (d_name _ d); dump_os "u" (d_uservalue _ d);
                                             dump_os "x" (d_xvalue _ d); dump_os "y" (d_yvalue _ d)]) l).
Definition dump_doc (d : Doc) : node :=
  Elem "doc" []
    [ dump_s "format" (ds_format _ d);
      Elem "axes" [] (map (fun a : axis RL =>
        Elem "axis" []
          [dump_s "name" (ax_name _ a); dump_s "tag" (ax_tag _ a); dump_s "default" (ax_default _ a);
           T0 (if ax_hidden _ a then "bt" else "bf"); dump_os "min" (ax_minimum _ a);
           dump_os "max" (ax_maximum _ a);
           match ax_values _ a with None => T0 "novalues" | Some l => Elem "values" [] (map (dump_s "f") l) end;
           match ax_map _ a with
           | None => T0 "nomap"
           | Some l => Elem "map" [] (map (fun m : mapping RL => Elem "m" [] [dump_s "i" (m_input _ m); dump_s "o" (m_output _ m)]) l)
           end]) (ds_axes _ d));
      T0 (match rs_processing _ (ds_rules _ d) with PFirst => "first" | PLast => "last" end);
      Elem "rules" [] (map (fun r : rule RL =>
        Elem "rule" []
          [dump_os "name" (r_name _ r);
           Elem "css" [] (map (fun cs : list (condition RL) => Elem "cs" [] (map (fun c : condition RL =>
              Elem "c" [] [dump_s "name" (c_name _ c); dump_os "min" (c_minimum _ c); dump_os "max" (c_maximum _ c)]) cs))
              (r_condsets _ r));
           Elem "subs" [] (map (fun s => Elem "sub" [] [dump_s "n" (sub_name s); dump_s "w" (sub_with s)]) (r_subs _ r))])
        (rs_rules _ (ds_rules _ d)));
      Elem "sources" [] (map (fun s : source RL =>
        Elem "source" []
          [dump_os "familyname" (s_familyname _ s); dump_os "stylename" (s_stylename _ s); dump_os "name" (s_name _ s);
           dump_s "filename" (s_filename _ s); dump_os "layer" (s_layer _ s); dump_dims (s_location _ s)])
        (ds_sources _ d));
      Elem "instances" [] (map (fun s : instance RL =>
        Elem "instance" []
          [dump_os "familyname" (i_familyname _ s); dump_os "stylename" (i_stylename _ s);
           dump_os "name" (i_name _ s); dump_os "filename" (i_filename _ s);
           dump_os "postscriptfontname" (i_postscriptfontname _ s);
           dump_os "stylemapfamilyname" (i_stylemapfamilyname _ s);
           dump_os "stylemapstylename" (i_stylemapstylename _ s);
           dump_dims (i_location _ s); dump_pv (M_ (i_lib _ s))])
        (ds_instances _ d));
      dump_pv (M_ (ds_lib _ d)) ].
Definition hash_doc (d : Doc) : int := hash_node hinit (dump_doc d).

(** ** Cases *)
(** what [DesignSpaceDocument::load] did with the saved file: the same document, another one
    (hash of its dump), an error *)
Inductive loaded := LSame | LOther (h : int) | LErr.
(** what the independent reader found in the saved file: not XML, or a tree (its hash) *)
Inductive readback := FBad | FTree (h : int).
Record case := {
  k_doc : Doc; k_file : readback; k_load : loaded;
  k_wf : bool; k_trim : bool; k_unclean : bool }.
Definition K := Build_case.

Definition onode_eqb (a : option node) (b : readback) : bool :=
  match a, b with
  | None, FBad => true
  | Some x, FTree h => Uint63.eqb (hash_node hinit x) h
  | _, _ => false
  end.
Definition load_agrees (d : Doc) (m : option Doc) (l : loaded) : bool :=
  match m, l with
  | None, LErr => true
  | Some x, LSame => doc_eqb x d
  | Some x, LOther h => Uint63.eqb (hash_doc x) h && negb (doc_eqb x d)
  | _, _ => false
  end.
(** bit 1: the written file (as a conforming reader sees it) differs from the model's tree;
    2: load differs from the model's decode; 4: well-formedness flag; 8: known-class flag;
    16: reader-class flag; 32: the specification writer's tree differs (up to attribute order) *)
Definition check (c : case) : N :=
  let d := k_doc c in
  let t := enc d in
  ((if onode_eqb (reader_view t) (k_file c) then 0 else 1)
   + (if load_agrees d (dec t) (k_load c) then 0 else 2)
   + (if Bool.eqb (wfb d) (k_wf c) then 0 else 4)
   + (if Bool.eqb (classb d) (k_trim c) then 0 else 8)
   + (if Bool.eqb (node_unclean t) (k_unclean c) then 0 else 16)
   + (if node_eqb (norm_node t) (norm_node (spec_write d)) then 0 else 32))%N.
Fixpoint run_aux (i : N) (cs : list case) : list (N * N) :=
  match cs with
  | [] => []
  | c :: r => let v := check c in
              if N.eqb v 0 then run_aux (i + 1)%N r else (i, v) :: run_aux (i + 1)%N r
  end.
Definition run_cases (cs : list case) : list (N * N) := run_aux 0%N cs.

(** decoder side: a tree (perturbed by the driver, written to a file, loaded by norad) and
    what the load returned (error, or the hash of the document's dump) *)
Inductive outcome := OErr | ODoc (h : int).
Definition dec_agrees (t : node) (o : outcome) : bool :=
  match dec t, o with
  | None, OErr => true
  | Some x, ODoc h => Uint63.eqb (hash_doc x) h
  | _, _ => false
  end.
Fixpoint run_dec_aux (i : N) (cs : list (node * outcome)) : list N :=
  match cs with
  | [] => []
  | (t, o) :: r => if dec_agrees t o then run_dec_aux (i + 1)%N r else i :: run_dec_aux (i + 1)%N r
  end.
Definition run_dec (cs : list (node * outcome)) : list N := run_dec_aux 0%N cs.
