(** C10 anchor: the hashed-collection inventory regenerated from /repo/src equals the committed
    catalogue, and every discharging argument named there is a proved theorem of Props/C10.v
    (or one of the two structural tags). *)
From Coq Require Import String List.
Import ListNotations.
Open Scope string_scope.
Require Import Gen.Anchors_C10 Norad.Model.HashSites Norad.Props.C10.

Lemma inventory_is_catalogued : extracted_sites = map fst catalogue.
Proof. vm_compute. reflexivity. Qed.

Definition arguments : list string :=
  ["C10_membership_only"; "C10_upconvert_glyphset_membership_only"; "C10_validate_membership_only";
   "C10_upconvert_order_independent"; "C10_store_write_commutes"; "C10_all_any_order_independent";
   "decl"; "exposed"].
Lemma arguments_known :
  forallb (fun e => existsb (String.eqb (snd e)) arguments) catalogue = true.
Proof. vm_compute. reflexivity. Qed.

Check C10_membership_only.
Check C10_upconvert_glyphset_membership_only.
Check C10_validate_membership_only.
Check C10_upconvert_order_independent.
Check C10_store_write_commutes.
Check C10_all_any_order_independent.
