(** The serde vocabulary regenerated from /repo/src (Gen.Anchors_C18) is the model's. *)
Require Import Norad.Model.Designspace Gen.Anchors_C18.
Lemma vocab_is_model : x_vocab = ds_vocab.
Proof. reflexivity. Qed.
Lemma wrappers_are_model : x_wrappers = ds_wrappers.
Proof. reflexivity. Qed.
Lemma processing_is_model : x_processing = ds_processing_names.
Proof. reflexivity. Qed.
Lemma plist_read_tags_are_model : x_plist_read = plist_read_tags.
Proof. reflexivity. Qed.
Lemma plist_write_tags_are_model : x_plist_write = plist_write_tags.
Proof. reflexivity. Qed.
Lemma key_tags_are_model : x_key_tags = [plist_key_tag; plist_key_tag].
Proof. reflexivity. Qed.
Lemma lib_wrapper_is_dict : x_lib_wrap = ["dict"; "dict"]%string.
Proof. reflexivity. Qed.
