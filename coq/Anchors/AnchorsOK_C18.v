(** The serde vocabulary regenerated from /repo/src (Gen.Anchors_C18) is the model's. *)
Require Import Norad.Model.Designspace Gen.Anchors_C18.
Lemma vocab_is_model : x_vocab = ds_vocab.
Proof. reflexivity. Qed.
Lemma wrappers_are_model : x_wrappers = ds_wrappers.
Proof. reflexivity. Qed.
Lemma processing_is_model : x_processing = ds_processing_names.
Proof. reflexivity. Qed.
Lemma plist_read_tags_are_model : x_plist_read = plist_read_tags.
Proof. reflexivity. Qed.
Lemma plist_write_tags_are_model : x_plist_write = plist_write_tags.
Proof. reflexivity. Qed.
Lemma key_tags_are_model : x_key_tags = [plist_key_tag; plist_key_tag].
Proof. reflexivity. Qed.
Lemma lib_wrapper_is_dict : x_lib_wrap = ["dict"; "dict"]%string.
Proof. reflexivity. Qed.

(** The serde schema (per field: XML key, type, skip_serializing_if predicate, default, with module;
    per struct: rename, rename_all, deny_unknown_fields, container default; enum variants and default;
    bodies of the crate-local predicates) regenerated from the source is the model's table, and the
    flag checks hold ON THE REGENERATED TABLE: no field whose omission the reader cannot undo, XML keys
    distinct per struct, flat attribute views round-trip, and the hypotheses the flags leave on
    values are exactly the ones [ds_wf] states. *)
Require Import Norad.Model.DsSchema.
Lemma schema_is_model : x_schema = ds_schema.
Proof. reflexivity. Qed.
Lemma enums_are_model : x_enums = ds_enums.
Proof. reflexivity. Qed.
Lemma helpers_are_model : x_helpers = ds_helpers.
Proof. reflexivity. Qed.
Lemma wrapper_helper_is_model : x_wrapper_helper = ds_wrapper_helper.
Proof. reflexivity. Qed.
Lemma extracted_schema_rt_ok : ds_schema_rt_ok x_helpers x_schema = true.
Proof. vm_compute. reflexivity. Qed.
Lemma extracted_hyps_are_ds_wf : ds_hyps x_helpers x_schema = ds_expected_hyps.
Proof. vm_compute. reflexivity. Qed.
Lemma extracted_attr_views_ok : forallb (fun st => aflat_ok (attr_view st)) x_schema = true.
Proof. vm_compute. reflexivity. Qed.
