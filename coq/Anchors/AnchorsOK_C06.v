(** The constants the file-name and container models use are the ones in norad's source:
    Gen.Anchors_C06.v is regenerated from src/util.rs and src/layer.rs on every run. *)
Require Import Norad.Model.Base Norad.Model.FileName Gen.Anchors_C06.
Open Scope N_scope.

Lemma anchor_special_illegal : x_SPECIAL_ILLEGAL = SPECIAL_ILLEGAL. Proof. reflexivity. Qed.
Lemma anchor_special_reserved : x_SPECIAL_RESERVED = SPECIAL_RESERVED. Proof. reflexivity. Qed.
Lemma anchor_max_len : x_MAX_LEN = MAX_LEN. Proof. reflexivity. Qed.
Lemma anchor_number_len : x_NUMBER_LEN = NUMBER_LEN /\ x_COUNTER_WIDTH = NUMBER_LEN. Proof. split; reflexivity. Qed.
Lemma anchor_counter_range : x_COUNTER_FIRST = COUNTER_FIRST /\ x_COUNTER_END = COUNTER_END. Proof. split; reflexivity. Qed.
Lemma anchor_trailing_set : x_TRAILING_SET = [SPACE; DOT]. Proof. reflexivity. Qed.
Lemma anchor_glyph_affixes : x_GLYPH_PREFIX = GLYPH_PREFIX /\ x_GLYPH_SUFFIX = GLYPH_SUFFIX. Proof. split; reflexivity. Qed.
Lemma anchor_layer_affixes : x_LAYER_PREFIX = LAYER_PREFIX /\ x_LAYER_SUFFIX = LAYER_SUFFIX. Proof. split; reflexivity. Qed.
Lemma anchor_default_layer_name : x_DEFAULT_LAYER_NAME = DEFAULT_LAYER_NAME. Proof. reflexivity. Qed.
Lemma anchor_default_glyphs_dirname : x_DEFAULT_GLYPHS_DIRNAME = DEFAULT_GLYPHS_DIRNAME. Proof. reflexivity. Qed.
