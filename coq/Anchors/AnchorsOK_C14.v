(** The anchors regenerated from norad's source on this run (Gen/Anchors_C14.v, written by
    lib/anchors_c14.py) equal the constants of the model and of the specification tables.
    A failure here means the tie between src/fontinfo.rs / src/upconversion.rs / src/font.rs and
    the Coq development is broken. *)
From Coq Require Import String.
Require Import Norad.Model.SpecTables Norad.Model.Upconv.
Require Import Gen.Anchors_C14.
Open Scope string_scope.
Open Scope Z_scope.

Definition vty_code (t : vty) : Z :=
  match t with
  | TNum => 0 | TNonNegNum => 1 | TI32 => 2 | TU32 => 3 | TStr => 4 | TBool => 5 | TNums => 6
  | TBits => 7 | TFamilyClass => 8 | TPanose => 9 | TPanoseV2 => 10 | TStyle => 11 | TWidth => 12
  | TCharSet => 13 | TComplex => 14
  end.
Definition hty_code (t : hty) : Z :=
  match t with HNum => 0 | HBool => 1 | HNums => 2 | HNumss => 3 end.

(** two association lists describe the same finite map (no duplicate keys, same bindings) *)
Definition same_map {A} (code : A -> Z) (a b : list (string * A)) : bool :=
  nodup_keys a && nodup_keys b && Nat.eqb (List.length a) (List.length b) &&
  forallb (fun kv => match get b (fst kv) with
                     | Some t => Z.eqb (code t) (code (snd kv))
                     | None => false
                     end) a.
Fixpoint nodup_z {A} (l : list (Z * A)) : bool :=
  match l with
  | [] => true
  | (k, _) :: l' => negb (existsb (fun kv => Z.eqb k (fst kv)) l') && nodup_z l'
  end.
Definition same_zmap {A} (eqb : A -> A -> bool) (a b : list (Z * A)) : bool :=
  nodup_z a && nodup_z b && Nat.eqb (List.length a) (List.length b) &&
  forallb (fun kv => match zlookup b (fst kv) with
                     | Some t => eqb t (snd kv)
                     | None => false
                     end) a.
Definition same_set (a b : list string) : bool :=
  Nat.eqb (List.length a) (List.length b) && forallb (fun k => mem k b) a && forallb (fun k => mem k a) b.

(** 1. the V1 struct literal, line by line: legacy field, format-3 key (serde rename applied),
       conversion shape -- is the specification's UFO 1 -> 3 table, in the same order *)
Lemma anchor_v1_map : extracted_v1_map = spec_v1_table.
Proof. reflexivity. Qed.

(** 2. the same for the V2 struct literal *)
Lemma anchor_v2_map : extracted_v2_map = spec_v2_table.
Proof. vm_compute. reflexivity. Qed.

(** 3. the three match tables (as finite maps: arm order is irrelevant for disjoint patterns) *)
Lemma anchor_font_style : same_zmap String.eqb extracted_font_style font_style_table = true.
Proof. vm_compute. reflexivity. Qed.
Lemma anchor_ms_char_set : same_zmap Z.eqb extracted_ms_char_set ms_char_set_table = true.
Proof. vm_compute. reflexivity. Qed.
Lemma anchor_width_name : same_map (fun z => z) extracted_width_name width_name_table = true.
Proof. vm_compute. reflexivity. Qed.

(** 4. the value sets of the three enumerations *)
Lemma anchor_enum_values :
  extracted_width_codes = [1; 2; 3; 4; 5; 6; 7; 8; 9] /\
  extracted_charset_codes = [1; 2; 3; 4; 5; 6; 7; 8; 9; 10; 11; 12; 13; 14; 15; 16; 17; 18; 19; 20] /\
  same_set extracted_style_names style_names = true.
Proof. repeat split; vm_compute; reflexivity. Qed.

(** 5. field names and types of FontInfoV1 / FontInfoV2 (the typed readers) and of FontInfo *)
Lemma anchor_schemas :
  same_map vty_code extracted_v1_schema v1_schema = true /\
  same_map vty_code extracted_v2_schema v2_schema = true /\
  same_map vty_code extracted_v3_schema ufo3_schema = true /\
  same_set (map fst extracted_v3_schema) ufo3_order = true.
Proof. repeat split; vm_compute; reflexivity. Qed.

(** 6. Os2Panose::from is component-wise unsigned_abs, position by position *)
Lemma anchor_panose :
  extracted_panose = map (fun i => (i, i, "unsigned_abs")) [0; 1; 2; 3; 4; 5; 6; 7; 8; 9].
Proof. reflexivity. Qed.

(** 7. upconvert_ufov1_robofab_data: lib keys, hint data fields, assignments, removals,
       block order *)
Lemma anchor_robofab :
  extracted_lib_roles = [("hint", LIB_HINT); ("classes", LIB_CLASSES); ("order", LIB_ORDER);
                         ("features", LIB_FEATURES)] /\
  same_set extracted_lib_removed robofab_lib_keys = true /\
  same_map hty_code extracted_hint_schema hint_schema = true /\
  extracted_hint_map = spec_hint_table /\
  extracted_feature_order_mode = OrderSorted.
Proof. repeat split; vm_compute; reflexivity. Qed.

(** 8. Font::load_impl sets the format version to 3 unconditionally, and calls the lib
       conversion exactly for format 1 when lib.plist exists *)
Lemma anchor_version : extracted_version_set = true.
Proof. reflexivity. Qed.

(** 9. request handling of Font::load_impl (checked textually by the extractor: lib and
       features.fea read iff requested and present, the lib data step independent of the
       request, Font::load = load_requested_data(all())) and the key removed from the lib *)
Lemma anchor_object_libs_key : extracted_object_libs_key = PUBLIC_OBJECT_LIBS_KEY.
Proof. reflexivity. Qed.
