(** The effect-order skeletons of Font::load_impl and its helpers, regenerated from
    /repo/src/font.rs, layer.rs, glyph/mod.rs and data_request.rs on this run
    (Gen/Anchors_C17.v, written by lib/anchors_save.py), are the model's: every exists / read /
    listing call, in order, with the [request.*] guard in front of it and the file-name static it
    is applied to. *)
From Coq Require Import String List.
Require Import Gen.Anchors_C17.
From Norad.Model Require Import Request.

Lemma load_impl_skeleton_ok : x_load_impl = load_skeleton.
Proof. vm_compute. reflexivity. Qed.
Lemma load_helpers_skeleton_ok :
  x_load_lib = load_lib_skeleton /\ x_load_fontinfo = load_fontinfo_skeleton /\
  x_load_groups = load_groups_skeleton /\ x_load_kerning = load_kerning_skeleton /\
  x_load_features = load_features_skeleton.
Proof. repeat split; vm_compute; reflexivity. Qed.
Lemma load_layer_set_skeleton_ok :
  x_load_layer_set = load_layer_set_skeleton /\ x_layercontents_load = layercontents_load_skeleton.
Proof. split; vm_compute; reflexivity. Qed.
Lemma layer_load_skeleton_ok :
  x_layer_load = layer_load_skeleton /\ x_parse_layer_info = parse_layer_info_skeleton /\
  x_glyph_load = glyph_load_skeleton.
Proof. repeat split; vm_compute; reflexivity. Qed.
Lemma layer_filter_ok :
  x_should_load = (("expr", should_load_expr) :: nil)%list /\
  x_includes_default_layer = (("expr", includes_default_expr) :: nil)%list.
Proof. split; vm_compute; reflexivity. Qed.
