(** C19 anchor check: the inventory of parallel / shared-state sites regenerated from the source
    equals the committed catalogue, and every lemma the catalogue names exists. *)
From Coq Require Import String List.
Import ListNotations.
Require Import Gen.Anchors_C19 Norad.Model.SitesPar Norad.Proofs.InterleaveP.
Open Scope string_scope.

Lemma sites_match : extracted_sites = catalogue_sites.
Proof. vm_compute. reflexivity. Qed.

(** the lemma names used by the catalogue are exactly the ones checked below *)
Lemma lemma_names : lemmas_used =
  ["intern_content"; "run_got_content"; "par_set_union"; "gets_seq_content"; "seq_font_set";
   "par_layer_spec"; "par_layer_ok_iff"; "run_done_perm"; "fold_ins_perm"; "par_save_spec";
   "par_save_ok_iff"; "par_save2_equiv"; "par_font_spec"; "par_font_set"; "par_save_font_eq_seq"].
Proof. vm_compute. reflexivity. Qed.
Check intern_content. Check run_got_content. Check par_set_union. Check gets_seq_content.
Check seq_font_set. Check par_layer_spec. Check par_layer_ok_iff. Check run_done_perm.
Check fold_ins_perm. Check par_save_spec. Check par_save_ok_iff. Check par_font_spec.
Check par_font_set. Check par_save_font_eq_seq. Check par_save2_equiv.
