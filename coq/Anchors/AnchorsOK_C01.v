(** The file, directory and key names of the font-level model are the statics of norad's source
    (src/font.rs:27-35, src/layer.rs:17-22, src/shared_types.rs): Gen/Anchors_C01.v is regenerated
    from the source on every run.  The names of the specification side are the same table
    (Props/C05.v, C05_names_are_spec).  Also anchored: the order in which save_impl writes the
    top-level files, which is the order of the model's [paths_of]. *)
Require Import Norad.Model.Base Norad.Model.FontRT Norad.Model.FontToy Gen.Anchors_C01.
Require Import Norad.Model.FontInfoFile Norad.Model.FontInfoSchema Norad.Proofs.FontInfoFileP.
Open Scope N_scope.

Lemma anchor_names : x_names = norad_names.
Proof. reflexivity. Qed.
Lemma anchor_names_spec : x_names = spec_names.
Proof. reflexivity. Qed.
Lemma anchor_save_order :
  x_save_order = [n_metainfo norad_names; n_fontinfo norad_names; n_lib norad_names; n_groups norad_names;
                  n_kerning norad_names; n_features norad_names; n_layercontents norad_names;
                  n_data_dir norad_names; n_images_dir norad_names].
Proof. reflexivity. Qed.

(** fontinfo.plist: the schema extracted from src/fontinfo.rs (every field of FontInfo and of the
    structs / enums it nests: plist key after renaming, leaf kind, Option / skip_serializing_if /
    default, deny_unknown_fields) is the model's constant; its writer and reader flags agree, so
    every well-typed value is read back from what is written for it. *)
Lemma anchor_fontinfo_schema : x_font_info_schema = font_info_schema.
Proof. vm_compute. reflexivity. Qed.
Lemma anchor_fontinfo_schema_rt_ok : schema_rt_ok x_font_info_schema = true.
Proof. vm_compute. reflexivity. Qed.
Lemma anchor_fontinfo_roundtrip : forall v, wt x_font_info_schema v = true ->
  read_s x_font_info_schema (write_s x_font_info_schema v) = Some v.
Proof. exact (schema_roundtrip x_font_info_schema anchor_fontinfo_schema_rt_ok). Qed.
