(** The constants regenerated from /repo/src (Gen.Anchors_C16) equal the model's. *)
Require Import Gen.Anchors_C16 Norad.Model.Store Norad.Run.C16.
Open Scope N_scope.

Lemma png_signature_ok : png_sig = PNG_SIG.
Proof. reflexivity. Qed.
Lemma directory_names_ok : data_dir = DATA_DIR /\ images_dir = IMAGES_DIR.
Proof. split; reflexivity. Qed.

(** the errors [validate_entry] can return, in source order, are the model's checks in order *)
Lemma data_checks_ok :
  data_checks = map serr_code [EmptyPath; PathIsAbsolute; InvalidPathComponent; DirUnderFile; DirUnderFile].
Proof. reflexivity. Qed.
Lemma image_checks_ok :
  image_checks = map serr_code [EmptyPath; PathIsAbsolute; InvalidPathComponent; Subdir; InvalidImage].
Proof. reflexivity. Qed.
Lemma glyph_image_checks_ok : glyph_image_checks = map serr_code [EmptyPath; PathIsAbsolute; Subdir].
Proof. reflexivity. Qed.
(** ... and the model applies them with that priority (inputs that fail several checks at once) *)
Example model_check_priority :
  validate KData [] [([97], Loaded [])] [] = Some EmptyPath /\
  validate KData [47; 46; 46] [] [] = Some PathIsAbsolute /\
  validate KData [97; 47; 46; 46; 47; 98] [([97], Loaded [])] [] = Some InvalidPathComponent /\
  validate KData [97; 47; 98] [([97], Loaded [])] [] = Some DirUnderFile /\
  validate KData [97] [([97; 47; 98], Loaded [])] [] = Some DirUnderFile /\
  validate KImage [47; 97; 47; 98] [] [] = Some PathIsAbsolute /\
  validate KImage [46; 46; 47; 98] [] [] = Some InvalidPathComponent /\
  validate KImage [97; 47; 98] [] [] = Some Subdir /\
  validate KImage [97] [] [137; 80; 78; 71; 13; 10; 26] = Some InvalidImage /\
  validate KImage [97] [] PNG_SIG = None.
Proof. vm_compute. repeat split. Qed.

(** save_impl: force every cell and refuse, THEN wipe, create, write data (create_dir_all, write),
    create images/, write images *)
Lemma save_order_ok : save_order = [0; 1; 2; 3; 4; 5; 6; 7; 8].
Proof. reflexivity. Qed.
Lemma insert_rebuilds_key_ok : insert_stores_rebuilt_key = 1.
Proof. reflexivity. Qed.
Lemma get_is_lazy_ok : get_loads_once_with_callers_path = 1.
Proof. reflexivity. Qed.
