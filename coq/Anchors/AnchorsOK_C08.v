(** The effect-order skeletons regenerated from /repo/src/font.rs, layer.rs and glyph/mod.rs on
    this run (Gen/Anchors_C08.v, written by lib/anchors_save.py) are the model's. *)
From Coq Require Import String List.
Require Import Gen.Anchors_C08.
From Norad.Model Require Import Save.

(** every validator and the store forcing precede the first mutating call, and the writes come
    in the model's order with the model's guards and error variants *)
Lemma save_impl_skeleton_ok : x_save_impl = save_skeleton.
Proof. vm_compute. reflexivity. Qed.
Lemma layer_save_skeleton_ok : x_layer_save = layer_skeleton.
Proof. vm_compute. reflexivity. Qed.
Lemma layerinfo_skeleton_ok : x_layerinfo = layerinfo_skeleton.
Proof. vm_compute. reflexivity. Qed.
Lemma glyph_save_skeleton_ok : x_glyph_save = glyph_skeleton.
Proof. vm_compute. reflexivity. Qed.
