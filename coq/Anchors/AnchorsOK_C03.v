(** C03 anchor check: the inventory of panic sites regenerated from the source equals the
    committed catalogue (as sorted lists, so that moving a function inside a file changes
    nothing), and every lemma / model definition the catalogue names exists. *)
From Coq Require Import String List Sorting.Mergesort Orders.
Import ListNotations.
Require Import Gen.Anchors_C03 Norad.Model.Sites.
Require Import Norad.Model.Base Norad.Model.Totality Norad.Model.Contour.
Require Import Norad.Proofs.TotalityP Norad.Props.C03.
Require Norad.Model.Upconv.
Open Scope string_scope.

Module StringOrder <: TotalLeBool.
  Definition t := string.
  Definition leb (a b : string) : bool := String.leb a b.
  Theorem leb_total : forall a b, leb a b = true \/ leb b a = true.
  Proof.
    intros a b. unfold leb, String.leb. rewrite (String.compare_antisym a b).
    destruct (String.compare b a); cbn; auto.
  Qed.
End StringOrder.
Module SSort := Sort StringOrder.

Lemma sites_match : SSort.sort extracted_sites = SSort.sort catalogue_keys.
Proof. vm_compute. reflexivity. Qed.

(** the lemma names used by the catalogue are exactly the ones checked below *)
Lemma lemma_names : lemmas_used =
  ["C03_walk_no_panic"; "C03_store_get"; "C03_save_stores"; "C03_data_parent"; "C03_upconversion_abs_unwrap"; "C03_date_slices"; "C03_gasp_first"; "C03_object_libs"; "C03_fixed_len_index"; "C03_builder_unreachable"; "C03_kurbo_offcurve"; "C03_kurbo_rotate"; "C03_single_point"; "C03_parse_lib_slice"; "C03_advance_inner"; "C03_image_to_event_ok"; "C03_from_uuid"; "C03_default_layer_name_valid"; "position_lt"; "C03_layer_ops_no_panic"; "C03_rename_layer_no_panic"; "C03_load_layer_dir_no_panic"; "C03_layer_save_no_panic"; "C03_rename_glyph_no_panic"; "C03_serialize_within"; "C03_upconv_names"; "C03_upconv_lookup"; "C03_make_unique"; "C03_backoff_terminates"; "C03_u2f_only_documented_panic"].
Proof. vm_compute. reflexivity. Qed.
Check C03_walk_no_panic. Check C03_store_get. Check C03_save_stores. Check C03_data_parent. Check C03_upconversion_abs_unwrap. Check C03_date_slices. Check C03_gasp_first. Check C03_object_libs. Check C03_fixed_len_index. Check C03_builder_unreachable. Check C03_kurbo_offcurve. Check C03_kurbo_rotate. Check C03_single_point. Check C03_parse_lib_slice. Check C03_advance_inner. Check C03_image_to_event_ok. Check C03_from_uuid. Check C03_default_layer_name_valid. Check @position_lt. Check C03_layer_ops_no_panic. Check C03_rename_layer_no_panic. Check C03_load_layer_dir_no_panic. Check C03_layer_save_no_panic. Check C03_rename_glyph_no_panic. Check C03_serialize_within. Check C03_upconv_names. Check C03_upconv_lookup. Check C03_make_unique. Check C03_backoff_terminates. Check C03_u2f_only_documented_panic.

(** ... the model definitions that transliterate guards and constants ... *)
Lemma definition_names : definitions_used =
  ["walk"; "get_cell"; "save_stores"; "date_slices"; "odump"; "deser_fixed"; "Upconv.map_abs_num"; "build"; "kurbo_offcurve_sites"; "image_new"; "single_point_sites"; "parse_lib_slice"; "advance_inner"; "load_layer_dir"; "new_layer"; "lc_remove"; "rename_layer"; "insert_glyph"; "rename_glyph"; "plain_name"; "upconv_side"; "unique_loop"; "u2f"; "DATE_LENGTH"; "DEFAULT_DIR"; "DEFAULT_LAYER_NAME"; "MAX_LEN"; "NUMBER_LEN"; "illegal"; "reserved"].
Proof. vm_compute. reflexivity. Qed.
Check walk. Check get_cell. Check save_stores. Check date_slices. Check odump. Check @deser_fixed. Check Norad.Model.Upconv.map_abs_num. Check build. Check @kurbo_offcurve_sites. Check image_new. Check @single_point_sites. Check parse_lib_slice. Check advance_inner. Check load_layer_dir. Check new_layer. Check lc_remove. Check rename_layer. Check insert_glyph. Check rename_glyph. Check plain_name. Check upconv_side. Check unique_loop. Check u2f. Check DATE_LENGTH. Check DEFAULT_DIR. Check DEFAULT_LAYER_NAME. Check MAX_LEN. Check NUMBER_LEN. Check illegal. Check reserved.

(** ... and the sites catalogued as reachable are exactly the two remaining known classes of
    norad's own sites, each with its refutation theorem *)
Lemma finding_names : findings_used = ["layer-slot-assign"; "entry-remove"].
Proof. vm_compute. reflexivity. Qed.
Check C03_refuted_layer_slot_assign. Check C03_refuted_entry_remove.

(** the model constants carry the values the source gives them *)
Definition has_key (k : string) : bool := existsb (String.eqb k) catalogue_keys.
Lemma constants_match :
  has_key "src/layer.rs|<top>|const|DEFAULT_LAYER_NAME = ""public.default""" = true /\
  Totality.DEFAULT_LAYER_NAME = [112;117;98;108;105;99;46;100;101;102;97;117;108;116]%N /\
  has_key "src/layer.rs|<top>|const|DEFAULT_GLYPHS_DIRNAME = ""glyphs""" = true /\
  DEFAULT_DIR = [103;108;121;112;104;115]%N /\
  has_key "src/util.rs|<top>|const|MAX_LEN = 255" = true /\ MAX_LEN = 255%N /\
  has_key "src/util.rs|<top>|const|NUMBER_LEN = 2" = true /\ NUMBER_LEN = 2%N /\
  has_key "src/fontinfo.rs|<top>|const|DATE_LENGTH = 19" = true /\ DATE_LENGTH = 19%N.
Proof. vm_compute. repeat split. Qed.
