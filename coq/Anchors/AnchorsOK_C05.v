(** The file, directory and key names of the font-level model are the statics of norad's source
    (src/font.rs:27-35, src/layer.rs:17-22, src/shared_types.rs): Gen/Anchors_C05.v is regenerated
    from the source on every run.  The names of the specification side are the same table
    (Props/C05.v, C05_names_are_spec).  Also anchored: the order in which save_impl writes the
    top-level files, which is the order of the model's [paths_of]. *)
Require Import Norad.Model.Base Norad.Model.FontRT Norad.Model.FontToy Gen.Anchors_C05.
Open Scope N_scope.

Lemma anchor_names : x_names = norad_names.
Proof. reflexivity. Qed.
Lemma anchor_names_spec : x_names = spec_names.
Proof. reflexivity. Qed.
Lemma anchor_save_order :
  x_save_order = [n_metainfo norad_names; n_fontinfo norad_names; n_lib norad_names; n_groups norad_names;
                  n_kerning norad_names; n_features norad_names; n_layercontents norad_names;
                  n_data_dir norad_names; n_images_dir norad_names].
Proof. reflexivity. Qed.
