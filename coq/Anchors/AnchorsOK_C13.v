(** The constants, tables and rule order that lib/props/c13.py extracts from the text of
    FontInfo::validate / Os2FamilyClass::is_valid on every run equal the ones the model
    (Model/FontInfo.v) is built from. *)
Require Import Norad.Model.FontInfo Gen.Anchors_C13.
Open Scope string_scope.

(** the fields validate() reads, in order, and the error kinds each block returns, in order *)
Lemma rules_anchor : a_rules = map rule_sig fi_rules.
Proof. reflexivity. Qed.

Lemma date_length_anchor : a_date_length = Z.of_nat DATE_LENGTH.
Proof. reflexivity. Qed.
Lemma date_chars_anchor : a_date_chars = map Z.of_N DATE_SEPS.
Proof. reflexivity. Qed.

Definition ty_name (max : N) : string :=
  if (max =? U8_MAX)%N then "u8" else if (max =? U16_MAX)%N then "u16" else "?".
Definition step_sig (s : dstep) : string * Z * Z * string * Z * Z :=
  match s with
  | DAny a b max => ("any", Z.of_nat a, Z.of_nat b, ty_name max, 0, 0)%Z
  | DSep a b c => ("sep", Z.of_nat a, Z.of_nat b, "", Z.of_N c, 0%Z)
  | DRange a b max lo hi => ("range", Z.of_nat a, Z.of_nat b, ty_name max, Z.of_N lo, Z.of_N hi)
  | DBelow a b max lim => ("below", Z.of_nat a, Z.of_nat b, ty_name max, 0%Z, Z.of_N lim)
  end.
Lemma date_steps_anchor : a_date_steps = map step_sig DATE_STEPS.
Proof. reflexivity. Qed.

Lemma angle_anchor : a_angle_range = (ANGLE_MIN, ANGLE_MAX).
Proof. reflexivity. Qed.
Lemma bad_bits_anchor : a_bad_bits = map Z.of_N BAD_BITS.
Proof. reflexivity. Qed.
Lemma class_anchor : a_class_ranges = map Z.of_N [CLASS_MIN; CLASS_MAX; SUBCLASS_MIN; SUBCLASS_MAX].
Proof. reflexivity. Qed.
Lemma lists_anchor :
  a_lists = map (fun sp : lspec => let '(n, l, m, p) := sp in (n, Z.of_nat l, Z.of_nat m, p)) LISTS.
Proof. reflexivity. Qed.

(** the WOFF messages in source order, and the emptiness tests as written in the source *)
Lemma woff_anchor :
  map (fun x => snd (fst x)) a_woff = WOFF_MSGS /\
  map (fun x => fst (fst x)) a_woff =
    ["woff_metadata_extensions"; "woff_metadata_credits"; "woff_metadata_copyright";
     "woff_metadata_description"; "woff_metadata_trademark"] /\
  map snd a_woff =
    [["v.is_empty()"; "record.items.is_empty()";
      "record_item.names.is_empty() || record_item.values.is_empty()"];
     ["v.credits.is_empty()"]; ["v.text.is_empty()"]; ["v.text.is_empty()"]; ["v.text.is_empty()"]].
Proof. repeat split; reflexivity. Qed.
