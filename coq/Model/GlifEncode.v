(** Model of the glif writer (src/glyph/serialize.rs, Glyph::dump_object_libs in
    src/glyph/mod.rs) at the level of the event tree a reader gets back from the written bytes:
    element order, attribute order and presence conditions, colour and code-point formatting,
    object libs moved under [public.objectLibs], recursive key sorting, and the line-by-line
    re-indentation of the embedded lib — whose only effect at tree level is that every line break
    inside a lib string or key is followed by the indentation (finding F3).
    The code as it is.  Definitions only. *)
Require Export Norad.Model.GlifParse.
Open Scope N_scope.

(** WriteOptions: indent character, indent count; the quote style only concerns the XML
    declaration and does not reach the tree *)
Record wopts := mkOpts { o_char : N; o_count : nat; o_single_quote : bool }.

(** ---------- float predicates used by the writer ---------- *)
Definition fl_finite (x : fl) : bool := match x with FFin _ _ _ => true | _ => false end.
(** [x != 0.0] *)
Definition fl_nonzero (x : fl) : bool :=
  match x with FFin _ m _ => negb (m =? 0) | FInf _ => true | FNaN => true end.
(** [x != 1.0] *)
Definition fl_scale_differs (x : fl) : bool := negb (fl_eqb x f1).

(** ---------- base64 (the plist crate's <data>) ---------- *)
Definition b64_char (n : N) : N :=
  if n <? 26 then 65 + n else if n <? 52 then 71 + n else if n <? 62 then n - 4
  else if n =? 62 then 43 else 47.
Fixpoint b64_encode (b : list N) : str :=
  match b with
  | [] => []
  | [x] => [b64_char (x / 4); b64_char ((x mod 4) * 16); 61; 61]
  | [x; y] => [b64_char (x / 4); b64_char ((x mod 4) * 16 + y / 16); b64_char ((y mod 16) * 4); 61]
  | x :: y :: z :: r =>
      b64_char (x / 4) :: b64_char ((x mod 4) * 16 + y / 16) :: b64_char ((y mod 16) * 4 + z / 64)
      :: b64_char (z mod 64) :: b64_encode r
  end.

(** contours without points are skipped by the writer (and dropped by the reader) *)
Definition has_points (c : contour) : bool := match cpoints c with [] => false | _ => true end.
Definition drop_empty (g : glyph) : glyph :=
  mkGlyph (gname g) (gwidth g) (gheight g) (gcps g) (gnote g) (gimage g) (gguides g) (ganchors g)
          (gcomps g) (filter has_points (gcontours g)) (glib g).

(** no line break in any string or key of a plist value *)
Definition no_newline (s : str) : bool := negb (existsb (N.eqb 10) s).
Fixpoint pv_plain (v : pv) : bool :=
  match v with
  | PStr s => no_newline s
  | PArr l => forallb pv_plain l
  | PDict d => forallb (fun kx => let '(k, x) := kx in no_newline k && pv_plain x) d
  | _ => true
  end.

(** plist values whose written form reads back as themselves: text without line breaks (or indent
    width 0: outside F3), finite reals, integers within the i64 / u64 range, bytes below 256,
    well-shaped dates, no repeated key in a dictionary *)
Definition int_ok (z : Z) : bool := (- 2 ^ 63 <=? z)%Z && (z <? 2 ^ 64)%Z.
Definition bytes_ok (b : list N) : bool := forallb (fun c => c <? 256) b.
Definition text_ok (width : nat) (s : str) : bool := Nat.eqb width 0 || no_newline s.
Fixpoint nodup_keys (l : list str) : bool :=
  match l with [] => true | x :: r => negb (mem_str x r) && nodup_keys r end.
Fixpoint pv_good (width : nat) (v : pv) : bool :=
  match v with
  | PStr s => text_ok width s
  | PInt z => int_ok z
  | PReal x => match x with FFin _ _ _ => true | _ => false end
  | PBool _ => true
  | PData b => bytes_ok b
  | PDate s => date_shape s
  | PArr l => forallb (pv_good width) l
  | PDict d =>
      nodup_keys (map fst d) &&
      forallb (fun kx => let '(k, x) := kx in text_ok width k && pv_good width x) d
  end.

Section Encoder.
  (** std / library formatters, not modelled: [f64::to_string], [format!("{:.3}")] of a colour
      channel, [Integer::to_string], [format!("{:04X}")] of a code point *)
  Variable ff : fl -> str.
  Variable ff3 : fl -> str.
  Variable fi : Z -> str.
  Variable fh : N -> str.
  Variable o : wopts.

  (** [trim_end_matches('0')] then [trim_end_matches('.')] *)
  Fixpoint drop_while (c : N) (s : str) : str :=
    match s with x :: r => if x =? c then drop_while c r else s | [] => [] end.
  Definition trim_end (c : N) (s : str) : str := rev (drop_while c (rev s)).
  Definition chan (x : fl) : str := trim_end 46 (trim_end 48 (ff3 x)).
  Fixpoint join (sep : N) (l : list str) : str :=
    match l with [] => [] | [x] => x | x :: r => x ++ sep :: join sep r end.
  Definition color_str (c : color) : str :=
    let '(r, g, b, a) := c in join 44 [chan r; chan g; chan b; chan a].

  Definition oattr (key : str) (v : option str) : attrs :=
    match v with Some s => [(key, s)] | None => [] end.
  Definition cond_attr (b : bool) (key : str) (v : str) : attrs := if b then [(key, v)] else [].

  (** [write_transform_attributes] *)
  Definition transform_attrs (t : transform) : attrs :=
    cond_attr (fl_scale_differs (xScale t)) k_xScale (ff (xScale t)) ++
    cond_attr (fl_nonzero (xyScale t)) k_xyScale (ff (xyScale t)) ++
    cond_attr (fl_nonzero (yxScale t)) k_yxScale (ff (yxScale t)) ++
    cond_attr (fl_scale_differs (yScale t)) k_yScale (ff (yScale t)) ++
    cond_attr (fl_nonzero (xOffset t)) k_xOffset (ff (xOffset t)) ++
    cond_attr (fl_nonzero (yOffset t)) k_yOffset (ff (yOffset t)).

  Definition ptype_str (t : ptype) : str :=
    match t with
    | Move => s2l "move" | Line => s2l "line" | Off => s2l "offcurve" | Curve => s2l "curve"
    | QCurve => s2l "qcurve"
    end.

  Definition enc_point (p : point) : node :=
    Empty (s2l "point")
      (oattr k_name (pname p) ++ [(k_x, ff (px p)); (k_y, ff (py p))] ++
       (match ptyp p with Off => [] | t => [(k_type, ptype_str t)] end) ++
       cond_attr (psmooth p) k_smooth (s2l "yes") ++
       oattr k_identifier (pid p)).
  Definition enc_contour (c : contour) : node :=
    Elem (s2l "contour") (oattr k_identifier (cid c)) (map enc_point (cpoints c)).
  Definition enc_component (c : component) : node :=
    Empty (s2l "component")
      ([(k_base, cbase c)] ++ transform_attrs (ctrans c) ++ oattr k_identifier (coid c)).
  Definition enc_anchor (a : anchor) : node :=
    Empty (s2l "anchor")
      (oattr k_name (aname a) ++ [(k_x, ff (ax a)); (k_y, ff (ay a))] ++
       oattr k_color (option_map color_str (acolor a)) ++ oattr k_identifier (aid a)).
  Definition enc_guideline (g : guideline) : node :=
    Empty (s2l "guideline")
      (oattr k_name (guname g) ++
       (match gline g with
        | LVert x => [(k_x, ff x)]
        | LHoriz y => [(k_y, ff y)]
        | LAngle x y d => [(k_x, ff x); (k_y, ff y); (k_angle, ff d)]
        end) ++
       oattr k_color (option_map color_str (gcolor g)) ++ oattr k_identifier (guid g)).
  Definition enc_image (i : image) : node :=
    Empty (s2l "image")
      ([(k_fileName, ifile i)] ++ transform_attrs (itrans i) ++
       oattr k_color (option_map color_str (icolor i))).

  (** ---------- the lib ---------- *)
  (** [write_lib_section] writes every line of the plist text behind two indentation units: a
      line break inside a string or key is followed by that indentation when read back *)
  Definition indent2 : str := repeat (o_char o) (2 * o_count o).
  Fixpoint reindent (s : str) : str :=
    match s with
    | [] => []
    | c :: r => if c =? 10 then c :: indent2 ++ reindent r else c :: reindent r
    end.
  Definition text_kids (s : str) : list node := match s with [] => [] | _ => [Text s] end.

  (** the children of a <dict>: key, value, key, value ... *)
  Definition dict_nodes (f : pv -> node) : dict -> list node :=
    fix go (d : dict) : list node :=
    match d with
    | [] => []
    | (k, x) :: r => Elem n_key [] (text_kids (reindent k)) :: f x :: go r
    end.
  Fixpoint pv_node (v : pv) : node :=
    match v with
    | PStr s => Elem n_string [] (text_kids (reindent s))
    | PInt z => Elem n_integer [] [Text (fi z)]
    | PReal x => Elem n_real [] [Text (ff x)]
    | PBool b => Empty (if b then n_true else n_false) []
    | PData b => Elem n_data [] (text_kids (b64_encode b))
    | PDate s => Elem n_date [] [Text s]
    | PArr [] => Empty n_array []
    | PArr l => Elem n_array [] (map pv_node l)
    | PDict [] => Empty n_dict []
    | PDict d => Elem n_dict [] (dict_nodes pv_node d)
    end.

  (** [dump_object_libs]: in the order anchors, guidelines, contours (+ points), components;
      [id.unwrap()] panics for a lib without identifier *)
  Definition dump1 (id : option str) (l : option dict) (acc : res dict) : res dict :=
    match l with
    | None => acc
    | Some d =>
        bind acc (fun a => match id with
                           | Some i => Ok (dict_insert i (PDict d) a)
                           | None => Panic 2
                           end)
    end.
  Definition dump_object_libs (g : glyph) : res dict :=
    let a1 := fold_left (fun acc a => dump1 (aid a) (alib a) acc) (ganchors g) (Ok []) in
    let a2 := fold_left (fun acc x => dump1 (guid x) (gulib x) acc) (gguides g) a1 in
    let a3 := fold_left (fun acc c =>
                           fold_left (fun acc p => dump1 (pid p) (plib p) acc) (cpoints c)
                                     (dump1 (cid c) (clib c) acc)) (filter has_points (gcontours g)) a2 in
    fold_left (fun acc c => dump1 (coid c) (colib c) acc) (gcomps g) a3.

  (** the dictionary handed to the plist printer: the glyph lib plus the object libs *)
  Definition written_lib (g : glyph) : res dict :=
    bind (dump_object_libs g) (fun ol =>
      Ok (match ol with [] => glib g | _ => dict_insert objlibs_key (PDict ol) (glib g) end)).
  Definition enc_lib (g : glyph) : res (list node) :=
    bind (written_lib g) (fun lib =>
      match lib with
      | [] => Ok []
      | _ => Ok [Elem (s2l "lib") [] [pv_node (PDict (sort_keys_rec lib))]]
      end).

  (** the outline element is written when there is a contour with points or a component;
      contours without points are not written *)
  Definition enc_outline (cs : list contour) (ks : list component) : list node :=
    match filter has_points cs, ks with
    | [], [] => []
    | cs', _ => [Elem (s2l "outline") [] (map enc_contour cs' ++ map enc_component ks)]
    end.

  (** [encode_xml_impl] *)
  Definition encode_glif (g : glyph) : res node :=
    bind (enc_lib g) (fun libn =>
      Ok (Elem (s2l "glyph") [(k_name, gname g); (k_format, s2l "2")]
            (map (fun c => Empty (s2l "unicode") [(k_hex, fh c)]) (gcps g) ++
             (if fl_nonzero (gwidth g) || fl_nonzero (gheight g)
              then [Empty (s2l "advance")
                      (cond_attr (fl_nonzero (gheight g)) k_height (ff (gheight g)) ++
                       cond_attr (fl_nonzero (gwidth g)) k_width (ff (gwidth g)))]
              else []) ++
             (match gimage g with Some i => [enc_image i] | None => [] end) ++
             enc_outline (gcontours g) (gcomps g) ++
             map enc_anchor (ganchors g) ++ map enc_guideline (gguides g) ++
             libn ++
             (match gnote g with Some n => [Elem (s2l "note") [] (text_kids n)] | None => [] end)))).

  (** what a reader is given: the declaration and the root element *)
  Definition written_doc (t : node) : doc := [Decl; t].
End Encoder.

(** ---------- the classes of valid glyphs known not to survive encode-then-parse ---------- *)
Definition olib_plain (l : option dict) : bool :=
  match l with Some d => pv_plain (PDict d) | None => true end.
(** a condition on every object lib (contours without points are not written) *)
Definition libs_all (P : option dict -> bool) (g : glyph) : bool :=
  forallb (fun a => P (alib a)) (ganchors g) &&
  forallb (fun x => P (gulib x)) (gguides g) &&
  forallb (fun c => P (clib c) && forallb (fun p => P (plib p)) (cpoints c))
          (filter has_points (gcontours g)) &&
  forallb (fun c => P (colib c)) (gcomps g).
Definition libs_plain (g : glyph) : bool := pv_plain (PDict (glib g)) && libs_all olib_plain g.
(** lib values the property-list writer and reader agree on, whatever the options: no duplicate
    keys, integers in range, finite reals, bytes, well-shaped dates; the glyph lib has no
    [public.objectLibs] entry of its own *)
Definition pv_valid (v : pv) : bool := pv_good 0 v.
Definition olib_valid (l : option dict) : bool :=
  match l with Some d => pv_valid (PDict d) | None => true end.
Definition libs_valid (g : glyph) : bool :=
  negb (has_key objlibs_key (glib g)) && pv_valid (PDict (glib g)) && libs_all olib_valid g.
Definition note_survives (n : option str) : bool :=
  match n with
  | None => true
  | Some s => negb (blank s) && str_eqb (trim s) s
  end.
(** F3: a line break in lib text (with a non-zero indent width), or a note that is empty or
    begins or ends with a blank *)
Definition c02_f3 (o : wopts) (g : glyph) : bool :=
  (negb (Nat.eqb (o_count o) 0) && negb (libs_plain g)) || negb (note_survives (gnote g)).

(** ---------- object libs: what the writer moves out and the reader moves back ---------- *)
(** the glyph as the reader has it before [load_object_libs]: no object carries a lib *)
Definition strip_point (p : point) : point :=
  mkPoint (px p) (py p) (ptyp p) (psmooth p) (pname p) (pid p) None.
Definition strip_libs (g : glyph) : glyph :=
  mkGlyph (gname g) (gwidth g) (gheight g) (gcps g) (gnote g) (gimage g)
    (map (fun x => mkGuide (gline x) (guname x) (gcolor x) (guid x) None) (gguides g))
    (map (fun a => mkAnchor (ax a) (ay a) (aname a) (acolor a) (aid a) None) (ganchors g))
    (map (fun c => mkComp (cbase c) (ctrans c) (coid c) None) (gcomps g))
    (map (fun c => mkContour (map strip_point (cpoints c)) (cid c) None) (gcontours g))
    (glib g).
(** dump the object libs into the lib (the writer), then read them back onto the objects (the
    reader), without the XML in between *)
Definition relib (g : glyph) : res glyph :=
  bind (written_lib g) (fun lib => load_object_libs (set_lib (strip_libs g) lib)).
(** every object that carries a lib has an identifier *)
Definition libs_have_ids (g : glyph) : Prop :=
  Forall (fun a => alib a <> None -> aid a <> None) (ganchors g) /\
  Forall (fun x => gulib x <> None -> guid x <> None) (gguides g) /\
  Forall (fun c => (clib c <> None -> cid c <> None) /\
                   Forall (fun p => plib p <> None -> pid p <> None) (cpoints c)) (gcontours g) /\
  Forall (fun c => colib c <> None -> coid c <> None) (gcomps g).

(** ---------- values the XML property-list writer cannot carry; encoding a sequence ---------- *)
(** A lib may hold a UID (plist::Value::Uid), a value kind of binary property lists that [pv]
    (shared with the readers and the font-level models) does not have.  The XML writer fails on
    it (GlifWriteError::Plist), which is the one way [encode_xml] can fail.  A glyph handed to the
    writer is therefore a glyph together with the positions at which it holds a UID (the glyph
    component holds a placeholder there, which is never written): the top-level key of the
    glyph lib under which it sits, or the object in whose lib it sits. *)
Inductive upos :=
| UGlyph (k : str) | UAnchor (i : nat) | UGuide (i : nat) | UContour (i : nat) | UPoint (i j : nat)
| UComp (i : nat).
(** does the UID reach the property-list writer?  Libs of contours without points are not
    written; a [public.objectLibs] entry of the glyph lib is replaced when there are object libs *)
Definition upos_written (g : glyph) (p : upos) : bool :=
  match p with
  | UGlyph k =>
      negb (str_eqb k objlibs_key && match dump_object_libs g with Ok (_ :: _) => true | _ => false end)
  | UAnchor i => Nat.ltb i (List.length (ganchors g))
  | UGuide i => Nat.ltb i (List.length (gguides g))
  | UContour i => match nth_error (gcontours g) i with Some c => has_points c | None => false end
  | UPoint i j =>
      match nth_error (gcontours g) i with Some c => Nat.ltb j (List.length (cpoints c)) | None => false end
  | UComp i => Nat.ltb i (List.length (gcomps g))
  end.
Record wglyph := mkW { w_glyph : glyph; w_uids : list upos }.
Inductive wop := OpEncode | OpSave.

Section EncodeSeq.
  Variable ff ff3 : fl -> str.
  Variable fi : Z -> str.
  Variable fh : N -> str.
  (** [encode_xml_with_options]: the object libs are collected first (a lib without an identifier
      panics there), the lib is the last thing but the note to be written *)
  Definition encode_w (o : wopts) (w : wglyph) : res node :=
    match written_lib (w_glyph w) with
    | Ok _ =>
        if existsb (upos_written (w_glyph w)) (w_uids w) then Err EPlistWrite
        else encode_glif ff ff3 fi fh o (w_glyph w)
    | _ => encode_glif ff ff3 fi fh o (w_glyph w)
    end.
  (** [Glyph::save]: refuses a glyph lib with a [public.objectLibs] key, then encodes *)
  Definition save_w (o : wopts) (w : wglyph) : res node :=
    if has_key objlibs_key (glib (w_glyph w)) then Err EPreexistingObjectLibs else encode_w o w.
  Definition run_op (x : wop * wopts * wglyph) : res node :=
    let '(op, o, w) := x in match op with OpEncode => encode_w o w | OpSave => save_w o w end.
  (** a history of writes: the model keeps no state between them *)
  Definition encode_seq (l : list (wop * wopts * wglyph)) : list (res node) := map run_op l.
End EncodeSeq.
