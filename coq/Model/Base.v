(** Shared vocabulary of the norad models.  Definitions only (no proofs). *)
From Coq Require Export List Arith NArith ZArith Bool Lia.
Export ListNotations.

(** Code points / bytes are [N]; text is a list of them. *)
Definition cp := N.
Definition str := list N.

(** Outcome of a modelled entry point: a value, an error value, or a panic at a named site.
    Every [unwrap]/[expect]/[unreachable!]/index of the modelled code is an explicit [Panic]. *)
Inductive result (A E : Type) : Type :=
| Ok (a : A)
| Err (e : E)
| Panic (site : N).
Arguments Ok {A E} a.
Arguments Err {A E} e.
Arguments Panic {A E} site.

Definition bind {A B E} (r : result A E) (f : A -> result B E) : result B E :=
  match r with Ok a => f a | Err e => Err e | Panic s => Panic s end.

(** Generic dump tree: what the correspondence run prints and the driver parses.
    Grammar of the printed form:  t ::= N_ <numeral> | L_ [t; ...; t]. *)
Inductive tm : Type := N_ (n : N) | L_ (l : list tm).

Definition tm_bool (b : bool) : tm := N_ (if b then 1 else 0)%N.
Definition tm_str (s : str) : tm := L_ (map N_ s).
Definition tm_opt {A} (f : A -> tm) (o : option A) : tm :=
  match o with None => L_ [] | Some a => L_ [f a] end.
Definition tm_list {A} (f : A -> tm) (l : list A) : tm := L_ (map f l).

Fixpoint list_eqb {A} (eqb : A -> A -> bool) (a b : list A) : bool :=
  match a, b with
  | [], [] => true
  | x :: a', y :: b' => eqb x y && list_eqb eqb a' b'
  | _, _ => false
  end.
Definition str_eqb : str -> str -> bool := list_eqb N.eqb.
