(** Binary64 values as exact dyadic rationals, and the handful of Rust [f64] / integer operations
    norad applies to them.  Definitions only (lemmas: Proofs/NumP.v).

    A finite value is [Fin m e] = m * 2^e with m, e unbounded integers (so every binary64 number
    has a representation, and every operation below is EXACT: there is no rounding error on the
    paths norad uses -- [round], [trunc], [abs], [fract], comparisons, casts).  The canonical
    representative has m odd (or m = 0, e = 0); [norm] computes it.  Negative zero, the
    infinities and NaN are separate constructors because Rust's casts and [abs] treat them
    specially.  Nothing here depends on Coq's primitive floats. *)
From Coq Require Export ZArith Bool List Lia.
From Coq Require Import QArith.
Open Scope Z_scope.

Inductive f64 : Type :=
| Fin (m e : Z)          (* m * 2^e *)
| NegZero                (* -0.0 *)
| Inf (neg : bool)
| NaN.

(** ** canonical form *)
Fixpoint pos_strip (p : positive) (e : Z) : positive * Z :=
  match p with
  | xO q => pos_strip q (e + 1)
  | _ => (p, e)
  end.

Definition norm (m e : Z) : f64 :=
  match m with
  | Z0 => Fin 0 0
  | Zpos p => let '(q, e') := pos_strip p e in Fin (Zpos q) e'
  | Zneg p => let '(q, e') := pos_strip p e in Fin (Zneg q) e'
  end.

Definition f_norm (x : f64) : f64 :=
  match x with Fin m e => norm m e | _ => x end.

(** a representation is a binary64 number: at most 53 significant bits, exponent of the last
    bit >= -1074, magnitude < 2^1024 *)
Definition is_binary64 (x : f64) : Prop :=
  match f_norm x with
  | Fin m e => Z.abs m < 2 ^ 53 /\ -1074 <= e /\ (m = 0 \/ Z.log2 (Z.abs m) + e < 1024)
  | _ => True
  end.

(** ** integer parts *)
(** [f64::trunc] as an integer: toward zero *)
Definition trunc_Z (m e : Z) : Z :=
  if 0 <=? e then m * 2 ^ e else Z.quot m (2 ^ (- e)).

(** [f64::round] as an integer: to nearest, ties AWAY from zero *)
Definition round_Z (m e : Z) : Z :=
  if 0 <=? e then m * 2 ^ e
  else
    let d := 2 ^ (- e) in
    let a := Z.abs m in
    let q := a / d in
    let r := a mod d in
    Z.sgn m * (if d <=? 2 * r then q + 1 else q).

(** the integer [z] as a float, keeping the sign of zero of the operand [m] *)
Definition of_int_signed (m z : Z) : f64 :=
  if z =? 0 then (if m <? 0 then NegZero else Fin 0 0) else norm z 0.

Definition f_trunc (x : f64) : f64 :=
  match x with Fin m e => of_int_signed m (trunc_Z m e) | _ => x end.

Definition f_round (x : f64) : f64 :=
  match x with Fin m e => of_int_signed m (round_Z m e) | _ => x end.

Definition f_abs (x : f64) : f64 :=
  match x with
  | Fin m e => Fin (Z.abs m) e
  | NegZero => Fin 0 0
  | Inf _ => Inf false
  | NaN => NaN
  end.

(** [f64::fract] = x - x.trunc() (exact) *)
Definition f_fract (x : f64) : f64 :=
  match x with
  | Fin m e =>
      if 0 <=? e then (if m <? 0 then NegZero else Fin 0 0)
      else
        let r := m - trunc_Z m e * 2 ^ (- e) in
        if r =? 0 then (if m <? 0 then NegZero else Fin 0 0) else norm r e
  | NegZero => NegZero
  | Inf _ => NaN
  | NaN => NaN
  end.

(** ** comparisons ([None] = unordered, i.e. a NaN is involved) *)
Definition cmp_fin (m1 e1 m2 e2 : Z) : comparison :=
  let e := Z.min e1 e2 in
  Z.compare (m1 * 2 ^ (e1 - e)) (m2 * 2 ^ (e2 - e)).

Definition f_cmp (x y : f64) : option comparison :=
  match x, y with
  | NaN, _ | _, NaN => None
  | Inf a, Inf b => Some (if Bool.eqb a b then Eq else if a then Lt else Gt)
  | Inf a, _ => Some (if a then Lt else Gt)
  | _, Inf b => Some (if b then Gt else Lt)
  | NegZero, NegZero => Some Eq
  | NegZero, Fin m e => Some (Z.compare 0 m)
  | Fin m e, NegZero => Some (Z.compare m 0)
  | Fin m1 e1, Fin m2 e2 => Some (cmp_fin m1 e1 m2 e2)
  end.

Definition f_leb (x y : f64) : bool :=
  match f_cmp x y with Some Lt | Some Eq => true | _ => false end.
Definition f_ltb (x y : f64) : bool :=
  match f_cmp x y with Some Lt => true | _ => false end.
(** IEEE [==] (so -0.0 == 0.0, NaN != NaN) *)
Definition f_eqb (x y : f64) : bool :=
  match f_cmp x y with Some Eq => true | _ => false end.

(** [f64::EPSILON] = 2^-52 *)
Definition f_epsilon : f64 := Fin 1 (-52).

(** [f64::is_sign_positive] *)
Definition f_sign_positive (x : f64) : bool :=
  match x with
  | Fin m _ => 0 <=? m
  | NegZero => false
  | Inf n => negb n
  | NaN => true     (* the NaN produced by [abs] / by parsing "nan"; sign bit clear *)
  end.

(** ** Rust's saturating float-to-integer casts ([as i32], [as u32]): truncate toward zero,
    saturate at the bounds, NaN |-> 0 *)
Definition I32_MIN : Z := - 2 ^ 31.
Definition I32_MAX : Z := 2 ^ 31 - 1.
Definition U32_MAX : Z := 2 ^ 32 - 1.

Definition clamp (lo hi z : Z) : Z := Z.max lo (Z.min hi z).

Definition sat_cast (lo hi : Z) (x : f64) : Z :=
  match x with
  | NaN => 0
  | NegZero => 0
  | Inf true => lo
  | Inf false => hi
  | Fin m e => clamp lo hi (trunc_Z m e)
  end.
Definition sat_i32 : f64 -> Z := sat_cast I32_MIN I32_MAX.
Definition sat_u32 : f64 -> Z := sat_cast 0 U32_MAX.

(** [i32::unsigned_abs] (total: |i32::MIN| = 2^31 fits a u32) *)
Definition unsigned_abs (z : Z) : Z := Z.abs z.

Definition in_i32 (z : Z) : bool := (I32_MIN <=? z) && (z <=? I32_MAX).
Definition in_u32 (z : Z) : bool := (0 <=? z) && (z <=? U32_MAX).
Definition in_u8 (z : Z) : bool := (0 <=? z) && (z <=? 255).

(** ** integer to float ([as f64]): round to nearest, ties to even, on 53 bits *)
Definition f64_of_Z (z : Z) : f64 :=
  let n := Z.abs z in
  if n =? 0 then Fin 0 0
  else
    let k := Z.log2 n + 1 - 53 in               (* number of low bits that do not fit *)
    if k <=? 0 then norm z 0
    else
      let q := n / 2 ^ k in
      let r := n mod 2 ^ k in
      let half := 2 ^ (k - 1) in
      let q' := if (half <? r) || ((half =? r) && Z.odd q) then q + 1 else q in
      norm (Z.sgn z * q') k.

(** ** the exact rational value of a finite representation (specification side) *)
Definition f2Q (m e : Z) : Q :=
  if 0 <=? e then inject_Z (m * 2 ^ e) else Qmake m (Z.to_pos (2 ^ (- e))).
