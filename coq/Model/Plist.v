(** Numbers and property-list values as norad sees them, and the tree-level reading of a plist
    value from XML (the [plist] crate's XML reader, presented on event trees).
    Definitions only. *)
Require Export Norad.Model.Xml.
Open Scope N_scope.

(** ---------- binary64 values ----------
    finite: (-1)^neg * m * 2^e with m odd, or m = 0 (then e = 0; [neg] distinguishes -0) *)
Inductive fl : Type :=
| FFin (neg : bool) (m : N) (e : Z)
| FInf (neg : bool)
| FNaN.

Definition f0 : fl := FFin false 0 0.
Definition f1 : fl := FFin false 1 0.
Definition f360 : fl := FFin false 45 3.

Definition fl_z (neg : bool) (m : N) (e e0 : Z) : Z :=
  ((if neg then -1 else 1) * Z.of_N m * 2 ^ (e - e0))%Z.

(** IEEE [<=] (false on NaN, -0 = +0) *)
Definition fl_leb (a b : fl) : bool :=
  match a, b with
  | FNaN, _ => false
  | _, FNaN => false
  | FInf true, _ => true
  | FInf false, FInf false => true
  | FInf false, _ => false
  | FFin _ _ _, FInf nb => negb nb
  | FFin n1 m1 e1, FFin n2 m2 e2 =>
      let e0 := Z.min e1 e2 in (fl_z n1 m1 e1 e0 <=? fl_z n2 m2 e2 e0)%Z
  end.
Definition fl_eqb (a b : fl) : bool := fl_leb a b && fl_leb b a.     (* IEEE [==] *)
Definition fl_is_zero (a : fl) : bool := match a with FFin _ 0 _ => true | _ => false end.

(** structural equality (bit pattern up to the NaN payload) *)
Definition fl_same (a b : fl) : bool :=
  match a, b with
  | FFin n1 m1 e1, FFin n2 m2 e2 => Bool.eqb n1 n2 && (m1 =? m2) && (e1 =? e2)%Z
  | FInf n1, FInf n2 => Bool.eqb n1 n2
  | FNaN, FNaN => true
  | _, _ => false
  end.

(** ---------- property-list values ---------- *)
Inductive pv : Type :=
| PStr (s : str)
| PInt (z : Z)
| PReal (x : fl)
| PBool (b : bool)
| PData (b : list N)
| PDate (s : str)            (* kept as its XML text, e.g. 2020-01-31T10:00:00Z *)
| PArr (l : list pv)
| PDict (d : list (str * pv)).
Definition dict := list (str * pv).

(** [plist::Dictionary::insert]: replace in place, or append *)
Fixpoint dict_insert (k : str) (v : pv) (d : dict) : dict :=
  match d with
  | [] => [(k, v)]
  | (k', v') :: r => if str_eqb k k' then (k, v) :: r else (k', v') :: dict_insert k v r
  end.

(** ---------- leaf readers of the plist crate ---------- *)
Definition is_digit (c : N) : bool := (48 <=? c) && (c <=? 57).
Fixpoint dec_val (acc : N) (s : str) : option N :=
  match s with
  | [] => Some acc
  | c :: r => if is_digit c then dec_val (acc * 10 + (c - 48)) r else None
  end.
Definition hex_digit (c : N) : option N :=
  if is_digit c then Some (c - 48)
  else if (97 <=? c) && (c <=? 102) then Some (c - 87)
  else if (65 <=? c) && (c <=? 70) then Some (c - 55)
  else None.
Fixpoint hex_val (acc : N) (s : str) : option N :=
  match s with
  | [] => Some acc
  | c :: r => match hex_digit c with Some d => hex_val (acc * 16 + d) r | None => None end
  end.
(** unsigned numeral as Rust's [from_str_radix] reads it: optional [+], at least one digit *)
Definition unsigned_of (digits : N -> str -> option N) (s : str) : option N :=
  match s with
  | [] => None
  | c :: r => if c =? 43 then match r with [] => None | _ => digits 0 r end else digits 0 s
  end.
(** [plist::Integer::from_str]: [0x] prefix = hexadecimal u64, else i64, else u64 *)
Fixpoint strip_0x (fuel : nat) (t : str) : str :=
  match fuel, t with
  | S f, a :: b :: t' => if (a =? 48) && (b =? 120) then strip_0x f t' else t
  | _, _ => t
  end.
Definition starts_0x (s : str) : bool :=
  match s with a :: b :: _ => (a =? 48) && (b =? 120) | _ => false end.
Definition plist_int (s : str) : option Z :=
  if starts_0x s then
    match unsigned_of hex_val (strip_0x (List.length s) s) with
    | Some n => if n <? 2 ^ 64 then Some (Z.of_N n) else None
    | None => None
    end
  else
    match s with
    | c :: (_ :: _) as r =>
        if c =? 45 then
          match dec_val 0 r with
          | Some n => if n <=? 2 ^ 63 then Some (- Z.of_N n)%Z else None
          | None => None
          end
        else match unsigned_of dec_val s with
             | Some n => if n <? 2 ^ 64 then Some (Z.of_N n) else None
             | None => None
             end
    | _ => match unsigned_of dec_val s with
           | Some n => if n <? 2 ^ 64 then Some (Z.of_N n) else None
           | None => None
           end
    end.

(** base64 (standard alphabet, canonical padding required) *)
Definition b64_digit (c : N) : option N :=
  if (65 <=? c) && (c <=? 90) then Some (c - 65)
  else if (97 <=? c) && (c <=? 122) then Some (c - 71)
  else if is_digit c then Some (c + 4)
  else if c =? 43 then Some 62
  else if c =? 47 then Some 63
  else None.
Definition b64_quad (a b c d : N) (last : bool) : option (list N) :=
  match b64_digit a, b64_digit b with
  | Some x, Some y =>
      if (c =? 61) && (d =? 61) then
        if last && (y mod 16 =? 0) then Some [x * 4 + y / 16] else None
      else match b64_digit c with
           | None => None
           | Some z =>
               if d =? 61 then
                 if last && (z mod 4 =? 0) then Some [x * 4 + y / 16; (y mod 16) * 16 + z / 4]
                 else None
               else match b64_digit d with
                    | Some w => Some [x * 4 + y / 16; (y mod 16) * 16 + z / 4; (z mod 4) * 64 + w]
                    | None => None
                    end
           end
  | _, _ => None
  end.
Fixpoint b64_decode (fuel : nat) (s : str) : option (list N) :=
  match fuel with
  | O => None
  | S f =>
    match s with
    | [] => Some []
    | a :: b :: c :: d :: r =>
        match b64_quad a b c d (match r with [] => true | _ => false end), b64_decode f r with
        | Some x, Some t => Some (x ++ t)
        | _, _ => None
        end
    | _ => None
    end
  end.
Definition is_ascii_ws (c : N) : bool := is_ws c || (c =? 12).

(** date text: shape YYYY-MM-DDThh:mm:ssZ (ranges are the crate's business and not generated) *)
Definition date_shape (s : str) : bool :=
  (List.length s =? 20)%nat &&
  forallb (fun '(i, c) =>
             if (i =? 4) || (i =? 7) then c =? 45
             else if i =? 10 then c =? 84
             else if (i =? 13) || (i =? 16) then c =? 58
             else if i =? 19 then c =? 90
             else is_digit c)
          (combine (map N.of_nat (seq 0 20)) s).

Section Reader.
  (** [f64::from_str] of std: not modelled (any function will do) *)
  Variable pf : str -> option fl.

  (** [read_content]: concatenated character data; an element inside is an error *)
  Fixpoint content (kids : list node) : option str :=
    match kids with
    | [] => Some []
    | Text s :: r => match content r with Some t => Some (s ++ t) | None => None end
    | Elem _ _ _ :: _ => None
    | Empty _ _ :: r => None                 (* expanded to Start + End: an opening tag *)
    | _ :: r => content r
    end.

  Definition n_dict := s2l "dict".
  Definition n_array := s2l "array".
  Definition n_key := s2l "key".
  Definition n_string := s2l "string".
  Definition n_integer := s2l "integer".
  Definition n_real := s2l "real".
  Definition n_true := s2l "true".
  Definition n_false := s2l "false".
  Definition n_data := s2l "data".
  Definition n_date := s2l "date".

  Definition leaf_value (name : str) (kids : list node) : option pv :=
    if str_eqb name n_string || str_eqb name n_key then
      match content kids with Some s => Some (PStr s) | None => None end
    else if str_eqb name n_integer then
      match content kids with
      | Some s => match plist_int s with Some z => Some (PInt z) | None => None end
      | None => None
      end
    else if str_eqb name n_real then
      match content kids with
      | Some s => match pf s with Some x => Some (PReal x) | None => None end
      | None => None
      end
    else if str_eqb name n_data then
      match content kids with
      | Some s => let t := filter (fun c => negb (is_ascii_ws c)) s in
                  match b64_decode (S (List.length t)) t with Some b => Some (PData b) | None => None end
      | None => None
      end
    else if str_eqb name n_date then
      match content kids with
      | Some s => if date_shape s then Some (PDate s) else None
      | None => None
      end
    else None.

  (** the children of an <array> / a <dict>, given the reading of one element *)
  Definition arr_of (f : node -> option pv) : list node -> option (list pv) :=
    fix arr (l : list node) : option (list pv) :=
    match l with
    | [] => Some []
    | (Elem _ _ _ as k) :: r | (Empty _ _ as k) :: r =>
        match f k, arr r with Some v, Some vs => Some (v :: vs) | _, _ => None end
    | Text s :: r => if blank s then arr r else None
    | _ :: r => arr r
    end.
  Definition dic_of (f : node -> option pv) : list node -> option str -> dict -> option dict :=
    fix dic (l : list node) (pending : option str) (acc : dict) : option dict :=
    match l with
    | [] => match pending with None => Some acc | Some _ => None end
    | (Elem _ _ _ as k) :: r | (Empty _ _ as k) :: r =>
        match f k with
        | None => None
        | Some v =>
            match pending with
            | None => match v with PStr key => dic r (Some key) acc | _ => None end
            | Some key => dic r None (dict_insert key v acc)
            end
        end
    | Text s :: r => if blank s then dic r pending acc else None
    | _ :: r => dic r pending acc
    end.

  (** the value an element denotes *)
  Fixpoint pv_of (n : node) : option pv :=
    match n with
    | Elem name _ kids =>
        if str_eqb name n_array then option_map PArr (arr_of pv_of kids)
        else if str_eqb name n_dict then option_map PDict (dic_of pv_of kids None [])
        else if str_eqb name n_true then Some (PBool true)
        else if str_eqb name n_false then Some (PBool false)
        else leaf_value name kids
    | Empty name _ =>
        if str_eqb name n_array then Some (PArr [])
        else if str_eqb name n_dict then Some (PDict [])
        else if str_eqb name n_true then Some (PBool true)
        else if str_eqb name n_false then Some (PBool false)
        else leaf_value name []
    | _ => None
    end.

  (** [Value::from_reader_xml] on the slice between [<lib>] and [</lib>]: exactly one value *)
  Fixpoint plist_of_nodes_aux (l : list node) (found : option pv) : option pv :=
    match l with
    | [] => found
    | (Elem _ _ _ as k) :: r | (Empty _ _ as k) :: r =>
        match found with
        | Some _ => None
        | None => match pv_of k with Some v => plist_of_nodes_aux r (Some v) | None => None end
        end
    | Text s :: r => if blank s then plist_of_nodes_aux r found else None
    | _ :: r => plist_of_nodes_aux r found
    end.
  Definition plist_of_nodes (l : list node) : option pv := plist_of_nodes_aux l None.
End Reader.

(** ---------- dictionaries ---------- *)
(** lexicographic order on code points (= byte order of the UTF-8 encodings) *)
Fixpoint str_ltb (a b : str) : bool :=
  match a, b with
  | _, [] => false
  | [], _ :: _ => true
  | x :: a', y :: b' => (x <? y) || ((x =? y) && str_ltb a' b')
  end.
Fixpoint insert_sorted {A} (k : str) (v : A) (l : list (str * A)) : list (str * A) :=
  match l with
  | [] => [(k, v)]
  | (k', v') :: r => if str_ltb k k' then (k, v) :: l else (k', v') :: insert_sorted k v r
  end.
Definition sort_keys {A} (l : list (str * A)) : list (str * A) :=
  fold_right (fun kv acc => insert_sorted (fst kv) (snd kv) acc) [] l.

(** [util::recursive_sort_plist_keys]: through dictionaries only, not through arrays *)
Definition map_values (f : pv -> pv) (d : dict) : dict := map (fun kx => let '(k, x) := kx in (k, f x)) d.
Fixpoint sort_keys_rec_pv (v : pv) : pv :=
  match v with
  | PDict d => PDict (sort_keys (map_values sort_keys_rec_pv d))
  | _ => v
  end.
Definition sort_keys_rec (d : dict) : dict :=
  match sort_keys_rec_pv (PDict d) with PDict d' => d' | _ => d end.
