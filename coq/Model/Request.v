(** Model of [Font::load_impl] (src/font.rs), [LayerContents::load], [Layer::load_impl]
    (src/layer.rs) and the layer filter (src/data_request.rs) for format-3 UFOs, as a computation
    that LOGS every path whose existence or content it consults.  Definitions only
    (proofs: Proofs/RequestP.v).

    File contents are parsed views: each file kind has one constructor, and a file of any other
    shape ("garbage") fails that kind's parser.  The numbers are opaque tokens for the value a
    file parses to; token 0 stands for the empty / default value. *)
From stdpp Require Import gmap strings.
From Norad.Model Require Import Fs Save.
Open Scope string_scope.
Open Scope list_scope.

(** * File contents as the parsers see them *)
Inductive olibs := ONone | OGood (t : N) | OBad.   (* the public.objectLibs entry of lib.plist *)
Inductive lcontent :=
| LGarbage (tok : N)
| LMeta (ver : N) (tok : N)                      (* metainfo.plist: formatVersion, the rest *)
| LLib (tok : N) (ol : olibs)                    (* a dictionary: other keys, public.objectLibs *)
| LLibNotDict                                    (* a plist, but not a dictionary *)
| LInfo (tok : N) (valid : bool) (guides : bool) (* fontinfo.plist; has guidelines that take object libs *)
| LGroups (tok : N) (valid : bool)
| LKerning (tok : N)
| LFeatures (tok : N)                            (* UTF-8 text *)
| LLayerContents (ls : list (string * rel))      (* (layer name, directory) in file order *)
| LContents (gs : list (string * rel))           (* (glyph name, glif path) in key order *)
| LLayerInfo (tok : N)
| LGlif (tok : N)
| LBytes (tok : N).                              (* a data or image file *)
Notation lfs := (fs lcontent).

Global Instance olibs_eq_dec : EqDecision olibs. Proof. solve_decision. Defined.

(** * The request *)
Record lfilter := LFilter {
  fl_all : bool;
  fl_default : bool;
  fl_custom : option (list (string * rel));   (* the closure, as the finite set it accepts *)
}.
Record request := Request {
  r_lib : bool; r_groups : bool; r_kerning : bool; r_features : bool; r_data : bool; r_images : bool;
  r_filter : lfilter;
}.
Definition req_all : request := Request true true true true true true (LFilter true false None).

Definition DEFAULT_LAYER_NAME := "public.default".
Definition DEFAULT_GLYPHS_DIRNAME := "glyphs".
(** [LayerFilter::should_load] and [includes_default_layer] *)
Definition should_load (fl : lfilter) (name : string) (p : rel) : bool :=
  fl_all fl
  || (fl_default fl && bool_decide (p = [Normal DEFAULT_GLYPHS_DIRNAME]))
  || match fl_custom fl with Some s => bool_decide ((name, p) ∈ s) | None => false end.
Definition includes_default (fl : lfilter) : bool := fl_all fl || fl_default fl.

(** * The loaded font, abstractly *)
Record llayer := LLayer {
  ll_name : string;
  ll_rel : rel;                     (* ghost: the directory as written in layercontents.plist *)
  ll_dir : string;                  (* Layer.path: its last component *)
  ll_glyphs : list (string * N);    (* glyph name, glif token *)
  ll_files : list rel;              (* the glif file of each glyph, as in contents.plist *)
  ll_info : N;                      (* layerinfo.plist token, 0 = none *)
}.
Record lfont := LFont {
  lf_meta : N;
  lf_lib : N * olibs;               (* (0, ONone) = empty *)
  lf_info : N * option N;           (* fontinfo token, object libs attached to its guidelines *)
  lf_groups : N; lf_kerning : N; lf_features : N;
  lf_layers : list llayer;
  lf_data : list (list string);     (* store keys; every cell not loaded *)
  lf_images : list (list string);
}.
Definition empty_font : lfont := LFont 0 (0%N, ONone) (0%N, None) 0 0 0 [] [] [].
Definition placeholder : llayer :=
  LLayer DEFAULT_LAYER_NAME [Normal DEFAULT_GLYPHS_DIRNAME] DEFAULT_GLYPHS_DIRNAME [] [] 0.
Definition is_default (l : llayer) : bool := bool_decide (ll_dir l = DEFAULT_GLYPHS_DIRNAME).

Inductive layer_lerr :=
| LMissingContents | LParseContents | LInvalidGlyphFileName | LDuplicateGlyphFileName | LGlyph | LParseLayerInfo.
Inductive lerr :=
| AccessUfoDir | UfoNotADir | MissingMetaInfoFile | ParsePlist (file : string)
| LibFileMustBeDictionary | FontInfoErr | InvalidGroupsL | FeatureFileL
| MissingLayerContentsFile
| InvalidLayerDirectory (name : string) | DuplicateLayerName (name : string) | DuplicateLayerDirectory
| ReservedLayerName
| LayerL (name : string) (e : layer_lerr) | MissingDefaultLayer
| DataStoreL | ImagesStoreL
| Legacy          (* format version 1 or 2: upconversion, outside this model *)
| FileNamePanic.  (* [path.file_name().unwrap()] on a layer directory ending in [..] *)

(** * The logging monad *)
Inductive rd := RPath (p : path) | RTree (d : path).
Definition M (A : Type) : Type := lfs → (lerr + A) * list rd.
Definition ret {A} (a : A) : M A := λ _, (inr a, []).
Definition fail {A} (e : lerr) : M A := λ _, (inl e, []).
Definition bind {A B} (x : M A) (k : A → M B) : M B :=
  λ m, match x m with
       | (inl e, l) => (inl e, l)
       | (inr a, l) => let r := k a m in (r.1, l ++ r.2)
       end.
Definition m_exists (p : path) : M bool := λ m, (inr (exists_ m p), [RPath p]).
Definition m_is_dir (p : path) : M bool := λ m, (inr (is_dir m p), [RPath p]).
Definition m_read (p : path) : M (option lcontent) := λ m, (inr (read m p), [RPath p]).
Definition m_list (d : path) : M (list (list string)) := λ m, (inr (files_below d m), [RTree d]).
Definition m_has_subdir (d : path) : M bool := λ m, (inr (has_subdir d m), [RTree d]).
Fixpoint mapM {A B} (g : A → M B) (l : list A) : M (list B) :=
  match l with
  | [] => ret []
  | a :: r => bind (g a) (λ b, bind (mapM g r) (λ bs, ret (b :: bs)))
  end.

(** paths: [base.join(rel)], resolved lexically (the model does not follow [..] through the
    file system; the generated inputs and [wf_ufo] only use plain components) *)
Fixpoint lex (cur : path) (r : rel) : path :=
  match r with
  | [] => cur
  | c :: r' =>
      lex (match c with
           | Normal s => cur ++ [s] | ParentDir => removelast cur | CurDir => cur | RootDir => []
           end) r'
  end.
(** [Path::file_name] of [base.join(rel)] *)
Definition file_name_of (t : path) (r : rel) : option string :=
  match last (filter (λ c, c ≠ CurDir) r) with
  | Some (Normal s) => Some s
  | Some _ => None
  | None => last t
  end.

Definition METAINFO_FILE := "metainfo.plist".
Definition FONTINFO_FILE := "fontinfo.plist".
Definition LIB_FILE := "lib.plist".
Definition GROUPS_FILE := "groups.plist".
Definition KERNING_FILE := "kerning.plist".
Definition FEATURES_FILE := "features.fea".
Definition LAYER_CONTENTS_FILE := "layercontents.plist".

(** * Layers *)
(** [plain_name]: the path is a single normal component *)
Definition plain_name (r : rel) : option string := match r with [Normal s] => Some s | _ => None end.
(** [str::to_lowercase] on the plain name; ASCII here (every generated name is ASCII; the theorems
    do not depend on what this function is) *)
Definition lower_ascii (a : Ascii.ascii) : Ascii.ascii :=
  let n := Ascii.N_of_ascii a in
  if (65 <=? n)%N && (n <=? 90)%N then Ascii.ascii_of_N (n + 32) else a.
Fixpoint lower (s : string) : string :=
  match s with EmptyString => EmptyString | String a r => String (lower_ascii a) (lower r) end.
(** the loop of [LayerContents::load] over ALL entries, in file order, before any filtering;
    directories are compared lower-cased, like the set of taken directories (f6784f0) *)
Fixpoint validate_layers (seen_n seen_d : list string) (ls : list (string * rel)) : option lerr :=
  match ls with
  | [] => None
  | nr :: rest =>
      match plain_name nr.2 with
      | None => Some (InvalidLayerDirectory nr.1)
      | Some d =>
          if bool_decide (nr.1 ∈ seen_n) then Some (DuplicateLayerName nr.1)
          else if bool_decide (lower d ∈ seen_d) then Some DuplicateLayerDirectory
          else if bool_decide (nr.1 = DEFAULT_LAYER_NAME) && negb (bool_decide (d = DEFAULT_GLYPHS_DIRNAME))
               then Some ReservedLayerName
          else validate_layers (nr.1 :: seen_n) (lower d :: seen_d) rest
      end
  end.
(** the loop of [Layer::load_impl] over contents.plist, in glyph-name order *)
Fixpoint validate_glifs (seen : list string) (gs : list (string * rel)) : option layer_lerr :=
  match gs with
  | [] => None
  | g :: rest =>
      match plain_name g.2 with
      | None => Some LInvalidGlyphFileName
      | Some fn => if bool_decide (lower fn ∈ seen) then Some LDuplicateGlyphFileName
                   else validate_glifs (lower fn :: seen) rest
      end
  end.
(** [Layer::load_impl] *)
Definition load_layer (t : path) (nr : string * rel) : M llayer :=
  let ldir := lex t nr.2 in
  bind (m_exists (ldir ++ [CONTENTS_FILE])) (λ ex,
  if negb ex then fail (LayerL nr.1 LMissingContents) else
  bind (m_read (ldir ++ [CONTENTS_FILE])) (λ c,
  match c with
  | Some (LContents gs) =>
      match validate_glifs [] gs with Some e => fail (LayerL nr.1 e) | None =>
      bind (mapM (λ g, bind (m_read (lex ldir g.2)) (λ c,
                         match c with Some (LGlif tok) => ret (g.1, tok) | _ => fail (LayerL nr.1 LGlyph) end)) gs) (λ glyphs,
      bind (m_exists (ldir ++ [LAYER_INFO_FILE])) (λ exi,
      bind (if exi then bind (m_read (ldir ++ [LAYER_INFO_FILE])) (λ c,
                             match c with Some (LLayerInfo tok) => ret tok | _ => fail (LayerL nr.1 LParseLayerInfo) end)
            else ret 0%N) (λ info,
      match file_name_of t nr.2 with
      | Some d => ret (LLayer nr.1 nr.2 d glyphs (map snd gs) info)
      | None => fail FileNamePanic
      end)))
      end
  | _ => fail (LayerL nr.1 LParseContents)
  end)).

(** move the first default layer to the front *)
Fixpoint split_default (ls : list llayer) : option (llayer * list llayer) :=
  match ls with
  | [] => None
  | l :: r => if is_default l then Some (l, r)
              else match split_default r with Some (d, r') => Some (d, l :: r') | None => None end
  end.
Definition with_placeholder (fl : lfilter) (ls : list llayer) : list llayer :=
  if negb (includes_default fl) && negb (existsb is_default ls) then ls ++ [placeholder] else ls.
Definition default_first (ls : list llayer) : option (list llayer) :=
  match split_default ls with Some (d, r) => Some (d :: r) | None => None end.

(** [load_layer_set] + [LayerContents::load] for format 3 *)
Definition load_layers (fl : lfilter) (t : path) : M (list llayer) :=
  let lc := t ++ [LAYER_CONTENTS_FILE] in
  bind (m_exists lc) (λ ex,
  if negb ex then fail MissingLayerContentsFile else
  bind (m_exists lc) (λ _,
  bind (m_read lc) (λ c,
  match c with
  | Some (LLayerContents ls) =>
      match validate_layers [] [] ls with Some e => fail e | None =>
      bind (mapM (load_layer t) (filter (λ nr, should_load fl nr.1 nr.2) ls)) (λ layers,
      match default_first (with_placeholder fl layers) with
      | Some r => ret r
      | None => fail MissingDefaultLayer
      end)
      end
  | _ => fail (ParsePlist LAYER_CONTENTS_FILE)
  end))).

(** * The steps of load_impl, in source order *)
Inductive ldstep :=
| LdAccess | LdMeta | LdLib | LdInfo | LdGroups | LdKerning | LdFeatures | LdLayers
| LdData | LdImages | LdUpconvert | LdRobofab.
Definition load_steps : list ldstep :=
  [LdAccess; LdMeta; LdLib; LdInfo; LdGroups; LdKerning; LdFeatures; LdLayers; LdData; LdImages;
   LdUpconvert; LdRobofab].

Definition set_meta (f : lfont) v := LFont v (lf_lib f) (lf_info f) (lf_groups f) (lf_kerning f) (lf_features f) (lf_layers f) (lf_data f) (lf_images f).
Definition set_lib (f : lfont) v := LFont (lf_meta f) v (lf_info f) (lf_groups f) (lf_kerning f) (lf_features f) (lf_layers f) (lf_data f) (lf_images f).
Definition set_info (f : lfont) v := LFont (lf_meta f) (lf_lib f) v (lf_groups f) (lf_kerning f) (lf_features f) (lf_layers f) (lf_data f) (lf_images f).
Definition set_groups (f : lfont) v := LFont (lf_meta f) (lf_lib f) (lf_info f) v (lf_kerning f) (lf_features f) (lf_layers f) (lf_data f) (lf_images f).
Definition set_kerning (f : lfont) v := LFont (lf_meta f) (lf_lib f) (lf_info f) (lf_groups f) v (lf_features f) (lf_layers f) (lf_data f) (lf_images f).
Definition set_features (f : lfont) v := LFont (lf_meta f) (lf_lib f) (lf_info f) (lf_groups f) (lf_kerning f) v (lf_layers f) (lf_data f) (lf_images f).
Definition set_layers (f : lfont) v := LFont (lf_meta f) (lf_lib f) (lf_info f) (lf_groups f) (lf_kerning f) (lf_features f) v (lf_data f) (lf_images f).
Definition set_data (f : lfont) v := LFont (lf_meta f) (lf_lib f) (lf_info f) (lf_groups f) (lf_kerning f) (lf_features f) (lf_layers f) v (lf_images f).
Definition set_images (f : lfont) v := LFont (lf_meta f) (lf_lib f) (lf_info f) (lf_groups f) (lf_kerning f) (lf_features f) (lf_layers f) (lf_data f) v.

(** an optional, switch-guarded file: [if request.x && path.exists() { parse } else { default }] *)
Definition guarded {A} (on : bool) (p : path) (dflt : A) (parse : option lcontent → lerr + A) : M A :=
  if on then
    bind (m_exists p) (λ ex,
    if ex then bind (m_read p) (λ c, match parse c with inr a => ret a | inl e => fail e end)
    else ret dflt)
  else ret dflt.

Definition parse_lib (c : option lcontent) : lerr + (N * olibs) :=
  match c with
  | Some (LLib tok ol) => inr (tok, ol)
  | Some LLibNotDict => inl LibFileMustBeDictionary
  | _ => inl (ParsePlist LIB_FILE)
  end.
Definition parse_groups (c : option lcontent) : lerr + N :=
  match c with
  | Some (LGroups tok true) => inr tok
  | Some (LGroups _ false) => inl InvalidGroupsL
  | _ => inl (ParsePlist GROUPS_FILE)
  end.
Definition parse_kerning (c : option lcontent) : lerr + N :=
  match c with Some (LKerning tok) => inr tok | _ => inl (ParsePlist KERNING_FILE) end.
Definition parse_features (c : option lcontent) : lerr + N :=
  match c with Some (LFeatures tok) => inr tok | _ => inl FeatureFileL end.
(** [FontInfo::from_file] for format 3: parse, validate, take the object libs out of the lib *)
Definition parse_info (lib : N * olibs) (c : option lcontent) : lerr + ((N * option N) * (N * olibs)) :=
  match c with
  | Some (LInfo tok true guides) =>
      match lib.2 with
      | ONone => inr ((tok, None), lib)
      | OBad => inl FontInfoErr
      | OGood t => inr ((tok, if guides then Some t else None), (lib.1, ONone))
      end
  | _ => inl FontInfoErr
  end.

(** [Store::new] when the directory exists *)
Definition load_store (flat : bool) (on : bool) (d : path) (e : lerr) : M (list (list string)) :=
  if on then
    bind (m_exists d) (λ ex,
    if ex then
      bind (m_is_dir d) (λ isd,
      if negb isd then fail e else
      bind (if flat then m_has_subdir d else ret false) (λ sub,
      if sub then fail e else m_list d))
    else ret [])
  else ret [].

Definition ld_sem (r : request) (t : path) (s : ldstep) (f : lfont) : M lfont :=
  match s with
  | LdAccess =>
      bind (m_exists t) (λ ex, if negb ex then fail AccessUfoDir else
      bind (m_is_dir t) (λ d, if d then ret f else fail UfoNotADir))
  | LdMeta =>
      bind (m_exists (t ++ [METAINFO_FILE])) (λ ex, if negb ex then fail MissingMetaInfoFile else
      bind (m_read (t ++ [METAINFO_FILE])) (λ c,
      match c with
      | Some (LMeta 3 tok) => ret (set_meta f tok)
      | Some (LMeta _ _) => fail Legacy
      | _ => fail (ParsePlist METAINFO_FILE)
      end))
  | LdLib => bind (guarded (r_lib r) (t ++ [LIB_FILE]) (0%N, ONone) parse_lib) (λ v, ret (set_lib f v))
  | LdInfo =>
      bind (m_exists (t ++ [FONTINFO_FILE])) (λ ex,
      if ex then bind (m_read (t ++ [FONTINFO_FILE])) (λ c,
                 match parse_info (lf_lib f) c with
                 | inr (i, l) => ret (set_lib (set_info f i) l)
                 | inl e => fail e
                 end)
      else ret (set_lib f ((lf_lib f).1, ONone)))   (* lib.remove(public.objectLibs), unconditionally *)
  | LdGroups => bind (guarded (r_groups r) (t ++ [GROUPS_FILE]) 0%N parse_groups) (λ v, ret (set_groups f v))
  | LdKerning => bind (guarded (r_kerning r) (t ++ [KERNING_FILE]) 0%N parse_kerning) (λ v, ret (set_kerning f v))
  | LdFeatures => bind (guarded (r_features r) (t ++ [FEATURES_FILE]) 0%N parse_features) (λ v, ret (set_features f v))
  | LdLayers => bind (load_layers (r_filter r) t) (λ v, ret (set_layers f v))
  | LdData => bind (load_store false (r_data r) (t ++ [DATA_DIR]) DataStoreL) (λ v, ret (set_data f v))
  | LdImages => bind (load_store true (r_images r) (t ++ [IMAGES_DIR]) ImagesStoreL) (λ v, ret (set_images f v))
  | LdUpconvert => ret f     (* format 3: nothing to do *)
  | LdRobofab => ret f       (* guarded by format_version == V1 *)
  end.
Fixpoint run_ld (r : request) (t : path) (ss : list ldstep) (f : lfont) : M lfont :=
  match ss with
  | [] => ret f
  | s :: ss' => bind (ld_sem r t s f) (run_ld r t ss')
  end.
(** [Font::load_requested_data(path, request)] *)
Definition load (r : request) (t : path) : M lfont := run_ld r t load_steps empty_font.

(** * Specification side *)

(** the full load restricted to what was requested: un-requested parts at their defaults, layers
    filtered, the default layer present (empty if filtered out) and first; guideline object libs
    live in lib.plist and go with the lib *)
Definition restrict_layers (fl : lfilter) (ls : list llayer) : list llayer :=
  let sel := filter (λ l, should_load fl (ll_name l) (ll_rel l)) ls in
  match default_first (with_placeholder fl sel) with Some r => r | None => sel end.
Definition restrict (r : request) (f : lfont) : lfont :=
  LFont (lf_meta f)
        (if r_lib r then lf_lib f else (0%N, ONone))
        ((lf_info f).1, if r_lib r then (lf_info f).2 else None)
        (if r_groups r then lf_groups f else 0%N)
        (if r_kerning r then lf_kerning f else 0%N)
        (if r_features r then lf_features f else 0%N)
        (restrict_layers (r_filter r) (lf_layers f))
        (if r_data r then lf_data f else [])
        (if r_images r then lf_images f else []).

(** every glif path of a loaded font is a single plain component (layer directories are, by
    construction: [ll_dir] is one name) *)
Definition loaded_safe (f : lfont) : Prop := Forall (λ l, Forall single_normal (ll_files l)) (lf_layers f).
(** [fa] is a save-side abstraction of the loaded font [f]: same layer directories, same glif paths *)
Definition abstracts (fa : font_abs) (f : lfont) : Prop :=
  map (λ l, (la_dir l, map g_path (la_glifs l))) (fa_layers fa)
  = map (λ l, ([Normal (ll_dir l)], ll_files l)) (lf_layers f).

(** agreement of two file systems on what a run consulted *)
Definition agree1 (m m' : lfs) (e : rd) : Prop :=
  match e with
  | RPath p => m !! p = m' !! p
  | RTree d => ∀ p, under d p → m !! p = m' !! p
  end.
Definition agree (l : list rd) (m m' : lfs) : Prop := Forall (agree1 m m') l.
Definition touches (e : rd) (p : path) : Prop :=
  match e with RPath q => q = p | RTree d => under d p end.

(** the layer entries of the UFO at [t], if layercontents.plist parses *)
Definition layer_entries_of (m : lfs) (t : path) : list (string * rel) :=
  match read m (t ++ [LAYER_CONTENTS_FILE]) with Some (LLayerContents ls) => ls | _ => [] end.
Definition glif_entries_of (m : lfs) (ldir : path) : list (string * rel) :=
  match read m (ldir ++ [CONTENTS_FILE]) with Some (LContents gs) => gs | _ => [] end.

(** files that belong to un-requested parts *)
Definition unrequested (r : request) (t : path) (m : lfs) (p : path) : Prop :=
  (r_lib r = false ∧ p = t ++ [LIB_FILE]) ∨
  (r_groups r = false ∧ p = t ++ [GROUPS_FILE]) ∨
  (r_kerning r = false ∧ p = t ++ [KERNING_FILE]) ∨
  (r_features r = false ∧ p = t ++ [FEATURES_FILE]) ∨
  (r_data r = false ∧ under (t ++ [DATA_DIR]) p) ∨
  (r_images r = false ∧ under (t ++ [IMAGES_DIR]) p) ∨
  (∃ nr, nr ∈ layer_entries_of m t ∧ should_load (r_filter r) nr.1 nr.2 = false ∧ under (lex t nr.2) p).

(** a UFO whose layer directories and glif paths are distinct plain names that do not collide
    with the files of other parts *)
Definition ufo_reserved : list string :=
  [METAINFO_FILE; FONTINFO_FILE; LIB_FILE; GROUPS_FILE; KERNING_FILE; FEATURES_FILE;
   LAYER_CONTENTS_FILE; DATA_DIR; IMAGES_DIR].
Definition plain1 (r : rel) : Prop := ∃ s, r = [Normal s].
Definition wf_ufo (m : lfs) (t : path) : Prop :=
  let ls := layer_entries_of m t in
  Forall (λ nr, ∃ d, nr.2 = [Normal d] ∧ d ∉ ufo_reserved ∧
                     Forall (λ g, plain1 g.2) (glif_entries_of m (t ++ [d]))) ls ∧
  NoDup (map snd ls).

(** * Effect-order skeleton (compared with the source by Anchors/AnchorsOK_C17.v) *)
Definition guard_of (s : ldstep) : string :=
  match s with
  | LdLib => "request.lib && lib_path.exists()" | LdGroups => "request.groups && groups_path.exists()"
  | LdKerning => "request.kerning && kerning_path.exists()"
  | LdFeatures => "request.features && features_path.exists()"
  | LdData => "request.data && path.join(DATA_DIR).exists()"
  | LdImages => "request.images && path.join(IMAGES_DIR).exists()"
  | _ => ""
  end.
Definition skel_ld (s : ldstep) : list (string * string) :=
  match s with
  | LdAccess => [("metadata", ""); ("err", "AccessUfoDir"); ("err", "UfoNotADir")]
  | LdMeta => [("exists", METAINFO_FILE); ("err", "MissingMetaInfoFile");
               ("read_plist", METAINFO_FILE); ("err", "ParsePlist")]
  | LdLib => [("guard", guard_of LdLib); ("exists", LIB_FILE); ("call", "load_lib " +:+ LIB_FILE)]
  | LdInfo => [("exists", FONTINFO_FILE); ("call", "load_fontinfo " +:+ FONTINFO_FILE)]
  | LdGroups => [("guard", guard_of LdGroups); ("exists", GROUPS_FILE); ("call", "load_groups " +:+ GROUPS_FILE)]
  | LdKerning => [("guard", guard_of LdKerning); ("exists", KERNING_FILE); ("call", "load_kerning " +:+ KERNING_FILE)]
  | LdFeatures => [("guard", guard_of LdFeatures); ("exists", FEATURES_FILE); ("call", "load_features " +:+ FEATURES_FILE)]
  | LdLayers => [("call", "load_layer_set")]
  | LdData => [("guard", guard_of LdData); ("exists", DATA_DIR); ("open_store", DATA_DIR); ("err", "DataStore")]
  | LdImages => [("guard", guard_of LdImages); ("exists", IMAGES_DIR); ("open_store", IMAGES_DIR); ("err", "ImagesStore")]
  | LdUpconvert => [("err", "GroupsUpconversionFailure")]
  | LdRobofab => [("guard", "meta.format_version == FormatVersion::V1 && lib_path.exists()"); ("exists", LIB_FILE);
                  ("call", "upconvert_ufov1_robofab_data " +:+ LIB_FILE)]
  end.
Definition load_skeleton : list (string * string) := concat (map skel_ld load_steps).
(** the helpers: one read each *)
Definition load_lib_skeleton := [("read_plist", ""); ("err", "ParsePlist"); ("err", "LibFileMustBeDictionary")].
Definition load_fontinfo_skeleton := [("read_plist", ""); ("err", "FontInfo")].
Definition load_groups_skeleton := [("read_plist", ""); ("err", "ParsePlist"); ("err", "InvalidGroups")].
Definition load_kerning_skeleton := [("read_plist", ""); ("err", "ParsePlist")].
Definition load_features_skeleton := [("read", ""); ("err", "FeatureFile")].
Definition load_layer_set_skeleton :=
  [("guard", "meta.format_version == FormatVersion::V3 && !layercontents_path.exists()"); ("exists", LAYER_CONTENTS_FILE); ("err", "MissingLayerContentsFile");
   ("call", "LayerContents::load")].
Definition layercontents_load_skeleton :=
  [("exists", LAYER_CONTENTS_FILE); ("read_plist", LAYER_CONTENTS_FILE); ("err", "ParsePlist");
   (* the validation loop over all entries comes BEFORE the filter *)
   ("err", "InvalidLayerDirectory"); ("seen", "names: name"); ("err", "DuplicateLayerName");
   ("seen", "dirs: dir.to_string_lossy().to_lowercase()"); ("err", "DuplicateLayerDirectory");
   ("err", "ReservedLayerName");
   ("guard", "filter.should_load"); ("call", "Layer::load_impl <path>"); ("err", "Layer");
   ("guard", "!filter.includes_default_layer() && !layers.iter().any(Layer::is_default)"); ("err", "MissingDefaultLayer")].
Definition layer_load_skeleton :=
  [("exists", CONTENTS_FILE); ("err", "MissingContentsFile"); ("read_plist", CONTENTS_FILE); ("err", "ParsePlist");
   ("err", "InvalidGlyphFileName"); ("seen", "files: file_name.to_string_lossy().to_lowercase()");
   ("err", "DuplicateGlyphFileName");
   ("call", "Glyph::load_with_names <glyph_path>"); ("err", "Glyph");
   ("exists", LAYER_INFO_FILE); ("call", "parse_layer_info " +:+ LAYER_INFO_FILE)].
Definition parse_layer_info_skeleton := [("read_plist", ""); ("err", "ParsePlist")].
Definition glyph_load_skeleton := [("read", ""); ("err", "Io")].
Definition should_load_expr :=
  "self.all || (self.load_default && path == Path::new(""glyphs"")) || self.custom.as_ref().map(|f| f(name, path)).unwrap_or(false)".
Definition includes_default_expr := "self.all || self.load_default".
