(** C19 x C06/C07 — the write list of [Layer::save_with_options] as a function of C06's layer
    state.  Definitions only.

    C06's model (Model/Layer.v) represents a layer's [contents: BTreeMap<Name, PathBuf>] as
    [l_contents : gmap str str] (glyph name |-> glif file name); C19's model (Model/Interleave.v)
    represents what one layer save writes as a list [list stask] of (path, bytes-or-error), one
    task per entry of [contents].  The abstraction: one write per entry, to the entry's file, of
    whatever the glyph's encoding yields ([enc], arbitrary: bytes or an error).  The real
    iteration order is the key order of the [BTreeMap]; [map_to_list] enumerates a [gmap] in
    another order, so "the write list of a layer" is any permutation of [save_tasks_of]. *)
Require Import Norad.Model.Base Norad.Model.Interleave Norad.Model.FileName Norad.Model.Layer.
From stdpp Require Import gmap.
From Coq Require Import Permutation.

Definition save_tasks_of (enc : str -> N + list N) (l : layer) : list stask :=
  List.map (fun kv : str * str => (snd kv, enc (fst kv))) (map_to_list (l_contents l)).

(** [ws] is a write list of layer [l]: the tasks of [l]'s entries, in some order *)
Definition is_write_list (enc : str -> N + list N) (l : layer) (ws : list stask) : Prop :=
  Permutation ws (save_tasks_of enc l).
