(** The UFO specification's font-info conversion rules as DATA, and a generic table-driven
    converter.  Definitions only.

    Source: "Converting UFO 1 to UFO 2" and "Converting UFO 2 to UFO 3" of the UFO 3
    specification (unifiedfontobject.org/versions/ufo3/conversion/), which reproduces the
    reference implementation's (ufoLib) tables:

      UFO 1 -> 2   [fontInfoAttributesVersion1To2] (26 renamed attributes, three of them with a
                   value table: fontStyle, widthName, msCharSet), every other format-1 attribute
                   keeps its name; weightValue -1 ("FontLab's value for undefined") is dropped;
                   the reference tables also accept fontStyle 0 and the width names
                   "Normal", "All", "medium", "Medium" ("appear in a lot of UFO 1 files").
      UFO 2 -> 3   every attribute keeps its name; the attributes of [_ufo2To3FloatToInt] are
                   rounded to integers, those of [_ufo2To3NonNegativeInt] and
                   [_ufo2To3NonNegativeIntOrFloat] are made non-negative by taking the absolute
                   value.  openTypeOS2Panose is "a list of ten non-negative integers" in UFO 3
                   and "a list of ten integers" in UFO 2: component-wise absolute value.
      UFO 1 -> 3   is the composition (versionMinor, unitsPerEm and the renamed weight class are
                   made non-negative).

    The order of the rows is the order of the format-3 attributes in fontinfo.plist; it only
    matters for WHICH error is reported when several enumeration values are unknown.
    Nothing in this file was derived from norad's converter; Anchors/AnchorsOK_C14.v checks on
    every run that the mapping extracted from src/fontinfo.rs equals these tables. *)
Require Export Norad.Model.Base Norad.Model.Num.
From Coq Require Export String.
Open Scope string_scope.
Open Scope Z_scope.

(** ** attribute values *)
Inductive val : Type :=
| VNum (x : f64)            (* integer-or-float / float attributes *)
| VInt (z : Z)              (* integer attributes and integer-coded enumerations *)
| VStr (s : string)         (* byte string *)
| VBool (b : bool)
| VNums (l : list f64)      (* number lists (blues, stems) *)
| VInts (l : list Z).       (* integer lists (bit lists, family class, panose) *)

(** font info as a key -> value association (first binding wins) *)
Definition kv := list (string * val).

Fixpoint get {A} (r : list (string * A)) (k : string) : option A :=
  match r with
  | [] => None
  | (k', v) :: r' => if String.eqb k k' then Some v else get r' k
  end.

Definition mem (k : string) (l : list string) : bool := existsb (String.eqb k) l.

(** ** value types of the attributes (format 3, and the legacy formats) *)
Inductive vty : Type :=
| TNum | TNonNegNum | TI32 | TU32 | TStr | TBool | TNums | TBits
| TFamilyClass | TPanose | TPanoseV2 | TStyle | TWidth | TCharSet
| TComplex.        (* structured format-3 attributes no legacy format has *)

Definition style_names : list string := ["regular"; "italic"; "bold"; "bold italic"].

Definition has_ty (t : vty) (v : val) : bool :=
  match t, v with
  | TNum, VNum _ => true
  | TNonNegNum, VNum x => f_sign_positive x
  | TI32, VInt z => in_i32 z
  | TU32, VInt z => in_u32 z
  | TStr, VStr _ => true
  | TBool, VBool _ => true
  | TNums, VNums _ => true
  | TBits, VInts l => forallb in_u8 l
  | TFamilyClass, VInts l => (Nat.eqb (List.length l) 2) && forallb in_u8 l
  | TPanose, VInts l => (Nat.eqb (List.length l) 10) && forallb in_u32 l
  | TPanoseV2, VInts l => (Nat.eqb (List.length l) 10) && forallb in_i32 l
  | TStyle, VStr s => mem s style_names
  | TWidth, VInt z => (1 <=? z) && (z <=? 9)
  | TCharSet, VInt z => (1 <=? z) && (z <=? 20)
  | _, _ => false
  end.

(** ** conversion kinds *)
Inductive kind : Type :=
| KCopy            (* value unchanged *)
| KRoundI32        (* float -> integer: round *)
| KRoundAbsU32     (* float -> non-negative integer: round, absolute value *)
| KAbsNum          (* number -> non-negative number: absolute value *)
| KAbsInt          (* integer -> non-negative integer: absolute value *)
| KAbsInts         (* list of integers -> list of non-negative integers *)
| KWeight          (* weightValue: -1 is dropped, otherwise as KAbsInt *)
| KFontStyle       (* enumeration tables *)
| KCharSet
| KWidthName.

(** ** the three enumeration tables *)
Definition font_style_table : list (Z * string) :=
  [(64, "regular"); (1, "italic"); (32, "bold"); (33, "bold italic");
   (0, "regular")                       (* "some UFO 1 files have 0" *)].

Definition ms_char_set_table : list (Z * Z) :=
  [(0, 1); (1, 2); (2, 3); (77, 4); (128, 5); (129, 6); (130, 7); (134, 8); (136, 9);
   (161, 10); (162, 11); (163, 12); (177, 13); (178, 14); (186, 15); (200, 16); (204, 17);
   (222, 18); (238, 19); (255, 20)].

Definition width_name_table : list (string * Z) :=
  [("Ultra-condensed", 1); ("Extra-condensed", 2); ("Condensed", 3); ("Semi-condensed", 4);
   ("Medium (normal)", 5); ("Semi-expanded", 6); ("Expanded", 7); ("Extra-expanded", 8);
   ("Ultra-expanded", 9);
   (* additions of the reference implementation *)
   ("Normal", 5); ("All", 5); ("medium", 5); ("Medium", 5)].

Fixpoint zlookup {A} (t : list (Z * A)) (z : Z) : option A :=
  match t with
  | [] => None
  | (k, v) :: t' => if Z.eqb z k then Some v else zlookup t' z
  end.

(** ** conversion errors *)
Inductive cerr : Type :=
| UnknownFontStyle (z : Z)
| UnknownMsCharSet (z : Z)
| UnknownWidthClass (s : string)
| IllTyped.                    (* a value of the wrong type reached a conversion (unreachable
                                  after the typed reader, see C14_v*_typed) *)

(** the value conversion prescribed for a kind; [Ok None] = the attribute is dropped *)
Definition apply_kind (k : kind) (v : val) : result (option val) cerr :=
  match k, v with
  | KCopy, _ => Ok (Some v)
  | KRoundI32, VNum x => Ok (Some (VInt (sat_i32 (f_round x))))
  | KRoundAbsU32, VNum x => Ok (Some (VInt (sat_u32 (f_abs (f_round x)))))
  | KAbsNum, VNum x => Ok (Some (VNum (f_abs x)))
  | KAbsInt, VInt z => Ok (Some (VInt (unsigned_abs z)))
  | KAbsInts, VInts l => Ok (Some (VInts (map unsigned_abs l)))
  | KWeight, VInt z => if Z.eqb z (-1) then Ok None else Ok (Some (VInt (unsigned_abs z)))
  | KFontStyle, VInt z =>
      match zlookup font_style_table z with
      | Some s => Ok (Some (VStr s))
      | None => Err (UnknownFontStyle z)
      end
  | KCharSet, VInt z =>
      match zlookup ms_char_set_table z with
      | Some c => Ok (Some (VInt c))
      | None => Err (UnknownMsCharSet z)
      end
  | KWidthName, VStr s =>
      match get width_name_table s with
      | Some c => Ok (Some (VInt c))
      | None => Err (UnknownWidthClass s)
      end
  | _, _ => Err IllTyped
  end.

(** type of the converted value *)
Definition kind_ty (k : kind) (t : vty) : option vty :=
  match k, t with
  | KCopy, TPanoseV2 => None
  | KCopy, _ => Some t
  | KRoundI32, TNum => Some TI32
  | KRoundAbsU32, TNum => Some TU32
  | KAbsNum, TNum => Some TNonNegNum
  | KAbsInt, TI32 => Some TU32
  | KAbsInts, TPanoseV2 => Some TPanose
  | KWeight, TI32 => Some TU32
  | KFontStyle, TI32 => Some TStyle
  | KCharSet, TI32 => Some TCharSet
  | KWidthName, TStr => Some TWidth
  | _, _ => None
  end.

(** ** conversion tables: (legacy attribute, format-3 attribute, conversion) *)
Definition row := (string * string * kind)%type.

(** UFO 1 -> UFO 3 *)
Definition spec_v1_table : list row :=
  [("ascender", "ascender", KCopy);
   ("capHeight", "capHeight", KCopy);
   ("copyright", "copyright", KCopy);
   ("descender", "descender", KCopy);
   ("familyName", "familyName", KCopy);
   ("italicAngle", "italicAngle", KCopy);
   ("fondID", "macintoshFONDFamilyID", KCopy);
   ("fondName", "macintoshFONDName", KCopy);
   ("note", "note", KCopy);
   ("otMacName", "openTypeNameCompatibleFullName", KCopy);
   ("notice", "openTypeNameDescription", KCopy);
   ("designerURL", "openTypeNameDesignerURL", KCopy);
   ("designer", "openTypeNameDesigner", KCopy);
   ("licenseURL", "openTypeNameLicenseURL", KCopy);
   ("license", "openTypeNameLicense", KCopy);
   ("vendorURL", "openTypeNameManufacturerURL", KCopy);
   ("createdBy", "openTypeNameManufacturer", KCopy);
   ("otFamilyName", "openTypeNamePreferredFamilyName", KCopy);
   ("otStyleName", "openTypeNamePreferredSubfamilyName", KCopy);
   ("ttUniqueID", "openTypeNameUniqueID", KCopy);
   ("ttVersion", "openTypeNameVersion", KCopy);
   ("ttVendor", "openTypeOS2VendorID", KCopy);
   ("weightValue", "openTypeOS2WeightClass", KWeight);
   ("widthName", "openTypeOS2WidthClass", KWidthName);
   ("defaultWidth", "postscriptDefaultWidthX", KCopy);
   ("fontName", "postscriptFontName", KCopy);
   ("fullName", "postscriptFullName", KCopy);
   ("slantAngle", "postscriptSlantAngle", KCopy);
   ("uniqueID", "postscriptUniqueID", KCopy);
   ("weightName", "postscriptWeightName", KCopy);
   ("msCharSet", "postscriptWindowsCharacterSet", KCharSet);
   ("menuName", "styleMapFamilyName", KCopy);
   ("fontStyle", "styleMapStyleName", KFontStyle);
   ("styleName", "styleName", KCopy);
   ("trademark", "trademark", KCopy);
   ("unitsPerEm", "unitsPerEm", KAbsNum);
   ("versionMajor", "versionMajor", KCopy);
   ("versionMinor", "versionMinor", KAbsInt);
   ("xHeight", "xHeight", KCopy);
   ("year", "year", KCopy)].

(** the attributes of a format-1 fontinfo.plist (specification, 38) ... *)
Definition ufo1_attributes : list string :=
  ["ascender"; "capHeight"; "copyright"; "createdBy"; "defaultWidth"; "descender"; "designer";
   "designerURL"; "familyName"; "fondID"; "fondName"; "fontName"; "fontStyle"; "fullName";
   "italicAngle"; "license"; "licenseURL"; "menuName"; "msCharSet"; "note"; "notice";
   "otFamilyName"; "otMacName"; "otStyleName"; "slantAngle"; "styleName"; "trademark";
   "ttUniqueID"; "ttVendor"; "ttVersion"; "uniqueID"; "unitsPerEm"; "vendorURL";
   "versionMajor"; "versionMinor"; "weightName"; "weightValue"; "widthName"].
(** ... plus the two the reference implementation also reads from format-1 files *)
Definition ufo1_reference_extras : list string := ["xHeight"; "year"].

(** the attributes of a format-2 fontinfo.plist (94), in the order of the specification's
    sections (generic identification, legal, dimension, miscellaneous, head, hhea, name, OS/2,
    vhea, PostScript, Macintosh FOND) *)
Definition ufo2_attributes : list string :=
  ["familyName"; "styleName"; "styleMapFamilyName"; "styleMapStyleName"; "versionMajor";
   "versionMinor"; "year";
   "copyright"; "trademark";
   "unitsPerEm"; "descender"; "xHeight"; "capHeight"; "ascender"; "italicAngle";
   "note";
   "openTypeHeadCreated"; "openTypeHeadLowestRecPPEM"; "openTypeHeadFlags";
   "openTypeHheaAscender"; "openTypeHheaDescender"; "openTypeHheaLineGap";
   "openTypeHheaCaretSlopeRise"; "openTypeHheaCaretSlopeRun"; "openTypeHheaCaretOffset";
   "openTypeNameDesigner"; "openTypeNameDesignerURL"; "openTypeNameManufacturer";
   "openTypeNameManufacturerURL"; "openTypeNameLicense"; "openTypeNameLicenseURL";
   "openTypeNameVersion"; "openTypeNameUniqueID"; "openTypeNameDescription";
   "openTypeNamePreferredFamilyName"; "openTypeNamePreferredSubfamilyName";
   "openTypeNameCompatibleFullName"; "openTypeNameSampleText"; "openTypeNameWWSFamilyName";
   "openTypeNameWWSSubfamilyName";
   "openTypeOS2WidthClass"; "openTypeOS2WeightClass"; "openTypeOS2Selection";
   "openTypeOS2VendorID"; "openTypeOS2Panose"; "openTypeOS2FamilyClass";
   "openTypeOS2UnicodeRanges"; "openTypeOS2CodePageRanges"; "openTypeOS2TypoAscender";
   "openTypeOS2TypoDescender"; "openTypeOS2TypoLineGap"; "openTypeOS2WinAscent";
   "openTypeOS2WinDescent"; "openTypeOS2Type"; "openTypeOS2SubscriptXSize";
   "openTypeOS2SubscriptYSize"; "openTypeOS2SubscriptXOffset"; "openTypeOS2SubscriptYOffset";
   "openTypeOS2SuperscriptXSize"; "openTypeOS2SuperscriptYSize";
   "openTypeOS2SuperscriptXOffset"; "openTypeOS2SuperscriptYOffset";
   "openTypeOS2StrikeoutSize"; "openTypeOS2StrikeoutPosition";
   "openTypeVheaVertTypoAscender"; "openTypeVheaVertTypoDescender";
   "openTypeVheaVertTypoLineGap"; "openTypeVheaCaretSlopeRise"; "openTypeVheaCaretSlopeRun";
   "openTypeVheaCaretOffset";
   "postscriptFontName"; "postscriptFullName"; "postscriptSlantAngle"; "postscriptUniqueID";
   "postscriptUnderlineThickness"; "postscriptUnderlinePosition"; "postscriptIsFixedPitch";
   "postscriptBlueValues"; "postscriptOtherBlues"; "postscriptFamilyBlues";
   "postscriptFamilyOtherBlues"; "postscriptStemSnapH"; "postscriptStemSnapV";
   "postscriptBlueFuzz"; "postscriptBlueShift"; "postscriptBlueScale"; "postscriptForceBold";
   "postscriptDefaultWidthX"; "postscriptNominalWidthX"; "postscriptWeightName";
   "postscriptDefaultCharacter"; "postscriptWindowsCharacterSet";
   "macintoshFONDFamilyID"; "macintoshFONDName"].

(** UFO 2 -> UFO 3: the three sets of the conversion chapter *)
Definition ufo2to3_float_to_int : list string :=
  ["openTypeHeadLowestRecPPEM"; "openTypeHheaAscender"; "openTypeHheaDescender";
   "openTypeHheaLineGap"; "openTypeHheaCaretOffset"; "openTypeOS2TypoAscender";
   "openTypeOS2TypoDescender"; "openTypeOS2TypoLineGap"; "openTypeOS2WinAscent";
   "openTypeOS2WinDescent"; "openTypeOS2SubscriptXSize"; "openTypeOS2SubscriptYSize";
   "openTypeOS2SubscriptXOffset"; "openTypeOS2SubscriptYOffset";
   "openTypeOS2SuperscriptXSize"; "openTypeOS2SuperscriptYSize";
   "openTypeOS2SuperscriptXOffset"; "openTypeOS2SuperscriptYOffset";
   "openTypeOS2StrikeoutSize"; "openTypeOS2StrikeoutPosition";
   "openTypeVheaVertTypoAscender"; "openTypeVheaVertTypoDescender";
   "openTypeVheaVertTypoLineGap"; "openTypeVheaCaretOffset"].
Definition ufo2to3_non_negative_int : list string :=
  ["versionMinor"; "openTypeHeadLowestRecPPEM"; "openTypeOS2WinAscent";
   "openTypeOS2WinDescent"].
Definition ufo2to3_non_negative_int_or_float : list string := ["unitsPerEm"].
Definition ufo2to3_non_negative_int_list : list string := ["openTypeOS2Panose"].

Definition kind_v2 (k : string) : kind :=
  if mem k ufo2to3_float_to_int then
    (if mem k ufo2to3_non_negative_int then KRoundAbsU32 else KRoundI32)
  else if mem k ufo2to3_non_negative_int then KAbsInt
  else if mem k ufo2to3_non_negative_int_or_float then KAbsNum
  else if mem k ufo2to3_non_negative_int_list then KAbsInts
  else KCopy.

(** the format-3 attributes in fontinfo.plist order (the order norad's [FontInfo] declares and
    serialises them in); used to order the rows *)
Definition ufo3_order : list string :=
  ["ascender"; "capHeight"; "copyright"; "descender"; "familyName"; "guidelines"; "italicAngle";
   "macintoshFONDFamilyID"; "macintoshFONDName"; "note"; "openTypeGaspRangeRecords";
   "openTypeHeadCreated"; "openTypeHeadFlags"; "openTypeHeadLowestRecPPEM";
   "openTypeHheaAscender"; "openTypeHheaCaretOffset"; "openTypeHheaCaretSlopeRise";
   "openTypeHheaCaretSlopeRun"; "openTypeHheaDescender"; "openTypeHheaLineGap";
   "openTypeNameCompatibleFullName"; "openTypeNameDescription"; "openTypeNameDesigner";
   "openTypeNameDesignerURL"; "openTypeNameLicense"; "openTypeNameLicenseURL";
   "openTypeNameManufacturer"; "openTypeNameManufacturerURL";
   "openTypeNamePreferredFamilyName"; "openTypeNamePreferredSubfamilyName";
   "openTypeNameRecords"; "openTypeNameSampleText"; "openTypeNameUniqueID";
   "openTypeNameVersion"; "openTypeNameWWSFamilyName"; "openTypeNameWWSSubfamilyName";
   "openTypeOS2CodePageRanges"; "openTypeOS2FamilyClass"; "openTypeOS2Panose";
   "openTypeOS2Selection"; "openTypeOS2StrikeoutPosition"; "openTypeOS2StrikeoutSize";
   "openTypeOS2SubscriptXOffset"; "openTypeOS2SubscriptXSize"; "openTypeOS2SubscriptYOffset";
   "openTypeOS2SubscriptYSize"; "openTypeOS2SuperscriptXOffset";
   "openTypeOS2SuperscriptXSize"; "openTypeOS2SuperscriptYOffset";
   "openTypeOS2SuperscriptYSize"; "openTypeOS2Type"; "openTypeOS2TypoAscender";
   "openTypeOS2TypoDescender"; "openTypeOS2TypoLineGap"; "openTypeOS2UnicodeRanges";
   "openTypeOS2VendorID"; "openTypeOS2WeightClass"; "openTypeOS2WidthClass";
   "openTypeOS2WinAscent"; "openTypeOS2WinDescent"; "openTypeVheaCaretOffset";
   "openTypeVheaCaretSlopeRise"; "openTypeVheaCaretSlopeRun"; "openTypeVheaVertTypoAscender";
   "openTypeVheaVertTypoDescender"; "openTypeVheaVertTypoLineGap"; "postscriptBlueFuzz";
   "postscriptBlueScale"; "postscriptBlueShift"; "postscriptBlueValues";
   "postscriptDefaultCharacter"; "postscriptDefaultWidthX"; "postscriptFamilyBlues";
   "postscriptFamilyOtherBlues"; "postscriptFontName"; "postscriptForceBold";
   "postscriptFullName"; "postscriptIsFixedPitch"; "postscriptNominalWidthX";
   "postscriptOtherBlues"; "postscriptSlantAngle"; "postscriptStemSnapH";
   "postscriptStemSnapV"; "postscriptUnderlinePosition"; "postscriptUnderlineThickness";
   "postscriptUniqueID"; "postscriptWeightName"; "postscriptWindowsCharacterSet";
   "styleMapFamilyName"; "styleMapStyleName"; "styleName"; "trademark"; "unitsPerEm";
   "versionMajor"; "versionMinor"; "woffMajorVersion"; "woffMetadataCopyright";
   "woffMetadataCredits"; "woffMetadataDescription"; "woffMetadataExtensions";
   "woffMetadataLicense"; "woffMetadataLicensee"; "woffMetadataTrademark";
   "woffMetadataUniqueID"; "woffMetadataVendor"; "woffMinorVersion"; "xHeight"; "year"].

(** UFO 2 -> UFO 3: every format-2 attribute keeps its name *)
Definition spec_v2_table : list row :=
  map (fun k => (k, k, kind_v2 k)) (filter (fun k => mem k ufo2_attributes) ufo3_order).

(** ** value types of the format-3 attributes *)
Definition ufo3_schema : list (string * vty) :=
  [("ascender", TNum); ("capHeight", TNum); ("copyright", TStr); ("descender", TNum);
   ("familyName", TStr); ("guidelines", TComplex); ("italicAngle", TNum);
   ("macintoshFONDFamilyID", TI32); ("macintoshFONDName", TStr); ("note", TStr);
   ("openTypeGaspRangeRecords", TComplex); ("openTypeHeadCreated", TStr);
   ("openTypeHeadFlags", TBits); ("openTypeHeadLowestRecPPEM", TU32);
   ("openTypeHheaAscender", TI32); ("openTypeHheaCaretOffset", TI32);
   ("openTypeHheaCaretSlopeRise", TI32); ("openTypeHheaCaretSlopeRun", TI32);
   ("openTypeHheaDescender", TI32); ("openTypeHheaLineGap", TI32);
   ("openTypeNameCompatibleFullName", TStr); ("openTypeNameDescription", TStr);
   ("openTypeNameDesigner", TStr); ("openTypeNameDesignerURL", TStr);
   ("openTypeNameLicense", TStr); ("openTypeNameLicenseURL", TStr);
   ("openTypeNameManufacturer", TStr); ("openTypeNameManufacturerURL", TStr);
   ("openTypeNamePreferredFamilyName", TStr); ("openTypeNamePreferredSubfamilyName", TStr);
   ("openTypeNameRecords", TComplex); ("openTypeNameSampleText", TStr);
   ("openTypeNameUniqueID", TStr); ("openTypeNameVersion", TStr);
   ("openTypeNameWWSFamilyName", TStr); ("openTypeNameWWSSubfamilyName", TStr);
   ("openTypeOS2CodePageRanges", TBits); ("openTypeOS2FamilyClass", TFamilyClass);
   ("openTypeOS2Panose", TPanose); ("openTypeOS2Selection", TBits);
   ("openTypeOS2StrikeoutPosition", TI32); ("openTypeOS2StrikeoutSize", TI32);
   ("openTypeOS2SubscriptXOffset", TI32); ("openTypeOS2SubscriptXSize", TI32);
   ("openTypeOS2SubscriptYOffset", TI32); ("openTypeOS2SubscriptYSize", TI32);
   ("openTypeOS2SuperscriptXOffset", TI32); ("openTypeOS2SuperscriptXSize", TI32);
   ("openTypeOS2SuperscriptYOffset", TI32); ("openTypeOS2SuperscriptYSize", TI32);
   ("openTypeOS2Type", TBits); ("openTypeOS2TypoAscender", TI32);
   ("openTypeOS2TypoDescender", TI32); ("openTypeOS2TypoLineGap", TI32);
   ("openTypeOS2UnicodeRanges", TBits); ("openTypeOS2VendorID", TStr);
   ("openTypeOS2WeightClass", TU32); ("openTypeOS2WidthClass", TWidth);
   ("openTypeOS2WinAscent", TU32); ("openTypeOS2WinDescent", TU32);
   ("openTypeVheaCaretOffset", TI32); ("openTypeVheaCaretSlopeRise", TI32);
   ("openTypeVheaCaretSlopeRun", TI32); ("openTypeVheaVertTypoAscender", TI32);
   ("openTypeVheaVertTypoDescender", TI32); ("openTypeVheaVertTypoLineGap", TI32);
   ("postscriptBlueFuzz", TNum); ("postscriptBlueScale", TNum); ("postscriptBlueShift", TNum);
   ("postscriptBlueValues", TNums); ("postscriptDefaultCharacter", TStr);
   ("postscriptDefaultWidthX", TNum); ("postscriptFamilyBlues", TNums);
   ("postscriptFamilyOtherBlues", TNums); ("postscriptFontName", TStr);
   ("postscriptForceBold", TBool); ("postscriptFullName", TStr);
   ("postscriptIsFixedPitch", TBool); ("postscriptNominalWidthX", TNum);
   ("postscriptOtherBlues", TNums); ("postscriptSlantAngle", TNum);
   ("postscriptStemSnapH", TNums); ("postscriptStemSnapV", TNums);
   ("postscriptUnderlinePosition", TNum); ("postscriptUnderlineThickness", TNum);
   ("postscriptUniqueID", TI32); ("postscriptWeightName", TStr);
   ("postscriptWindowsCharacterSet", TCharSet); ("styleMapFamilyName", TStr);
   ("styleMapStyleName", TStyle); ("styleName", TStr); ("trademark", TStr);
   ("unitsPerEm", TNonNegNum); ("versionMajor", TI32); ("versionMinor", TU32);
   ("woffMajorVersion", TU32); ("woffMetadataCopyright", TComplex);
   ("woffMetadataCredits", TComplex); ("woffMetadataDescription", TComplex);
   ("woffMetadataExtensions", TComplex); ("woffMetadataLicense", TComplex);
   ("woffMetadataLicensee", TComplex); ("woffMetadataTrademark", TComplex);
   ("woffMetadataUniqueID", TComplex); ("woffMetadataVendor", TComplex);
   ("woffMinorVersion", TU32); ("xHeight", TNum); ("year", TI32)].

(** value types of the legacy attributes: format 2 = the format-3 type, except where format 2
    allows a float / a negative number and format 3 does not; format 1 by attribute *)
Definition ufo2_type (k : string) : option vty :=
  match kind_v2 k with
  | KRoundI32 | KRoundAbsU32 | KAbsNum => Some TNum
  | KAbsInt => Some TI32
  | KAbsInts => Some TPanoseV2
  | _ => get ufo3_schema k
  end.
Definition ufo2_schema : list (string * vty) :=
  flat_map (fun k => match ufo2_type k with Some t => [(k, t)] | None => [] end)
           (filter (fun k => mem k ufo2_attributes) ufo3_order).

Definition ufo1_schema : list (string * vty) :=
  [("ascender", TNum); ("capHeight", TNum); ("copyright", TStr); ("createdBy", TStr);
   ("defaultWidth", TNum); ("descender", TNum); ("designer", TStr); ("designerURL", TStr);
   ("familyName", TStr); ("fondID", TI32); ("fondName", TStr); ("fontName", TStr);
   ("fontStyle", TI32); ("fullName", TStr); ("italicAngle", TNum); ("license", TStr);
   ("licenseURL", TStr); ("menuName", TStr); ("msCharSet", TI32); ("note", TStr);
   ("notice", TStr); ("otFamilyName", TStr); ("otMacName", TStr); ("otStyleName", TStr);
   ("slantAngle", TNum); ("styleName", TStr); ("trademark", TStr); ("ttUniqueID", TStr);
   ("ttVendor", TStr); ("ttVersion", TStr); ("uniqueID", TI32); ("unitsPerEm", TNum);
   ("vendorURL", TStr); ("versionMajor", TI32); ("versionMinor", TI32); ("weightName", TStr);
   ("weightValue", TI32); ("widthName", TStr); ("xHeight", TNum); ("year", TI32)].

(** ** the table-driven converter *)
Fixpoint table_convert (t : list row) (r : kv) : result kv cerr :=
  match t with
  | [] => Ok []
  | (lk, k, kd) :: t' =>
      match get r lk with
      | None => table_convert t' r
      | Some v =>
          match apply_kind kd v with
          | Err e => Err e
          | Panic s => Panic s
          | Ok None => table_convert t' r
          | Ok (Some v') =>
              match table_convert t' r with
              | Ok i => Ok ((k, v') :: i)
              | other => other
              end
          end
      end
  end.

(** ** format-1 lib data (RoboFab) that format 3 keeps in fontinfo.plist / features.fea *)
Definition LIB_HINT : string := "org.robofab.postScriptHintData".
Definition LIB_CLASSES : string := "org.robofab.opentype.classes".
Definition LIB_ORDER : string := "org.robofab.opentype.featureorder".
Definition LIB_FEATURES : string := "org.robofab.opentype.features".
Definition robofab_lib_keys : list string := [LIB_HINT; LIB_CLASSES; LIB_ORDER; LIB_FEATURES].

(** value types inside the hint data dictionary: number, boolean, list of numbers, list of
    lists of numbers *)
Inductive hty := HNum | HBool | HNums | HNumss.
Inductive hshape := HAssign (t : hty) | HFlatten.
(** (format-3 attribute, key inside the hint data dictionary, shape): the blue zones are
    stored as lists of pairs and are flattened *)
Definition spec_hint_table : list (string * string * hshape) :=
  [("postscriptBlueFuzz", "blueFuzz", HAssign HNum);
   ("postscriptBlueScale", "blueScale", HAssign HNum);
   ("postscriptBlueShift", "blueShift", HAssign HNum);
   ("postscriptBlueValues", "blueValues", HFlatten);
   ("postscriptOtherBlues", "otherBlues", HFlatten);
   ("postscriptFamilyBlues", "familyBlues", HFlatten);
   ("postscriptFamilyOtherBlues", "familyOtherBlues", HFlatten);
   ("postscriptForceBold", "forceBold", HAssign HBool);
   ("postscriptStemSnapH", "hStems", HAssign HNums);
   ("postscriptStemSnapV", "vStems", HAssign HNums)].
