(** Tree-level codecs of the three simplest plist files — metainfo.plist, layercontents.plist,
    contents.plist — on top of the plist value codec of the glif lib model: the writer
    [pv_node] (Model/GlifEncode.v; with indent width 0, i.e. without the re-indentation that only
    the glif lib section undergoes) and the reader [pv_of] (Model/Plist.v).  What is norad's / serde's
    own here is the SHAPE of each file: which keys metainfo has and which are optional, pairs of
    strings for layercontents, a name -> file dictionary read into a BTreeMap for contents; names
    go through [Name]'s deserialiser.  Definitions only. *)
Require Import Norad.Model.GlifSpec Norad.Model.GlifEncode.
Require Import Norad.Model.FontRT.
Open Scope N_scope.

Definition o_plain : wopts := mkOpts 9 0 false.

Section PlistFiles.
Variable pf : str -> option fl.
Variable ff : fl -> str.
Variable fi : Z -> str.

Definition plist_tree (v : pv) : node := pv_node ff fi o_plain v.
Definition plist_value (n : node) : option pv := pv_of pf n.

(** ** metainfo.plist: creator (optional), formatVersion (1, 2 or 3), formatVersionMinor (skipped
    when 0, defaulting to 0; a u32); unknown keys are ignored *)
Definition k_creator : str := s2l "creator".
Definition k_fv : str := s2l "formatVersion".
Definition k_fvm : str := s2l "formatVersionMinor".
Definition meta_pv (m : meta) : pv :=
  PDict ((match m_creator m with Some c => [(k_creator, PStr c)] | None => [] end) ++
         [(k_fv, PInt (Z.of_N (m_version m)))] ++
         (if m_minor m =? 0 then [] else [(k_fvm, PInt (Z.of_N (m_minor m)))])).
Definition pv_meta (v : pv) : option meta :=
  match v with
  | PDict d =>
      match (match alookup k_creator d with None => Some None | Some (PStr c) => Some (Some c) | Some _ => None end),
            (match alookup k_fv d with
             | Some (PInt z) => if ((z =? 1) || (z =? 2) || (z =? 3))%Z then Some (Z.to_N z) else None
             | _ => None
             end),
            (match alookup k_fvm d with
             | None => Some 0
             | Some (PInt z) => if ((0 <=? z) && (z <? 2 ^ 32))%Z then Some (Z.to_N z) else None
             | Some _ => None
             end) with
      | Some c, Some v, Some mi => Some {| m_creator := c; m_version := v; m_minor := mi |}
      | _, _, _ => None
      end
  | _ => None
  end.
Definition wf_meta (m : meta) : Prop :=
  (m_version m = 1 \/ m_version m = 2 \/ m_version m = 3) /\ m_minor m < 2 ^ 32.

(** ** layercontents.plist: an array of [name, directory] pairs; names are [Name]s *)
Definition lc_pv (l : list (str * str)) : pv := PArr (map (fun e => PArr [PStr (fst e); PStr (snd e)]) l).
Definition pv_lc (v : pv) : option (list (str * str)) :=
  match v with
  | PArr xs => omapM (fun x => match x with
                               | PArr [PStr n; PStr d] => if name_valid n then Some (n, d) else None
                               | _ => None
                               end) xs
  | _ => None
  end.
Definition wf_lc (l : list (str * str)) : Prop := Forall (fun e => name_valid (fst e) = true) l.

(** ** contents.plist: a dictionary glyph name -> file name, read into a BTreeMap *)
Fixpoint bt_insert {A} (k : str) (v : A) (l : list (str * A)) : list (str * A) :=
  match l with
  | [] => [(k, v)]
  | (k', v') :: r => if str_ltb k k' then (k, v) :: l
                     else if str_ltb k' k then (k', v') :: bt_insert k v r
                     else (k, v) :: r
  end.
Definition ct_pv (l : list (str * str)) : pv := PDict (map (fun e => (fst e, PStr (snd e))) l).
Definition pv_ct (v : pv) : option (list (str * str)) :=
  match v with
  | PDict d =>
      option_map (fun l => fold_left (fun acc e => bt_insert (fst e) (snd e) acc) l [])
        (omapM (fun kx : str * pv => match snd kx with
                                     | PStr f => if name_valid (fst kx) then Some (fst kx, f) else None
                                     | _ => None
                                     end) d)
  | _ => None
  end.
(** strictly ascending keys (the order of a BTreeMap) *)
Fixpoint ssorted {A} (l : list (str * A)) : Prop :=
  match l with
  | [] => True
  | (k, _) :: r => (forall k', In k' (map fst r) -> str_ltb k k' = true) /\ ssorted r
  end.
Definition wf_ct (l : list (str * str)) : Prop := ssorted l /\ Forall (fun e => name_valid (fst e) = true) l.

(** ** the three parts; the file content is the XML tree; the write options do not reach the tree *)
Definition plist_part_e {O X} (to : X -> pv) (of : pv -> option X) (w : X -> Prop) (e : X -> X -> Prop)
  : part node O X :=
  {| enc := fun _ x => Some (plist_tree (to x));
     dec := fun n => obind (plist_value n) of;
     wf := w; peq := e |}.
Definition plist_part {O X} (to : X -> pv) (of : pv -> option X) (w : X -> Prop) : part node O X :=
  plist_part_e to of w eq.
Definition P_meta_real O : part node O meta := plist_part meta_pv pv_meta wf_meta.
Definition P_lc_real O : part node O (list (str * str)) := plist_part lc_pv pv_lc wf_lc.
Definition P_contents_real O : part node O (list (str * str)) := plist_part ct_pv pv_ct wf_ct.

End PlistFiles.
