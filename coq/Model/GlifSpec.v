(** Specification side of C12: the glif structure rules as a declarative predicate on the
    document tree ([glif_ok]), the rules a glyph value must satisfy ([glyph_rules]), and the
    exactly described classes of documents on which the reader is known to deviate
    (F14, F16, F17).  Written from the property text and the GLIF specification: tables of
    allowed / required attributes per element, multiplicities, version gating, collections of
    identifiers — no parser state.  Definitions only. *)
Require Export Norad.Model.GlifParse.
From Coq Require Export Permutation.
Open Scope N_scope.

(** ---------- the attribute tables of the GLIF specification ---------- *)
Definition spec_transform : list (str * aty) :=
  [ (s2l "xScale", ANum); (s2l "xyScale", ANum); (s2l "yxScale", ANum); (s2l "yScale", ANum);
    (s2l "xOffset", ANum); (s2l "yOffset", ANum) ].
Definition schema (k : ekind) : list (str * aty) :=
  match k with
  | KGlyph => [ (s2l "name", AName); (s2l "format", AU32); (s2l "formatMinor", AU32) ]
  | KAdvance => [ (s2l "width", ANum); (s2l "height", ANum) ]
  | KUnicode => [ (s2l "hex", AHex) ]
  | KImage => spec_transform ++ [ (s2l "color", AColor); (s2l "fileName", AFile) ]
  | KAnchor => [ (s2l "x", ANum); (s2l "y", ANum); (s2l "name", AName); (s2l "color", AColor);
                 (s2l "identifier", AIdent) ]
  | KGuideline => [ (s2l "x", ANum); (s2l "y", ANum); (s2l "angle", AAngle); (s2l "name", AName);
                    (s2l "color", AColor); (s2l "identifier", AIdent) ]
  | KOutline => []
  | KContour => [ (s2l "identifier", AIdent) ]
  | KPoint => [ (s2l "x", ANum); (s2l "y", ANum); (s2l "name", AName); (s2l "type", APType);
                (s2l "smooth", ASmooth); (s2l "identifier", AIdent) ]
  | KComponent => spec_transform ++ [ (s2l "base", ABase); (s2l "identifier", AIdent) ]
  | KLib => []
  | KNote => []
  end.
Definition required (k : ekind) : list str :=
  match k with
  | KGlyph => [ s2l "name"; s2l "format" ]
  | KUnicode => [ s2l "hex" ]
  | KImage => [ s2l "fileName" ]
  | KAnchor | KPoint => [ s2l "x"; s2l "y" ]
  | KComponent => [ s2l "base" ]
  | _ => []
  end.
(** elements and attributes that exist in format 2 only *)
Definition v2_only (k : ekind) : bool :=
  match k with KImage | KAnchor | KGuideline => true | _ => false end.

Section Spec.
  Variable pf : str -> option fl.      (* what a well-formed number denotes: std's reader *)

  (** a colour: four comma-separated numbers within 0..1 *)
  Definition color_ok (v : str) : Prop :=
    exists a b c d r g bl al,
      split_on 44 v = [a; b; c; d] /\ pf a = Some r /\ pf b = Some g /\ pf c = Some bl /\
      pf d = Some al /\ unit_range r = true /\ unit_range g = true /\ unit_range bl = true /\
      unit_range al = true.

  Definition val_ok (ver : N) (ty : aty) (v : str) : Prop :=
    match ty with
    | ANum => pf v <> None
    | AAngle => exists x, pf v = Some x /\ fl_leb f0 x = true /\ fl_leb x f360 = true
    | AName | ABase => name_valid v = true
    | AColor => color_ok v
    | AIdent => ver = 2 /\ ident_valid v = true
    | APType => ptype_of v <> None
    | ASmooth => True
    | AFile => file_ok v = true
    | AHex => parse_hex v <> None
    | AU32 => parse_u32 v <> None
    end.

  (** the attributes of one element: no repetition, every one known and well-formed, the
      required ones present *)
  Definition attrs_ok (ver : N) (k : ekind) (a : attrs) : Prop :=
    NoDup (map fst a) /\
    (forall key v, In (key, v) a -> exists ty, lookup key (schema k) = Some ty /\ val_ok ver ty v) /\
    (forall r, In r (required k) -> In r (map fst a)).

  (** ---------- trees ---------- *)
  (** XML does not distinguish [<a/>] from [<a></a>] *)
  Definition as_elem (n : node) : option (str * attrs * list node) :=
    match n with
    | Empty name a => Some (name, a, [])
    | Elem name a kids => Some (name, a, kids)
    | _ => None
    end.
  (** comments, processing instructions and blank text carry no meaning *)
  Definition insig (n : node) : bool :=
    match n with Comment _ | PI _ => true | Text s => blank s | _ => false end.
  Definition sig_kids (l : list node) : list node := filter (fun n => negb (insig n)) l.
  Definition kind_of (n : node) : option ekind :=
    match as_elem n with Some (name, _, _) => ekind_of name | None => None end.
  Definition attrs_of (n : node) : attrs :=
    match as_elem n with Some (_, a, _) => a | None => [] end.
  Definition kids_of (n : node) : list node :=
    match as_elem n with Some (_, _, k) => k | None => [] end.
  Definition is_kind (k : ekind) (n : node) : bool :=
    match kind_of n, k with
    | Some KGlyph, KGlyph | Some KAdvance, KAdvance | Some KUnicode, KUnicode | Some KImage, KImage
    | Some KAnchor, KAnchor | Some KGuideline, KGuideline | Some KOutline, KOutline
    | Some KContour, KContour | Some KPoint, KPoint | Some KComponent, KComponent
    | Some KLib, KLib | Some KNote, KNote => true
    | _, _ => false
    end.
  Definition count_kind (k : ekind) (l : list node) : nat := List.length (filter (is_kind k) l).

  (** an element without content *)
  Definition leaf_ok (ver : N) (k : ekind) (n : node) : Prop :=
    kind_of n = Some k /\ sig_kids (kids_of n) = [] /\ attrs_ok ver k (attrs_of n).

  (** the point type and smooth flag a point element denotes *)
  Definition spec_pt (a : attrs) : pt :=
    ((match lookup (s2l "type") a with
      | Some v => match ptype_of v with Some t => t | None => Off end
      | None => Off
      end),
     (match lookup (s2l "smooth") a with Some v => str_eqb v (s2l "yes") | None => false end)).

  Definition contour_ok (ver : N) (n : node) : Prop :=
    kind_of n = Some KContour /\ attrs_ok ver KContour (attrs_of n) /\
    Forall (leaf_ok ver KPoint) (sig_kids (kids_of n)) /\
    legal (map (fun p => spec_pt (attrs_of p)) (sig_kids (kids_of n))).

  Definition outline_child_ok (ver : N) (n : node) : Prop :=
    contour_ok ver n \/ leaf_ok ver KComponent n.

  (** a guideline is vertical (x), horizontal (y) or angled (x, y, angle) *)
  Definition guideline_shape (a : attrs) : Prop :=
    let hx := has_key (s2l "x") a in
    let hy := has_key (s2l "y") a in
    let ha := has_key (s2l "angle") a in
    (hx = true /\ hy = false /\ ha = false) \/
    (hx = false /\ hy = true /\ ha = false) \/
    (hx = true /\ hy = true /\ ha = true).

  Definition is_chardata (n : node) : bool :=
    match n with Elem _ _ _ | Empty _ _ => false | _ => true end.

  (** identifiers of the objects of the document, in document order *)
  Definition attr_ident (a : attrs) : list str :=
    match lookup (s2l "identifier") a with Some v => [v] | None => [] end.
  Definition contour_ids (c : node) : list str :=
    attr_ident (attrs_of c) ++ flat_map (fun p => attr_ident (attrs_of p)) (sig_kids (kids_of c)).
  Definition outline_child_ids (n : node) : list str :=
    if is_kind KContour n then contour_ids n
    else if is_kind KComponent n then attr_ident (attrs_of n) else [].
  Definition child_ids (n : node) : list str :=
    if is_kind KAnchor n || is_kind KGuideline n then attr_ident (attrs_of n)
    else if is_kind KOutline n then flat_map outline_child_ids (sig_kids (kids_of n))
    else [].
  Definition doc_ids (kids : list node) : list str := flat_map child_ids kids.

  (** identifiers of the objects that carry data: a contour without points denotes nothing *)
  Definition outline_child_obj_ids (n : node) : list str :=
    if is_kind KContour n then
      match sig_kids (kids_of n) with [] => [] | _ => contour_ids n end
    else outline_child_ids n.
  Definition child_obj_ids (n : node) : list str :=
    if is_kind KOutline n then flat_map outline_child_obj_ids (sig_kids (kids_of n))
    else child_ids n.
  Definition doc_obj_ids (kids : list node) : list str := flat_map child_obj_ids kids.

  (** the lib is a dictionary; [public.objectLibs], if present, is a dictionary whose entries
      for the objects of the document are dictionaries *)
  Definition is_dict (v : pv) : Prop := exists d, v = PDict d.
  Definition lib_dict (n : node) : option dict :=
    match plist_of_nodes pf (kids_of n) with Some (PDict d) => Some d | _ => None end.
  Definition objlibs_ok (ids : list str) (d : dict) : Prop :=
    forall o, lookup objlibs_key d = Some o ->
      exists od, o = PDict od /\ forall i x, In i ids -> lookup i od = Some x -> is_dict x.

  Definition child_ok (ver : N) (n : node) : Prop :=
    match kind_of n with
    | Some KAdvance => leaf_ok ver KAdvance n
    | Some KUnicode => leaf_ok ver KUnicode n
    | Some KImage => ver = 2 /\ leaf_ok ver KImage n
    | Some KAnchor => ver = 2 /\ leaf_ok ver KAnchor n
    | Some KGuideline => ver = 2 /\ leaf_ok ver KGuideline n /\ guideline_shape (attrs_of n)
    | Some KOutline => attrs_of n = [] /\ Forall (outline_child_ok ver) (sig_kids (kids_of n))
    | Some KLib => attrs_of n = [] /\ lib_dict n <> None
    | Some KNote => attrs_of n = [] /\ forallb is_chardata (kids_of n) = true
    | _ => False
    end.

  (** what may precede the root element *)
  Definition prolog_node (n : node) : bool :=
    match n with Decl | Comment _ | PI _ | DocType _ => true | Text s => blank s | _ => false end.

  (** the format version an opening tag declares *)
  Definition version_of (a : attrs) : option N :=
    match lookup (s2l "format") a with
    | None => None
    | Some v =>
        match parse_u32 v with
        | None => None
        | Some major =>
            let minor_ok := match lookup (s2l "formatMinor") a with
                            | None => true
                            | Some m => match parse_u32 m with Some 0 => true | _ => false end
                            end in
            if ((major =? 1) || (major =? 2)) && minor_ok then Some major else None
        end
    end.

  (** THE RULES.  The document is: prolog, the [glyph] element, anything after it (never read).
      Rules of the property, in its order: supported version; valid name; at most one advance,
      outline, lib, note, image; identifiers well-formed (in [attrs_ok]) and unique in the glyph;
      format-2-only elements and attributes absent from format 1; required attributes; guideline
      shapes and angle range; no unknown elements or attributes; lib and object-lib entries are
      dictionaries; numbers, colours, code points well-formed. *)
  Definition glif_ok (d : doc) : Prop :=
    exists pre root post ver,
      d = pre ++ root :: post /\
      forallb prolog_node pre = true /\
      kind_of root = Some KGlyph /\
      attrs_ok 2 KGlyph (attrs_of root) /\
      version_of (attrs_of root) = Some ver /\
      let kids := sig_kids (kids_of root) in
      Forall (child_ok ver) kids /\
      (forall n d, In n kids -> is_kind KLib n = true -> lib_dict n = Some d ->
                   objlibs_ok (doc_obj_ids kids) d) /\
      (count_kind KAdvance kids <= 1)%nat /\ (count_kind KOutline kids <= 1)%nat /\
      (count_kind KLib kids <= 1)%nat /\ (count_kind KNote kids <= 1)%nat /\
      (count_kind KImage kids <= 1)%nat /\
      NoDup (doc_ids kids).

  (** ---------- rules on glyph values ---------- *)
  Definition opt_ok {A} (P : A -> bool) (o : option A) : Prop :=
    match o with Some x => P x = true | None => True end.
  Definition color_val_ok (c : color) : bool :=
    let '(r, g, b, a) := c in unit_range r && unit_range g && unit_range b && unit_range a.
  Definition lib_needs_id (id : option str) (l : option dict) : Prop :=
    l <> None -> id <> None.

  Definition point_rules (p : point) : Prop :=
    opt_ok name_valid (pname p) /\ opt_ok ident_valid (pid p) /\ lib_needs_id (pid p) (plib p).
  Definition contour_rules (c : contour) : Prop :=
    cpoints c <> [] /\ legal (map pt_of (cpoints c)) /\ Forall point_rules (cpoints c) /\
    opt_ok ident_valid (cid c) /\ lib_needs_id (cid c) (clib c).
  Definition comp_rules (c : component) : Prop :=
    name_valid (cbase c) = true /\ opt_ok ident_valid (coid c) /\ lib_needs_id (coid c) (colib c).
  Definition anchor_rules (a : anchor) : Prop :=
    opt_ok name_valid (aname a) /\ opt_ok color_val_ok (acolor a) /\ opt_ok ident_valid (aid a) /\
    lib_needs_id (aid a) (alib a).
  Definition line_rules (l : line) : Prop :=
    match l with LAngle _ _ d => fl_leb f0 d = true /\ fl_leb d f360 = true | _ => True end.
  Definition guide_rules (g : guideline) : Prop :=
    line_rules (gline g) /\ opt_ok name_valid (guname g) /\ opt_ok color_val_ok (gcolor g) /\
    opt_ok ident_valid (guid g) /\ lib_needs_id (guid g) (gulib g).
  Definition image_rules (i : image) : Prop :=
    file_ok (ifile i) = true /\ opt_ok color_val_ok (icolor i).

  Definition oid (o : option str) : list str := match o with Some i => [i] | None => [] end.
  (** identifiers of all objects of a glyph, over the five kinds *)
  Definition glyph_ids (g : glyph) : list str :=
    flat_map (fun a => oid (aid a)) (ganchors g) ++
    flat_map (fun x => oid (guid x)) (gguides g) ++
    flat_map (fun c => oid (cid c) ++ flat_map (fun p => oid (pid p)) (cpoints c)) (gcontours g) ++
    flat_map (fun c => oid (coid c)) (gcomps g).

  Definition glyph_rules (g : glyph) : Prop :=
    name_valid (gname g) = true /\
    NoDup (gcps g) /\ Forall (fun c => is_scalar c = true) (gcps g) /\
    match gimage g with Some i => image_rules i | None => True end /\
    Forall guide_rules (gguides g) /\ Forall anchor_rules (ganchors g) /\
    Forall comp_rules (gcomps g) /\ Forall contour_rules (gcontours g) /\
    NoDup (glyph_ids g).

  (** ---------- known surface classes ---------- *)
  Definition root_of (d : doc) : option node :=
    (fix go (l : list node) : option node :=
       match l with
       | [] => None
       | n :: r => if prolog_node n then go r else Some n
       end) d.

  (** does an element occur somewhere below? *)
  Definition has_elem_child (l : list node) : bool :=
    existsb (fun n => match n with Elem _ _ _ | Empty _ _ => true | _ => false end) l.
  (** F16 — the check the reader still skips: a child element inside <note> (unknown content) *)
  Definition f16_child (n : node) : bool :=
    match n with
    | Elem name a kids => is_kind KNote n && has_elem_child kids
    | _ => false
    end.
  Definition F16 (d : doc) : Prop :=
    exists root, root_of d = Some root /\ existsb f16_child (tview (kids_of root)) = true.

  (** F14 / F17 — legal surface forms the reader rejects *)
  Definition f14_leaf (n : node) : bool :=
    match n with
    | Elem _ _ _ =>
        is_kind KAdvance n || is_kind KUnicode n || is_kind KImage n || is_kind KAnchor n ||
        is_kind KGuideline n || is_kind KComponent n || is_kind KPoint n
    | _ => false
    end.
  Definition is_comment (n : node) : bool :=
    match n with Comment _ | PI _ => true | _ => false end.
  Fixpoint f14_node (depth : nat) (n : node) : bool :=
    f14_leaf n ||
    match depth, n with
    | S d, Elem _ _ kids =>
        (is_kind KGlyph n || is_kind KOutline n || is_kind KContour n)
          && existsb (fun k => is_comment k || f14_node d k) kids
    | _, Empty _ _ => is_kind KNote n
    | _, _ => false
    end.
  Definition F14 (d : doc) : Prop :=
    exists root, root_of d = Some root /\ f14_node 3 root = true.
  Definition F17 (d : doc) : Prop :=
    (exists s, In (DocType s) d) \/ (exists s, In (PI s) d) \/
    exists root, root_of d = Some root /\
      ((exists name a, root = Empty name a) \/
       (version_of (attrs_of root) = Some 1 /\
        existsb (is_kind KNote) (sig_kids (kids_of root)) = true)).

  (** ---------- executable versions (decide the predicates above; see Proofs/GlifSpecP.v) ---------- *)
  Definition is_some {A} (o : option A) : bool := match o with Some _ => true | None => false end.
  Definition val_okb (ver : N) (ty : aty) (v : str) : bool :=
    match ty with
    | ANum => is_some (pf v)
    | AAngle => match pf v with Some x => fl_leb f0 x && fl_leb x f360 | None => false end
    | AName | ABase => name_valid v
    | AColor => is_some (parse_color pf v)
    | AIdent => (ver =? 2) && ident_valid v
    | APType => is_some (ptype_of v)
    | ASmooth => true
    | AFile => file_ok v
    | AHex => is_some (parse_hex v)
    | AU32 => is_some (parse_u32 v)
    end.
  Fixpoint nodupb (l : list str) : bool :=
    match l with [] => true | x :: r => negb (mem_str x r) && nodupb r end.
  Definition attrs_okb (ver : N) (k : ekind) (a : attrs) : bool :=
    nodupb (map fst a) &&
    forallb (fun kv => match lookup (fst kv) (schema k) with
                       | Some ty => val_okb ver ty (snd kv)
                       | None => false
                       end) a &&
    forallb (fun r => mem_str r (map fst a)) (required k).
  Definition nilb {A} (l : list A) : bool := match l with [] => true | _ => false end.
  Definition leaf_okb (ver : N) (k : ekind) (n : node) : bool :=
    is_kind k n && nilb (sig_kids (kids_of n)) && attrs_okb ver k (attrs_of n).
  Definition contour_okb (ver : N) (n : node) : bool :=
    is_kind KContour n && attrs_okb ver KContour (attrs_of n) &&
    forallb (leaf_okb ver KPoint) (sig_kids (kids_of n)) &&
    legalb (map (fun p => spec_pt (attrs_of p)) (sig_kids (kids_of n))).
  Definition outline_child_okb (ver : N) (n : node) : bool :=
    contour_okb ver n || leaf_okb ver KComponent n.
  Definition guideline_shapeb (a : attrs) : bool :=
    let hx := has_key (s2l "x") a in
    let hy := has_key (s2l "y") a in
    let ha := has_key (s2l "angle") a in
    (hx && negb hy && negb ha) || (negb hx && hy && negb ha) || (hx && hy && ha).
  Definition child_okb (ver : N) (n : node) : bool :=
    match kind_of n with
    | Some KAdvance => leaf_okb ver KAdvance n
    | Some KUnicode => leaf_okb ver KUnicode n
    | Some KImage => (ver =? 2) && leaf_okb ver KImage n
    | Some KAnchor => (ver =? 2) && leaf_okb ver KAnchor n
    | Some KGuideline => (ver =? 2) && leaf_okb ver KGuideline n && guideline_shapeb (attrs_of n)
    | Some KOutline => nilb (attrs_of n) && forallb (outline_child_okb ver) (sig_kids (kids_of n))
    | Some KLib => nilb (attrs_of n) && is_some (lib_dict n)
    | Some KNote => nilb (attrs_of n) && forallb is_chardata (kids_of n)
    | _ => false
    end.
  Definition objlibs_okb (ids : list str) (d : dict) : bool :=
    match lookup objlibs_key d with
    | None => true
    | Some (PDict od) =>
        forallb (fun i => match lookup i od with Some (PDict _) | None => true | Some _ => false end) ids
    | Some _ => false
    end.
  Definition glif_okb (d : doc) : bool :=
    match root_of d with
    | None => false
    | Some root =>
        is_kind KGlyph root && attrs_okb 2 KGlyph (attrs_of root) &&
        match version_of (attrs_of root) with
        | None => false
        | Some ver =>
            let kids := sig_kids (kids_of root) in
            forallb (child_okb ver) kids &&
            forallb (fun n => if is_kind KLib n
                              then match lib_dict n with
                                   | Some dd => objlibs_okb (doc_obj_ids kids) dd
                                   | None => true
                                   end
                              else true) kids &&
            (count_kind KAdvance kids <=? 1)%nat && (count_kind KOutline kids <=? 1)%nat &&
            (count_kind KLib kids <=? 1)%nat && (count_kind KNote kids <=? 1)%nat &&
            (count_kind KImage kids <=? 1)%nat &&
            nodupb (doc_ids kids)
        end
    end.

  (** executable class predicates *)
  Definition f16b (d : doc) : bool :=
    match root_of d with
    | None => false
    | Some root => existsb f16_child (tview (kids_of root))
    end.
  Definition f14b (d : doc) : bool :=
    match root_of d with None => false | Some root => f14_node 3 root end.
  Definition f17b (d : doc) : bool :=
    existsb (fun n => match n with DocType _ | PI _ => true | _ => false end) d ||
    match root_of d with
    | None => false
    | Some root =>
        (match root with Empty _ _ => true | _ => false end) ||
        (match version_of (attrs_of root) with Some 1 => true | _ => false end
         && existsb (is_kind KNote) (sig_kids (kids_of root)))
    end.
End Spec.
