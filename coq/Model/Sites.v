(** C03 anchor: the committed catalogue of every panic site of norad (see lib/anchors_c03.py for
    what counts as a site and how a key is formed: file | enclosing item | kind | normalised text,
    never a line number).  The inventory is regenerated from the source on every run;
    Anchors/AnchorsOK_C03.v proves that it equals [catalogue_keys] (as sorted lists) and [Check]s
    every lemma and model definition named here.  A new unwrap / expect / index / slice / integer
    subtraction / panicking call, or a changed condition in a function that contains one, breaks
    the anchor until it is catalogued with a discharge. *)
From Coq Require Import String List.
Import ListNotations.
Open Scope string_scope.

Inductive discharge :=
| Documented (which : string)                  (* one of the panics the documentation announces *)
| TypeInvariant (why : string)                 (* written argument: holds by typing / std contract / L1 *)
| ModelLemma (lemma : string)                  (* unreachable: kernel-checked theorem of Props/C03.v (or a named lemma of Proofs/TotalityP.v) over the site model in Model/Totality.v *)
| Reachable (finding : string) (lemma : string) (* reachable through the public API: known finding <finding>; <lemma> = the theorem under the exact hypothesis that excludes the class (its refutation C03_refuted_* is a theorem too) *)
| Modelled (definition : string).              (* guards / constants: transliterated in this definition of Model/Totality.v *)

Definition catalogue : list (string * discharge) := [
  ("src/datastore.rs|impl DataType for Data::try_list_contents|guards|while let Some(dir_path) = dir_queue.pop() ;; for entry in std::fs::read_dir(&dir_path) .map_err(|e| StoreEntryError::new(dir_path.clone(), e.into()))? ;; if attributes.is_file() ;; if attributes.is_dir()",
     Modelled "walk");
  ("src/datastore.rs|impl DataType for Image::try_list_contents|guards|for entry in std::fs::read_dir(&source_root) .map_err(|e| StoreEntryError::new(source_root.clone(), e.into()))? ;; if attributes.is_file() ;; if attributes.is_dir()",
     Modelled "walk");
  ("src/datastore.rs|impl Store<T>::get|guards|if matches!(*cell.borrow(), Item::NotLoaded)",
     Modelled "get_cell");
  ("src/datastore.rs|impl DataType for Data::try_list_contents|unwrap|path.strip_prefix(&source_root).unwrap()",
     ModelLemma "C03_walk_no_panic");
  ("src/datastore.rs|impl DataType for Image::try_list_contents|unwrap|path.strip_prefix(&source_root).unwrap()",
     ModelLemma "C03_walk_no_panic");
  ("src/datastore.rs|impl Store<T>::get|method|*cell.borrow()",
     TypeInvariant "every RefCell borrow here is a temporary that is dropped before the next borrow is taken (for `*cell.borrow_mut() = load_item(..)` the right-hand side, which only reads the key set, is evaluated first); the type is !Sync, so no other thread borrows");
  ("src/datastore.rs|impl Store<T>::get|method|*cell.borrow_mut()",
     TypeInvariant "every RefCell borrow here is a temporary that is dropped before the next borrow is taken (for `*cell.borrow_mut() = load_item(..)` the right-hand side, which only reads the key set, is evaluated first); the type is !Sync, so no other thread borrows");
  ("src/datastore.rs|impl Store<T>::get|method|cell.borrow()",
     TypeInvariant "every RefCell borrow here is a temporary that is dropped before the next borrow is taken (for `*cell.borrow_mut() = load_item(..)` the right-hand side, which only reads the key set, is evaluated first); the type is !Sync, so no other thread borrows");
  ("src/datastore.rs|impl Store<T>::get|macro|unreachable!()",
     ModelLemma "C03_store_get");
  ("src/datastore.rs|impl Store<T>::iter|unwrap|self.get(k).unwrap()",
     TypeInvariant "k is produced by self.items.keys(), so the look-up in get(k) finds the cell (HashMap look-up of a present key); get returns None only for an absent key");
  ("src/font.rs|impl Font::save_impl|guards|if self.meta.format_version != FormatVersion::V3 ;; if self.lib.contains_key(PUBLIC_OBJECT_LIBS_KEY) ;; for (path, entry) in self.data.iter().chain(self.images.iter()) ;; if let Err(source) = entry ;; if path.exists() ;; if self.meta.creator == Some(DEFAULT_METAINFO_CREATOR.into()) ;; if !self.font_info.is_empty() ;; if !font_object_libs.is_empty() ;; if !lib.is_empty() ;; if !self.groups.is_empty() ;; if !self.kerning.is_empty() ;; if !self.features.is_empty() ;; if self.features.as_bytes().contains(&b'\r') ;; for layer in self.layers.iter() ;; if !self.data.is_empty() ;; for (data_path, contents) in self.data.iter() ;; if !self.images.is_empty() ;; for (image_path, contents) in self.images.iter()",
     Modelled "save_stores");
  ("src/font.rs|impl Font::save_impl|expect|contents.expect(""internal error: should have been checked"")",
     ModelLemma "C03_save_stores");
  ("src/font.rs|impl Font::save_impl|unwrap|destination.parent().unwrap()",
     ModelLemma "C03_data_parent");
  ("src/font.rs|impl Font::save_impl|expect|contents.expect(""internal error: should have been checked"")#2",
     ModelLemma "C03_save_stores");
  ("src/fontinfo.rs|impl FontInfo::validate|guards|if let Some(v) = &self.open_type_head_created ;; if v.len() != DATE_LENGTH ;; if !v.chars().all(|b| b.is_ascii_digit() || b == ' ' || b == '/' || b == ':') ;; if !(v[0..4].parse::<u16>().is_ok() && &v[4..5] == ""/"" && (1..=12).contains( &v[5..7] .parse::<u8>() .map_err(|_| FontInfoErrorKind::InvalidOpenTypeHeadCreatedDate)?, ) && &v[7..8] == ""/"" && (1..=31).contains( &v[8..10] .parse::<u8>() .map_err(|_| FontInfoErrorKind::InvalidOpenTypeHeadCreatedDate)?, ) && &v[10..11] == "" "" && v[11..13] .parse::<u8>() .map_err(|_| FontInfoErrorKind::InvalidOpenTypeHeadCreatedDate)? < 24 && &v[13..14] == "":"" && v[14..16] .parse::<u8>() .map_err(|_| FontInfoErrorKind::InvalidOpenTypeHeadCreatedDate)? < 60 && &v[16..17] == "":"" && v[17..19] .parse::<u8>() .map_err(|_| FontInfoErrorKind::InvalidOpenTypeHeadCreatedDate)? < 60) ;; if let Some(v) = &self.open_type_gasp_range_records ;; if v.len() > 1 ;; for current in vs_iter ;; if last > current ;; if let Some(guidelines) = &self.guidelines ;; for guideline in guidelines ;; if let Line::Angle ;; if !(0.0..=360.0).contains(&degrees) ;; if let Some(id) = guideline.identifier() ;; if !identifiers.insert(id.clone()) ;; if let Some(v) = &self.open_type_os2_selection ;; if v.contains(&0) || v.contains(&5) || v.contains(&6) ;; if let Some(v) = &self.open_type_os2_family_class ;; if !v.is_valid() ;; if let Some(v) = &self.postscript_blue_values ;; if v.len() > 14 ;; if v.len() % 2 != 0 ;; if let Some(v) = &self.postscript_other_blues ;; if v.len() > 10 ;; if v.len() % 2 != 0 ;; if let Some(v) = &self.postscript_family_blues ;; if v.len() > 14 ;; if v.len() % 2 != 0 ;; if let Some(v) = &self.postscript_family_other_blues ;; if v.len() > 10 ;; if v.len() % 2 != 0 ;; if let Some(v) = &self.postscript_stem_snap_h ;; if v.len() > 12 ;; if let Some(v) = &self.postscript_stem_snap_v ;; if v.len() > 12 ;; if let Some(v) = &self.woff_metadata_extensions ;; if v.is_empty() ;; for record in v.iter() ;; if record.items.is_empty() ;; for record_item in record.items.iter() ;; if record_item.names.is_empty() || record_item.values.is_empty() ;; if let Some(v) = &self.woff_metadata_credits ;; if v.credits.is_empty() ;; if let Some(v) = &self.woff_metadata_copyright ;; if v.text.is_empty() ;; if let Some(v) = &self.woff_metadata_description ;; if v.text.is_empty() ;; if let Some(v) = &self.woff_metadata_trademark ;; if v.text.is_empty()",
     Modelled "date_slices");
  ("src/fontinfo.rs|impl FontInfo::dump_object_libs|guards|if let Some(guidelines) = &self.guidelines ;; for guideline in guidelines ;; if let Some(lib) = guideline.lib()",
     Modelled "odump");
  ("src/fontinfo.rs|impl Deserialize<'de> for Os2FamilyClass::deserialize|guards|if values.len() != 2",
     Modelled "deser_fixed");
  ("src/fontinfo.rs|impl Deserialize<'de> for Os2Panose::deserialize|guards|if values.len() != 10",
     Modelled "deser_fixed");
  ("src/fontinfo.rs|impl Deserialize<'de> for Os2PanoseV2::deserialize|guards|if values.len() != 10",
     Modelled "deser_fixed");
  ("src/fontinfo.rs|impl NonNegativeIntegerOrFloat::new|guards|if value.is_sign_positive()",
     Modelled "Upconv.map_abs_num");
  ("src/fontinfo.rs|impl FontInfo::from_file|unwrap|NonNegativeIntegerOrFloat::new(v.abs()).unwrap()",
     ModelLemma "C03_upconversion_abs_unwrap");
  ("src/fontinfo.rs|impl FontInfo::from_file|unwrap|NonNegativeIntegerOrFloat::new(v.abs()).unwrap()#2",
     ModelLemma "C03_upconversion_abs_unwrap");
  ("src/fontinfo.rs|impl FontInfo::validate|index|v[0..4]",
     ModelLemma "C03_date_slices");
  ("src/fontinfo.rs|impl FontInfo::validate|index|&v[4..5]",
     ModelLemma "C03_date_slices");
  ("src/fontinfo.rs|impl FontInfo::validate|index|&v[5..7]",
     ModelLemma "C03_date_slices");
  ("src/fontinfo.rs|impl FontInfo::validate|index|&v[7..8]",
     ModelLemma "C03_date_slices");
  ("src/fontinfo.rs|impl FontInfo::validate|index|&v[8..10]",
     ModelLemma "C03_date_slices");
  ("src/fontinfo.rs|impl FontInfo::validate|index|&v[10..11]",
     ModelLemma "C03_date_slices");
  ("src/fontinfo.rs|impl FontInfo::validate|index|v[11..13]",
     ModelLemma "C03_date_slices");
  ("src/fontinfo.rs|impl FontInfo::validate|index|&v[13..14]",
     ModelLemma "C03_date_slices");
  ("src/fontinfo.rs|impl FontInfo::validate|index|v[14..16]",
     ModelLemma "C03_date_slices");
  ("src/fontinfo.rs|impl FontInfo::validate|index|&v[16..17]",
     ModelLemma "C03_date_slices");
  ("src/fontinfo.rs|impl FontInfo::validate|index|v[17..19]",
     ModelLemma "C03_date_slices");
  ("src/fontinfo.rs|impl FontInfo::validate|unwrap|vs_iter.next().unwrap()",
     ModelLemma "C03_gasp_first");
  ("src/fontinfo.rs|impl FontInfo::validate|arith|v.len() % 2",
     TypeInvariant "remainder by the non-zero literal 2");
  ("src/fontinfo.rs|impl FontInfo::validate|arith|v.len() % 2#2",
     TypeInvariant "remainder by the non-zero literal 2");
  ("src/fontinfo.rs|impl FontInfo::validate|arith|v.len() % 2#3",
     TypeInvariant "remainder by the non-zero literal 2");
  ("src/fontinfo.rs|impl FontInfo::validate|arith|v.len() % 2#4",
     TypeInvariant "remainder by the non-zero literal 2");
  ("src/fontinfo.rs|impl FontInfo::dump_object_libs|unwrap|id.unwrap()",
     ModelLemma "C03_object_libs");
  ("src/fontinfo.rs|impl Deserialize<'de> for Os2FamilyClass::deserialize|index|values[0]",
     ModelLemma "C03_fixed_len_index");
  ("src/fontinfo.rs|impl Deserialize<'de> for Os2FamilyClass::deserialize|index|values[1]",
     ModelLemma "C03_fixed_len_index");
  ("src/fontinfo.rs|impl Deserialize<'de> for Os2Panose::deserialize|index|values[0]",
     ModelLemma "C03_fixed_len_index");
  ("src/fontinfo.rs|impl Deserialize<'de> for Os2Panose::deserialize|index|values[1]",
     ModelLemma "C03_fixed_len_index");
  ("src/fontinfo.rs|impl Deserialize<'de> for Os2Panose::deserialize|index|values[2]",
     ModelLemma "C03_fixed_len_index");
  ("src/fontinfo.rs|impl Deserialize<'de> for Os2Panose::deserialize|index|values[3]",
     ModelLemma "C03_fixed_len_index");
  ("src/fontinfo.rs|impl Deserialize<'de> for Os2Panose::deserialize|index|values[4]",
     ModelLemma "C03_fixed_len_index");
  ("src/fontinfo.rs|impl Deserialize<'de> for Os2Panose::deserialize|index|values[5]",
     ModelLemma "C03_fixed_len_index");
  ("src/fontinfo.rs|impl Deserialize<'de> for Os2Panose::deserialize|index|values[6]",
     ModelLemma "C03_fixed_len_index");
  ("src/fontinfo.rs|impl Deserialize<'de> for Os2Panose::deserialize|index|values[7]",
     ModelLemma "C03_fixed_len_index");
  ("src/fontinfo.rs|impl Deserialize<'de> for Os2Panose::deserialize|index|values[8]",
     ModelLemma "C03_fixed_len_index");
  ("src/fontinfo.rs|impl Deserialize<'de> for Os2Panose::deserialize|index|values[9]",
     ModelLemma "C03_fixed_len_index");
  ("src/fontinfo.rs|impl Deserialize<'de> for Os2PanoseV2::deserialize|index|values[0]",
     ModelLemma "C03_fixed_len_index");
  ("src/fontinfo.rs|impl Deserialize<'de> for Os2PanoseV2::deserialize|index|values[1]",
     ModelLemma "C03_fixed_len_index");
  ("src/fontinfo.rs|impl Deserialize<'de> for Os2PanoseV2::deserialize|index|values[2]",
     ModelLemma "C03_fixed_len_index");
  ("src/fontinfo.rs|impl Deserialize<'de> for Os2PanoseV2::deserialize|index|values[3]",
     ModelLemma "C03_fixed_len_index");
  ("src/fontinfo.rs|impl Deserialize<'de> for Os2PanoseV2::deserialize|index|values[4]",
     ModelLemma "C03_fixed_len_index");
  ("src/fontinfo.rs|impl Deserialize<'de> for Os2PanoseV2::deserialize|index|values[5]",
     ModelLemma "C03_fixed_len_index");
  ("src/fontinfo.rs|impl Deserialize<'de> for Os2PanoseV2::deserialize|index|values[6]",
     ModelLemma "C03_fixed_len_index");
  ("src/fontinfo.rs|impl Deserialize<'de> for Os2PanoseV2::deserialize|index|values[7]",
     ModelLemma "C03_fixed_len_index");
  ("src/fontinfo.rs|impl Deserialize<'de> for Os2PanoseV2::deserialize|index|values[8]",
     ModelLemma "C03_fixed_len_index");
  ("src/fontinfo.rs|impl Deserialize<'de> for Os2PanoseV2::deserialize|index|values[9]",
     ModelLemma "C03_fixed_len_index");
  ("src/glyph/builder.rs|impl OutlineBuilder::end_path|guards|if number_of_offcurves > 0 ;; if scratch_contour.is_closed() ;; for point in &scratch_contour.points ;; if number_of_offcurves > 2 ;; if !scratch_contour.points.is_empty()",
     Modelled "build");
  ("src/glyph/builder.rs|impl OutlineBuilder::end_path|macro|unreachable!()",
     ModelLemma "C03_builder_unreachable");
  ("src/glyph/mod.rs|impl Glyph::dump_object_libs|guards|for anchor in &self.anchors ;; if let Some(lib) = anchor.lib() ;; for guideline in &self.guidelines ;; if let Some(lib) = guideline.lib() ;; for contour in self.contours.iter().filter(|c| !c.points.is_empty()) ;; if let Some(lib) = contour.lib() ;; for point in &contour.points ;; if let Some(lib) = point.lib() ;; for component in &self.components ;; if let Some(lib) = component.lib()",
     Modelled "odump");
  ("src/glyph/mod.rs|impl Contour::to_kurbo|guards|if !self.points.is_empty() && self.points.iter().all(|pt| pt.typ == PointType::OffCurve) ;; for (i, pt) in pts.iter().enumerate() ;; if self.is_closed() ;; if let Some(start) = points.next() ;; for pt in points ;; if offs.is_empty() ;; while let Some(pt) = offs.pop_front() ;; if let Some(next) = offs.front()",
     Modelled "kurbo_offcurve_sites");
  ("src/glyph/mod.rs|impl Image::new|guards|if file_name.as_os_str().is_empty() ;; if file_name.is_absolute() ;; if file_name.parent().is_some_and(|p| !p.as_os_str().is_empty()) ;; if file_name.to_str().is_none()",
     Modelled "image_new");
  ("src/glyph/mod.rs|impl Glyph::new|call|Name::new_raw(name)",
     Documented "invalid name passed to a panicking Name constructor (Glyph::new; crate-internal Name::new_raw)");
  ("src/glyph/mod.rs|impl Glyph::dump_object_libs|unwrap|id.unwrap()",
     ModelLemma "C03_object_libs");
  ("src/glyph/mod.rs|impl Contour::to_kurbo|index|pts[pts.len() - 1]",
     ModelLemma "C03_kurbo_offcurve");
  ("src/glyph/mod.rs|impl Contour::to_kurbo|arith|pts.len() - 1",
     ModelLemma "C03_kurbo_offcurve");
  ("src/glyph/mod.rs|impl Contour::to_kurbo|index|pts[0]",
     ModelLemma "C03_kurbo_offcurve");
  ("src/glyph/mod.rs|impl Contour::to_kurbo|index|pts[(i + 1) % pts.len()]",
     ModelLemma "C03_kurbo_offcurve");
  ("src/glyph/mod.rs|impl Contour::to_kurbo|arith|i + 1",
     TypeInvariant "addition of lengths / counters of live in-memory objects: bounded by the address-space size, cannot overflow usize");
  ("src/glyph/mod.rs|impl Contour::to_kurbo|arith|(i + 1) % pts.len()",
     ModelLemma "C03_kurbo_offcurve");
  ("src/glyph/mod.rs|impl Contour::to_kurbo|arith|self.points.len() - 1",
     ModelLemma "C03_kurbo_rotate");
  ("src/glyph/mod.rs|impl Contour::to_kurbo|arith|1 - idx",
     ModelLemma "C03_kurbo_rotate");
  ("src/glyph/mod.rs|impl Contour::to_kurbo|arith|self.points.len() + 1",
     TypeInvariant "addition of lengths / counters of live in-memory objects: bounded by the address-space size, cannot overflow usize");
  ("src/glyph/mod.rs|impl From<kurbo::Affine> for AffineTransform::from|index|coeffs[0]",
     TypeInvariant "as_coeffs() returns the fixed-size array [f64; 6]; a constant index below 6 is checked by the compiler");
  ("src/glyph/mod.rs|impl From<kurbo::Affine> for AffineTransform::from|index|coeffs[1]",
     TypeInvariant "as_coeffs() returns the fixed-size array [f64; 6]; a constant index below 6 is checked by the compiler");
  ("src/glyph/mod.rs|impl From<kurbo::Affine> for AffineTransform::from|index|coeffs[2]",
     TypeInvariant "as_coeffs() returns the fixed-size array [f64; 6]; a constant index below 6 is checked by the compiler");
  ("src/glyph/mod.rs|impl From<kurbo::Affine> for AffineTransform::from|index|coeffs[3]",
     TypeInvariant "as_coeffs() returns the fixed-size array [f64; 6]; a constant index below 6 is checked by the compiler");
  ("src/glyph/mod.rs|impl From<kurbo::Affine> for AffineTransform::from|index|coeffs[4]",
     TypeInvariant "as_coeffs() returns the fixed-size array [f64; 6]; a constant index below 6 is checked by the compiler");
  ("src/glyph/mod.rs|impl From<kurbo::Affine> for AffineTransform::from|index|coeffs[5]",
     TypeInvariant "as_coeffs() returns the fixed-size array [f64; 6]; a constant index below 6 is checked by the compiler");
  ("src/glyph/parse.rs|impl GlifParser<'names>::parse_outline|guards|if end.name().as_ref() == b""outline"" ;; if self.version == VERSION_1 ;; for c in &mut contours ;; if c.points.len() == 1 && c.points[0].typ == PointType::Move && c.points[0].name.is_some()",
     Modelled "single_point_sites");
  ("src/glyph/parse.rs|impl GlifParser<'names>::parse_lib|guards|if end.name().as_ref() == b""lib""",
     Modelled "parse_lib_slice");
  ("src/glyph/parse.rs|impl GlifParser<'names>::parse_advance|guards|for attr in data.attributes()",
     Modelled "advance_inner");
  ("src/glyph/parse.rs|impl GlifParser<'names>::parse_outline|index|c.points[0]",
     ModelLemma "C03_single_point");
  ("src/glyph/parse.rs|impl GlifParser<'names>::parse_outline|index|c.points[0]#2",
     ModelLemma "C03_single_point");
  ("src/glyph/parse.rs|impl GlifParser<'names>::parse_outline|method|c.points.remove(0)",
     ModelLemma "C03_single_point");
  ("src/glyph/parse.rs|impl GlifParser<'names>::parse_lib|index|&raw_xml[start..end]",
     ModelLemma "C03_parse_lib_slice");
  ("src/glyph/parse.rs|impl GlifParser<'names>::parse_advance|macro|unreachable!()",
     ModelLemma "C03_advance_inner");
  ("src/glyph/serialize.rs|fn write_lib_section|guards|for line in to_write.lines()",
     TypeInvariant "iteration over the lines of the slice; guards no site");
  ("src/glyph/serialize.rs|impl Image::to_event|guards|if let Some(color) = &self.color",
     TypeInvariant "optional colour attribute; guards no site");
  ("src/glyph/serialize.rs|fn write_lib_section|expect|String::from_utf8(out_buffer).expect(""XML writer wrote invalid UTF-8"")",
     TypeInvariant "L1: the plist crate's XML writer emits valid UTF-8; encode of libs with arbitrary strings is part of the search");
  ("src/glyph/serialize.rs|fn write_lib_section|arith|pos + header.len()",
     TypeInvariant "pos is the offset of a match of header in lib_xml, so pos + header.len() <= lib_xml.len()");
  ("src/glyph/serialize.rs|fn write_lib_section|index|&lib_xml[start_idx..end_idx]",
     TypeInvariant "L1: layout of the plist crate's XML output (declaration, DOCTYPE, the <plist version=1.0> line, the root <dict>, the closing </plist> line): markup characters inside keys and strings are escaped, so the first match of the header ends before the first match of the footer; both offsets come from str::find and are char boundaries. Lib strings containing the header / footer text are part of the search");
  ("src/glyph/serialize.rs|impl Image::to_event|expect|self.file_name.to_str().expect(""missing path"")",
     ModelLemma "C03_image_to_event_ok");
  ("src/identifier.rs|impl Identifier::from_uuidv4|unwrap|Self::new(uuid::Uuid::new_v4().to_string().as_ref()).unwrap()",
     ModelLemma "C03_from_uuid");
  ("src/layer.rs|impl LayerContents::load|guards|if layer_contents_path.exists() ;; for (name, path) in &to_load ;; let Some(dir) = plain_name(path) else ;; if !seen_names.insert(name) ;; if !seen_dirs.insert(dir.to_string_lossy().to_lowercase()) ;; if name.as_str() == DEFAULT_LAYER_NAME && dir != OsStr::new(DEFAULT_GLYPHS_DIRNAME) ;; if !filter.includes_default_layer() && !layers.iter().any(Layer::is_default)",
     Modelled "load_layer_dir");
  ("src/layer.rs|impl LayerContents::new_layer|guards|if name == DEFAULT_LAYER_NAME ;; if self.layers.iter().any(|l| l.name == name)",
     Modelled "new_layer");
  ("src/layer.rs|impl LayerContents::remove|guards|if let Some(layer) = &removed_layer",
     Modelled "lc_remove");
  ("src/layer.rs|impl LayerContents::rename_layer|guards|if !overwrite && self.get(new).is_some() ;; if self.get(old).is_none() ;; if new == DEFAULT_LAYER_NAME && self.layers[0].name != old ;; if old == new ;; if self.layers[0].name == new ;; if overwrite ;; if layer_pos != 0",
     Modelled "rename_layer");
  ("src/layer.rs|impl Layer::load_impl|guards|if !contents_path.exists() ;; for (name, path) in &contents ;; let Some(file_name) = plain_name(path) else ;; if !seen_files.insert(file_name.to_string_lossy().to_lowercase()) ;; if layerinfo_path.exists()",
     TypeInvariant "existence tests and the plain-file-name / duplicate tests of contents.plist values: they return errors and guard no site (the file_name().unwrap() is guarded by plain_name in LayerContents::load)");
  ("src/layer.rs|impl Layer::insert_glyph|guards|if !self.contents.contains_key(&glyph.name)",
     Modelled "insert_glyph");
  ("src/layer.rs|impl Layer::rename_glyph|guards|if !overwrite && self.glyphs.contains_key(new) ;; if !self.glyphs.contains_key(old)",
     Modelled "rename_glyph");
  ("src/layer.rs|fn plain_name|guards|match (components.next(), components.next()) { (Some(Component::Normal(name)), None) => Some(name), _ => None, }",
     Modelled "plain_name");
  ("src/layer.rs|impl LayerContents::load|call|Name::new_raw(DEFAULT_LAYER_NAME)",
     ModelLemma "C03_default_layer_name_valid");
  ("src/layer.rs|impl LayerContents::load|method|layers.remove(default_idx)",
     ModelLemma "position_lt");
  ("src/layer.rs|impl LayerContents::load|method|layers.insert(0, default_layer)",
     ModelLemma "position_lt");
  ("src/layer.rs|impl LayerContents::default_layer|index|self.layers[0]",
     Reachable "layer-slot-assign" "C03_layer_ops_no_panic");
  ("src/layer.rs|impl LayerContents::default_layer|index|&self.layers[0]",
     Reachable "layer-slot-assign" "C03_layer_ops_no_panic");
  ("src/layer.rs|impl LayerContents::default_layer_mut|index|self.layers[0]",
     Reachable "layer-slot-assign" "C03_layer_ops_no_panic");
  ("src/layer.rs|impl LayerContents::default_layer_mut|index|&mut self.layers[0]",
     Reachable "layer-slot-assign" "C03_layer_ops_no_panic");
  ("src/layer.rs|impl LayerContents::new_layer|call|util::default_file_name_for_layer_name(&name, &self.path_set)",
     Documented "more than 99 file-name clashes (user_name_to_file_name)");
  ("src/layer.rs|impl LayerContents::new_layer|unwrap|self.layers.last_mut().unwrap()",
     ModelLemma "C03_layer_ops_no_panic");
  ("src/layer.rs|impl LayerContents::get_or_create_layer|index|&mut self.layers[its_here]",
     ModelLemma "C03_layer_ops_no_panic");
  ("src/layer.rs|impl LayerContents::remove|method|self.layers.remove(idx + 1)",
     ModelLemma "position_lt");
  ("src/layer.rs|impl LayerContents::remove|arith|idx + 1",
     ModelLemma "position_lt");
  ("src/layer.rs|impl LayerContents::rename_layer|index|self.layers[0]",
     ModelLemma "C03_rename_layer_no_panic");
  ("src/layer.rs|impl LayerContents::rename_layer|index|self.layers[0]#2",
     ModelLemma "C03_rename_layer_no_panic");
  ("src/layer.rs|impl LayerContents::rename_layer|unwrap|self.layers.iter().position(|l| l.name.as_ref() == old).unwrap()",
     ModelLemma "C03_rename_layer_no_panic");
  ("src/layer.rs|impl LayerContents::rename_layer|index|self.layers[layer_pos]",
     ModelLemma "C03_rename_layer_no_panic");
  ("src/layer.rs|impl LayerContents::rename_layer|call|crate::util::default_file_name_for_layer_name(&name, &self.path_set)",
     Documented "more than 99 file-name clashes (user_name_to_file_name)");
  ("src/layer.rs|impl LayerContents::rename_layer|index|self.layers[layer_pos]#2",
     ModelLemma "C03_rename_layer_no_panic");
  ("src/layer.rs|impl LayerContents::rename_layer|index|self.layers[layer_pos]#3",
     ModelLemma "C03_rename_layer_no_panic");
  ("src/layer.rs|impl Layer::load_impl|unwrap|path.file_name().unwrap()",
     ModelLemma "C03_load_layer_dir_no_panic");
  ("src/layer.rs|impl Layer::save_with_options|expect|self.glyphs.get(name).expect(""all glyphs in contents must exist."")",
     Reachable "entry-remove" "C03_layer_save_no_panic");
  ("src/layer.rs|impl Layer::insert_glyph|call|crate::util::default_file_name_for_glyph_name(&glyph.name, &self.path_set)",
     Documented "more than 99 file-name clashes (user_name_to_file_name)");
  ("src/layer.rs|impl Layer::rename_glyph|unwrap|self.remove_glyph(old).unwrap()",
     ModelLemma "C03_rename_glyph_no_panic");
  ("src/layer.rs|impl Default for Layer::default|call|Name::new_raw(DEFAULT_LAYER_NAME)",
     ModelLemma "C03_default_layer_name_valid");
  ("src/name.rs|impl Name::new_raw|macro|assert!(is_valid(name))",
     Documented "invalid name passed to a panicking Name constructor (Glyph::new; crate-internal Name::new_raw)");
  ("src/names.rs|impl ParNameList::get|unwrap|self.0.read().unwrap()",
     TypeInvariant "RwLock::read/write fail only when the lock is poisoned, i.e. after another thread already panicked while holding it: no first panic originates here");
  ("src/names.rs|impl ParNameList::get|unwrap|self.0.write().unwrap()",
     TypeInvariant "RwLock::read/write fail only when the lock is poisoned, i.e. after another thread already panicked while holding it: no first panic originates here");
  ("src/names.rs|impl ParNameList::contains|unwrap|self.0.read().unwrap()",
     TypeInvariant "RwLock::read/write fail only when the lock is poisoned, i.e. after another thread already panicked while holding it: no first panic originates here");
  ("src/names.rs|impl SeqNameList::get|method|self.0.borrow()",
     TypeInvariant "every RefCell borrow here is a temporary that is dropped before the next borrow is taken (for `*cell.borrow_mut() = load_item(..)` the right-hand side, which only reads the key set, is evaluated first); the type is !Sync, so no other thread borrows");
  ("src/names.rs|impl SeqNameList::get|method|self.0.borrow_mut()",
     TypeInvariant "every RefCell borrow here is a temporary that is dropped before the next borrow is taken (for `*cell.borrow_mut() = load_item(..)` the right-hand side, which only reads the key set, is evaluated first); the type is !Sync, so no other thread borrows");
  ("src/names.rs|impl SeqNameList::contains|method|self.0.borrow()",
     TypeInvariant "every RefCell borrow here is a temporary that is dropped before the next borrow is taken (for `*cell.borrow_mut() = load_item(..)` the right-hand side, which only reads the key set, is evaluated first); the type is !Sync, so no other thread borrows");
  ("src/serde_xml_plist.rs|impl Serialize for DictionaryInnerHelper<'_>::serialize|guards|for (key, value) in self.0.iter()",
     TypeInvariant "iteration over the dictionary; guards no site");
  ("src/serde_xml_plist.rs|impl Serialize for ValueInnerHelper<'_>::serialize|macro|unreachable!( ""ValueInnerHelper should never serialize a boolean as it has no inner"" )",
     ModelLemma "C03_serialize_within");
  ("src/serde_xml_plist.rs|impl Serialize for DictionaryInnerHelper<'_>::serialize|arith|self.0.len() * 2",
     TypeInvariant "size hint: len <= isize::MAX / size_of::<(String, Value)>(), so len * 2 cannot overflow");
  ("src/upconversion.rs|fn upconvert_kerning|guards|for (first, seconds) in kerning ;; if groups.contains_key(first) && !glyph_set.contains(first) && !first.starts_with(""public.kern1."") ;; for second in seconds.keys() ;; if groups.contains_key(second) && !glyph_set.contains(second) && !second.starts_with(""public.kern2."") ;; for first in &groups_first ;; for second in &groups_second ;; for (first, seconds) in kerning ;; for (second, value) in seconds",
     Modelled "upconv_side");
  ("src/upconversion.rs|fn make_unique_group_name|guards|if !is_taken(&name) ;; while is_taken(&new_name)",
     Modelled "unique_loop");
  ("src/upconversion.rs|fn upconvert_kerning|unwrap|Name::new(&format!(""public.kern1.{}"", first.replace(""@MMK_L_"", """"))).unwrap()",
     ModelLemma "C03_upconv_names");
  ("src/upconversion.rs|fn upconvert_kerning|unwrap|groups_new.get(first).unwrap()",
     ModelLemma "C03_upconv_lookup");
  ("src/upconversion.rs|fn upconvert_kerning|unwrap|Name::new(&format!(""public.kern2.{}"", second.replace(""@MMK_R_"", """"))).unwrap()",
     ModelLemma "C03_upconv_names");
  ("src/upconversion.rs|fn upconvert_kerning|unwrap|groups_new.get(second).unwrap()",
     ModelLemma "C03_upconv_lookup");
  ("src/upconversion.rs|fn make_unique_group_name|unwrap|Name::new(&format!(""{}{}"", name, counter)).unwrap()",
     ModelLemma "C03_make_unique");
  ("src/upconversion.rs|fn make_unique_group_name|arith|counter += 1",
     ModelLemma "C03_make_unique");
  ("src/util.rs|fn user_name_to_file_name|guards|for c in name.chars() ;; if result.is_empty() ;; if SPECIAL_ILLEGAL.contains(&c) ;; if c.is_uppercase() ;; if let Some(stem) = result.split('.').next() ;; if SPECIAL_RESERVED.contains(&stem) ;; if result.len().saturating_add(suffix.len()) > MAX_LEN ;; while !result.is_char_boundary(boundary) ;; if suffix.is_empty() && result.ends_with(['.', ' ']) ;; for (i, c) in result.char_indices().rev() ;; if i < prefix_len || (c != '.' && c != ' ') ;; if !accept_path(&result.to_lowercase()) ;; if result.len().saturating_sub(suffix.len()).saturating_add(NUMBER_LEN) > MAX_LEN ;; while !result.is_char_boundary(boundary) ;; for counter in 1..100u8 ;; if accept_path(&result.to_lowercase()) ;; if !found_unique",
     Modelled "u2f");
  ("src/util.rs|fn default_file_name_for_glyph_name|call|user_name_to_file_name(name, """", "".glif"", |name| !existing.contains(name))",
     Documented "more than 99 file-name clashes (user_name_to_file_name)");
  ("src/util.rs|fn default_file_name_for_layer_name|call|user_name_to_file_name(name, ""glyphs."", """", |name| !existing.contains(name))",
     Documented "more than 99 file-name clashes (user_name_to_file_name)");
  ("src/util.rs|fn user_name_to_file_name|arith|prefix.len() + name.len()",
     TypeInvariant "addition of lengths / counters of live in-memory objects: bounded by the address-space size, cannot overflow usize");
  ("src/util.rs|fn user_name_to_file_name|arith|name.len() + suffix.len()",
     TypeInvariant "addition of lengths / counters of live in-memory objects: bounded by the address-space size, cannot overflow usize");
  ("src/util.rs|fn user_name_to_file_name|method|result.insert(0, '_')",
     TypeInvariant "byte offset 0 is always a char boundary");
  ("src/util.rs|fn user_name_to_file_name|arith|prefix_len += 1",
     TypeInvariant "addition of lengths / counters of live in-memory objects: bounded by the address-space size, cannot overflow usize");
  ("src/util.rs|fn user_name_to_file_name|arith|boundary -= 1",
     ModelLemma "C03_backoff_terminates");
  ("src/util.rs|fn user_name_to_file_name|method|result.truncate(boundary)",
     ModelLemma "C03_u2f_only_documented_panic");
  ("src/util.rs|fn user_name_to_file_name|arith|result.len() - boundary",
     ModelLemma "C03_u2f_only_documented_panic");
  ("src/util.rs|fn user_name_to_file_name|method|result.replace_range(boundary..result.len(), &underscores)",
     ModelLemma "C03_u2f_only_documented_panic");
  ("src/util.rs|fn user_name_to_file_name|arith|boundary -= 1#2",
     ModelLemma "C03_backoff_terminates");
  ("src/util.rs|fn user_name_to_file_name|method|result.truncate(boundary)#2",
     ModelLemma "C03_u2f_only_documented_panic");
  ("src/util.rs|fn user_name_to_file_name|method|result.truncate(result.len().saturating_sub(suffix.len()))",
     ModelLemma "C03_u2f_only_documented_panic");
  ("src/util.rs|fn user_name_to_file_name|unwrap|write!(&mut result, ""{:0>2}"", counter).unwrap()",
     TypeInvariant "fmt::Write for String never returns an error");
  ("src/util.rs|fn user_name_to_file_name|method|result.truncate(result.len().saturating_sub(suffix.len()) - NUMBER_LEN)",
     ModelLemma "C03_u2f_only_documented_panic");
  ("src/util.rs|fn user_name_to_file_name|arith|result.len().saturating_sub(suffix.len()) - NUMBER_LEN",
     ModelLemma "C03_u2f_only_documented_panic");
  ("src/util.rs|fn user_name_to_file_name|macro|panic!(""Could not find a unique file name after 99 tries"")",
     Documented "more than 99 file-name clashes (user_name_to_file_name)");
  ("src/write.rs|impl WriteOptions::whitespace|expect|indent_str.bytes().next().expect(""whitespace str must not be empty"")",
     Documented "invalid indent settings (WriteOptions::indent / whitespace)");
  ("src/write.rs|impl WriteOptions::whitespace|macro|assert!(indent_str.bytes().all(|c| c == indent_char), ""invalid whitespace"")",
     Documented "invalid indent settings (WriteOptions::indent / whitespace)");
  ("src/write.rs|impl WriteOptions::indent|macro|assert!([WriteOptions::TAB, WriteOptions::SPACE].contains(&indent_char))",
     Documented "invalid indent settings (WriteOptions::indent / whitespace)");
  ("src/fontinfo.rs|<top>|const|DATE_LENGTH = 19",
     Modelled "DATE_LENGTH");
  ("src/layer.rs|<top>|const|DEFAULT_GLYPHS_DIRNAME = ""glyphs""",
     Modelled "DEFAULT_DIR");
  ("src/layer.rs|<top>|const|DEFAULT_LAYER_NAME = ""public.default""",
     Modelled "DEFAULT_LAYER_NAME");
  ("src/font.rs|<top>|const|DEFAULT_METAINFO_CREATOR = ""org.linebender.norad""",
     TypeInvariant "constant that only occurs in a condition; no site depends on its value");
  ("src/util.rs|<top>|const|MAX_LEN = 255",
     Modelled "MAX_LEN");
  ("src/util.rs|<top>|const|NUMBER_LEN = 2",
     Modelled "NUMBER_LEN");
  ("src/shared_types.rs|<top>|const|PUBLIC_OBJECT_LIBS_KEY = ""public.objectLibs""",
     TypeInvariant "constant that only occurs in a condition; no site depends on its value");
  ("src/util.rs|<top>|const|SPECIAL_ILLEGAL = &[':', '?', '""', '(', ')', '[', ']', '*', '/', '\\', '+', '<', '>', '|']",
     Modelled "illegal");
  ("src/util.rs|<top>|const|SPECIAL_RESERVED = &[ ""con"", ""prn"", ""aux"", ""nul"", ""com1"", ""com2"", ""com3"", ""com4"", ""com5"", ""com6"", ""com7"", ""com8"", ""com9"", ""lpt1"", ""lpt2"", ""lpt3"", ""lpt4"", ""lpt5"", ""lpt6"", ""lpt7"", ""lpt8"", ""lpt9"", ]",
     Modelled "reserved");
  ("src/glyph/parse.rs|<top>|const|VERSION_1 = (1, 0)",
     TypeInvariant "constant that only occurs in a condition; no site depends on its value") ].

Definition catalogue_keys : list string := map fst catalogue.

Fixpoint add_new (s : string) (l : list string) : list string :=
  match l with [] => [s] | x :: r => if String.eqb x s then l else x :: add_new s r end.
Definition lemmas_used : list string :=
  fold_left (fun acc e => match snd e with
                          | ModelLemma l => add_new l acc
                          | Reachable _ l => add_new l acc
                          | _ => acc end) catalogue [].
Definition definitions_used : list string :=
  fold_left (fun acc e => match snd e with Modelled d => add_new d acc | _ => acc end) catalogue [].
Definition findings_used : list string :=
  fold_left (fun acc e => match snd e with Reachable f _ => add_new f acc | _ => acc end) catalogue [].
Definition count (p : discharge -> bool) : nat := length (filter (fun e => p (snd e)) catalogue).
