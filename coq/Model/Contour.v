(** Model of [OutlineBuilder] (src/glyph/builder.rs): [add_point] and [end_path], and the
    specification [legal] written positionally from the glif specification (no counter).
    Definitions only. *)
Require Export Norad.Model.Base.
Open Scope N_scope.

Inductive ptype := Move | Line | Off | Curve | QCurve.
(** A point, as far as legality is concerned: its type and its smooth flag. *)
Definition pt := (ptype * bool)%type.

Inductive cerr :=
| UnexpectedMove            (* ErrorKind::UnexpectedMove *)
| AfterOff                  (* ErrorKind::UnexpectedPointAfterOffCurve *)
| SmoothOff                 (* ErrorKind::UnexpectedSmooth *)
| TooMany                   (* ErrorKind::TooManyOffCurves *)
| Trailing                  (* ErrorKind::TrailingOffCurves *)
| UnreachableMove.          (* the [unreachable!()] arm of end_path: a panic site *)

(** [number_of_offcurves] is a [u32] bumped with [saturating_add(1)]. *)
Definition MAXU : N := 4294967295.
Definition sat_succ (n : N) : N := N.min (n + 1) MAXU.

(** [add_point]; state = (scratch contour still empty?, number_of_offcurves). *)
Definition step (st : bool * N) (p : pt) : cerr + (bool * N) :=
  let '(empty, cnt) := st in
  match fst p with
  | Move => if empty then inr (false, cnt) else inl UnexpectedMove
  | Line => if 0 <? cnt then inl AfterOff else inr (false, cnt)
  | Off => if snd p then inl SmoothOff else inr (false, sat_succ cnt)
  | QCurve => inr (false, 0)
  | Curve => if 2 <? cnt then inl TooMany else inr (false, 0)
  end.

(** The parser feeds the points in order and stops at the first error. *)
Fixpoint run (st : bool * N) (pts : list pt) : cerr + (bool * N) :=
  match pts with
  | [] => inr st
  | p :: r => match step st p with inl e => inl e | inr st' => run st' r end
  end.

(** [Contour::is_closed]: the first point is not a move (an empty contour counts as closed). *)
Definition is_closed (pts : list pt) : bool :=
  match pts with (Move, _) :: _ => false | _ => true end.

(** The wrap-around loop of [end_path]. [None] = loop finished without error. *)
Fixpoint wrap (cnt : N) (pts : list pt) : option cerr :=
  match pts with
  | [] => None
  | p :: r => match fst p with
              | Off => wrap (sat_succ cnt) r
              | QCurve => None
              | Curve => if 2 <? cnt then Some TooMany else None
              | Line => Some AfterOff
              | Move => Some UnreachableMove
              end
  end.

(** begin_path; add_point*; end_path.  [inr pts] = accepted, the contour holds [pts]
    (an empty contour is then dropped by [kept]). *)
Definition build (pts : list pt) : cerr + list pt :=
  match run (true, 0) pts with
  | inl e => inl e
  | inr (_, cnt) =>
      if 0 <? cnt then
        if is_closed pts then
          match wrap cnt pts with Some e => inl e | None => inr pts end
        else inl Trailing
      else inr pts
  end.

(** What ends up in the outline: empty contours are skipped. *)
Definition kept (pts : list pt) : option (list pt) :=
  match pts with [] => None | _ => Some pts end.

(** ---------- specification ---------- *)
Definition is_off (p : pt) : bool := match fst p with Off => true | _ => false end.
Fixpoint lead (l : list pt) : N :=
  match l with p :: r => if is_off p then 1 + lead r else 0 | [] => 0 end.
(** number of off-curves at the end of [l] *)
Definition trail (l : list pt) : N := lead (rev l).
Definition len (l : list pt) : N := N.of_nat (length l).

(** Length of the run of off-curves that ends just before position [i]; for a closed contour
    the run continues cyclically from the end of the contour when it reaches position 0. *)
Definition cyc_run (pts : list pt) (i : nat) : N :=
  let lin := trail (firstn i pts) in
  if is_closed pts && (lin =? N.of_nat i) then lin + trail pts else lin.

Definition legal (pts : list pt) : Prop :=
  (forall i p, nth_error pts i = Some p ->
     (fst p = Move -> i = 0%nat) /\
     (fst p = Off -> snd p = false) /\
     (fst p = Line -> cyc_run pts i = 0) /\
     (fst p = Curve -> cyc_run pts i <= 2)) /\
  (is_closed pts = false -> trail pts = 0).

(** Boolean version of [legal], used by the correspondence run and by C20. *)
Definition legal_pt (pts : list pt) (i : nat) (p : pt) : bool :=
  match fst p with
  | Move => Nat.eqb i 0
  | Off => negb (snd p)
  | Line => cyc_run pts i =? 0
  | Curve => cyc_run pts i <=? 2
  | QCurve => true
  end.
Fixpoint legal_from (pts : list pt) (i : nat) (rest : list pt) : bool :=
  match rest with
  | [] => true
  | p :: r => legal_pt pts i p && legal_from pts (S i) r
  end.
Definition legalb (pts : list pt) : bool :=
  legal_from pts 0 pts && (is_closed pts || (trail pts =? 0)).
