(** The real font-info part for the font-level signature: the validated view of FontInfo of
    Model/FontInfo.v (C13), split as the signature wants it into "everything but the guidelines"
    and the guidelines (line + identifier; the libs travel through lib.plist).  The codec is the
    model's own: [fi_save] (validate, then the serialiser's angle test) followed by [encode] for the
    writer, [fi_load] (typed deserialisers, then validate) for the reader; the file content is the
    [raw] record of C13.  Definitions only. *)
Require Import Norad.Model.FontInfo.
Require Import Norad.Model.FontRT.
Module FI := Norad.Model.FontInfo.
Open Scope N_scope.

Definition rinfo : Type := FI.info.
Definition rline : Type := FI.line.

Definition set_guides (i : FI.info) (gs : option (list FI.guide)) : FI.info :=
  FI.Build_info (FI.i_date i) (FI.i_gasp i) gs (FI.i_selection i) (FI.i_class i) (FI.i_blue i) (FI.i_oblue i)
                (FI.i_fblue i) (FI.i_foblue i) (FI.i_stemh i) (FI.i_stemv i) (FI.i_wext i) (FI.i_wcredits i)
                (FI.i_wcopyright i) (FI.i_wdescr i) (FI.i_wtrade i).

(** the signature's view (rest, guidelines) <-> the FontInfo value *)
Definition to_info (si : sinfo rinfo rline) : FI.info :=
  set_guides (fst si) (option_map (map (fun p : rline * option str => FI.Build_guide (fst p) (snd p))) (snd si)).
Definition of_info (i : FI.info) : sinfo rinfo rline :=
  (set_guides i None, option_map (map (fun g => (FI.g_line g, FI.g_id g))) (FI.i_guides i)).

Definition info_none : FI.info :=
  FI.Build_info None None None None None None None None None None None None None None None None.
Definition info_is_none (i : FI.info) : bool :=
  is_none (FI.i_date i) && is_none (FI.i_gasp i) && is_none (FI.i_guides i) && is_none (FI.i_selection i) &&
  is_none (FI.i_class i) && is_none (FI.i_blue i) && is_none (FI.i_oblue i) && is_none (FI.i_fblue i) &&
  is_none (FI.i_foblue i) && is_none (FI.i_stemh i) && is_none (FI.i_stemv i) && is_none (FI.i_wext i) &&
  is_none (FI.i_wcredits i) && is_none (FI.i_wcopyright i) && is_none (FI.i_wdescr i) && is_none (FI.i_wtrade i).

(** what the real codec carries: the rest part holds no guidelines of its own (they are the second
    component), the integer fields are within their machine types ([info_wt]), FontInfo::validate
    accepts and the serialiser's angle test passes *)
Definition wf_sinfo (si : sinfo rinfo rline) : Prop :=
  FI.i_guides (fst si) = None /\ FI.info_wt (to_info si) /\
  FI.fi_validate (to_info si) = Ok tt /\ FI.ser_angles_ok (to_info si) = true.

Section Part.
Variables C O : Type.
Variable inj : FI.raw -> C.
Variable prj : C -> option FI.raw.

Definition P_info_real : part C O (sinfo rinfo rline) :=
  {| enc := fun _ si => match FI.fi_save (to_info si) with Ok j => Some (inj (FI.encode j)) | _ => None end;
     dec := fun c => match prj c with
                     | Some r => match FI.fi_load r with Ok i => Some (of_info i) | _ => None end
                     | None => None
                     end;
     wf := wf_sinfo; peq := eq |}.
End Part.

(** [FontInfo::validate] on the value the signature holds (the libs play no role) *)
Definition info_ok_real {D} (i : finfo rinfo rline D) : bool :=
  match FI.fi_validate (to_info (i_rest i, option_map (map (fun g => (g_body g, FontRT.g_id g))) (i_guides i))) with
  | Ok _ => true
  | _ => false
  end.

(** a non-default font info of the real domain: a family class, blue values, two guidelines (a
    vertical one with an identifier, one at 45 degrees) *)
Definition si_real_sample : sinfo rinfo rline :=
  (FI.Build_info None None None None (Some (1, 2)) (Some [0; 10; 500; 510]%Z) None None None None None None None None None None,
   Some [(FI.LVert, Some [103; 49]); (FI.LAngle (FI.FFin false 45 0), None)]).
