(** C19 anchor: the committed catalogue of every parallel / shared-state site of norad (see
    lib/anchors_c19.py for what counts as a site) with what covers it.  The inventory is regenerated
    from the source on every run; Anchors/AnchorsOK_C19.v proves that it equals this list, so a new
    parallel loop, lock, RefCell, Arc, thread or interner use breaks the anchor until it is catalogued. *)
From Coq Require Import String List.
Import ListNotations.
Open Scope string_scope.

Inductive cover :=
| ByLemma (lemmas : list string)   (* behaviour modelled in Model/Interleave.v; lemmas of Proofs/InterleaveP.v *)
| Immutable (why : string)         (* shared between threads but never mutated after construction *)
| NotShared (why : string).        (* state that no parallel closure can reach *)

Definition catalogue : list (string * cover) := [
  ("src/names.rs|ParNameList::get|impl ParNameList { pub(crate) fn get(&self, name: &Name) -> Name { let existing = self.0.read().unwrap().get(name).cloned(); match existing { Some(name) => name, None => { self.0.write().unwrap().insert(name.clone()); name.clone() } } } pub(crate) fn contains(&self, key: impl AsRef<str>) -> bool { self.0.read().unwrap().contains(key.as_ref()) } }",
     ByLemma ["intern_content"; "run_got_content"; "par_set_union"]);
  ("src/names.rs|SeqNameList::get|impl SeqNameList { pub(crate) fn get(&self, name: &Name) -> Name { let existing = self.0.borrow().get(name).cloned(); match existing { Some(name) => name, None => { self.0.borrow_mut().insert(name.clone()); name.clone() } } } pub(crate) fn contains(&self, key: impl AsRef<str>) -> bool { self.0.borrow().contains(key.as_ref()) } }",
     ByLemma ["gets_seq_content"; "seq_font_set"]);
  ("src/layer.rs|Layer::load_impl/file name check|let mut seen_files = HashSet::new(); for (name, path) in &contents { let Some(file_name) = plain_name(path) else { return Err(LayerLoadError::InvalidGlyphFileName { name: name.to_string(), path: path.clone(), }); }; if !seen_files.insert(file_name.to_string_lossy().to_lowercase()) { return Err(LayerLoadError::DuplicateGlyphFileName(path.clone())); } }",
     ByLemma ["files_ok_nodup"; "loaded_layer_paths_distinct"; "par_layer_spec"]);
  ("src/layer.rs|Layer::load_impl/parallel map|let glyphs = iter .map(|(name, glyph_path)| { let name = names.get(name); let glyph_path = path.join(glyph_path); Glyph::load_with_names(&glyph_path, names) .map_err(|source| LayerLoadError::Glyph { name: name.to_string(), path: glyph_path, source, }) .map(|mut glyph| { glyph.name = name.clone(); (name, glyph) }) }) .collect::<Result<_, _>>()?;",
     ByLemma ["par_layer_spec"; "par_layer_ok_iff"; "run_done_perm"; "fold_ins_perm"]);
  ("src/layer.rs|Layer::save_with_options/parallel for_each|iter.try_for_each(|(name, glyph_path)| { let glyph = self.glyphs.get(name).expect(""all glyphs in contents must exist.""); let glyph_path = path.join(glyph_path); glyph.save_with_options(&glyph_path, opts).map_err(|source| LayerWriteError::Glyph { name: glyph.name.to_string(), path: glyph_path, source, }) }) }",
     ByLemma ["par_save_spec"; "par_save_ok_iff"; "par_save2_equiv"]);
  ("src/datastore.rs|<top>|cell::RefCell,",
     NotShared "Store<T> holds RefCell, is not Sync and is not captured by the two parallel closures (they capture names, path, self.glyphs, opts)");
  ("src/datastore.rs|<top>|sync::Arc,",
     Immutable "Arc<[u8]>: file contents, never mutated after construction");
  ("src/datastore.rs|struct Store|items: HashMap<PathBuf, RefCell<Item>>,",
     NotShared "Store<T> holds RefCell, is not Sync and is not captured by the two parallel closures (they capture names, path, self.glyphs, opts)");
  ("src/datastore.rs|trait DataType|items: &HashMap<PathBuf, RefCell<Item>>,",
     NotShared "Store<T> holds RefCell, is not Sync and is not captured by the two parallel closures (they capture names, path, self.glyphs, opts)");
  ("src/datastore.rs|enum Item|Loaded(Arc<[u8]>),",
     Immutable "Arc<[u8]>: file contents, never mutated after construction");
  ("src/datastore.rs|impl DataType for Data|items: &HashMap<PathBuf, RefCell<Item>>,",
     NotShared "Store<T> holds RefCell, is not Sync and is not captured by the two parallel closures (they capture names, path, self.glyphs, opts)");
  ("src/datastore.rs|impl DataType for Image|_items: &HashMap<PathBuf, RefCell<Item>>,",
     NotShared "Store<T> holds RefCell, is not Sync and is not captured by the two parallel closures (they capture names, path, self.glyphs, opts)");
  ("src/datastore.rs|impl Store<T>::fn new|dir_contents.into_iter().map(|path| (path, RefCell::new(Item::default()))).collect();",
     NotShared "Store<T> holds RefCell, is not Sync and is not captured by the two parallel closures (they capture names, path, self.glyphs, opts)");
  ("src/datastore.rs|impl Store<T>|pub fn get(&self, path: &Path) -> Option<Result<Arc<[u8]>, StoreError>> {",
     Immutable "Arc<[u8]>: file contents, never mutated after construction");
  ("src/datastore.rs|impl Store<T>::fn get|if matches!(*cell.borrow(), Item::NotLoaded) {",
     NotShared "Store<T> holds RefCell, is not Sync and is not captured by the two parallel closures (they capture names, path, self.glyphs, opts)");
  ("src/datastore.rs|impl Store<T>::fn get|*cell.borrow_mut() =",
     NotShared "Store<T> holds RefCell, is not Sync and is not captured by the two parallel closures (they capture names, path, self.glyphs, opts)");
  ("src/datastore.rs|impl Store<T>::fn get|match &*cell.borrow() {",
     NotShared "Store<T> holds RefCell, is not Sync and is not captured by the two parallel closures (they capture names, path, self.glyphs, opts)");
  ("src/datastore.rs|impl Store<T>|items: &HashMap<PathBuf, RefCell<Item>>,",
     NotShared "Store<T> holds RefCell, is not Sync and is not captured by the two parallel closures (they capture names, path, self.glyphs, opts)");
  ("src/datastore.rs|impl Store<T>::fn insert|self.items.insert(path, RefCell::new(Item::Loaded(data.into())));",
     NotShared "Store<T> holds RefCell, is not Sync and is not captured by the two parallel closures (they capture names, path, self.glyphs, opts)");
  ("src/datastore.rs|impl Store<T>|pub fn iter(&self) -> impl Iterator<Item = (&PathBuf, Result<Arc<[u8]>, StoreError>)> {",
     Immutable "Arc<[u8]>: file contents, never mutated after construction");
  ("src/error.rs|enum StoreError|Io(#[from] std::sync::Arc<std::io::Error>),",
     Immutable "Arc<io::Error> only makes the error value clonable");
  ("src/error.rs|impl From<IoError> for StoreError::fn from|StoreError::Io(std::sync::Arc::new(src))",
     Immutable "Arc<io::Error> only makes the error value clonable");
  ("src/font.rs|<top>|use crate::names::NameList;",
     ByLemma ["par_font_spec"; "par_font_set"]);
  ("src/font.rs|impl Font::fn load_impl|let glyph_names = NameList::default();",
     ByLemma ["par_font_spec"; "par_font_set"]);
  ("src/font.rs|impl Font::fn load_impl|let layers = load_layer_set(path, &meta, &glyph_names, &request.layers)?;",
     ByLemma ["par_font_spec"; "par_font_set"]);
  ("src/font.rs|impl Font::fn load_impl|let glyph_set: NameList = layers",
     NotShared "since 090c163 upconversion is given a fresh NameList built sequentially from the loaded glyph names, not the shared interner");
  ("src/font.rs|impl Font::fn load_impl|upconversion::upconvert_kerning(&g, &k.unwrap_or_default(), &glyph_set);",
     NotShared "since 090c163 upconversion is given a fresh NameList built sequentially from the loaded glyph names, not the shared interner");
  ("src/font.rs|<top>|glyph_names: &NameList,",
     ByLemma ["par_font_spec"; "par_font_set"]);
  ("src/font.rs|fn load_layer_set|LayerContents::load(ufo_path, glyph_names, filter)",
     ByLemma ["par_font_spec"; "par_font_set"]);
  ("src/identifier.rs|<top>|use std::sync::Arc;",
     Immutable "Arc<str>: immutable text; Eq/Ord/Hash by content; modelled as (content, allocation id), allocation erased");
  ("src/identifier.rs|<top>|pub struct Identifier(Arc<str>);",
     Immutable "Arc<str>: immutable text; Eq/Ord/Hash by content; modelled as (content, allocation id), allocation erased");
  ("src/layer.rs|<top>|#[cfg(feature = ""rayon"")] use rayon::prelude::*;",
     ByLemma ["par_layer_spec"; "par_layer_ok_iff"]);
  ("src/layer.rs|<top>|use rayon::prelude::*;",
     ByLemma ["par_layer_spec"; "par_layer_ok_iff"]);
  ("src/layer.rs|<top>|use crate::names::NameList;",
     ByLemma ["par_font_spec"; "par_font_set"]);
  ("src/layer.rs|impl LayerContents|glyph_names: &NameList,",
     ByLemma ["par_font_spec"; "par_font_set"]);
  ("src/layer.rs|impl LayerContents::fn load|Layer::load_impl(&layer_path, name.clone(), glyph_names).map_err(|source| {",
     ByLemma ["par_font_spec"; "par_font_set"]);
  ("src/layer.rs|impl Layer::fn load|let names = NameList::default();",
     ByLemma ["par_font_spec"; "par_font_set"]);
  ("src/layer.rs|impl Layer::fn load|Layer::load_impl(path, name, &names)",
     ByLemma ["par_font_spec"; "par_font_set"]);
  ("src/layer.rs|impl Layer|names: &NameList,",
     ByLemma ["par_font_spec"; "par_font_set"]);
  ("src/layer.rs|impl Layer::fn load_impl|#[cfg(feature = ""rayon"")] let iter = contents.par_iter();",
     ByLemma ["par_layer_spec"; "par_layer_ok_iff"]);
  ("src/layer.rs|impl Layer::fn load_impl|let iter = contents.par_iter();",
     ByLemma ["par_layer_spec"; "par_layer_ok_iff"]);
  ("src/layer.rs|impl Layer::fn load_impl|#[cfg(not(feature = ""rayon""))] let iter = contents.iter();",
     ByLemma ["par_layer_spec"; "par_layer_ok_iff"]);
  ("src/layer.rs|impl Layer::fn load_impl|let name = names.get(name);",
     ByLemma ["par_layer_spec"; "par_layer_ok_iff"]);
  ("src/layer.rs|impl Layer::fn load_impl|Glyph::load_with_names(&glyph_path, names)",
     ByLemma ["par_layer_spec"; "par_layer_ok_iff"]);
  ("src/layer.rs|impl Layer::fn save_with_options|#[cfg(feature = ""rayon"")] let iter = self.contents.par_iter();",
     ByLemma ["par_save_spec"; "par_save_font_eq_seq"]);
  ("src/layer.rs|impl Layer::fn save_with_options|let iter = self.contents.par_iter();",
     ByLemma ["par_save_spec"; "par_save_font_eq_seq"]);
  ("src/layer.rs|impl Layer::fn save_with_options|#[cfg(not(feature = ""rayon""))] let mut iter = self.contents.iter();",
     ByLemma ["par_save_spec"; "par_save_font_eq_seq"]);
  ("src/name.rs|<top>|use std::sync::Arc;",
     Immutable "Arc<str>: immutable text; Eq/Ord/Hash by content; modelled as (content, allocation id), allocation erased");
  ("src/name.rs|<top>|pub struct Name(Arc<str>);",
     Immutable "Arc<str>: immutable text; Eq/Ord/Hash by content; modelled as (content, allocation id), allocation erased");
  ("src/name.rs|impl Deserialize<'de> for Name::fn deserialize|let s: Arc<str> = Deserialize::deserialize(deserializer)?;",
     Immutable "Arc<str>: immutable text; Eq/Ord/Hash by content; modelled as (content, allocation id), allocation erased");
  ("src/names.rs|<top>|#[cfg(not(feature = ""rayon""))] use std::cell::RefCell;",
     ByLemma ["gets_seq_content"; "seq_font_set"]);
  ("src/names.rs|<top>|use std::cell::RefCell;",
     ByLemma ["gets_seq_content"; "seq_font_set"]);
  ("src/names.rs|<top>|#[cfg(feature = ""rayon"")] use std::sync::RwLock;",
     ByLemma ["intern_content"; "run_got_content"; "par_set_union"]);
  ("src/names.rs|<top>|use std::sync::RwLock;",
     ByLemma ["intern_content"; "run_got_content"; "par_set_union"]);
  ("src/names.rs|<top>|pub struct NameList {",
     ByLemma ["intern_content"; "run_got_content"; "par_set_union"]);
  ("src/names.rs|struct NameList|#[cfg(feature = ""rayon"")] inner: ParNameList,",
     ByLemma ["intern_content"; "run_got_content"; "par_set_union"]);
  ("src/names.rs|struct NameList|#[cfg(not(feature = ""rayon""))] inner: SeqNameList,",
     ByLemma ["gets_seq_content"; "seq_font_set"]);
  ("src/names.rs|<top>|#[cfg(feature = ""rayon"")] struct ParNameList(RwLock<HashSet<Name>>);",
     ByLemma ["intern_content"; "run_got_content"; "par_set_union"]);
  ("src/names.rs|<top>|struct ParNameList(RwLock<HashSet<Name>>);",
     ByLemma ["intern_content"; "run_got_content"; "par_set_union"]);
  ("src/names.rs|<top>|#[cfg(not(feature = ""rayon""))] struct SeqNameList(RefCell<HashSet<Name>>);",
     ByLemma ["gets_seq_content"; "seq_font_set"]);
  ("src/names.rs|<top>|struct SeqNameList(RefCell<HashSet<Name>>);",
     ByLemma ["gets_seq_content"; "seq_font_set"]);
  ("src/names.rs|<top>|impl NameList {",
     ByLemma ["intern_content"; "run_got_content"; "par_set_union"]);
  ("src/names.rs|<top>|#[cfg(feature = ""rayon"")] impl ParNameList {",
     ByLemma ["intern_content"; "run_got_content"; "par_set_union"]);
  ("src/names.rs|impl ParNameList::fn get|let existing = self.0.read().unwrap().get(name).cloned();",
     ByLemma ["intern_content"; "run_got_content"; "par_set_union"]);
  ("src/names.rs|impl ParNameList::fn get|self.0.write().unwrap().insert(name.clone());",
     ByLemma ["intern_content"; "run_got_content"; "par_set_union"]);
  ("src/names.rs|impl ParNameList::fn contains|self.0.read().unwrap().contains(key.as_ref())",
     ByLemma ["intern_content"; "run_got_content"; "par_set_union"]);
  ("src/names.rs|<top>|#[cfg(not(feature = ""rayon""))] impl SeqNameList {",
     ByLemma ["gets_seq_content"; "seq_font_set"]);
  ("src/names.rs|impl SeqNameList::fn get|let existing = self.0.borrow().get(name).cloned();",
     ByLemma ["gets_seq_content"; "seq_font_set"]);
  ("src/names.rs|impl SeqNameList::fn get|self.0.borrow_mut().insert(name.clone());",
     ByLemma ["gets_seq_content"; "seq_font_set"]);
  ("src/names.rs|impl SeqNameList::fn contains|self.0.borrow().contains(key.as_ref())",
     ByLemma ["gets_seq_content"; "seq_font_set"]);
  ("src/names.rs|<top>|#[cfg(feature = ""rayon"")] impl Default for ParNameList {",
     ByLemma ["intern_content"; "run_got_content"; "par_set_union"]);
  ("src/names.rs|impl Default for ParNameList::fn default|ParNameList(RwLock::new(HashSet::new()))",
     ByLemma ["intern_content"; "run_got_content"; "par_set_union"]);
  ("src/names.rs|<top>|impl<T: Into<Name>> std::iter::FromIterator<T> for NameList {",
     NotShared "NameList::from_iter: sequential construction (tests; since 090c163 the glyph set handed to kerning upconversion)");
  ("src/names.rs|impl > std::iter::FromIterator<T> for NameList::fn from_iter|let names = NameList::default();",
     NotShared "NameList::from_iter: sequential construction (tests; since 090c163 the glyph set handed to kerning upconversion)");
  ("src/names.rs|impl > std::iter::FromIterator<T> for NameList::fn from_iter|names.get(&i.into());",
     NotShared "NameList::from_iter: sequential construction (tests; since 090c163 the glyph set handed to kerning upconversion)");
  ("src/upconversion.rs|<top>|use crate::names::NameList;",
     NotShared "since 090c163 upconversion is given a fresh NameList built sequentially from the loaded glyph names, not the shared interner");
  ("src/upconversion.rs|<top>|glyph_set: &NameList,",
     NotShared "since 090c163 upconversion is given a fresh NameList built sequentially from the loaded glyph names, not the shared interner");
  ("src/upconversion.rs|fn upconvert_kerning|&& !glyph_set.contains(first)",
     NotShared "since 090c163 upconversion is given a fresh NameList built sequentially from the loaded glyph names, not the shared interner");
  ("src/upconversion.rs|fn upconvert_kerning|&& !glyph_set.contains(second)",
     NotShared "since 090c163 upconversion is given a fresh NameList built sequentially from the loaded glyph names, not the shared interner");
  ("src/glyph/mod.rs|<top>|use crate::names::NameList;",
     NotShared "a private NameList per call (Glyph::load, Glyph::parse_raw): single-threaded");
  ("src/glyph/mod.rs|impl Glyph::fn load|let names = NameList::default();",
     NotShared "a private NameList per call (Glyph::load, Glyph::parse_raw): single-threaded");
  ("src/glyph/mod.rs|impl Glyph::fn load|Glyph::load_with_names(path, &names)",
     NotShared "a private NameList per call (Glyph::load, Glyph::parse_raw): single-threaded");
  ("src/glyph/mod.rs|impl Glyph::fn parse_raw|let names = NameList::default();",
     NotShared "a private NameList per call (Glyph::load, Glyph::parse_raw): single-threaded");
  ("src/glyph/mod.rs|impl Glyph::fn parse_raw|parse::GlifParser::from_xml(xml, Some(&names))",
     NotShared "a private NameList per call (Glyph::load, Glyph::parse_raw): single-threaded");
  ("src/glyph/mod.rs|impl Glyph|pub(crate) fn load_with_names(path: &Path, names: &NameList) -> Result<Self, GlifLoadError> {",
     ByLemma ["par_layer_spec"]);
  ("src/glyph/mod.rs|impl Glyph::fn load_with_names|.and_then(|data| parse::GlifParser::from_xml(&data, Some(names)))",
     ByLemma ["par_layer_spec"]);
  ("src/glyph/parse.rs|<top>|use crate::names::NameList;",
     ByLemma ["par_layer_spec"; "intern_content"]);
  ("src/glyph/parse.rs|struct GlifParser|names: Option<&'names NameList>,",
     ByLemma ["par_layer_spec"; "intern_content"]);
  ("src/glyph/parse.rs|impl GlifParser<'names>|names: Option<&'names NameList>,",
     ByLemma ["par_layer_spec"; "intern_content"]);
  ("src/glyph/parse.rs|impl GlifParser<'names>::fn from_xml|let (name, version) = start(&mut reader, &mut buf, names)?;",
     ByLemma ["par_layer_spec"; "intern_content"]);
  ("src/glyph/parse.rs|impl GlifParser<'names>::fn from_xml|let parser = GlifParser { glyph, seen_identifiers: Default::default(), names, version };",
     ByLemma ["par_layer_spec"; "intern_content"]);
  ("src/glyph/parse.rs|impl GlifParser<'names>::fn parse_component|let name = self.names.as_ref().map(|n| n.get(&name)).unwrap_or(name);",
     ByLemma ["par_layer_spec"; "intern_content"]);
  ("src/glyph/parse.rs|<top>|names: Option<&NameList>,",
     ByLemma ["par_layer_spec"; "intern_content"]);
  ("src/glyph/parse.rs|fn start|name = Some(names.as_ref().map(|n| n.get(&value)).unwrap_or(value));",
     ByLemma ["par_layer_spec"; "intern_content"]);
  ("Cargo.toml|[features]|rayon = [""dep:rayon""]",
     NotShared "build configuration: the feature gate itself; both configurations are built and run by the check");
  ("Cargo.toml|[dependencies]|rayon = { version = ""1.3.0"", optional = true }",
     NotShared "build configuration: the feature gate itself; both configurations are built and run by the check") ].

Definition catalogue_sites : list string := map fst catalogue.

Fixpoint add_new (x : string) (l : list string) : list string :=
  match l with [] => [x] | y :: r => if String.eqb x y then l else y :: add_new x r end.
Definition lemmas_used : list string :=
  fold_left (fun acc c => match snd c with ByLemma ls => fold_left (fun a x => add_new x a) ls acc | _ => acc end)
            catalogue [].
