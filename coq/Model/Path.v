(** Model of [Contour::to_kurbo], [ContourPoint::transform] and the conversions between
    [AffineTransform] and [kurbo::Affine] (src/glyph/mod.rs, with the kurbo feature), and the
    specification of a contour's outline written from the glif drawing rules.

    Everything is a [Section] over an abstract coordinate type: the theorems hold for any
    arithmetic, in particular for IEEE doubles (the execution instance with Coq's primitive
    floats lives in Run/C20.v).  Definitions only. *)
Require Export Norad.Model.Base Norad.Model.Contour.
Local Open Scope nat_scope.

(** [ErrorKind] values a [ConvertContourError] can carry. *)
Inductive perr := BadPoint | TooManyOffCurves.

(** Panic sites of [to_kurbo] (slice indexing in the off-curve-only branch). *)
Definition site_last : N := 1%N.    (* pts[pts.len() - 1] *)
Definition site_first : N := 2%N.   (* pts[0] *)
Definition site_next : N := 3%N.    (* pts[(i + 1) % pts.len()] *)

Fixpoint take_while {A} (f : A -> bool) (l : list A) : list A :=
  match l with x :: r => if f x then x :: take_while f r else [] | [] => [] end.

(** [l] with its first [k] elements moved to the end (contour order starting at position [k]) *)
Definition rot {A} (k : nat) (l : list A) : list A := skipn k l ++ firstn k l.

(** [a] is [b] with some elements left out (same order). *)
Inductive subseq {A} : list A -> list A -> Prop :=
| subseq_nil : subseq [] []
| subseq_skip a b x : subseq a b -> subseq a (x :: b)
| subseq_keep a b x : subseq a b -> subseq (x :: a) (x :: b).

Section Path.
  (** [P] = [kurbo::Point]; [mid] = [Point::midpoint]. *)
  Variable P : Type.
  Variable mid : P -> P -> P.

  (** A contour point: (type, smooth) as in Model/Contour.v, and its position. *)
  Definition point := (pt * P)%type.
  Definition ptyp (p : point) : ptype := fst (fst p).
  Definition pos (p : point) : P := snd p.
  Definition types (c : list point) : list pt := map fst c.
  Definition offc (p : point) : bool := is_off (fst p).   (* typ == OffCurve *)
  Definition onc (p : point) : bool := negb (offc p).

  (** [kurbo::PathEl] *)
  Inductive pathel :=
  | MoveTo (p : P) | LineTo (p : P) | QuadTo (c p : P) | CurveTo (c1 c2 p : P) | ClosePath.

  (** ------------------------------------------------------------------ the code *)

  (** [Iterator::cycle]: [cur] is what is left of the current pass over the clone [c]; when it
      is exhausted the next pass starts, and an empty [c] ends the iteration. Take [k]. *)
  Fixpoint cycle_take {A} (c cur : list A) (k : nat) : list A :=
    match k with
    | O => []
    | S k' => match cur with
              | x :: cur' => x :: cycle_take c cur' k'
              | [] => match c with
                      | [] => []
                      | x :: c' => x :: cycle_take c c' k'
                      end
              end
    end.
  (** [c.iter().cycle().skip(r).take(k)] *)
  Definition cycle_skip_take {A} (c : list A) (r k : nat) : list A :=
    skipn r (cycle_take c c (r + k)).

  (** [Iterator::position] *)
  Fixpoint position {A} (f : A -> bool) (l : list A) : option nat :=
    match l with
    | [] => None
    | x :: r => if f x then Some O else option_map S (position f r)
    end.
  (** [points.iter().rev().position(|pt| pt.typ != OffCurve).map(|idx| points.len() - 1 - idx)] *)
  Definition rotate_index (c : list point) : option nat :=
    option_map (fun idx => length c - 1 - idx) (position onc (rev c)).

  (** the [Curve] arm: [match offs.make_contiguous()] *)
  Definition curve_els (offs : list P) (k : P) : result (list pathel) perr :=
    match offs with
    | [] => Ok [LineTo k]
    | [p1] => Ok [QuadTo p1 k]
    | [p1; p2] => Ok [CurveTo p1 p2 k]
    | _ => Err TooManyOffCurves
    end.
  (** the [QCurve] arm: [while let Some(pt) = offs.pop_front()] *)
  Fixpoint drain (offs : list P) (k : P) : list pathel :=
    match offs with
    | [] => []
    | p :: rest =>
        (match rest with next :: _ => QuadTo p (mid p next) | [] => QuadTo p k end) :: drain rest k
    end.
  Definition qcurve_els (offs : list P) (k : P) : list pathel :=
    (match offs with [] => [LineTo k] | _ => [] end) ++ drain offs k.

  (** one iteration of [for pt in points]; state = (path so far, queue [offs]) *)
  Definition pstep (st : list pathel * list P) (p : point)
    : result (list pathel * list P) perr :=
    let '(path, offs) := st in
    let k := pos p in
    match ptyp p with
    | Move => Ok (path ++ [MoveTo k], offs)
    | Line => Ok (path ++ [LineTo k], offs)
    | Off => Ok (path, offs ++ [k])
    | Curve => match curve_els offs k with
               | Ok e => Ok (path ++ e, [])
               | Err e => Err e
               | Panic s => Panic s
               end
    | QCurve => Ok (path ++ qcurve_els offs k, [])
    end.
  Fixpoint ploop (st : list pathel * list P) (pts : list point)
    : result (list pathel * list P) perr :=
    match pts with
    | [] => Ok st
    | p :: r => bind (pstep st p) (fun st' => ploop st' r)
    end.

  (** the off-curve-only branch *)
  Definition idx (site : N) (l : list P) (i : nat) : result P perr :=
    match nth_error l i with Some x => Ok x | None => Panic site end.
  (** [for (i, pt) in pts.iter().enumerate()], [rest] = what is left, [i] = its index *)
  Fixpoint quads_from (pts : list P) (i : nat) (rest : list P) : result (list pathel) perr :=
    match rest with
    | [] => Ok []
    | pt :: r =>
        bind (idx site_next pts ((i + 1) mod length pts)) (fun nx =>
        bind (quads_from pts (S i) r) (fun els => Ok (QuadTo pt (mid pt nx) :: els)))
    end.
  Definition offcurve_only (pts : list P) : result (list pathel) perr :=
    bind (idx site_last pts (length pts - 1)) (fun l =>
    bind (idx site_first pts 0) (fun f =>
    bind (quads_from pts 0 pts) (fun els => Ok (MoveTo (mid l f) :: els)))).

  Definition nonempty {A} (l : list A) : bool := match l with [] => false | _ => true end.

  (** [Contour::to_kurbo]; the result is the element list of the returned [BezPath]. *)
  Definition to_path (c : list point) : result (list pathel) perr :=
    if nonempty c && forallb offc c then offcurve_only (map pos c)
    else
      let pts :=
        if is_closed (types c)
        then cycle_skip_take c (match rotate_index c with Some r => r | None => O end)
                             (length c + 1)
        else cycle_skip_take c 0 (length c) in
      match pts with
      | [] => Ok []
      | start :: rest =>
          bind (ploop ([MoveTo (pos start)], []) rest) (fun st => Ok (fst st))
      end.

  (** ------------------------------------------------------------------ the specification
      Written from the glif specification's drawing rules ("point" element, types move / line /
      offcurve / curve / qcurve), without reference to the queue of the code:
      - every on-curve point ends exactly one segment; the kind of the segment is decided by
        the run of off-curve points immediately before it (in contour order, cyclically for a
        closed contour): a [line] draws a line; a [curve] draws a line (no off-curve), a
        quadratic (one) or a cubic (two); a [qcurve] draws a line (none) or one quadratic per
        off-curve, with an implied on-curve point halfway between consecutive off-curves;
      - an open contour starts at its [move] point; a closed contour starts at one of its
        on-curve points and its last segment comes back to that point;
      - a closed contour without any on-curve point is a quadratic spline whose on-curve points
        are all implied, halfway between consecutive off-curves (cyclically). *)

  (** positions of the off-curve points immediately before position [i] of [l] *)
  Definition offs_before (l : list point) (i : nat) : list P :=
    map pos (rev (take_while offc (rev (firstn i l)))).
  (** implied on-curve points between consecutive off-curves *)
  Definition implied (offs : list P) : list P :=
    map (fun ab => mid (fst ab) (snd ab)) (combine offs (tl offs)).
  (** a run of off-curves ended by the qcurve point [k]: off-curve number j is the control
      point of a quadratic that ends at the implied point after it, the last one ends at [k] *)
  Definition quad_run (offs : list P) (k : P) : list pathel :=
    map (fun oe => QuadTo (fst oe) (snd oe)) (combine offs (implied offs ++ [k])).
  (** the segment that ends at the on-curve point [p], given the off-curves before it *)
  Definition segment (offs : list P) (p : point) : list pathel :=
    match ptyp p, offs with
    | Line, _ => [LineTo (pos p)]
    | Curve, [] => [LineTo (pos p)]
    | Curve, [a] => [QuadTo a (pos p)]
    | Curve, [a; b] => [CurveTo a b (pos p)]
    | QCurve, [] => [LineTo (pos p)]
    | QCurve, _ => quad_run offs (pos p)
    | _, _ => []      (* no drawing rule: never the case in a legal contour *)
    end.
  (** one segment per on-curve point of [l], in order *)
  Definition segments (l : list point) : list (list pathel) :=
    flat_map (fun i => match nth_error l i with
                       | Some p => if onc p then [segment (offs_before l i) p] else []
                       | None => []
                       end) (seq 0 (length l)).
  Definition outline_from (start : P) (l : list point) : list pathel :=
    MoveTo start :: concat (segments l).

  (** closed contour drawn from its on-curve point number [s]: the points after [s] in contour
      order, wrapping around, ending with point [s] itself *)
  Definition spec_path_at (s : nat) (c : list point) : list pathel :=
    match nth_error c s with
    | Some p => outline_from (pos p) (rot (S s) c)
    | None => []
    end.
  (** index of the last on-curve point *)
  Definition last_on (c : list point) : option nat :=
    match rev (filter (fun i => match nth_error c i with Some p => onc p | None => false end)
                      (seq 0 (length c))) with
    | i :: _ => Some i
    | [] => None
    end.
  (** closed contour of off-curves only: the implied point after off-curve j is
      mid(P[j], P[j+1 cyclically]); the path starts at the last implied point *)
  Definition spec_offcurve_only (ps : list P) : list pathel :=
    let imp := map (fun ab => mid (fst ab) (snd ab)) (combine ps (rot 1 ps)) in
    match rev imp with
    | e :: _ => MoveTo e :: map (fun oe => QuadTo (fst oe) (snd oe)) (combine ps imp)
    | [] => []
    end.

  (** The outline of a contour. The specification lets a closed contour start at any of its
      on-curve points ([spec_path_at s]); [spec_path] fixes the choice "last on-curve point". *)
  Definition spec_path (c : list point) : list pathel :=
    match c with
    | [] => []
    | p0 :: rest =>
        match ptyp p0 with
        | Move => outline_from (pos p0) rest
        | _ => match last_on c with
               | Some s => spec_path_at s c
               | None => spec_offcurve_only (map pos c)
               end
        end
    end.

  (** Every outline the specification allows: a closed contour may start at any of its on-curve
      points (the segments are the same, rotated); one without on-curve points at any of its
      implied points. [spec_path c] is one of them. *)
  Definition valid_outlines (c : list point) : list (list pathel) :=
    match c with
    | [] => [[]]
    | p0 :: rest =>
        match ptyp p0 with
        | Move => [outline_from (pos p0) rest]
        | _ =>
            if forallb offc c
            then map (fun k => spec_offcurve_only (map pos (rot k c))) (seq 0 (length c))
            else flat_map (fun s => match nth_error c s with
                                    | Some p => if onc p then [spec_path_at s c] else []
                                    | None => []
                                    end) (seq 0 (length c))
        end
    end.

  (** vocabulary of the corollaries *)
  Definition end_of (e : pathel) : option P :=
    match e with
    | MoveTo p | LineTo p | QuadTo _ p | CurveTo _ _ p => Some p
    | ClosePath => None
    end.
  Definition last_end (els : list pathel) : option P :=
    match rev els with e :: _ => end_of e | [] => None end.
  (** every point an element mentions, in order *)
  Definition el_points (e : pathel) : list P :=
    match e with
    | MoveTo p | LineTo p => [p]
    | QuadTo a p => [a; p]
    | CurveTo a b p => [a; b; p]
    | ClosePath => []
    end.
  Definition path_points (els : list pathel) : list P := flat_map el_points els.
  (** a segment is drawn and ends at the on-curve point [p] *)
  Definition ends_at (sg : list pathel) (p : point) : Prop :=
    sg <> [] /\ last_end sg = Some (pos p).
End Path.

Arguments MoveTo {P} p.
Arguments LineTo {P} p.
Arguments QuadTo {P} c p.
Arguments CurveTo {P} c1 c2 p.
Arguments ClosePath {P}.

(** ---------------------------------------------------------------------- transforms *)
Section Affine.
  (** any carrier with an addition and a multiplication (IEEE doubles in the code) *)
  Variable F : Type.
  Variable add mul : F -> F -> F.
  Local Infix "+" := add.
  Local Infix "*" := mul.

  (** [AffineTransform] *)
  Record affine := mkaffine {
    x_scale : F; xy_scale : F; yx_scale : F; y_scale : F; x_offset : F; y_offset : F }.
  (** [kurbo::Affine([f64; 6])] *)
  Inductive kaffine := K6 (c0 c1 c2 c3 c4 c5 : F).

  (** [ContourPoint::transform] (the point's new x and y) *)
  Definition transform (t : affine) (p : F * F) : F * F :=
    let x := fst p in
    let y := snd p in
    let new_x := x_scale t * x + yx_scale t * y + x_offset t in
    let new_y := xy_scale t * x + y_scale t * y + y_offset t in
    (new_x, new_y).

  (** [impl From<AffineTransform> for kurbo::Affine] *)
  Definition to_kurbo (src : affine) : kaffine :=
    K6 (x_scale src) (xy_scale src) (yx_scale src) (y_scale src) (x_offset src) (y_offset src).
  (** [impl From<kurbo::Affine> for AffineTransform] ([as_coeffs] then fields by index) *)
  Definition from_kurbo (src : kaffine) : affine :=
    let '(K6 c0 c1 c2 c3 c4 c5) := src in
    {| x_scale := c0; xy_scale := c1; yx_scale := c2; y_scale := c3; x_offset := c4; y_offset := c5 |}.

  (** kurbo 0.11.3 src/affine.rs, [impl Mul<Point> for Affine]:
      Point::new(self.0[0] * other.x + self.0[2] * other.y + self.0[4],
                 self.0[1] * other.x + self.0[3] * other.y + self.0[5]) *)
  Definition kurbo_apply (a : kaffine) (p : F * F) : F * F :=
    let '(K6 c0 c1 c2 c3 c4 c5) := a in
    (c0 * fst p + c2 * snd p + c4, c1 * fst p + c3 * snd p + c5).

  (** the property text: x' = xScale*x + yxScale*y + xOffset, y' = xyScale*x + yScale*y + yOffset *)
  Definition spec_transform (xScale xyScale yxScale yScale xOffset yOffset : F) (x y : F) : F * F :=
    (xScale * x + yxScale * y + xOffset, xyScale * x + yScale * y + yOffset).
End Affine.

Arguments mkaffine {F}.
Arguments K6 {F}.
Arguments x_scale {F}. Arguments xy_scale {F}. Arguments yx_scale {F}.
Arguments y_scale {F}. Arguments x_offset {F}. Arguments y_offset {F}.
