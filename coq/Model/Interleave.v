(** C19 — model of the parallel glyph loading / saving of norad built with feature [rayon].
    Definitions only (proofs: Proofs/InterleaveP.v, statements: Props/C19.v).

    What is modelled (the code AS IT IS):
    - src/names.rs, [ParNameList::get]: a NON-atomic check-then-insert on a
      [RwLock<HashSet<Name>>]: read-lock lookup; on a miss the read lock is RELEASED, then the
      write lock is taken and [HashSet::insert(name.clone())] is called (which keeps the element
      already present, if another thread inserted an equal name in between) and the CALLER'S OWN
      name is returned.  [Name] is an [Arc<str>]; [Eq]/[Hash]/[Ord] look at the text only.  A name
      is therefore a pair (content, allocation id) and every comparison uses the content.
    - src/layer.rs, [Layer::load_impl]: first, sequentially and in key order, every value of
      [contents] must be a plain file name ([plain_name]) that no earlier entry uses (exact
      comparison of the lower-cased names), else the load is refused ([InvalidGlyphFileName] / [DuplicateGlyphFileName]).
      Then one task per entry of [contents] (a [BTreeMap], so the keys
      are pairwise distinct by content): intern the key; read and parse the glif, which interns
      the glif's own [name] attribute and then every component [base] in document order
      (src/glyph/parse.rs [start], [parse_component]); on success overwrite [glyph.name] with the
      interned key and return (key, glyph); results are collected into
      [Result<BTreeMap<Name, Glyph>, _>].
    - src/layer.rs, [Layer::save_with_options]: one task per entry of [contents]: write the
      encoded glyph to [path.join(glyph_path)].
    - Layers are loaded / saved one after the other; the interner is shared by all layers.

    Worker threads: every task is a logical thread; a schedule is an arbitrary [list nat] of thread
    indices, each occurrence lets that thread perform ONE atomic step (a step of a finished or
    non-existent thread is a no-op).  A rayon worker that runs several tasks back to back is the
    special case of a schedule that does not interleave them.  After the schedule the remaining
    threads are run to completion (the join at the end of [collect] / [try_for_each]), so every
    schedule is covered, complete or not.
    NOT modelled: rayon's scheduler and work stealing, OS threads, lock poisoning, memory ordering. *)
Require Export Norad.Model.Base.

(** ** Names and the interner *)
Definition name := (str * N)%type.              (* (content, allocation id) *)
Definition content (n : name) : str := fst n.
Definition nset := list name.                   (* HashSet<Name>: no two elements with equal content *)

(** [HashSet::get(&name)] : the element equal (by content) to the argument *)
Definition lookup (s : nset) (c : str) : option name :=
  find (fun m => str_eqb (content m) c) s.
(** [HashSet::insert(name)] : a no-op when an equal element is present *)
Definition hs_insert (s : nset) (n : name) : nset :=
  match lookup s (content n) with Some _ => s | None => s ++ [n] end.

(** ** The machine *)
Inductive pc := AtLookup | AtRelease | AtInsert.
Record thread := mkThread {
  th_todo : list name;     (* names still to intern (own allocations); the head is the current [get] *)
  th_pc : pc;              (* where inside the current [get] *)
  th_got : list name;      (* names returned so far, most recent first *)
  th_fin : bool }.         (* result handed over *)
Record mstate := mkM {
  m_set : nset;            (* the shared interner *)
  m_thr : list thread;
  m_done : list nat }.     (* completion order *)

Fixpoint upd {A} (i : nat) (x : A) (l : list A) : list A :=
  match l, i with
  | [], _ => []
  | _ :: r, O => x :: r
  | y :: r, S j => y :: upd j x r
  end.

(** one atomic step of a thread that has not finished, against the shared set:
    (new set, new thread state, did the task complete with this step) *)
Definition tstep (s : nset) (th : thread) : nset * thread * bool :=
  match th_todo th with
  | [] => (* all names interned: the task completes and hands over its result *)
      (s, mkThread [] AtLookup (th_got th) true, true)
  | n :: rest =>
      match th_pc th with
      | AtLookup => (* self.0.read().unwrap().get(name).cloned() *)
          match lookup s (content n) with
          | Some m => (s, mkThread rest AtLookup (m :: th_got th) false, false)
          | None => (s, mkThread (n :: rest) AtRelease (th_got th) false, false)
          end
      | AtRelease => (* the read guard is dropped; nothing is held *)
          (s, mkThread (n :: rest) AtInsert (th_got th) false, false)
      | AtInsert => (* self.0.write().unwrap().insert(name.clone()); name.clone() *)
          (hs_insert s n, mkThread rest AtLookup (n :: th_got th) false, false)
      end
  end.

Definition step (i : nat) (st : mstate) : mstate :=
  match nth_error (m_thr st) i with
  | None => st
  | Some th =>
      if th_fin th then st else
      let '(s', th', c) := tstep (m_set st) th in
      mkM s' (upd i th' (m_thr st)) (if c then m_done st ++ [i] else m_done st)
  end.

Definition steps (sched : list nat) (st : mstate) : mstate :=
  fold_left (fun st i => step i st) sched st.

Definition init (s : nset) (progs : list (list name)) : mstate :=
  mkM s (map (fun p => mkThread p AtLookup [] false) progs) [].

(** the join: every thread in turn gets enough steps to finish *)
Fixpoint drain_from (i : nat) (progs : list (list name)) : list nat :=
  match progs with
  | [] => []
  | p :: r => repeat i (3 * length p + 1) ++ drain_from (S i) r
  end.
Definition drain_sched (progs : list (list name)) : list nat := drain_from 0 progs.

Definition run (sched : list nat) (s : nset) (progs : list (list name)) : mstate :=
  steps (sched ++ drain_sched progs) (init s progs).

(** names returned to thread [i], in request order *)
Definition got_of (st : mstate) (i : nat) : list name :=
  match nth_error (m_thr st) i with Some th => rev (th_got th) | None => [] end.

(** the sequential interner ([SeqNameList::get], a [RefCell]): atomic *)
Definition get_seq (s : nset) (n : name) : nset * name :=
  match lookup s (content n) with Some m => (s, m) | None => (hs_insert s n, n) end.
Fixpoint gets_seq (s : nset) (ns : list name) : nset * list name :=
  match ns with
  | [] => (s, [])
  | n :: r => let '(s1, m) := get_seq s n in
              let '(s2, ms) := gets_seq s1 r in (s2, m :: ms)
  end.

(** ** Ordered maps ([BTreeMap<Name, _>], [BTreeMap<PathBuf, _>] as far as one directory goes):
    association lists kept in key order; [str] is ordered like Rust's [str] (byte-wise on UTF-8 =
    code point-wise). *)
Fixpoint str_cmp (a b : str) : comparison :=
  match a, b with
  | [], [] => Eq
  | [], _ :: _ => Lt
  | _ :: _, [] => Gt
  | x :: a', y :: b' => match N.compare x y with Eq => str_cmp a' b' | c => c end
  end.
Definition omap (V : Type) := list (str * V).
Fixpoint om_insert {V} (k : str) (v : V) (m : omap V) : omap V :=
  match m with
  | [] => [(k, v)]
  | (k', v') :: r =>
      match str_cmp k k' with
      | Lt => (k, v) :: m
      | Eq => (k, v) :: r
      | Gt => (k', v') :: om_insert k v r
      end
  end.

(** ** Loading one layer *)
Inductive outcome := TOk (payload : N) | TErr (e : N).
Record task := mkTask {
  t_key : name;            (* the key of [contents] (allocated by the plist reader) *)
  t_file : option str;     (* the value of [contents]: its plain file name, [None] if it is not one *)
  t_reqs : list name;      (* names interned while parsing the glif, in document order: the glif's own
                              [name] attribute first, then the component bases; for a failing glif
                              the ones interned before the failure *)
  t_out : outcome }.       (* everything else the file determines: the rest of the glyph, or the error *)
Definition prog_of (t : task) : list name := t_key t :: t_reqs t.

Record glyph := mkGlyph { g_name : name; g_bases : list name; g_payload : N }.
(** [got] = the names returned for [prog_of t]; the glif's own name is overwritten by the key *)
Definition task_result (t : task) (got : list name) : N + (name * glyph) :=
  match t_out t with
  | TErr e => inl e
  | TOk p => let k := hd (t_key t) got in inr (k, mkGlyph k (tl (tl got)) p)
  end.

(** [collect::<Result<BTreeMap<_,_>,_>>] over the results in the order given *)
Fixpoint collect (rs : list (N + (name * glyph))) (acc : omap glyph) : N + omap glyph :=
  match rs with
  | [] => inr acc
  | inl e :: _ => inl e
  | inr (k, g) :: r => collect r (om_insert (content k) g acc)
  end.

Definition results_of (st : mstate) (ts : list task) : list (N + (name * glyph)) :=
  map (fun i => task_result (nth i ts (mkTask ([], 0%N) None [] (TErr 0%N))) (got_of st i)) (m_done st).

(** parallel: results in COMPLETION order *)
Definition par_glyphs (sched : list nat) (s : nset) (ts : list task) : nset * (N + omap glyph) :=
  let st := run sched s (map prog_of ts) in
  (m_set st, collect (results_of st ts) []).

(** sequential: tasks in the order of [contents]; the first failure ends the iteration *)
Fixpoint seq_tasks (s : nset) (ts : list task) (acc : omap glyph) : nset * (N + omap glyph) :=
  match ts with
  | [] => (s, inr acc)
  | t :: r =>
      let '(s', got) := gets_seq s (prog_of t) in
      match task_result t got with
      | inl e => (s', inl e)
      | inr (k, g) => seq_tasks s' r (om_insert (content k) g acc)
      end
  end.
Definition seq_glyphs (s : nset) (ts : list task) : nset * (N + omap glyph) := seq_tasks s ts [].

(** ** What is observable: contents, not allocations; Ok or Err, not which error *)
Definition glyphC := (str * list str * N)%type.
Definition erase_glyph (g : glyph) : glyphC := (content (g_name g), map content (g_bases g), g_payload g).
Definition erase_map (m : omap glyph) : omap glyphC := map (fun kv => (fst kv, erase_glyph (snd kv))) m.
Definition erase_res (r : N + omap glyph) : option (omap glyphC) :=
  match r with inl _ => None | inr m => Some (erase_map m) end.

(** ** Specification of a loaded layer, without interner, threads or order of evaluation: the map
    from every key of [contents] to the glyph its file determines, named by the key. *)
Definition task_spec (t : task) : option (str * glyphC) :=
  match t_out t with
  | TErr _ => None
  | TOk p => Some (content (t_key t), (content (t_key t), map content (tl (t_reqs t)), p))
  end.
Fixpoint collectC {V} (rs : list (option (str * V))) (acc : omap V) : option (omap V) :=
  match rs with
  | [] => Some acc
  | None :: _ => None
  | Some (k, g) :: r => collectC r (om_insert k g acc)
  end.
Definition spec_glyphs (ts : list task) : option (omap glyphC) := collectC (map task_spec ts) [].
Definition task_ok (t : task) : bool := match t_out t with TOk _ => true | TErr _ => false end.
Definition keys_of (ts : list task) : list str := map (fun t => content (t_key t)) ts.

(** ** The whole of [Layer::load_impl]: the file-name check (sequential, in key order, in both
    builds), then the glyphs *)
Definition file_of (t : task) : str := match t_file t with Some f => f | None => [] end.
(** [str::to_lowercase] on ASCII text (the file names of the generated UFOs are ASCII) *)
Definition ascii_lower (s : str) : str :=
  map (fun c => if (65 <=? c)%N && (c <=? 90)%N then (c + 32)%N else c) s.

Section Lower.
(** [str::to_lowercase] (std, not modelled: an arbitrary function; since f6784f0 the file names are
    compared lower-cased, like the set of taken file names) *)
Variable lower : str -> str.

Fixpoint files_ok (seen : list str) (ts : list task) : bool :=
  match ts with
  | [] => true
  | t :: r => match t_file t with
              | None => false                                   (* InvalidGlyphFileName *)
              | Some f => if existsb (str_eqb (lower f)) seen then false (* DuplicateGlyphFileName *)
                          else files_ok (lower f :: seen) r
              end
  end.
Definition par_layer (sched : list nat) (s : nset) (ts : list task) : nset * (N + omap glyph) :=
  if files_ok [] ts then par_glyphs sched s ts else (s, inl 2%N).
Definition seq_layer (s : nset) (ts : list task) : nset * (N + omap glyph) :=
  if files_ok [] ts then seq_glyphs s ts else (s, inl 2%N).
Definition spec_layer (ts : list task) : option (omap glyphC) :=
  if files_ok [] ts then spec_glyphs ts else None.
Definition layer_ok (ts : list task) : bool := files_ok [] ts && forallb task_ok ts.

(** ** The font: layers one after the other, the interner threaded through *)
Definition layer_in := (str * list task)%type.        (* layer name, its tasks *)
Fixpoint par_font (scheds : list (list nat)) (s : nset) (ls : list layer_in)
  : nset * (N + list (str * omap glyph)) :=
  match ls with
  | [] => (s, inr [])
  | (ln, ts) :: r =>
      let '(s1, res) := par_layer (hd [] scheds) s ts in
      match res with
      | inl e => (s1, inl e)
      | inr m => let '(s2, rr) := par_font (tl scheds) s1 r in
                 (s2, match rr with inl e => inl e | inr ms => inr ((ln, m) :: ms) end)
      end
  end.
Fixpoint seq_font (s : nset) (ls : list layer_in) : nset * (N + list (str * omap glyph)) :=
  match ls with
  | [] => (s, inr [])
  | (ln, ts) :: r =>
      let '(s1, res) := seq_layer s ts in
      match res with
      | inl e => (s1, inl e)
      | inr m => let '(s2, rr) := seq_font s1 r in
                 (s2, match rr with inl e => inl e | inr ms => inr ((ln, m) :: ms) end)
      end
  end.
Definition erase_font (r : N + list (str * omap glyph)) : option (list (str * omap glyphC)) :=
  match r with inl _ => None | inr ms => Some (map (fun lm => (fst lm, erase_map (snd lm))) ms) end.
Fixpoint spec_font (ls : list layer_in) : option (list (str * omap glyphC)) :=
  match ls with
  | [] => Some []
  | (ln, ts) :: r =>
      match spec_layer ts with
      | None => None
      | Some m => match spec_font r with None => None | Some ms => Some ((ln, m) :: ms) end
      end
  end.

End Lower.

(** ** Saving one layer: every task writes its own file.  The directory is an ordered map from
    path to bytes; a write replaces.  Threads have no interning to do, their single step is the
    write, so the completion order of the machine is the order of the writes. *)
Definition stask := (str * (N + list N))%type.         (* path, error or bytes *)
Fixpoint write_all (ws : list stask) (t : omap (list N)) : N + omap (list N) :=
  match ws with
  | [] => inr t
  | (_, inl e) :: _ => inl e
  | (p, inr b) :: r => write_all r (om_insert p b t)
  end.
Definition par_save (sched : list nat) (tree : omap (list N)) (ws : list stask) : N + omap (list N) :=
  let st := run sched [] (map (fun _ => []) ws) in
  write_all (map (fun i => nth i ws ([], inl 0%N)) (m_done st)) tree.
Definition seq_save (tree : omap (list N)) (ws : list stask) : N + omap (list N) := write_all ws tree.
Definition ok_tree (r : N + omap (list N)) : option (omap (list N)) :=
  match r with inl _ => None | inr t => Some t end.
Definition stask_ok (w : stask) : bool := match snd w with inr _ => true | inl _ => false end.
(** specification of a saved layer directory: every file holds its own glyph's bytes *)
Definition stask_spec (w : stask) : option (str * list N) :=
  match snd w with inr b => Some (fst w, b) | inl _ => None end.
Definition spec_save (tree : omap (list N)) (ws : list stask) : option (omap (list N)) :=
  collectC (map stask_spec ws) tree.

(** the save tasks of a layer that was loaded from [ts] (its [contents] is the loaded one): glyph
    [k] goes to its file, with whatever bytes / error its encoding gives *)
Definition save_tasks (enc : str -> N + list N) (ts : list task) : list stask :=
  map (fun t => (file_of t, enc (content (t_key t)))) ts.

(** all layers of a font, one after the other *)
Fixpoint par_save_font (scheds : list (list nat)) (tree : omap (list N)) (ls : list (list stask))
  : N + omap (list N) :=
  match ls with
  | [] => inr tree
  | ws :: r => match par_save (hd [] scheds) tree ws with
               | inl e => inl e
               | inr t => par_save_font (tl scheds) t r
               end
  end.
Fixpoint seq_save_font (tree : omap (list N)) (ls : list (list stask)) : N + omap (list N) :=
  match ls with
  | [] => inr tree
  | ws :: r => match seq_save tree ws with inl e => inl e | inr t => seq_save_font t r end
  end.

(** ** Saving with NON-atomic writes: [fs::write] = create/truncate, then write the bytes — two
    steps of a thread, and other threads can run in between (so a truncated file is visible for a
    while).  [Glyph::save_with_options] returns its error (objectLibs key present, encoding
    failure) before it touches the file.  The tree is compared through look-ups. *)
Fixpoint om_find {V} (k : str) (m : omap V) : option V :=
  match m with
  | [] => None
  | (k', v) :: r => if str_eqb k k' then Some v else om_find k r
  end.

Inductive wstat := WNot | WTrunc | WDone.
Record wstate := mkW { w_tree : omap (list N); w_stat : list wstat; w_failed : bool }.
Definition wstep (ws : list stask) (i : nat) (st : wstate) : wstate :=
  match nth_error ws i, nth_error (w_stat st) i with
  | Some (p, out), Some WNot =>
      match out with
      | inl _ => mkW (w_tree st) (upd i WDone (w_stat st)) true
      | inr _ => mkW (om_insert p [] (w_tree st)) (upd i WTrunc (w_stat st)) (w_failed st)
      end
  | Some (p, out), Some WTrunc =>
      match out with
      | inr b => mkW (om_insert p b (w_tree st)) (upd i WDone (w_stat st)) (w_failed st)
      | inl _ => mkW (w_tree st) (upd i WDone (w_stat st)) true       (* unreachable *)
      end
  | _, _ => st
  end.
Definition wsteps (ws : list stask) (sched : list nat) (st : wstate) : wstate :=
  fold_left (fun st i => wstep ws i st) sched st.
Definition wdrain (n : nat) : list nat := flat_map (fun i => [i; i]) (seq 0 n).
Definition par_save2 (sched : list nat) (tree : omap (list N)) (ws : list stask) : N + omap (list N) :=
  let st := wsteps ws (sched ++ wdrain (length ws)) (mkW tree (repeat WNot (length ws)) false) in
  if w_failed st then inl 0%N else inr (w_tree st).
Definition tree_equiv (a b : option (omap (list N))) : Prop :=
  match a, b with
  | Some t, Some t' => forall p, om_find p t = om_find p t'
  | None, None => True
  | _, _ => False
  end.
