(** Abstract file system shared by the save / load models (C08, C09, C17).  std++ style.
    Definitions only; the frame lemmas are in Proofs/FsP.v.

    A file system is a finite map from absolute, normalised paths (component lists, the empty
    list is the root) to nodes: a file with some content, or a directory.  There are no symbolic
    links, permissions or I/O errors other than the structural ones (missing parent, name taken,
    file where a directory is needed).  The content type is a parameter: the save model uses
    opaque tokens, the load model parsed views. *)
From stdpp Require Import gmap strings.

Notation path := (list string).

Inductive node (C : Type) := File (c : C) | Dir.
Arguments File {C} c.
Arguments Dir {C}.
(** a notation, not a definition, so that the std++ map lemmas apply without unfolding *)
Notation fs C := (gmap path (node C)).

Section fs.
  Context {C : Type}.
  Notation node := (node C).
  Notation fs := (fs C).

  (** [under t p]: [p] is [t] or lies below it. *)
  Definition under (t p : path) : Prop := t `prefix_of` p.
  Definition parent (p : path) : path := removelast p.

  Definition is_dir (m : fs) (p : path) : bool :=
    match m !! p with Some Dir => true | _ => false end.
  Definition exists_ (m : fs) (p : path) : bool :=
    match m !! p with Some _ => true | None => false end.
  Definition read (m : fs) (p : path) : option C :=
    match m !! p with Some (File c) => Some c | _ => None end.

  (** the part of a file system at or below [t] *)
  Definition restrict_under (t : path) (m : fs) : fs := filter (λ e, under t e.1) m.

  (** [std::fs::remove_dir_all]: the argument must be a directory; it and everything below it go. *)
  Definition wipe (t : path) (m : fs) : fs := filter (λ e, ¬ under t e.1) m.
  Definition remove_dir_all (t : path) (m : fs) : option fs :=
    if is_dir m t then Some (wipe t m) else None.

  (** [std::fs::create_dir]: name must be free, parent must be a directory. *)
  Definition create_dir (p : path) (m : fs) : option fs :=
    if exists_ m p then None
    else if is_dir m (parent p) then Some (<[p := Dir]> m) else None.

  (** [File::create] + write: parent must be a directory, the name must not be a directory. *)
  Definition write (p : path) (c : C) (m : fs) : option fs :=
    match m !! p with
    | Some Dir => None
    | _ => if is_dir m (parent p) then Some (<[p := File c]> m) else None
    end.

  (** [std::fs::create_dir_all (pre/rest)]: walk down from [pre], creating what is missing; a
      file in the way is an error. *)
  Fixpoint create_dir_all (pre : path) (rest : list string) (m : fs) : option fs :=
    match rest with
    | [] => Some m
    | s :: r =>
        let q := pre ++ [s] in
        match m !! q with
        | Some Dir => create_dir_all q r m
        | Some (File _) => None
        | None => if is_dir m pre then create_dir_all q r (<[q := Dir]> m) else None
        end
    end.

  (** a tree given relative to its root, placed at [t] *)
  Definition place (t : path) (tr : fs) : fs := kmap (app t) tr.

  (** a list of (path, node) entries applied in order; later entries win *)
  Definition apply_entries (es : list (path * node)) (m : fs) : fs :=
    foldl (λ acc e, <[e.1 := e.2]> acc) m es.

  (** the directories [create_dir_all pre rest] makes sure exist *)
  Fixpoint dir_chain (pre : path) (rest : list string) : list (path * node) :=
    match rest with [] => [] | s :: r => (pre ++ [s], Dir) :: dir_chain (pre ++ [s]) r end.
  (** entries moved below [t] *)
  Definition shift (t : path) (e : path * node) : path * node := (t ++ e.1, e.2).

  (** files (not directories) strictly below directory [d], as paths relative to [d]; a function
      of the part of the file system under [d] only *)
  Definition files_below (d : path) (m : fs) : list (list string) :=
    omap (λ e, match e.2 with
               | File _ => if decide (under d e.1) then Some (drop (length d) e.1) else None
               | Dir => None
               end) (map_to_list (restrict_under d m)).
  (** is there a directory strictly below [d] ? *)
  Definition is_dirnode (n : node) : bool := match n with Dir => true | File _ => false end.
  Definition has_subdir (d : path) (m : fs) : bool :=
    bool_decide (Exists (λ e, is_dirnode e.2 ∧ under d e.1 ∧ e.1 ≠ d) (map_to_list (restrict_under d m))).

  (** well-formed: the root is a directory and every entry's parent is a directory *)
  Definition wf_fs (m : fs) : Prop :=
    m !! [] = Some Dir ∧ ∀ p n, m !! p = Some n → p ≠ [] → m !! parent p = Some Dir.
End fs.
