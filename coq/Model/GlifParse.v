(** Model of the glif reader (src/glyph/parse.rs, Glyph::load_object_libs in src/glyph/mod.rs)
    over event trees: element dispatch with version guards and duplicate flags, the attribute
    loops, the identifier set, the outline builder, the format-1 anchor upgrade, the transfer
    of per-object libs.  The code as it is.  Definitions only. *)
Require Export Norad.Model.Glif.
Open Scope N_scope.

Inductive gerr : Type :=
| EUnsupportedGlifVersion | EUnknownPointType | EWrongFirstElement | EMissingCloseTag
| EBadHexValue | EBadNumber | EBadColor | EBadAnchor | EBadPoint | EBadGuideline | EBadImage
| EBadIdentifier | EInvalidName | EBadLib | EUnexpectedElement | EUnexpectedAttribute
| EDuplicateIdentifier | EUnexpectedPointField | EUnexpectedComponentField
| EUnexpectedAnchorField | EUnexpectedGuidelineField | EUnexpectedImageField
| EDuplicateElement | EUnexpectedV1Element | EUnexpectedV1Attribute
| EComponentEmptyBase | EComponentMissingBase | ELibMustBeDictionary | EBadAngle
| EContour (e : cerr)                          (* the five OutlineBuilder errors *)
| EXmlAttr                                     (* quick-xml: duplicated attribute *)
| EPublicObjectLibsMustBeDictionary | EObjectLibMustBeDictionary
| EPlistWrite                                  (* writer: GlifWriteError::Plist *)
| EPreexistingObjectLibs.                      (* writer, save: PreexistingPublicObjectLibsKey *)

Definition res (A : Type) := result A gerr.

(** ---------- vocabulary ---------- *)
Inductive ekind := KGlyph | KAdvance | KUnicode | KImage | KAnchor | KGuideline | KOutline
                 | KContour | KPoint | KComponent | KLib | KNote.
Definition elem_names : list (str * ekind) :=
  [ (s2l "glyph", KGlyph); (s2l "advance", KAdvance); (s2l "unicode", KUnicode);
    (s2l "image", KImage); (s2l "anchor", KAnchor); (s2l "guideline", KGuideline);
    (s2l "outline", KOutline); (s2l "contour", KContour); (s2l "point", KPoint);
    (s2l "component", KComponent); (s2l "lib", KLib); (s2l "note", KNote) ].
Definition ekind_of (name : str) : option ekind := lookup name elem_names.

(** how an attribute value is read *)
Inductive aty := ANum | AAngle | AName | ABase | AColor | AIdent | APType | ASmooth | AFile
               | AHex | AU32.

Definition k_x := s2l "x".
Definition k_y := s2l "y".
Definition k_name := s2l "name".
Definition k_color := s2l "color".
Definition k_identifier := s2l "identifier".
Definition k_angle := s2l "angle".
Definition k_type := s2l "type".
Definition k_smooth := s2l "smooth".
Definition k_base := s2l "base".
Definition k_fileName := s2l "fileName".
Definition k_hex := s2l "hex".
Definition k_width := s2l "width".
Definition k_height := s2l "height".
Definition k_format := s2l "format".
Definition k_formatMinor := s2l "formatMinor".
Definition k_xScale := s2l "xScale".
Definition k_xyScale := s2l "xyScale".
Definition k_yxScale := s2l "yxScale".
Definition k_yScale := s2l "yScale".
Definition k_xOffset := s2l "xOffset".
Definition k_yOffset := s2l "yOffset".

Definition transform_arms : list (str * aty) :=
  [ (k_xScale, ANum); (k_xyScale, ANum); (k_yxScale, ANum); (k_yScale, ANum);
    (k_xOffset, ANum); (k_yOffset, ANum) ].

(** the [match attr.key] arms of each attribute loop of parse.rs *)
Definition arms (k : ekind) : list (str * aty) :=
  match k with
  | KGlyph => [ (k_name, AName); (k_format, AU32); (k_formatMinor, AU32) ]
  | KAdvance => [ (k_width, ANum); (k_height, ANum) ]
  | KUnicode => [ (k_hex, AHex) ]
  | KImage => transform_arms ++ [ (k_color, AColor); (k_fileName, AFile) ]
  | KAnchor => [ (k_x, ANum); (k_y, ANum); (k_name, AName); (k_color, AColor); (k_identifier, AIdent) ]
  | KGuideline => [ (k_x, ANum); (k_y, ANum); (k_angle, AAngle); (k_name, AName);
                    (k_color, AColor); (k_identifier, AIdent) ]
  | KContour => [ (k_identifier, AIdent) ]
  | KPoint => [ (k_x, ANum); (k_y, ANum); (k_name, AName); (k_type, APType); (k_smooth, ASmooth);
                (k_identifier, AIdent) ]
  | KComponent => transform_arms ++ [ (k_base, ABase); (k_identifier, AIdent) ]
  | KOutline | KLib | KNote => []
  end.
(** the error of the [_other] arm *)
Definition unknown_err (k : ekind) : gerr :=
  match k with
  | KImage => EUnexpectedImageField
  | KAnchor => EUnexpectedAnchorField
  | KGuideline => EUnexpectedGuidelineField
  | KPoint => EUnexpectedPointField
  | KComponent => EUnexpectedComponentField
  | _ => EUnexpectedAttribute
  end.

(** a parsed attribute value *)
Inductive aval :=
| VNum (x : fl) | VAngle (x : fl) | VName (s : str) | VColor (c : color) | VIdent (s : str)
| VPType (t : ptype) | VBool (b : bool) | VFile (s : str) | VHex (c : N) | VN (n : N).
Definition store := list (str * aval).

Section Parser.
  Variable pf : str -> option fl.      (* f64::from_str *)

  (** one arm; [seen] is [seen_identifiers] *)
  Definition parse_val (ver : N) (seen : list str) (ty : aty) (v : str) : res (aval * list str) :=
    match ty with
    | ANum => match pf v with Some x => Ok (VNum x, seen) | None => Err EBadNumber end
    | AAngle =>
        match pf v with
        | Some x => if fl_leb f0 x && fl_leb x f360 then Ok (VAngle x, seen) else Err EBadAngle
        | None => Err EBadNumber
        end
    | AName => if name_valid v then Ok (VName v, seen) else Err EInvalidName
    | ABase =>
        match v with
        | [] => Err EComponentEmptyBase
        | _ => if name_valid v then Ok (VName v, seen) else Err EInvalidName
        end
    | AColor => match parse_color pf v with Some c => Ok (VColor c, seen) | None => Err EBadColor end
    | AIdent =>
        if ver =? 1 then Err EUnexpectedV1Attribute
        else if negb (ident_valid v) then Err EBadIdentifier
        else if mem_str v seen then Err EDuplicateIdentifier
        else Ok (VIdent v, v :: seen)
    | APType => match ptype_of v with Some t => Ok (VPType t, seen) | None => Err EUnknownPointType end
    | ASmooth => Ok (VBool (str_eqb v (s2l "yes")), seen)
    | AFile => Ok (VFile v, seen)
    | AHex => match parse_hex v with Some c => Ok (VHex c, seen) | None => Err EBadHexValue end
    | AU32 => match parse_u32 v with Some n => Ok (VN n, seen) | None => Err EBadNumber end
    end.

  (** [for attr in data.attributes()]: quick-xml reports a repeated key as an error when it
      reaches it; [gate1] is the version test parse_contour makes before looking at the
      attribute at all. *)
  Fixpoint attr_loop (ver : N) (k : ekind) (gate1 : bool) (seen : list str) (acc : store)
           (a : attrs) : res (store * list str) :=
    match a with
    | [] => Ok (acc, seen)
    | (key, v) :: r =>
        if gate1 && (ver =? 1) then Err EUnexpectedAttribute
        else if has_key key acc then Err EXmlAttr
        else match lookup key (arms k) with
             | None => Err (unknown_err k)
             | Some ty =>
                 bind (parse_val ver seen ty v)
                      (fun '(x, seen') => attr_loop ver k gate1 seen' (acc ++ [(key, x)]) r)
             end
    end.

  Definition get_num (key : str) (s : store) : option fl :=
    match lookup key s with Some (VNum x) => Some x | Some (VAngle x) => Some x | _ => None end.
  Definition get_name (key : str) (s : store) : option str :=
    match lookup key s with Some (VName x) => Some x | _ => None end.
  Definition get_ident (s : store) : option str :=
    match lookup k_identifier s with Some (VIdent x) => Some x | _ => None end.
  Definition get_color (s : store) : option color :=
    match lookup k_color s with Some (VColor c) => Some c | _ => None end.
  Definition num_or (d : fl) (key : str) (s : store) : fl :=
    match get_num key s with Some x => x | None => d end.
  Definition get_transform (s : store) : transform :=
    mkT (num_or f1 k_xScale s) (num_or f0 k_xyScale s) (num_or f0 k_yxScale s)
        (num_or f1 k_yScale s) (num_or f0 k_xOffset s) (num_or f0 k_yOffset s).

  (** ---------- the opening tag ---------- *)
  Definition parse_start (a : attrs) : res (str * N) :=
    bind (attr_loop 2 KGlyph false [] [] a) (fun '(s, _) =>
      match get_name k_name s with
      | None => Err EWrongFirstElement
      | Some name =>
          let major := match lookup k_format s with Some (VN n) => n | _ => 0 end in
          let minor := match lookup k_formatMinor s with Some (VN n) => n | _ => 0 end in
          if ((major =? 1) || (major =? 2)) && (minor =? 0) then Ok (name, major)
          else Err EUnsupportedGlifVersion
      end).

  (** [start()]: declaration and comments are skipped, the next event must open [glyph] *)
  Fixpoint find_root (d : list node) : res (attrs * list node) :=
    match d with
    | Comment _ :: r => find_root r
    | Decl :: r => find_root r
    | Elem name a kids :: _ =>
        match ekind_of name with Some KGlyph => Ok (a, kids) | _ => Err EWrongFirstElement end
    | _ => Err EWrongFirstElement
    end.

  (** ---------- leaf elements of the glyph body ---------- *)
  Definition parse_advance (ver : N) (seen : list str) (a : attrs) : res (fl * fl) :=
    bind (attr_loop ver KAdvance false seen [] a) (fun '(s, _) =>
      Ok (num_or f0 k_width s, num_or f0 k_height s)).

  Definition parse_unicode (ver : N) (seen : list str) (a : attrs) (cps : list N) : res (list N) :=
    bind (attr_loop ver KUnicode false seen [] a) (fun '(s, _) =>
      match lookup k_hex s with Some (VHex c) => Ok (cps_insert c cps) | _ => Err EBadHexValue end).

  Definition parse_anchor (ver : N) (seen : list str) (a : attrs) : res (anchor * list str) :=
    bind (attr_loop ver KAnchor false seen [] a) (fun '(s, seen') =>
      match get_num k_x s, get_num k_y s with
      | Some x, Some y => Ok (mkAnchor x y (get_name k_name s) (get_color s) (get_ident s) None, seen')
      | _, _ => Err EBadAnchor
      end).

  Definition parse_guideline (ver : N) (seen : list str) (a : attrs) : res (guideline * list str) :=
    bind (attr_loop ver KGuideline false seen [] a) (fun '(s, seen') =>
      let mk l := Ok (mkGuide l (get_name k_name s) (get_color s) (get_ident s) None, seen') in
      match get_num k_x s, get_num k_y s, get_num k_angle s with
      | Some x, None, None => mk (LVert x)
      | None, Some y, None => mk (LHoriz y)
      | Some x, Some y, Some d => mk (LAngle x y d)
      | _, _, _ => Err EBadGuideline
      end).

  Definition parse_image (ver : N) (seen : list str) (a : attrs) : res image :=
    bind (attr_loop ver KImage false seen [] a) (fun '(s, _) =>
      match lookup k_fileName s with
      | Some (VFile f) =>
          if file_ok f then Ok (mkImage f (get_color s) (get_transform s)) else Err EBadImage
      | _ => Err EBadImage
      end).

  (** ---------- outline ---------- *)
  Definition parse_component (ver : N) (seen : list str) (a : attrs) : res (component * list str) :=
    bind (attr_loop ver KComponent false seen [] a) (fun '(s, seen') =>
      match get_name k_base s with
      | Some b => Ok (mkComp b (get_transform s) (get_ident s) None, seen')
      | None => Err EComponentMissingBase
      end).

  Definition parse_point (ver : N) (seen : list str) (a : attrs) : res (point * list str) :=
    bind (attr_loop ver KPoint false seen [] a) (fun '(s, seen') =>
      match get_num k_x s, get_num k_y s with
      | Some x, Some y =>
          let typ := match lookup k_type s with Some (VPType t) => t | _ => Off end in
          let sm := match lookup k_smooth s with Some (VBool b) => b | _ => false end in
          Ok (mkPoint x y typ sm (get_name k_name s) (get_ident s) None, seen')
      | _, _ => Err EBadPoint
      end).

  Definition cerr_res {A} (e : cerr) : res A :=
    match e with UnreachableMove => Panic 1 | _ => Err (EContour e) end.

  (** the events between [<contour>] and [</contour>]: every one must be an empty [point]
      tag; each point goes through [add_point] at once ([Contour.step]) *)
  Fixpoint parse_points (ver : N) (seen : list str) (bst : bool * N) (acc : list point)
           (l : list node) : res (list point * (bool * N) * list str) :=
    match l with
    | [] => Ok (acc, bst, seen)
    | Empty name a :: r =>
        match ekind_of name with
        | Some KPoint =>
            bind (parse_point ver seen a) (fun '(p, seen') =>
              match step bst (pt_of p) with
              | inl e => cerr_res e
              | inr bst' => parse_points ver seen' bst' (acc ++ [p]) r
              end)
        | _ => Err EUnexpectedElement
        end
    | _ => Err EUnexpectedElement
    end.

  (** [end_path] *)
  Definition end_path (bst : bool * N) (pts : list pt) : option cerr :=
    if 0 <? snd bst then
      if is_closed pts then wrap (snd bst) pts else Some Trailing
    else None.

  Definition parse_contour (ver : N) (seen : list str) (a : attrs) (kids : list node)
    : res (option contour * list str) :=
    bind (attr_loop ver KContour true seen [] a) (fun '(s, seen1) =>
      bind (parse_points ver seen1 (true, 0) [] (tview kids)) (fun '(pts, bst, seen2) =>
        match end_path bst (map pt_of pts) with
        | Some e => cerr_res e
        | None =>
            Ok (match pts with [] => None | _ => Some (mkContour pts (get_ident s) None) end, seen2)
        end)).

  Fixpoint parse_outline_kids (ver : N) (seen : list str) (cs : list contour)
           (ks : list component) (l : list node) : res (list contour * list component * list str) :=
    match l with
    | [] => Ok (cs, ks, seen)
    | Elem name a kids :: r =>
        match ekind_of name with
        | Some KContour =>
            bind (parse_contour ver seen a kids) (fun '(c, seen') =>
              parse_outline_kids ver seen'
                (match c with Some c => cs ++ [c] | None => cs end) ks r)
        | _ => Err EUnexpectedElement
        end
    | Empty name a :: r =>
        match ekind_of name with
        | Some KContour =>                  (* attributes as for a start tag; the contour is dropped *)
            bind (attr_loop ver KContour true seen [] a) (fun '(_, seen') =>
              parse_outline_kids ver seen' cs ks r)
        | Some KComponent =>
            bind (parse_component ver seen a) (fun '(c, seen') =>
              parse_outline_kids ver seen' cs (ks ++ [c]) r)
        | _ => Err EUnexpectedElement
        end
    | _ => Err EUnexpectedElement
    end.

  (** format 1: a contour that is a single named move point is an anchor *)
  Definition v1_anchor (c : contour) : option anchor :=
    match cpoints c with
    | [p] => match ptyp p, pname p with
             | Move, Some n => Some (mkAnchor (px p) (py p) (Some n) None None None)
             | _, _ => None
             end
    | _ => None
    end.
  Fixpoint v1_split (cs : list contour) : list anchor * list contour :=
    match cs with
    | [] => ([], [])
    | c :: r => let '(an, keep) := v1_split r in
                match v1_anchor c with Some a => (a :: an, keep) | None => (an, c :: keep) end
    end.

  (** ---------- the glyph body ---------- *)
  Record pst := mkPst { st_g : glyph; st_seen : list str; st_adv : bool; st_lib : bool; st_out : bool;
                        st_note : bool }.

  Definition set_adv (g : glyph) (w h : fl) : glyph :=
    mkGlyph (gname g) w h (gcps g) (gnote g) (gimage g) (gguides g) (ganchors g) (gcomps g)
            (gcontours g) (glib g).
  Definition set_cps (g : glyph) (c : list N) : glyph :=
    mkGlyph (gname g) (gwidth g) (gheight g) c (gnote g) (gimage g) (gguides g) (ganchors g)
            (gcomps g) (gcontours g) (glib g).
  Definition set_note (g : glyph) (n : option str) : glyph :=
    mkGlyph (gname g) (gwidth g) (gheight g) (gcps g) n (gimage g) (gguides g) (ganchors g)
            (gcomps g) (gcontours g) (glib g).
  Definition set_image (g : glyph) (i : option image) : glyph :=
    mkGlyph (gname g) (gwidth g) (gheight g) (gcps g) (gnote g) i (gguides g) (ganchors g)
            (gcomps g) (gcontours g) (glib g).
  Definition set_guides (g : glyph) (l : list guideline) : glyph :=
    mkGlyph (gname g) (gwidth g) (gheight g) (gcps g) (gnote g) (gimage g) l (ganchors g)
            (gcomps g) (gcontours g) (glib g).
  Definition set_anchors (g : glyph) (l : list anchor) : glyph :=
    mkGlyph (gname g) (gwidth g) (gheight g) (gcps g) (gnote g) (gimage g) (gguides g) l
            (gcomps g) (gcontours g) (glib g).
  Definition set_outline (g : glyph) (an : list anchor) (ks : list component) (cs : list contour)
    : glyph :=
    mkGlyph (gname g) (gwidth g) (gheight g) (gcps g) (gnote g) (gimage g) (gguides g) an ks cs
            (glib g).
  Definition set_lib (g : glyph) (d : dict) : glyph :=
    mkGlyph (gname g) (gwidth g) (gheight g) (gcps g) (gnote g) (gimage g) (gguides g) (ganchors g)
            (gcomps g) (gcontours g) d.

  (** [parse_note]: every non-blank text event below the element overwrites the note *)
  Definition note_texts (kids : list node) : list str :=
    filter (fun s => negb (blank s)) (flat_map texts_of kids).
  Definition note_of (old : option str) (kids : list node) : option str :=
    match rev (note_texts kids) with
    | s :: _ => Some (trim s)
    | [] => old
    end.

  Definition parse_outline (ver : N) (st : pst) (kids : list node) : res pst :=
    bind (parse_outline_kids ver (st_seen st) [] [] (tview kids)) (fun '(cs, ks, seen') =>
      let g := st_g st in
      let '(an, cs') := if ver =? 1 then v1_split cs else ([], cs) in
      Ok (mkPst (set_outline g (ganchors g ++ an) (gcomps g ++ ks) (gcontours g ++ cs'))
                seen' (st_adv st) (st_lib st) true (st_note st))).

  (** [expect_no_attributes] *)
  Definition no_attrs (a : attrs) : bool := match a with [] => true | _ => false end.

  Definition parse_child (ver : N) (st : pst) (n : node) : res pst :=
    let g := st_g st in
    let upd g' := mkPst g' (st_seen st) (st_adv st) (st_lib st) (st_out st) (st_note st) in
    match n with
    | Elem name a kids =>
        match ekind_of name with
        | Some KOutline =>
            if st_out st then Err EDuplicateElement
            else if no_attrs a then parse_outline ver st kids else Err EUnexpectedAttribute
        | Some KLib =>
            if st_lib st then Err EDuplicateElement
            else if negb (no_attrs a) then Err EUnexpectedAttribute
            else match plist_of_nodes pf kids with
                 | None => Err EBadLib
                 | Some (PDict d) =>
                     Ok (mkPst (set_lib g d) (st_seen st) (st_adv st) true (st_out st) (st_note st))
                 | Some _ => Err ELibMustBeDictionary
                 end
        | Some KNote =>
            if ver =? 1 then Err EUnexpectedV1Element
            else if st_note st then Err EDuplicateElement
            else if negb (no_attrs a) then Err EUnexpectedAttribute
            else Ok (mkPst (set_note g (note_of (gnote g) kids)) (st_seen st) (st_adv st) (st_lib st)
                           (st_out st) true)
        | _ => Err EUnexpectedElement
        end
    | Empty name a =>
        match ekind_of name with
        | Some KOutline =>
            if st_out st then Err EDuplicateElement
            else if no_attrs a then Ok (mkPst g (st_seen st) (st_adv st) (st_lib st) true (st_note st))
            else Err EUnexpectedAttribute
        | Some KAdvance =>
            if st_adv st then Err EDuplicateElement
            else bind (parse_advance ver (st_seen st) a) (fun '(w, h) =>
                   Ok (mkPst (set_adv g w h) (st_seen st) true (st_lib st) (st_out st) (st_note st)))
        | Some KUnicode =>
            bind (parse_unicode ver (st_seen st) a (gcps g)) (fun c => Ok (upd (set_cps g c)))
        | Some KAnchor =>
            if ver =? 1 then Err EUnexpectedV1Element
            else bind (parse_anchor ver (st_seen st) a) (fun '(x, seen') =>
                   Ok (mkPst (set_anchors g (ganchors g ++ [x])) seen' (st_adv st) (st_lib st) (st_out st)
                             (st_note st)))
        | Some KGuideline =>
            if ver =? 1 then Err EUnexpectedV1Element
            else bind (parse_guideline ver (st_seen st) a) (fun '(x, seen') =>
                   Ok (mkPst (set_guides g (gguides g ++ [x])) seen' (st_adv st) (st_lib st) (st_out st)
                             (st_note st)))
        | Some KImage =>
            if ver =? 1 then Err EUnexpectedV1Element
            else match gimage g with
                 | Some _ => Err EDuplicateElement
                 | None => bind (parse_image ver (st_seen st) a) (fun i => Ok (upd (set_image g (Some i))))
                 end
        | _ => Err EUnexpectedElement
        end
    | _ => Err EMissingCloseTag
    end.

  Fixpoint parse_children (ver : N) (st : pst) (l : list node) : res pst :=
    match l with
    | [] => Ok st
    | n :: r => bind (parse_child ver st n) (fun st' => parse_children ver st' r)
    end.

  (** ---------- [load_object_libs] ---------- *)
  (** the [transfer_lib!] macro: the new lib of the object (None = left as it was) and the
      remaining object libs *)
  Definition transfer (id : option str) (ol : dict) : res (option dict * dict) :=
    match id with
    | None => Ok (None, ol)
    | Some i =>
        match lookup i ol with
        | None => Ok (None, ol)
        | Some (PDict d) => Ok (Some d, remove_key i ol)
        | Some _ => Err EObjectLibMustBeDictionary
        end
    end.
  Definition keep {A} (new old : option A) : option A := match new with Some _ => new | None => old end.

  Fixpoint transfer_list {A} (idof : A -> option str) (setlib : A -> option dict -> A)
           (l : list A) (ol : dict) : res (list A * dict) :=
    match l with
    | [] => Ok ([], ol)
    | x :: r =>
        bind (transfer (idof x) ol) (fun '(d, ol1) =>
          bind (transfer_list idof setlib r ol1) (fun '(r', ol2) => Ok (setlib x d :: r', ol2)))
    end.

  Definition anchor_setlib (a : anchor) (d : option dict) : anchor :=
    mkAnchor (ax a) (ay a) (aname a) (acolor a) (aid a) (keep d (alib a)).
  Definition guide_setlib (g : guideline) (d : option dict) : guideline :=
    mkGuide (gline g) (guname g) (gcolor g) (guid g) (keep d (gulib g)).
  Definition point_setlib (p : point) (d : option dict) : point :=
    mkPoint (px p) (py p) (ptyp p) (psmooth p) (pname p) (pid p) (keep d (plib p)).
  Definition comp_setlib (c : component) (d : option dict) : component :=
    mkComp (cbase c) (ctrans c) (coid c) (keep d (colib c)).

  Fixpoint transfer_contours (l : list contour) (ol : dict) : res (list contour * dict) :=
    match l with
    | [] => Ok ([], ol)
    | c :: r =>
        bind (transfer (cid c) ol) (fun '(d, ol1) =>
          bind (transfer_list pid point_setlib (cpoints c) ol1) (fun '(pts, ol2) =>
            bind (transfer_contours r ol2) (fun '(r', ol3) =>
              Ok (mkContour pts (cid c) (keep d (clib c)) :: r', ol3))))
    end.

  Definition load_object_libs (g : glyph) : res glyph :=
    match lookup objlibs_key (glib g) with
    | None => Ok g
    | Some v =>
        let lib' := remove_key objlibs_key (glib g) in
        match v with
        | PDict ol =>
            bind (transfer_list aid anchor_setlib (ganchors g) ol) (fun '(an, ol1) =>
            bind (transfer_list guid guide_setlib (gguides g) ol1) (fun '(gu, ol2) =>
            bind (transfer_contours (gcontours g) ol2) (fun '(cs, ol3) =>
            bind (transfer_list coid comp_setlib (gcomps g) ol3) (fun '(ks, _) =>
              Ok (mkGlyph (gname g) (gwidth g) (gheight g) (gcps g) (gnote g) (gimage g)
                          gu an ks cs lib')))))
        | _ => Err EPublicObjectLibsMustBeDictionary
        end
    end.

  (** ---------- [GlifParser::from_xml] ---------- *)
  Definition parse_glif (d : doc) : res glyph :=
    bind (find_root (tview d)) (fun '(a, kids) =>
      bind (parse_start a) (fun '(name, ver) =>
        bind (parse_children ver (mkPst (glyph_new name) [] false false false false) (tview kids))
             (fun st => load_object_libs (st_g st)))).
End Parser.
