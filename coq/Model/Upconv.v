(** Model of norad's legacy font-info conversion, as the code is:
      - the typed readers of [FontInfoV1] / [FontInfoV2] (serde, deny_unknown_fields),
      - [FontInfo::from_file], arms V1 and V2 (src/fontinfo.rs): the two struct literals, field
        by field, with their numeric conversions and the three match tables,
      - [FontInfo::validate]: C13's model [FontInfo.fi_validate] on the projection of the info,
      - [upconvert_ufov1_robofab_data] (src/upconversion.rs) and its call site in
        [Font::load_impl] (src/font.rs), format version set to 3.
    Definitions only.  The specification side is Model/SpecTables.v; that the two agree for all
    inputs is proved in Proofs/UpconvP.v. *)
Require Export Norad.Model.SpecTables.
Require Norad.Model.FontInfo.
From Coq Require Import Ascii.
Open Scope string_scope.
Open Scope Z_scope.

(** ** property-list values as the plist crate hands them to serde *)
Inductive pval : Type :=
| PInt (z : Z)
| PReal (x : f64)
| PStr (s : string)
| PBool (b : bool)
| PData (s : string)
| PArr (l : list pval)
| PDict (l : list (string * pval)).

Definition pdict := list (string * pval).

(** ** typed readers (what serde's derived [Deserialize] accepts for each field type) *)
Definition p_num (p : pval) : option f64 :=
  match p with
  | PInt z => Some (f64_of_Z z)        (* visit_i64 / visit_u64: [as f64] *)
  | PReal x => Some x
  | _ => None
  end.
Definition p_int (ok : Z -> bool) (p : pval) : option Z :=
  match p with
  | PInt z => if ok z then Some z else None
  | _ => None
  end.
Definition p_str (p : pval) : option string :=
  match p with PStr s => Some s | _ => None end.

Fixpoint all_some {A} (l : list (option A)) : option (list A) :=
  match l with
  | [] => Some []
  | None :: _ => None
  | Some a :: l' => match all_some l' with Some r => Some (a :: r) | None => None end
  end.

Definition p_list {A} (f : pval -> option A) (p : pval) : option (list A) :=
  match p with PArr l => all_some (map f l) | _ => None end.

Definition p_list_n {A} (n : nat) (f : pval -> option A) (p : pval) : option (list A) :=
  match p_list f p with
  | Some l => if Nat.eqb (List.length l) n then Some l else None
  | None => None
  end.

Definition decode_ty (t : vty) (p : pval) : option val :=
  match t with
  | TNum => option_map VNum (p_num p)
  | TNonNegNum =>
      match p_num p with
      | Some x => if f_sign_positive x then Some (VNum x) else None
      | None => None
      end
  | TI32 => option_map VInt (p_int in_i32 p)
  | TU32 => option_map VInt (p_int in_u32 p)
  | TStr => option_map VStr (p_str p)
  | TBool => match p with PBool b => Some (VBool b) | _ => None end
  | TNums => option_map VNums (p_list p_num p)
  | TBits => option_map VInts (p_list (p_int in_u8) p)
  | TFamilyClass => option_map VInts (p_list_n 2 (p_int in_u8) p)
  | TPanose => option_map VInts (p_list_n 10 (p_int in_u32) p)
  | TPanoseV2 => option_map VInts (p_list_n 10 (p_int in_i32) p)
  | TStyle =>
      match p_str p with
      | Some s => if mem s style_names then Some (VStr s) else None
      | None => None
      end
  | TWidth => option_map VInt (p_int (fun z => (1 <=? z) && (z <=? 9)) p)
  | TCharSet => option_map VInt (p_int (fun z => (1 <=? z) && (z <=? 20)) p)
  | TComplex => None
  end.

Fixpoint nodup_keys {A} (l : list (string * A)) : bool :=
  match l with
  | [] => true
  | (k, _) :: l' => negb (existsb (fun kv => String.eqb k (fst kv)) l') && nodup_keys l'
  end.

(** a struct with [deny_unknown_fields] and only optional fields *)
Fixpoint decode_fields_aux (schema : list (string * vty)) (raw : pdict) : option kv :=
  match raw with
  | [] => Some []
  | (k, p) :: raw' =>
      match get schema k with
      | None => None                                   (* unknown field *)
      | Some t =>
          match decode_ty t p with
          | None => None                               (* invalid type / value *)
          | Some v =>
              match decode_fields_aux schema raw' with
              | Some r => Some ((k, v) :: r)
              | None => None
              end
          end
      end
  end.
Definition decode_fields (schema : list (string * vty)) (raw : pdict) : option kv :=
  if nodup_keys raw then decode_fields_aux schema raw else None.       (* duplicate field *)

(** field types of [struct FontInfoV1] / [struct FontInfoV2] (anchored: AnchorsOK_C14) *)
Definition v1_schema : list (string * vty) := ufo1_schema.
Definition v2_schema : list (string * vty) := ufo2_schema.

(** ** the conversion expressions of the two struct literals *)
(** [fontinfo_vN.x] *)
Definition copy (o : option val) : result (option val) cerr :=
  match o with Some v => Ok (Some v) | None => Ok None end.
(** [.map(|v| v.round() as Integer)] *)
Definition map_round_i32 (o : option val) : result (option val) cerr :=
  match o with
  | Some (VNum v) => Ok (Some (VInt (sat_i32 (f_round v))))
  | Some _ => Err IllTyped
  | None => Ok None
  end.
(** [.map(|v| v.round().abs() as NonNegativeInteger)] *)
Definition map_round_abs_u32 (o : option val) : result (option val) cerr :=
  match o with
  | Some (VNum v) => Ok (Some (VInt (sat_u32 (f_abs (f_round v)))))
  | Some _ => Err IllTyped
  | None => Ok None
  end.
(** [.map(|v| NonNegativeIntegerOrFloat::new(v.abs()).unwrap())]; [new] fails on a value whose
    sign bit is set: an explicit panic site *)
Definition map_abs_num (o : option val) : result (option val) cerr :=
  match o with
  | Some (VNum v) =>
      let a := f_abs v in
      if f_sign_positive a then Ok (Some (VNum a)) else Panic 661
  | Some _ => Err IllTyped
  | None => Ok None
  end.
(** [.map(|v| v.unsigned_abs())] *)
Definition map_unsigned_abs (o : option val) : result (option val) cerr :=
  match o with
  | Some (VInt v) => Ok (Some (VInt (unsigned_abs v)))
  | Some _ => Err IllTyped
  | None => Ok None
  end.
(** [.map(Os2Panose::from)]: ten times [unsigned_abs] *)
Definition map_panose_from (o : option val) : result (option val) cerr :=
  match o with
  | Some (VInts l) => Ok (Some (VInts (map unsigned_abs l)))
  | Some _ => Err IllTyped
  | None => Ok None
  end.
(** [match weightValue { Some(v) => match v { -1 => None, _ => Some(v.unsigned_abs()) }, None => None }] *)
Definition weight_value (o : option val) : result (option val) cerr :=
  match o with
  | Some (VInt v) =>
      match v with
      | -1 => Ok None
      | _ => Ok (Some (VInt (unsigned_abs v)))
      end
  | Some _ => Err IllTyped
  | None => Ok None
  end.
(** the widthName match (string comparison arm by arm, in source order) *)
Definition width_name (o : option val) : result (option val) cerr :=
  match o with
  | Some (VStr v) =>
      if String.eqb v "Ultra-condensed" then Ok (Some (VInt 1))
      else if String.eqb v "Extra-condensed" then Ok (Some (VInt 2))
      else if String.eqb v "Condensed" then Ok (Some (VInt 3))
      else if String.eqb v "Semi-condensed" then Ok (Some (VInt 4))
      else if String.eqb v "Medium (normal)" then Ok (Some (VInt 5))
      else if String.eqb v "Normal" then Ok (Some (VInt 5))
      else if String.eqb v "All" then Ok (Some (VInt 5))
      else if String.eqb v "medium" then Ok (Some (VInt 5))
      else if String.eqb v "Medium" then Ok (Some (VInt 5))
      else if String.eqb v "Semi-expanded" then Ok (Some (VInt 6))
      else if String.eqb v "Expanded" then Ok (Some (VInt 7))
      else if String.eqb v "Extra-expanded" then Ok (Some (VInt 8))
      else if String.eqb v "Ultra-expanded" then Ok (Some (VInt 9))
      else Err (UnknownWidthClass v)
  | Some _ => Err IllTyped
  | None => Ok None
  end.
(** the msCharSet match; the result is the [repr(u8)] discriminant of the variant *)
Definition ms_char_set (o : option val) : result (option val) cerr :=
  match o with
  | Some (VInt v) =>
      match v with
      | 0 => Ok (Some (VInt 1))      (* Ansi *)
      | 1 => Ok (Some (VInt 2))      (* Default *)
      | 2 => Ok (Some (VInt 3))      (* Symbol *)
      | 77 => Ok (Some (VInt 4))     (* Macintosh *)
      | 128 => Ok (Some (VInt 5))    (* ShiftJis *)
      | 129 => Ok (Some (VInt 6))    (* Hangul *)
      | 130 => Ok (Some (VInt 7))    (* HangulJohab *)
      | 134 => Ok (Some (VInt 8))    (* Gb2312 *)
      | 136 => Ok (Some (VInt 9))    (* ChineseBig5 *)
      | 161 => Ok (Some (VInt 10))   (* Greek *)
      | 162 => Ok (Some (VInt 11))   (* Turkish *)
      | 163 => Ok (Some (VInt 12))   (* Vietnamese *)
      | 177 => Ok (Some (VInt 13))   (* Hebrew *)
      | 178 => Ok (Some (VInt 14))   (* Arabic *)
      | 186 => Ok (Some (VInt 15))   (* Baltic *)
      | 200 => Ok (Some (VInt 16))   (* Bitstream *)
      | 204 => Ok (Some (VInt 17))   (* Cyrillic *)
      | 222 => Ok (Some (VInt 18))   (* Thai *)
      | 238 => Ok (Some (VInt 19))   (* EasternEuropean *)
      | 255 => Ok (Some (VInt 20))   (* Oem *)
      | _ => Err (UnknownMsCharSet v)
      end
  | Some _ => Err IllTyped
  | None => Ok None
  end.
(** the fontStyle match; the result is the serialised name of the [StyleMapStyle] variant *)
Definition font_style (o : option val) : result (option val) cerr :=
  match o with
  | Some (VInt v) =>
      match v with
      | 0 | 64 => Ok (Some (VStr "regular"))
      | 1 => Ok (Some (VStr "italic"))
      | 32 => Ok (Some (VStr "bold"))
      | 33 => Ok (Some (VStr "bold italic"))
      | _ => Err (UnknownFontStyle v)
      end
  | Some _ => Err IllTyped
  | None => Ok None
  end.

(** a struct literal: the field expressions are evaluated in source order, the first
    [return Err(..)] wins; [None] fields stay at their default *)
Fixpoint build (l : list (string * result (option val) cerr)) : result kv cerr :=
  match l with
  | [] => Ok []
  | (_, Err e) :: _ => Err e
  | (_, Panic s) :: _ => Panic s
  | (_, Ok None) :: l' => build l'
  | (k, Ok (Some v)) :: l' =>
      match build l' with
      | Ok i => Ok ((k, v) :: i)
      | other => other
      end
  end.

Definition conv_v2 (r : kv) : result kv cerr :=
  build [
    ("ascender", copy (get r "ascender"));
    ("capHeight", copy (get r "capHeight"));
    ("copyright", copy (get r "copyright"));
    ("descender", copy (get r "descender"));
    ("familyName", copy (get r "familyName"));
    ("italicAngle", copy (get r "italicAngle"));
    ("macintoshFONDFamilyID", copy (get r "macintoshFONDFamilyID"));
    ("macintoshFONDName", copy (get r "macintoshFONDName"));
    ("note", copy (get r "note"));
    ("openTypeHeadCreated", copy (get r "openTypeHeadCreated"));
    ("openTypeHeadFlags", copy (get r "openTypeHeadFlags"));
    ("openTypeHeadLowestRecPPEM", map_round_abs_u32 (get r "openTypeHeadLowestRecPPEM"));
    ("openTypeHheaAscender", map_round_i32 (get r "openTypeHheaAscender"));
    ("openTypeHheaCaretOffset", map_round_i32 (get r "openTypeHheaCaretOffset"));
    ("openTypeHheaCaretSlopeRise", copy (get r "openTypeHheaCaretSlopeRise"));
    ("openTypeHheaCaretSlopeRun", copy (get r "openTypeHheaCaretSlopeRun"));
    ("openTypeHheaDescender", map_round_i32 (get r "openTypeHheaDescender"));
    ("openTypeHheaLineGap", map_round_i32 (get r "openTypeHheaLineGap"));
    ("openTypeNameCompatibleFullName", copy (get r "openTypeNameCompatibleFullName"));
    ("openTypeNameDescription", copy (get r "openTypeNameDescription"));
    ("openTypeNameDesigner", copy (get r "openTypeNameDesigner"));
    ("openTypeNameDesignerURL", copy (get r "openTypeNameDesignerURL"));
    ("openTypeNameLicense", copy (get r "openTypeNameLicense"));
    ("openTypeNameLicenseURL", copy (get r "openTypeNameLicenseURL"));
    ("openTypeNameManufacturer", copy (get r "openTypeNameManufacturer"));
    ("openTypeNameManufacturerURL", copy (get r "openTypeNameManufacturerURL"));
    ("openTypeNamePreferredFamilyName", copy (get r "openTypeNamePreferredFamilyName"));
    ("openTypeNamePreferredSubfamilyName", copy (get r "openTypeNamePreferredSubfamilyName"));
    ("openTypeNameSampleText", copy (get r "openTypeNameSampleText"));
    ("openTypeNameUniqueID", copy (get r "openTypeNameUniqueID"));
    ("openTypeNameVersion", copy (get r "openTypeNameVersion"));
    ("openTypeNameWWSFamilyName", copy (get r "openTypeNameWWSFamilyName"));
    ("openTypeNameWWSSubfamilyName", copy (get r "openTypeNameWWSSubfamilyName"));
    ("openTypeOS2CodePageRanges", copy (get r "openTypeOS2CodePageRanges"));
    ("openTypeOS2FamilyClass", copy (get r "openTypeOS2FamilyClass"));
    ("openTypeOS2Panose", map_panose_from (get r "openTypeOS2Panose"));
    ("openTypeOS2Selection", copy (get r "openTypeOS2Selection"));
    ("openTypeOS2StrikeoutPosition", map_round_i32 (get r "openTypeOS2StrikeoutPosition"));
    ("openTypeOS2StrikeoutSize", map_round_i32 (get r "openTypeOS2StrikeoutSize"));
    ("openTypeOS2SubscriptXOffset", map_round_i32 (get r "openTypeOS2SubscriptXOffset"));
    ("openTypeOS2SubscriptXSize", map_round_i32 (get r "openTypeOS2SubscriptXSize"));
    ("openTypeOS2SubscriptYOffset", map_round_i32 (get r "openTypeOS2SubscriptYOffset"));
    ("openTypeOS2SubscriptYSize", map_round_i32 (get r "openTypeOS2SubscriptYSize"));
    ("openTypeOS2SuperscriptXOffset", map_round_i32 (get r "openTypeOS2SuperscriptXOffset"));
    ("openTypeOS2SuperscriptXSize", map_round_i32 (get r "openTypeOS2SuperscriptXSize"));
    ("openTypeOS2SuperscriptYOffset", map_round_i32 (get r "openTypeOS2SuperscriptYOffset"));
    ("openTypeOS2SuperscriptYSize", map_round_i32 (get r "openTypeOS2SuperscriptYSize"));
    ("openTypeOS2Type", copy (get r "openTypeOS2Type"));
    ("openTypeOS2TypoAscender", map_round_i32 (get r "openTypeOS2TypoAscender"));
    ("openTypeOS2TypoDescender", map_round_i32 (get r "openTypeOS2TypoDescender"));
    ("openTypeOS2TypoLineGap", map_round_i32 (get r "openTypeOS2TypoLineGap"));
    ("openTypeOS2UnicodeRanges", copy (get r "openTypeOS2UnicodeRanges"));
    ("openTypeOS2VendorID", copy (get r "openTypeOS2VendorID"));
    ("openTypeOS2WeightClass", copy (get r "openTypeOS2WeightClass"));
    ("openTypeOS2WidthClass", copy (get r "openTypeOS2WidthClass"));
    ("openTypeOS2WinAscent", map_round_abs_u32 (get r "openTypeOS2WinAscent"));
    ("openTypeOS2WinDescent", map_round_abs_u32 (get r "openTypeOS2WinDescent"));
    ("openTypeVheaCaretOffset", map_round_i32 (get r "openTypeVheaCaretOffset"));
    ("openTypeVheaCaretSlopeRise", copy (get r "openTypeVheaCaretSlopeRise"));
    ("openTypeVheaCaretSlopeRun", copy (get r "openTypeVheaCaretSlopeRun"));
    ("openTypeVheaVertTypoAscender", map_round_i32 (get r "openTypeVheaVertTypoAscender"));
    ("openTypeVheaVertTypoDescender", map_round_i32 (get r "openTypeVheaVertTypoDescender"));
    ("openTypeVheaVertTypoLineGap", map_round_i32 (get r "openTypeVheaVertTypoLineGap"));
    ("postscriptBlueFuzz", copy (get r "postscriptBlueFuzz"));
    ("postscriptBlueScale", copy (get r "postscriptBlueScale"));
    ("postscriptBlueShift", copy (get r "postscriptBlueShift"));
    ("postscriptBlueValues", copy (get r "postscriptBlueValues"));
    ("postscriptDefaultCharacter", copy (get r "postscriptDefaultCharacter"));
    ("postscriptDefaultWidthX", copy (get r "postscriptDefaultWidthX"));
    ("postscriptFamilyBlues", copy (get r "postscriptFamilyBlues"));
    ("postscriptFamilyOtherBlues", copy (get r "postscriptFamilyOtherBlues"));
    ("postscriptFontName", copy (get r "postscriptFontName"));
    ("postscriptForceBold", copy (get r "postscriptForceBold"));
    ("postscriptFullName", copy (get r "postscriptFullName"));
    ("postscriptIsFixedPitch", copy (get r "postscriptIsFixedPitch"));
    ("postscriptNominalWidthX", copy (get r "postscriptNominalWidthX"));
    ("postscriptOtherBlues", copy (get r "postscriptOtherBlues"));
    ("postscriptSlantAngle", copy (get r "postscriptSlantAngle"));
    ("postscriptStemSnapH", copy (get r "postscriptStemSnapH"));
    ("postscriptStemSnapV", copy (get r "postscriptStemSnapV"));
    ("postscriptUnderlinePosition", copy (get r "postscriptUnderlinePosition"));
    ("postscriptUnderlineThickness", copy (get r "postscriptUnderlineThickness"));
    ("postscriptUniqueID", copy (get r "postscriptUniqueID"));
    ("postscriptWeightName", copy (get r "postscriptWeightName"));
    ("postscriptWindowsCharacterSet", copy (get r "postscriptWindowsCharacterSet"));
    ("styleMapFamilyName", copy (get r "styleMapFamilyName"));
    ("styleMapStyleName", copy (get r "styleMapStyleName"));
    ("styleName", copy (get r "styleName"));
    ("trademark", copy (get r "trademark"));
    ("unitsPerEm", map_abs_num (get r "unitsPerEm"));
    ("versionMajor", copy (get r "versionMajor"));
    ("versionMinor", map_unsigned_abs (get r "versionMinor"));
    ("xHeight", copy (get r "xHeight"));
    ("year", copy (get r "year"))
  ].

Definition conv_v1 (r : kv) : result kv cerr :=
  build [
    ("ascender", copy (get r "ascender"));
    ("capHeight", copy (get r "capHeight"));
    ("copyright", copy (get r "copyright"));
    ("descender", copy (get r "descender"));
    ("familyName", copy (get r "familyName"));
    ("italicAngle", copy (get r "italicAngle"));
    ("macintoshFONDFamilyID", copy (get r "fondID"));
    ("macintoshFONDName", copy (get r "fondName"));
    ("note", copy (get r "note"));
    ("openTypeNameCompatibleFullName", copy (get r "otMacName"));
    ("openTypeNameDescription", copy (get r "notice"));
    ("openTypeNameDesignerURL", copy (get r "designerURL"));
    ("openTypeNameDesigner", copy (get r "designer"));
    ("openTypeNameLicenseURL", copy (get r "licenseURL"));
    ("openTypeNameLicense", copy (get r "license"));
    ("openTypeNameManufacturerURL", copy (get r "vendorURL"));
    ("openTypeNameManufacturer", copy (get r "createdBy"));
    ("openTypeNamePreferredFamilyName", copy (get r "otFamilyName"));
    ("openTypeNamePreferredSubfamilyName", copy (get r "otStyleName"));
    ("openTypeNameUniqueID", copy (get r "ttUniqueID"));
    ("openTypeNameVersion", copy (get r "ttVersion"));
    ("openTypeOS2VendorID", copy (get r "ttVendor"));
    ("openTypeOS2WeightClass", weight_value (get r "weightValue"));
    ("openTypeOS2WidthClass", width_name (get r "widthName"));
    ("postscriptDefaultWidthX", copy (get r "defaultWidth"));
    ("postscriptFontName", copy (get r "fontName"));
    ("postscriptFullName", copy (get r "fullName"));
    ("postscriptSlantAngle", copy (get r "slantAngle"));
    ("postscriptUniqueID", copy (get r "uniqueID"));
    ("postscriptWeightName", copy (get r "weightName"));
    ("postscriptWindowsCharacterSet", ms_char_set (get r "msCharSet"));
    ("styleMapFamilyName", copy (get r "menuName"));
    ("styleMapStyleName", font_style (get r "fontStyle"));
    ("styleName", copy (get r "styleName"));
    ("trademark", copy (get r "trademark"));
    ("unitsPerEm", map_abs_num (get r "unitsPerEm"));
    ("versionMajor", copy (get r "versionMajor"));
    ("versionMinor", map_unsigned_abs (get r "versionMinor"));
    ("xHeight", copy (get r "xHeight"));
    ("year", copy (get r "year"))
  ].

(** ** [FontInfo::validate] on a converted info

    The validator is C13's model [FontInfo.fi_validate] (Model/FontInfo.v, characterised by
    [C13_validate_iff_spec]), applied to the PROJECTION of the key-value info onto C13's record
    of rule-relevant fields.  What the projection keeps and forgets:
      - kept: openTypeHeadCreated (as bytes), openTypeOS2Selection, openTypeOS2FamilyClass (as
        unsigned numbers -- exact on typed infos, see [project_exact]), and the LENGTHS of the six
        PostScript lists postscript{Blue,OtherBlues,FamilyBlues,FamilyOtherBlues}Values /
        postscriptStemSnap{H,V};
      - forgotten: the values of the members of those six lists (every member becomes 0: the
        rules look at lengths only), and every other attribute (no rule reads them);
      - set to [None]: openTypeGaspRangeRecords, guidelines and the five WOFF attributes the rules
        read -- no legacy conversion can set them ([load_complex_absent] proves that they are
        absent from every loaded legacy info, so [None] is exact there). *)
Inductive kerr : Type :=
| KConv (e : cerr)                                   (* UnknownFontStyle / MsCharSet / WidthClass *)
| KBadDate                                           (* InvalidOpenTypeHeadCreatedDate *)
| KSelection                                         (* DisallowedSelectionBits *)
| KFamilyClass                                       (* InvalidOs2FamilyClass *)
| KListLen (name : string) (max len : Z)             (* InvalidPostscriptListLength *)
| KListPairs (name : string)                         (* PostscriptListMustBePairs *)
| KOther (name : string).                            (* a rule no converted info can trip *)

Definition bytes_of (s : string) : list N := map N_of_ascii (list_ascii_of_string s).

Definition proj_list (i : kv) (k : string) : option (list Z) :=
  match get i k with
  | Some (VNums l) => Some (map (fun _ => 0) l)
  | _ => None
  end.

Definition project (i : kv) : FontInfo.info :=
  {| FontInfo.i_date :=
       match get i "openTypeHeadCreated" with Some (VStr s) => Some (bytes_of s) | _ => None end;
     FontInfo.i_gasp := None;
     FontInfo.i_guides := None;
     FontInfo.i_selection :=
       match get i "openTypeOS2Selection" with Some (VInts l) => Some (map Z.to_N l) | _ => None end;
     FontInfo.i_class :=
       match get i "openTypeOS2FamilyClass" with
       | Some (VInts [a; b]) => Some (Z.to_N a, Z.to_N b)
       | _ => None
       end;
     FontInfo.i_blue := proj_list i "postscriptBlueValues";
     FontInfo.i_oblue := proj_list i "postscriptOtherBlues";
     FontInfo.i_fblue := proj_list i "postscriptFamilyBlues";
     FontInfo.i_foblue := proj_list i "postscriptFamilyOtherBlues";
     FontInfo.i_stemh := proj_list i "postscriptStemSnapH";
     FontInfo.i_stemv := proj_list i "postscriptStemSnapV";
     FontInfo.i_wext := None;
     FontInfo.i_wcredits := None;
     FontInfo.i_wcopyright := None;
     FontInfo.i_wdescr := None;
     FontInfo.i_wtrade := None |}.

Definition kerr_of (e : FontInfo.fi_err) : kerr :=
  match e with
  | FontInfo.EDate => KBadDate
  | FontInfo.ESelection => KSelection
  | FontInfo.EClass => KFamilyClass
  | FontInfo.EListLen name max len => KListLen name (Z.of_nat max) (Z.of_nat len)
  | FontInfo.EPairs name => KListPairs name
  | other => KOther (FontInfo.err_name other)
  end.

Definition validate (i : kv) : result unit kerr :=
  match FontInfo.fi_validate (project i) with
  | Ok _ => Ok tt
  | Err e => Err (kerr_of e)
  | Panic s => Panic s
  end.

(** ** [FontInfo::from_file] for the two legacy versions, parametrised by the converter so that
    the specification's table-driven converter can be plugged into the same pipeline *)
Inductive lerr : Type :=
| EFontInfoParse                 (* FontLoadError::FontInfo(ParsePlist) *)
| EFontInfoUpconv (e : kerr)     (* FontLoadError::FontInfo(FontInfoUpconversion(kind)) *)
| ELibParse                      (* FontLoadError::ParsePlist { lib.plist } (second read) *)
| EV1Lib (e : kerr)              (* FontLoadError::FontInfoV1Upconversion(kind) *)
| EVersion.                      (* not a legacy version: outside this model *)

Definition from_file_with (conv : Z -> kv -> result kv cerr) (version : Z) (raw : pdict)
  : result kv lerr :=
  let schema := if version =? 1 then v1_schema else v2_schema in
  match decode_fields schema raw with
  | None => Err EFontInfoParse
  | Some r =>
      match conv version r with
      | Err e => Err (EFontInfoUpconv (KConv e))
      | Panic s => Panic s
      | Ok i =>
          match validate i with
          | Err e => Err (EFontInfoUpconv e)
          | Panic s => Panic s
          | Ok _ => Ok i
          end
      end
  end.

Definition conv_code (version : Z) (r : kv) : result kv cerr :=
  if version =? 1 then conv_v1 r else conv_v2 r.
Definition conv_spec (version : Z) (r : kv) : result kv cerr :=
  table_convert (if version =? 1 then spec_v1_table else spec_v2_table) r.

(** ** RoboFab lib data (format 1 only) *)
Inductive hval := HVNum (x : f64) | HVBool (b : bool) | HVNums (l : list f64)
                | HVNumss (l : list (list f64)).

(** fields of [struct PsHintingData] (camelCase); unknown keys are ignored *)
Definition hint_schema : list (string * hty) :=
  [("blueFuzz", HNum); ("blueScale", HNum); ("blueShift", HNum); ("blueValues", HNumss);
   ("familyBlues", HNumss); ("familyOtherBlues", HNumss); ("forceBold", HBool);
   ("otherBlues", HNumss); ("hStems", HNums); ("vStems", HNums)].

Definition decode_hty (t : hty) (p : pval) : option hval :=
  match t with
  | HNum => option_map HVNum (p_num p)
  | HBool => match p with PBool b => Some (HVBool b) | _ => None end
  | HNums => option_map HVNums (p_list p_num p)
  | HNumss => option_map HVNumss (p_list (p_list p_num) p)
  end.

Fixpoint decode_hint (d : pdict) : option (list (string * hval)) :=
  match d with
  | [] => Some []
  | (k, p) :: d' =>
      match get hint_schema k with
      | None => decode_hint d'                          (* ignored *)
      | Some t =>
          match decode_hty t p, decode_hint d' with
          | Some v, Some r => Some ((k, v) :: r)
          | _, _ => None
          end
      end
  end.

Record libdata := {
  ld_hint : option (list (string * hval));
  ld_classes : option string;
  ld_order : option (list string);
  ld_features : option (list (string * string)) }.

Definition opt_field {A} (l : pdict) (k : string) (f : pval -> option A) : option (option A) :=
  match get l k with
  | None => Some None
  | Some p => match f p with Some a => Some (Some a) | None => None end
  end.

Definition p_str_dict (p : pval) : option (list (string * string)) :=
  match p with
  | PDict d => all_some (map (fun kp => option_map (pair (fst kp)) (p_str (snd kp))) d)
  | _ => None
  end.

Definition decode_libdata (l : pdict) : option libdata :=
  match opt_field l LIB_HINT (fun p => match p with PDict d => if nodup_keys d then decode_hint d else None | _ => None end),
        opt_field l LIB_CLASSES p_str,
        opt_field l LIB_ORDER (p_list p_str),
        opt_field l LIB_FEATURES p_str_dict with
  | Some h, Some c, Some o, Some f =>
      Some {| ld_hint := h; ld_classes := c; ld_order := o; ld_features := f |}
  | _, _, _, _ => None
  end.

(** feature text: classes, then (if a features dictionary exists) a line feed and the blocks in
    the order of the order list (tags without a block are skipped, blocks that are not listed
    are dropped, a tag listed twice is emitted twice); without an order list the blocks come in
    the key order of the [BTreeMap] they are read into: ascending, byte-wise *)
Inductive order_mode := OrderHash | OrderSorted.

Definition sconcat (l : list string) : string := fold_right String.append "" l.

Definition str_leb (a b : string) : bool :=
  match String.compare a b with Gt => false | _ => true end.
Fixpoint insert_sorted (k : string) (l : list string) : list string :=
  match l with
  | [] => [k]
  | x :: l' => if str_leb k x then k :: l else x :: insert_sorted k l'
  end.
Definition sort_keys (l : list string) : list string := fold_right insert_sorted [] l.

Definition feature_text (ld : libdata) : string :=
  let classes := match ld_classes ld with Some c => c | None => "" end in
  match ld_features ld with
  | None => classes
  | Some fs =>
      let order := match ld_order ld with Some o => o | None => sort_keys (map fst fs) end in
      classes ++ String (ascii_of_N 10) "" ++
      sconcat (map (fun k => match get fs k with Some t => t | None => "" end) order)
  end.

(** [font_info.x = value] for an [Option] field *)
Definition remove_key {A} (k : string) (i : list (string * A)) : list (string * A) :=
  filter (fun kv => negb (String.eqb k (fst kv))) i.
Definition assign (k : string) (o : option val) (i : kv) : kv :=
  match o with
  | Some v => (k, v) :: remove_key k i
  | None => remove_key k i
  end.

Definition h_num (h : list (string * hval)) (k : string) : option val :=
  match get h k with Some (HVNum x) => Some (VNum x) | _ => None end.
Definition h_bool (h : list (string * hval)) (k : string) : option val :=
  match get h k with Some (HVBool b) => Some (VBool b) | _ => None end.
Definition h_nums (h : list (string * hval)) (k : string) : option val :=
  match get h k with Some (HVNums l) => Some (VNums l) | _ => None end.
Definition h_flat (h : list (string * hval)) (k : string) : option val :=
  match get h k with Some (HVNumss l) => Some (VNums (List.concat l)) | _ => None end.
(** [if let Some(x) = hint.x { font_info.y = Some(flatten x) }] *)
Definition assign_some (k : string) (o : option val) (i : kv) : kv :=
  match o with Some v => assign k (Some v) i | None => i end.

(** the assignments of the hint block, statement by statement *)
Definition apply_hints (h : list (string * hval)) (i : kv) : kv :=
  let i := assign "postscriptBlueFuzz" (h_num h "blueFuzz") i in
  let i := assign "postscriptBlueScale" (h_num h "blueScale") i in
  let i := assign "postscriptBlueShift" (h_num h "blueShift") i in
  let i := assign_some "postscriptBlueValues" (h_flat h "blueValues") i in
  let i := assign_some "postscriptOtherBlues" (h_flat h "otherBlues") i in
  let i := assign_some "postscriptFamilyBlues" (h_flat h "familyBlues") i in
  let i := assign_some "postscriptFamilyOtherBlues" (h_flat h "familyOtherBlues") i in
  let i := assign "postscriptForceBold" (h_bool h "forceBold") i in
  let i := assign "postscriptStemSnapH" (h_nums h "hStems") i in
  let i := assign "postscriptStemSnapV" (h_nums h "vStems") i in
  i.

(** the same, driven by the specification's table *)
Definition hint_value (h : list (string * hval)) (hk : string) (s : hshape) : option val :=
  match s, get h hk with
  | HAssign HNum, Some (HVNum x) => Some (VNum x)
  | HAssign HBool, Some (HVBool b) => Some (VBool b)
  | HAssign HNums, Some (HVNums l) => Some (VNums l)
  | HFlatten, Some (HVNumss l) => Some (VNums (List.concat l))
  | _, _ => None
  end.
Definition apply_hint_table (t : list (string * string * hshape)) (h : list (string * hval))
  (i : kv) : kv :=
  fold_left (fun i '(k, hk, s) =>
               match s with
               | HAssign _ => assign k (hint_value h hk s) i
               | HFlatten => assign_some k (hint_value h hk s) i
               end) t i.

Definition remove_keys {A} (ks : list string) (l : list (string * A)) : list (string * A) :=
  filter (fun kv => negb (mem (fst kv) ks)) l.

(** [upconvert_ufov1_robofab_data]: (info, lib, Some features | None) *)
Definition robofab_with (hints : list (string * hval) -> kv -> kv)
  (libfile : pdict) (lib : pdict) (info : kv)
  : result (kv * pdict * option string) lerr :=
  match decode_libdata libfile with
  | None => Err ELibParse
  | Some ld =>
      let features := feature_text ld in
      let step (info' : kv) :=
        let lib' := remove_keys robofab_lib_keys lib in
        Ok (info', lib', if String.eqb features "" then None else Some features) in
      match ld_hint ld with
      | Some h =>
          let info' := hints h info in
          match validate info' with
          | Err e => Err (EV1Lib e)
          | Panic s => Panic s
          | Ok _ => step info'
          end
      | None => step info
      end
  end.

(** ** the part of [Font::load_impl] this property is about *)
Record ufo := {
  u_version : Z;                       (* metainfo.plist formatVersion: 1 or 2 *)
  u_fontinfo : option pdict;           (* fontinfo.plist, if the file exists *)
  u_lib : option pdict;                (* lib.plist (a dictionary), if the file exists *)
  u_features : option string }.        (* features.fea, if the file exists *)

(** the part of a [DataRequest] the mechanism looks at (the other switches -- layers, groups,
    kerning, data, images -- select files this model does not contain) *)
Record request := {
  q_lib : bool;                        (* request.lib *)
  q_features : bool }.                 (* request.features *)
Definition req_all : request := {| q_lib := true; q_features := true |}.

Definition PUBLIC_OBJECT_LIBS_KEY : string := "public.objectLibs".

Record loaded := {
  l_version : Z;
  l_info : kv;
  l_features : string;
  l_lib : pdict }.

Definition load_with (conv : Z -> kv -> result kv cerr)
  (hints : list (string * hval) -> kv -> kv) (q : request) (u : ufo)
  : result loaded lerr :=
  if negb ((u_version u =? 1) || (u_version u =? 2)) then Err EVersion else
  (* [if request.lib && lib_path.exists() { load_lib } else { Plist::new() }] *)
  let lib0 := match (if q_lib q then u_lib u else None) with Some l => l | None => [] end in
  match (match u_fontinfo u with
         | Some raw => from_file_with conv (u_version u) raw
         | None => Ok []
         end) with
  | Err e => Err e
  | Panic s => Panic s
  | Ok info =>
      (* [lib.remove(PUBLIC_OBJECT_LIBS_KEY)], unconditionally, after the font info is obtained *)
      let lib := remove_key PUBLIC_OBJECT_LIBS_KEY lib0 in
      (* [if request.features && features_path.exists() { load_features } else { default }] *)
      let features := match (if q_features q then u_features u else None) with
                      | Some f => f | None => "" end in
      (* [if meta.format_version == V1 && lib_path.exists()]: the FILE is read again, whether or
         not the lib was requested *)
      match (if u_version u =? 1 then u_lib u else None) with
      | Some libfile =>
          match robofab_with hints libfile lib info with
          | Err e => Err e
          | Panic s => Panic s
          | Ok (info', lib', fo) =>
              let features' := match fo with
                               | Some f => if String.eqb f "" then features else f
                               | None => features
                               end in
              Ok {| l_version := 3; l_info := info'; l_features := features'; l_lib := lib' |}
          end
      | None => Ok {| l_version := 3; l_info := info; l_features := features; l_lib := lib |}
      end
  end.

(** the model of the code, and the same pipeline with the specification's tables *)
Definition load_model : request -> ufo -> result loaded lerr := load_with conv_code apply_hints.
Definition load_spec : request -> ufo -> result loaded lerr :=
  load_with conv_spec (apply_hint_table spec_hint_table).

