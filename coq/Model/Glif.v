(** The glyph value type (src/glyph/mod.rs, shared_types.rs, guideline.rs) and norad's own leaf
    readers for names, identifiers, colours, code points and image file names.
    Definitions only. *)
Require Export Norad.Model.Plist Norad.Model.Contour.
Open Scope N_scope.

Definition color := (fl * fl * fl * fl)%type.

Record transform := mkT { xScale : fl; xyScale : fl; yxScale : fl; yScale : fl; xOffset : fl; yOffset : fl }.
Definition t_identity : transform := mkT f1 f0 f0 f1 f0 f0.

Record point := mkPoint {
  px : fl; py : fl; ptyp : ptype; psmooth : bool;
  pname : option str; pid : option str; plib : option dict }.
Record contour := mkContour { cpoints : list point; cid : option str; clib : option dict }.
Record component := mkComp { cbase : str; ctrans : transform; coid : option str; colib : option dict }.
Record anchor := mkAnchor {
  ax : fl; ay : fl; aname : option str; acolor : option color; aid : option str; alib : option dict }.
Inductive line := LVert (x : fl) | LHoriz (y : fl) | LAngle (x y deg : fl).
Record guideline := mkGuide {
  gline : line; guname : option str; gcolor : option color; guid : option str; gulib : option dict }.
Record image := mkImage { ifile : str; icolor : option color; itrans : transform }.

Record glyph := mkGlyph {
  gname : str;
  gwidth : fl;
  gheight : fl;
  gcps : list N;                 (* insertion-ordered set of code points *)
  gnote : option str;
  gimage : option image;
  gguides : list guideline;
  ganchors : list anchor;
  gcomps : list component;
  gcontours : list contour;
  glib : dict }.

Definition glyph_new (name : str) : glyph :=
  mkGlyph name f0 f0 [] None None [] [] [] [] [].

(** ---------- norad's own leaf readers ---------- *)
(** [Name::new]: non-empty, no C0/C1 control characters, no DEL (tested on chars) *)
Definition is_control (c : N) : bool := (c <=? 31) || (c =? 127) || ((128 <=? c) && (c <=? 159)).
Definition name_valid (s : str) : bool :=
  match s with [] => false | _ => forallb (fun c => negb (is_control c)) s end.

(** [Identifier::new]: at most 100 bytes, all printable ASCII (so bytes = characters) *)
Definition ident_valid (s : str) : bool :=
  (List.length s <=? 100)%nat && forallb (fun c => (32 <=? c) && (c <=? 126)) s.

Fixpoint split_on_aux (sep : N) (cur : str) (s : str) : list str :=
  match s with
  | [] => [rev cur]
  | c :: r => if c =? sep then rev cur :: split_on_aux sep [] r else split_on_aux sep (c :: cur) r
  end.
(** [str::split(sep)] *)
Definition split_on (sep : N) (s : str) : list str := split_on_aux sep [] s.

Definition unit_range (x : fl) : bool := fl_leb f0 x && fl_leb x f1.

(** [PointType::from_str] *)
Definition ptype_of (s : str) : option ptype :=
  if str_eqb s (s2l "move") then Some Move
  else if str_eqb s (s2l "line") then Some Line
  else if str_eqb s (s2l "offcurve") then Some Off
  else if str_eqb s (s2l "curve") then Some Curve
  else if str_eqb s (s2l "qcurve") then Some QCurve
  else None.

(** [u32::from_str_radix(_, 16)] then [char::try_from] *)
Definition is_scalar (c : N) : bool := (c <=? 1114111) && negb ((55296 <=? c) && (c <=? 57343)).
Definition parse_hex (s : str) : option N :=
  match unsigned_of hex_val s with
  | Some n => if (n <? 2 ^ 32) && is_scalar n then Some n else None
  | None => None
  end.
(** [str::parse::<u32>] *)
Definition parse_u32 (s : str) : option N :=
  match unsigned_of dec_val s with
  | Some n => if n <? 2 ^ 32 then Some n else None
  | None => None
  end.

(** [Image::new]: not empty, not absolute, [Path::parent] empty.  [Path::components] of a
    relative path: empty parts vanish, [.] vanishes except in first position. *)
Definition path_components (s : str) : list str :=
  match split_on 47 s with
  | first :: rest =>
      (match first with [] => [] | _ => [first] end)
      ++ filter (fun p => match p with [] => false | _ => negb (str_eqb p [46]) end) rest
  | [] => []
  end.
Definition file_ok (s : str) : bool :=
  match s with
  | [] => false
  | c :: _ => negb (c =? 47) && (List.length (path_components s) <=? 1)%nat
  end.

(** [Codepoints::insert] (an IndexSet): keeps the first position *)
Definition cps_insert (c : N) (l : list N) : list N :=
  if existsb (N.eqb c) l then l else l ++ [c].

Section Leaf.
  Variable pf : str -> option fl.
  (** [Color::from_str]: exactly four comma-separated numbers, each within 0..=1 *)
  Definition parse_color (s : str) : option color :=
    match split_on 44 s with
    | [a; b; c; d] =>
        match pf a, pf b, pf c, pf d with
        | Some r, Some g, Some bl, Some al =>
            if unit_range r && unit_range g && unit_range bl && unit_range al
            then Some (r, g, bl, al) else None
        | _, _, _, _ => None
        end
    | _ => None
    end.
End Leaf.

Definition pt_of (p : point) : pt := (ptyp p, psmooth p).
Definition objlibs_key : str := s2l "public.objectLibs".
