(** C07 — model of norad's "user name to file name" algorithm (src/util.rs,
    [user_name_to_file_name] and its two wrappers), as the code is now (after fix 307c683).
    Definitions only; proofs are in Proofs/FileNameP.v.  Style: stdlib lists.

    Text is a list of code points ([N]); byte lengths are UTF-8 lengths ([blen]).  The two
    library functions the algorithm calls, [char::is_uppercase] and [str::to_lowercase], are
    Section variables about which NOTHING is assumed. *)
From Coq Require Import Ascii String.
Require Import Norad.Model.Base.
Open Scope N_scope.

(** Coq string literal -> code points (ASCII only; used to write the constants readably) *)
Definition s2l (s : string) : str := map N_of_ascii (list_ascii_of_string s).

Definition DOT : N := 46.
Definition SPACE : N := 32.
Definition USCORE : N := 95.

(** Constants of util.rs / layer.rs.  Each of them is an anchor: lib/anchors_c07.py extracts the
    value from the source on every run and Anchors/AnchorsOK_C07.v proves it equal. *)
Definition SPECIAL_ILLEGAL : list N :=
  Eval vm_compute in s2l ":?""()[]*/\+<>|".
Definition SPECIAL_RESERVED : list str :=
  Eval vm_compute in
    map s2l ["con"; "prn"; "aux"; "nul"; "com1"; "com2"; "com3"; "com4"; "com5"; "com6"; "com7";
             "com8"; "com9"; "lpt1"; "lpt2"; "lpt3"; "lpt4"; "lpt5"; "lpt6"; "lpt7"; "lpt8";
             "lpt9"]%string.
Definition MAX_LEN : N := 255.
Definition NUMBER_LEN : N := 2.
Definition COUNTER_FIRST : N := 1.     (* for counter in 1..100u8 *)
Definition COUNTER_END : N := 100.
Definition GLYPH_PREFIX : str := [].
Definition GLYPH_SUFFIX : str := Eval vm_compute in s2l ".glif".
Definition LAYER_PREFIX : str := Eval vm_compute in s2l "glyphs.".
Definition LAYER_SUFFIX : str := [].
Definition DEFAULT_LAYER_NAME : str := Eval vm_compute in s2l "public.default".
Definition DEFAULT_GLYPHS_DIRNAME : str := Eval vm_compute in s2l "glyphs".

(** UTF-8 byte length of a scalar value / of a text ([str::len]) *)
Definition utf8_len (c : N) : N :=
  if c <? 128 then 1 else if c <? 2048 then 2 else if c <? 65536 then 3 else 4.
Fixpoint blen (s : str) : N := match s with [] => 0 | c :: r => utf8_len c + blen r end.

Definition isnil (s : str) : bool := match s with [] => true | _ => false end.
Definition memb (c : N) (l : list N) : bool := existsb (N.eqb c) l.
Definition illegalb (c : N) : bool := memb c SPECIAL_ILLEGAL.
Definition is_ds (c : N) : bool := (c =? DOT) || (c =? SPACE).
Definition has_dot (s : str) : bool := memb DOT s.

(** [result.split('.').next()]: the text before the first period *)
Fixpoint stem (s : str) : str :=
  match s with [] => [] | c :: r => if c =? DOT then [] else c :: stem r end.
Definition is_reserved (s : str) : bool := existsb (str_eqb s) SPECIAL_RESERVED.

(** [truncate] at the largest char boundary <= [limit]: longest prefix of at most [limit] bytes *)
Fixpoint clip (limit : N) (s : str) : str :=
  match s with
  | [] => []
  | c :: r => if utf8_len c <=? limit then c :: clip (limit - utf8_len c) r else []
  end.

(** The trailing run of periods/spaces is replaced by underscores, but only from byte offset
    [plen] (the end of the prefix) on.  [off] = byte offset of the head of [s].  The code scans
    from the right and stops at the first char that is not '.'/' ' or starts before [plen]; the
    replaced part is therefore the longest all-'.'/' ' tail starting at an offset >= [plen]. *)
Fixpoint fix_trail (plen off : N) (s : str) : str :=
  match s with
  | [] => []
  | c :: r =>
      if (plen <=? off) && forallb is_ds s then map (fun _ => USCORE) s
      else c :: fix_trail plen (off + utf8_len c) r
  end.

(** [write!("{:0>2}", counter)] for counter < 100 *)
Definition two_digits (n : N) : str := [48 + n / 10; 48 + n mod 10].

Section U2F.
  Variable is_upper : N -> bool.        (* char::is_uppercase *)
  Variable lower : str -> str.          (* str::to_lowercase  *)

  (** one iteration of [for c in name.chars()]; [at_start] = [result.is_empty()] *)
  Definition esc1 (at_start : bool) (c : N) : str :=
    if at_start && (c =? DOT) then [USCORE]
    else if illegalb c then [USCORE]
    else if is_upper c then [c; USCORE]
    else [c].
  Fixpoint escape (at_start : bool) (name : str) : str :=
    match name with [] => [] | c :: r => esc1 at_start c ++ escape false r end.

  (** prefix + escaped name *)
  Definition escaped (name prefix : str) : str := prefix ++ escape (isnil prefix) name.

  (** reserved stem: '_' goes to the very front and [prefix_len] grows by one *)
  Definition reserved_fix (name prefix : str) : str * N :=
    let r0 := escaped name prefix in
    if is_reserved (stem r0) then (USCORE :: r0, blen prefix + 1) else (r0, blen prefix).

  (** prefix + name, clipped, trailing periods/spaces replaced: [result] just before
      [result.push_str(suffix)] *)
  Definition base (name prefix suffix : str) : str :=
    let '(r1, plen) := reserved_fix name prefix in
    let r2 := if MAX_LEN <? blen r1 + blen suffix then clip (MAX_LEN - blen suffix) r1 else r1 in
    if isnil suffix then fix_trail plen 0 r2 else r2.

  (** the clash loop: candidates [st ++ NN ++ suffix] for NN = n, n+1, ... ([fuel] of them) *)
  Fixpoint try_counter (fuel : nat) (n : N) (st suffix : str) (accept : str -> bool)
    : option str :=
    match fuel with
    | O => None
    | S f => let cand := st ++ two_digits n ++ suffix in
             if accept (lower cand) then Some cand
             else try_counter f (n + 1) st suffix accept
    end.

  (** what the counter is appended to: [result] after "cut off the suffix (plus the space
      needed for the number counter if necessary)" *)
  Definition counter_stem (name prefix suffix : str) : str :=
    let r3 := base name prefix suffix in
    let full := r3 ++ suffix in
    if MAX_LEN <? (blen full - blen suffix) + NUMBER_LEN
    then clip (MAX_LEN - blen suffix - NUMBER_LEN) full
    else r3.

  (** [user_name_to_file_name(name, prefix, suffix, accept)]; [None] = the documented panic
      "Could not find a unique file name after 99 tries". *)
  Definition u2f (name prefix suffix : str) (accept : str -> bool) : option str :=
    let full := base name prefix suffix ++ suffix in
    if accept (lower full) then Some full
    else try_counter (N.to_nat (COUNTER_END - COUNTER_FIRST)) COUNTER_FIRST
                     (counter_stem name prefix suffix) suffix accept.

  (** the two wrappers of util.rs; [taken] = the caller's set of lower-cased names in use *)
  Definition not_in (taken : list str) (cand : str) : bool :=
    negb (existsb (str_eqb cand) taken).
  Definition glyph_file_name (name : str) (accept : str -> bool) : option str :=
    u2f name GLYPH_PREFIX GLYPH_SUFFIX accept.
  Definition layer_dir_name (name : str) (accept : str -> bool) : option str :=
    u2f name LAYER_PREFIX LAYER_SUFFIX accept.

  (** ------------------------------------------------------------------------------------
      Known class F1 (DESIGN section 1): the first candidate was rejected and the clipped stem
      leaves no room for the two counter digits, while the code's own guard
      ([len - |suffix| + 2 > 255]) does not fire (it can only fire for |suffix| <= 1). *)
  Definition ClippedClash (name prefix suffix : str) (accept : str -> bool) : Prop :=
    accept (lower (base name prefix suffix ++ suffix)) = false /\
    blen (base name prefix suffix) + NUMBER_LEN <= MAX_LEN /\
    MAX_LEN < blen (base name prefix suffix) + NUMBER_LEN + blen suffix.
  Definition clipped_clashb (name prefix suffix : str) (accept : str -> bool) : bool :=
    negb (accept (lower (base name prefix suffix ++ suffix))) &&
    (blen (base name prefix suffix) + NUMBER_LEN <=? MAX_LEN) &&
    (MAX_LEN <? blen (base name prefix suffix) + NUMBER_LEN + blen suffix).
End U2F.

(** ---------------------------------------------------------------------------------------
    Specification vocabulary (what the property text says about a returned name). *)

(** [Name::new]'s validity: non-empty, no control characters *)
Definition controlb (c : N) : bool := (c <=? 31) || (c =? 127) || ((128 <=? c) && (c <=? 159)).
Definition name_valid (s : str) : Prop := s <> [] /\ Forall (fun c => controlb c = false) s.
Definition name_validb (s : str) : bool := negb (isnil s) && forallb (fun c => negb (controlb c)) s.

(** a single path component: not empty, not "." or "..", no separator *)
Definition single_component (r : str) : Prop :=
  r <> [] /\ r <> [DOT] /\ r <> [DOT; DOT] /\ ~ In 47 r /\ ~ In 92 r.

(** affixes the caller controls (the [debug_assert!]s of the function) *)
Definition affix_chars_ok (a : str) : Prop :=
  Forall (fun c => illegalb c = false /\ controlb c = false) a.
Definition suffix_ok (suffix : str) : Prop :=
  (suffix = [] \/ exists t, suffix = DOT :: t) /\
  (forall m c, suffix = m ++ [c] -> is_ds c = false).

(** ASCII case folding, for the case-insensitive reading of "reserved device name" *)
Definition ascii_upb (c : N) : bool := (65 <=? c) && (c <=? 90).
Definition ascii_low (c : N) : N := if ascii_upb c then c + 32 else c.
Definition is_reserved_ci (s : str) : bool := is_reserved (map ascii_low s).

(** everything the property text demands of one assigned name, except the length bound, the
    affix and the "accepted by the caller" clauses (stated separately) *)
Definition portable_name (r : str) : Prop :=
  single_component r /\
  Forall (fun c => illegalb c = false) r /\ Forall (fun c => controlb c = false) r /\
  is_reserved (stem r) = false /\
  (exists m c, r = m ++ [c] /\ is_ds c = false).
