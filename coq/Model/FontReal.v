(** Instantiation of the font-level signature (Model/FontRT.v) with the real part models, as far
    as they go.  Definitions only; the laws are proved in Proofs/FontRealP.v.

    [real_sig pf ff ff3 fi fh B] takes an arbitrary base signature [B] for the parts that stay
    abstract and REPLACES
      - the glif codec by the real one: [T_glyph] = the glyph value type of Model/Glif.v,
        [enc] = [encode_glif] (Model/GlifEncode.v), [dec] = [parse_glif] (Model/GlifParse.v),
        [glyph_name] = [gname], [set_name] = the assignment [glyph.name = name] of Layer::load_impl;
        its domain of validity [wf_glyph] is: the glyph rules of C12, finite numbers, NO LIBS (the
        composite round trip of C02 is proved for lib-free glyphs only), a note that survives (outside
        F3), and canonical numbers (no negative zero where the writer tests [== 0.0], colours that
        are fixed points of the three-decimal rendering); on that domain the round trip is exact,
        so the part equality is Leibniz equality.
    The library functions [pf] (f64::from_str), [ff] (f64 Display), [ff3] ({:.3}), [fi], [fh] stay
    parameters; what is assumed about them is the L1 hypothesis list of C02 ([L1_glif]).

    The content type of the real signature is the base content plus glif documents; the write
    options are the glif writer's options paired with the base options. *)
Require Import Norad.Model.GlifSpec Norad.Model.GlifDen Norad.Model.GlifEncode.
Require Import Norad.Proofs.GlifEncodeP Norad.Proofs.GlifRoundtripP.
Require Import Norad.Model.FontRT.
Open Scope N_scope.

Section Real.
Variable pf : str -> option fl.
Variables ff ff3 : fl -> str.
Variable fi : Z -> str.
Variable fh : N -> str.
Variable B : sig.

(** what is assumed about the library functions (the L1 hypotheses of C02_roundtrip_partial, with
    the colour relation "is what the three-decimal rendering reads back as") *)
Definition L1_glif : Prop :=
  (forall x, fl_finite x = true -> pf (ff x) = Some x) /\
  (forall x, unit_range x = true ->
     ~ In 44 (ff3 x) /\ exists y, pf (chan ff3 x) = Some y /\ unit_range y = true) /\
  (forall c, is_scalar c = true -> parse_hex (fh c) = Some c).

Inductive rcontent : Type := RBase (c : T_content B) | RGlif (d : doc).
Definition ropts : Type := (wopts * T_opts B)%type.

(** a part of the base signature over the larger content type *)
Definition lift {X} (p : part (T_content B) (T_opts B) X) : part rcontent ropts X :=
  {| enc := fun o x => option_map RBase (enc p (snd o) x);
     dec := fun c => match c with RBase c => dec p c | RGlif _ => None end;
     wf := wf p; peq := peq p |}.

(** canonical numbers and colours *)
Definition chan_fixed (x : fl) : Prop := pf (chan ff3 x) = Some x.
Definition color_fixed (c : color) : Prop :=
  let '(r, g, b, a) := c in chan_fixed r /\ chan_fixed g /\ chan_fixed b /\ chan_fixed a.
Definition ocolor_fixed (c : option color) : Prop := match c with Some c => color_fixed c | None => True end.
Definition glyph_canon (g : glyph) : Prop :=
  zero_norm (gwidth g) = gwidth g /\ zero_norm (gheight g) = gheight g /\
  match gimage g with
  | Some i => transform_written (itrans i) = itrans i /\ ocolor_fixed (icolor i)
  | None => True
  end /\
  Forall (fun x => ocolor_fixed (gcolor x)) (gguides g) /\
  Forall (fun a => ocolor_fixed (acolor a)) (ganchors g) /\
  Forall (fun c => transform_written (ctrans c) = ctrans c) (gcomps g).

(** the glyphs the real codec is proved to carry through a save and a load unchanged *)
Definition wf_glyph (g : glyph) : Prop :=
  glyph_rules g /\ glyph_finite g /\ lib_free g /\ note_survives (gnote g) = true /\ glyph_canon g.

Definition P_glif_real : part rcontent ropts glyph :=
  {| enc := fun o g => match encode_glif ff ff3 fi fh (fst o) g with
                       | Ok t => Some (RGlif (written_doc t))
                       | _ => None
                       end;
     dec := fun c => match c with
                     | RGlif d => match parse_glif pf d with Ok g => Some g | _ => None end
                     | RBase _ => None
                     end;
     wf := wf_glyph; peq := eq |}.

(** [glyph.name = name.clone()] *)
Definition set_gname (n : str) (g : glyph) : glyph :=
  mkGlyph n (gwidth g) (gheight g) (gcps g) (gnote g) (gimage g) (gguides g) (ganchors g)
          (gcomps g) (gcontours g) (glib g).

Definition real_sig : sig := {|
  T_content := rcontent; T_opts := ropts; T_pv := T_pv B; T_dict := T_dict B;
  T_irest := T_irest B; T_gbody := T_gbody B; T_color := T_color B; T_groups := T_groups B;
  T_kerning := T_kerning B; T_glyph := glyph;
  veq := veq B; deq := deq B; d_empty := d_empty B; d_get := d_get B; d_set := d_set B; d_del := d_del B;
  d_is_empty := d_is_empty B; mk_dict := mk_dict B; as_dict := as_dict B;
  wf_key := wf_key B; wf_pv := wf_pv B; wf_color := wf_color B; lc_entry_wf := lc_entry_wf B;
  P_meta := lift (P_meta B); P_info := lift (P_info B); P_lib := lift (P_lib B);
  P_groups := lift (P_groups B); P_kerning := lift (P_kerning B); P_lc := lift (P_lc B);
  P_contents := lift (P_contents B); P_li := lift (P_li B);
  P_glif := P_glif_real;
  irest_dflt := irest_dflt B; irest_is_dflt := irest_is_dflt B;
  groups_dflt := groups_dflt B; groups_is_empty := groups_is_empty B;
  kerning_dflt := kerning_dflt B; kerning_is_empty := kerning_is_empty B;
  ceq := ceq B; groups_ok := groups_ok B; info_ok := info_ok B;
  lower := lower B;
  glyph_name := gname; set_name := set_gname;
  legacy_info := fun v c => match c with RBase c => legacy_info B v c | RGlif _ => None end;
  upconvert_kerning := upconvert_kerning B;
  robofab := fun c => match c with RBase c => robofab B c | RGlif _ => fun _ _ _ => None end |}.

End Real.

(** ** the laws that remain hypotheses: those of the base signature that do not concern the glif
    codec.  [without_glif B] is [B] with a glif part that represents nothing (its laws hold
    vacuously), so [sig_ok (without_glif B)] says exactly: every law of [sig_ok] about metainfo,
    font info, lib, groups, kerning, layercontents, contents, layerinfo, dictionaries, defaults and
    validators holds for [B]. *)
Definition no_glif_part (C O : Type) : part C O str :=
  {| enc := fun _ _ => None; dec := fun _ => None; wf := fun _ => False; peq := eq |}.
Definition without_glif (B : sig) : sig := {|
  T_content := T_content B; T_opts := T_opts B; T_pv := T_pv B; T_dict := T_dict B;
  T_irest := T_irest B; T_gbody := T_gbody B; T_color := T_color B; T_groups := T_groups B;
  T_kerning := T_kerning B; T_glyph := str;
  veq := veq B; deq := deq B; d_empty := d_empty B; d_get := d_get B; d_set := d_set B; d_del := d_del B;
  d_is_empty := d_is_empty B; mk_dict := mk_dict B; as_dict := as_dict B;
  wf_key := wf_key B; wf_pv := wf_pv B; wf_color := wf_color B; lc_entry_wf := lc_entry_wf B;
  P_meta := P_meta B; P_info := P_info B; P_lib := P_lib B; P_groups := P_groups B;
  P_kerning := P_kerning B; P_lc := P_lc B; P_contents := P_contents B; P_li := P_li B;
  P_glif := no_glif_part (T_content B) (T_opts B);
  irest_dflt := irest_dflt B; irest_is_dflt := irest_is_dflt B;
  groups_dflt := groups_dflt B; groups_is_empty := groups_is_empty B;
  kerning_dflt := kerning_dflt B; kerning_is_empty := kerning_is_empty B;
  ceq := ceq B; groups_ok := groups_ok B; info_ok := info_ok B;
  lower := lower B;
  glyph_name := fun n => n; set_name := fun n _ => n;
  legacy_info := legacy_info B; upconvert_kerning := upconvert_kerning B; robofab := robofab B |}.
Definition base_laws (B : sig) : Prop := sig_ok (without_glif B).

(** a lib-free glyph with code points, a note, an anchor, a component and a contour (no colour, so
    it is canonical for every library function) *)
Definition g_real_sample : glyph :=
  mkGlyph [97] (FFin false 125 2) f0 [65; 66] (Some [104; 105]) None []
    [mkAnchor f1 f0 (Some [116]) None (Some [97; 49]) None]
    [mkComp [98] t_identity (Some [107; 49]) None]
    [mkContour [mkPoint f0 f1 Line false (Some [97]) (Some [112]) None;
                mkPoint f1 f0 Off false None None None;
                mkPoint f1 f1 QCurve true None None None] (Some [99]) None]
    [].
