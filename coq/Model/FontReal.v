(** Instantiation of the font-level signature (Model/FontRT.v) with the real part models, as far
    as they go.  Definitions only; the laws are proved in Proofs/FontRealP.v.

    [real_sig pf ff ff3 fi fh B] takes an arbitrary base signature [B] for the parts that stay
    abstract and REPLACES
      - the glif codec by the real one: [T_glyph] = the glyph value type of Model/Glif.v,
        [enc] = [encode_glif] (Model/GlifEncode.v), [dec] = [parse_glif] (Model/GlifParse.v),
        [glyph_name] = [gname], [set_name] = the assignment [glyph.name = name] of Layer::load_impl;
        its domain of validity [wf_glyph] is: the glyph rules of C12, finite numbers, NO LIBS (the
        composite round trip of C02 is proved for lib-free glyphs only), a note that survives (outside
        F3), and canonical numbers (no negative zero where the writer tests [== 0.0], colours that
        are fixed points of the three-decimal rendering); on that domain the round trip is exact,
        so the part equality is Leibniz equality.
      - the font-info part by the real one (Model/FontRealInfo.v): [T_irest] / [T_gbody] = the
        validated view of FontInfo of C13 and its guideline lines, [enc] = [fi_save] then [encode],
        [dec] = [fi_load], [info_ok] = [fi_validate]; exact round trip on [wf_sinfo]
        (C13_entry_points_agree).
      - groups and kerning by the real maps of Model/Groups.v with the real validator
        [validate_groups] (C15_validate_iff), the real emptiness tests and the real kerning
        upconversion; their file codecs [PG] / [PK] stay parameters.
    The library functions [pf] (f64::from_str), [ff] (f64 Display), [ff3] ({:.3}), [fi], [fh] stay
    parameters; what is assumed about them is the L1 hypothesis list of C02 ([L1_glif]).

    The content type of the real signature is the base content plus glif documents; the write
    options are the glif writer's options paired with the base options. *)
Require Import Norad.Model.GlifSpec Norad.Model.GlifDen Norad.Model.GlifEncode.
Require Import Norad.Proofs.GlifEncodeP Norad.Proofs.GlifRoundtripP.
Require Norad.Model.Groups.
Require Import Norad.Model.FontRT Norad.Model.FontRealInfo.
Module GR := Norad.Model.Groups.
Open Scope N_scope.

(** the real groups validator ([validate_groups], C15) and kerning upconversion, on the real group
    and kerning maps (sorted association lists = BTreeMap) *)
Definition groups_ok_real (g : GR.groups) : bool :=
  match GR.validate_groups g with Ok _ => true | _ => false end.
Definition upconvert_real (g : GR.groups) (k : GR.kerning) (gs : list str) : GR.groups * GR.kerning :=
  match GR.upconvert_kerning g k gs with Ok p => p | _ => (g, k) end.   (* total: C15_upconvert_total *)

Section Real.
Variable pf : str -> option fl.
Variables ff ff3 : fl -> str.
Variable fi : Z -> str.
Variable fh : N -> str.
Variable B : sig.
(** the groups.plist / kerning.plist codecs on the real maps (plist layer and number writer: abstract) *)
Variable PG : part (T_content B) (T_opts B) GR.groups.
Variable PK : part (T_content B) (T_opts B) GR.kerning.

(** what is assumed about the library functions (the L1 hypotheses of C02_roundtrip_partial, with
    the colour relation "is what the three-decimal rendering reads back as") *)
Definition L1_glif : Prop :=
  (forall x, fl_finite x = true -> pf (ff x) = Some x) /\
  (forall x, unit_range x = true ->
     ~ In 44 (ff3 x) /\ exists y, pf (chan ff3 x) = Some y /\ unit_range y = true) /\
  (forall c, is_scalar c = true -> parse_hex (fh c) = Some c).

Inductive rcontent : Type := RBase (c : T_content B) | RGlif (d : doc) | RInfo (r : FI.raw).
Definition ropts : Type := (wopts * T_opts B)%type.

(** a part of the base signature over the larger content type *)
Definition lift {X} (p : part (T_content B) (T_opts B) X) : part rcontent ropts X :=
  {| enc := fun o x => option_map RBase (enc p (snd o) x);
     dec := fun c => match c with RBase c => dec p c | _ => None end;
     wf := wf p; peq := peq p |}.

(** canonical numbers and colours *)
Definition chan_fixed (x : fl) : Prop := pf (chan ff3 x) = Some x.
Definition color_fixed (c : color) : Prop :=
  let '(r, g, b, a) := c in chan_fixed r /\ chan_fixed g /\ chan_fixed b /\ chan_fixed a.
Definition ocolor_fixed (c : option color) : Prop := match c with Some c => color_fixed c | None => True end.
Definition glyph_canon (g : glyph) : Prop :=
  zero_norm (gwidth g) = gwidth g /\ zero_norm (gheight g) = gheight g /\
  match gimage g with
  | Some i => transform_written (itrans i) = itrans i /\ ocolor_fixed (icolor i)
  | None => True
  end /\
  Forall (fun x => ocolor_fixed (gcolor x)) (gguides g) /\
  Forall (fun a => ocolor_fixed (acolor a)) (ganchors g) /\
  Forall (fun c => transform_written (ctrans c) = ctrans c) (gcomps g).

(** the glyphs the real codec is proved to carry through a save and a load unchanged *)
Definition wf_glyph (g : glyph) : Prop :=
  glyph_rules g /\ glyph_finite g /\ lib_free g /\ note_survives (gnote g) = true /\ glyph_canon g.

Definition P_glif_real : part rcontent ropts glyph :=
  {| enc := fun o g => match encode_glif ff ff3 fi fh (fst o) g with
                       | Ok t => Some (RGlif (written_doc t))
                       | _ => None
                       end;
     dec := fun c => match c with
                     | RGlif d => match parse_glif pf d with Ok g => Some g | _ => None end
                     | _ => None
                     end;
     wf := wf_glyph; peq := eq |}.

(** [glyph.name = name.clone()] *)
Definition set_gname (n : str) (g : glyph) : glyph :=
  mkGlyph n (gwidth g) (gheight g) (gcps g) (gnote g) (gimage g) (gguides g) (ganchors g)
          (gcomps g) (gcontours g) (glib g).

Definition real_sig : sig := {|
  T_content := rcontent; T_opts := ropts; T_pv := T_pv B; T_dict := T_dict B;
  T_irest := rinfo; T_gbody := rline; T_color := T_color B; T_groups := GR.groups;
  T_kerning := GR.kerning; T_glyph := glyph;
  veq := veq B; deq := deq B; d_empty := d_empty B; d_get := d_get B; d_set := d_set B; d_del := d_del B;
  d_is_empty := d_is_empty B; mk_dict := mk_dict B; as_dict := as_dict B;
  wf_key := wf_key B; wf_pv := wf_pv B; wf_color := wf_color B; lc_entry_wf := lc_entry_wf B;
  P_meta := lift (P_meta B);
  P_info := P_info_real rcontent ropts RInfo (fun c => match c with RInfo r => Some r | _ => None end);
  P_lib := lift (P_lib B);
  P_groups := lift PG; P_kerning := lift PK; P_lc := lift (P_lc B);
  P_contents := lift (P_contents B); P_li := lift (P_li B);
  P_glif := P_glif_real;
  irest_dflt := info_none; irest_is_dflt := info_is_none;
  groups_dflt := []; groups_is_empty := fun g => is_nil g;
  kerning_dflt := []; kerning_is_empty := fun k => is_nil k;
  ceq := ceq B; groups_ok := groups_ok_real; info_ok := info_ok_real;
  lower := lower B;
  glyph_name := gname; set_name := set_gname;
  (* format 1 / 2 font info is not part of the real instance (C14 owns the conversion) *)
  legacy_info := fun _ _ => None;
  upconvert_kerning := upconvert_real;
  robofab := fun _ _ _ _ => None |}.

End Real.

(** ** the laws that remain hypotheses: those of [sig_ok] about the parts the base signature still
    provides — metainfo, lib, layercontents, contents, layerinfo and the dictionary algebra — plus
    those of the groups.plist / kerning.plist codecs [PG] / [PK].  (The laws about the glif codec,
    glyph names, the font-info codec, its default and its validator, the groups validator and the
    emptiness tests and defaults of groups and kerning are PROVED for the real models.) *)
Record base_laws (B : sig) (PG : part (T_content B) (T_opts B) GR.groups)
                 (PK : part (T_content B) (T_opts B) GR.kerning) : Prop := {
  b_meta : part_ok (P_meta B); b_lib : part_ok (P_lib B); b_lc : part_ok (P_lc B);
  b_contents : part_ok (P_contents B); b_li : part_ok (P_li B);
  (** the groups.plist and kerning.plist codecs: lawful, groups come back exactly, the empty maps
      are representable (plist layer; kerning numbers: Model/Num.v) *)
  b_groups : part_ok PG; b_kerning : part_ok PK;
  b_groups_exact : forall a b, peq PG a b -> a = b;
  b_groups_nil_wf : wf PG []; b_kerning_nil_wf : wf PK [];
  b_meta_exact : forall a b, peq (P_meta B) a b -> a = b;
  b_lc_exact : forall a b, peq (P_lc B) a b -> a = b;
  b_contents_exact : forall a b, peq (P_contents B) a b -> a = b;
  b_lc_wf : forall l, wf (P_lc B) l <-> Forall (lc_entry_wf B) l;
  b_li_wf : forall c ol, wf (P_li B) (c, ol) <->
            (forall k, c = Some k -> wf_color B k) /\ (forall l, ol = Some l -> wf_dict B l);
  b_li_eq : forall a b, peq (P_li B) a b <-> orel (ceq B) (fst a) (fst b) /\ orel (deq B) (snd a) (snd b);
  b_lib_wf : forall d, wf (P_lib B) d <-> wf_dict B d;
  b_lib_eq : forall a b, peq (P_lib B) a b <-> deq B a b;
  b_veq_refl : forall v, veq B v v;
  b_veq_sym : forall v w, veq B v w -> veq B w v;
  b_veq_trans : forall u v w, veq B u v -> veq B v w -> veq B u w;
  b_get_empty : forall k, d_get B k (d_empty B) = None;
  b_get_set : forall k k' v d, d_get B k (d_set B k' v d) = if str_eqb k k' then Some v else d_get B k d;
  b_get_del : forall k k' d, d_get B k (d_del B k' d) = if str_eqb k k' then None else d_get B k d;
  b_is_empty_get : forall d, d_is_empty B d = true <-> forall k, d_get B k d = None;
  b_deq_get : forall a b, deq B a b <-> forall k, orel (veq B) (d_get B k a) (d_get B k b);
  b_as_mk : forall d, as_dict B (mk_dict B d) = Some d;
  b_as_dict_veq : forall v w, veq B v w -> orel (deq B) (as_dict B v) (as_dict B w);
  b_wf_mk : forall d, wf_dict B d -> wf_pv B (mk_dict B d);
  b_wf_as : forall v d, wf_pv B v -> as_dict B v = Some d -> wf_dict B d;
  b_wf_obj_key : wf_key B OBJ }.

(** a lib-free glyph with code points, a note, an anchor, a component and a contour (no colour, so
    it is canonical for every library function) *)
Definition g_real_sample : glyph :=
  mkGlyph [97] (FFin false 125 2) f0 [65; 66] (Some [104; 105]) None []
    [mkAnchor f1 f0 (Some [116]) None (Some [97; 49]) None]
    [mkComp [98] t_identity (Some [107; 49]) None]
    [mkContour [mkPoint f0 f1 Line false (Some [97]) (Some [112]) None;
                mkPoint f1 f0 Off false None None None;
                mkPoint f1 f1 QCurve true None None None] (Some [99]) None]
    [].
