(** Instantiation of the font-level signature (Model/FontRT.v) with the real part models, as far
    as they go.  Definitions only; the laws are proved in Proofs/FontRealP.v.

    [real_sig pf ff ff3 fi fh K] takes the file codecs of the plist layer as a parameter [K] (a
    record [codecs]: metainfo, lib, groups, kerning, layercontents, contents, layerinfo) and
    PLUGS IN
      - the glif codec by the real one: [T_glyph] = the glyph value type of Model/Glif.v,
        [enc] = [encode_glif] (Model/GlifEncode.v), [dec] = [parse_glif] (Model/GlifParse.v),
        [glyph_name] = [gname], [set_name] = the assignment [glyph.name = name] of Layer::load_impl;
        its domain of validity [wf_glyph] is: the glyph rules of C12, finite numbers, glyph lib and
        object libs the plist writer and reader agree on ([libs_valid]), outside F3 (a note that
        survives, lib text without line breaks), and canonical form (no negative zero where the
        writer tests [== 0.0], colours that are fixed points of the three-decimal rendering, lib
        keys sorted recursively as the writer sorts them); on that domain the full round trip of
        C02 ([C02_roundtrip]) is exact, so the part equality is Leibniz equality.
      - the font-info part by the real one (Model/FontRealInfo.v): [T_irest] / [T_gbody] = the
        validated view of FontInfo of C13 and its guideline lines, [enc] = [fi_save] then [encode],
        [dec] = [fi_load], [info_ok] = [fi_validate]; exact round trip on [wf_sinfo]
        (C13_entry_points_agree).
      - groups and kerning by the real maps of Model/Groups.v with the real validator
        [validate_groups] (C15_validate_iff), the real emptiness tests and the real kerning
        upconversion; their file codecs are [K_groups] / [K_kerning];
      - plist values and dictionaries by the real type of Model/Plist.v with [Dictionary::get /
        insert / remove]; the dictionary algebra of the signature is proved.
    The library functions [pf] (f64::from_str), [ff] (f64 Display), [ff3] ({:.3}), [fi], [fh] stay
    parameters; what is assumed about them is the L1 hypothesis list of C02 ([L1_glif]).

    The content type of the real signature is the plist-layer content plus glif documents plus the
    fontinfo record of C13; the write options are the glif writer's options paired with the
    plist-layer options. *)
Require Import Norad.Model.GlifSpec Norad.Model.GlifDen Norad.Model.GlifEncode.
Require Import Norad.Proofs.GlifEncodeP Norad.Proofs.GlifRoundtripP Norad.Proofs.GlifFullP.
Require Norad.Model.Groups.
Require Import Norad.Model.FontRT Norad.Model.FontRealInfo.
Module GR := Norad.Model.Groups.
Open Scope N_scope.

(** the real groups validator ([validate_groups], C15) and kerning upconversion, on the real group
    and kerning maps (sorted association lists = BTreeMap) *)
Definition groups_ok_real (g : GR.groups) : bool :=
  match GR.validate_groups g with Ok _ => true | _ => false end.
Definition upconvert_real (g : GR.groups) (k : GR.kerning) (gs : list str) : GR.groups * GR.kerning :=
  match GR.upconvert_kerning g k gs with Ok p => p | _ => (g, k) end.   (* total: C15_upconvert_total *)

(** ** plist dictionaries: the real value type of Model/Plist.v.  [Dictionary::get] = first match,
    [insert] = replace in place or append ([dict_insert]), [remove] = drop the key; two dictionaries
    are equal when they answer every lookup alike, values compared as plist values. *)
Definition pd_del (k : str) (d : dict) : dict := filter (fun e => negb (str_eqb (fst e) k)) d.
(** Equality of plist values: a [Dictionary] is a map, the order of its keys is not observable
    (the plist crate's [PartialEq] ignores it) — here for every dictionary reached through
    dictionaries only, which are the ones [util::recursive_sort_plist_keys] reorders on writing; a
    dictionary below an array keeps its key order through writer and reader and is compared with
    it (so this equality is a little finer than the crate's).  It is decided by a normal form:
    keys sorted recursively through dictionaries, not through arrays.  The association-list type also
    holds lists with a repeated key, which no [Dictionary] is; there only the first entry of a key
    can be looked up, and the normal form keeps that one ([dedupe]; the identity on dictionaries). *)
Fixpoint dedupe (d : dict) : dict :=
  match d with
  | [] => []
  | (k, v) :: r => (k, v) :: pd_del k (dedupe r)
  end.
Fixpoint nf (v : pv) : pv :=
  match v with
  | PDict d => PDict (sort_keys (dedupe (map_values nf d)))
  | _ => v
  end.
Definition pv_eqv (v w : pv) : Prop := nf v = nf w.
Definition pd_eq (a b : dict) : Prop := forall k, option_map nf (alookup k a) = option_map nf (alookup k b).

(** ** what stays abstract: the file codecs of the plist layer (and the colour type) *)
Record codecs : Type := {
  K_content : Type;                 (* content of metainfo / lib / groups / kerning / layercontents /
                                       contents / layerinfo files *)
  K_opts : Type;
  K_color : Type;
  K_meta : part K_content K_opts meta;
  K_lib : part K_content K_opts dict;
  K_groups : part K_content K_opts GR.groups;
  K_kerning : part K_content K_opts GR.kerning;
  K_lc : part K_content K_opts (list (str * str));
  K_contents : part K_content K_opts (list (str * str));
  K_li : part K_content K_opts (option K_color * option dict);
  K_ceq : K_color -> K_color -> Prop;
  K_wf_color : K_color -> Prop;
  K_lc_entry_wf : str * str -> Prop;
  K_wf_key : str -> Prop;           (* keys / values the plist writer represents *)
  K_wf_pv : pv -> Prop;
  K_lower : str -> str }.           (* str::to_lowercase *)

Section Real.
Variable pf : str -> option fl.
Variables ff ff3 : fl -> str.
Variable fi : Z -> str.
Variable fh : N -> str.
Variable K : codecs.

(** what is assumed about the library functions (the L1 hypotheses of C02_roundtrip, with
    the colour relation "is what the three-decimal rendering reads back as") *)
Definition L1_glif : Prop :=
  (forall x, fl_finite x = true -> pf (ff x) = Some x) /\
  (forall x, unit_range x = true ->
     ~ In 44 (ff3 x) /\ exists y, pf (chan ff3 x) = Some y /\ unit_range y = true) /\
  (forall c, is_scalar c = true -> parse_hex (fh c) = Some c) /\
  (forall z, int_ok z = true -> plist_int (fi z) = Some z).

Inductive rcontent : Type := RBase (c : K_content K) | RGlif (d : doc) | RInfo (r : FI.raw).
Definition ropts : Type := (wopts * K_opts K)%type.

(** a codec of the plist layer over the larger content type *)
Definition lift {X} (p : part (K_content K) (K_opts K) X) : part rcontent ropts X :=
  {| enc := fun o x => option_map RBase (enc p (snd o) x);
     dec := fun c => match c with RBase c => dec p c | _ => None end;
     wf := wf p; peq := peq p |}.

(** canonical numbers and colours *)
Definition chan_fixed (x : fl) : Prop := pf (chan ff3 x) = Some x.
Definition color_fixed (c : color) : Prop :=
  let '(r, g, b, a) := c in chan_fixed r /\ chan_fixed g /\ chan_fixed b /\ chan_fixed a.
Definition ocolor_fixed (c : option color) : Prop := match c with Some c => color_fixed c | None => True end.
Definition glyph_canon (g : glyph) : Prop :=
  zero_norm (gwidth g) = gwidth g /\ zero_norm (gheight g) = gheight g /\
  match gimage g with
  | Some i => transform_written (itrans i) = itrans i /\ ocolor_fixed (icolor i)
  | None => True
  end /\
  Forall (fun x => ocolor_fixed (gcolor x) /\ slib (gulib x) = gulib x) (gguides g) /\
  Forall (fun a => ocolor_fixed (acolor a) /\ slib (alib a) = alib a) (ganchors g) /\
  Forall (fun c => transform_written (ctrans c) = ctrans c /\ slib (colib c) = colib c) (gcomps g) /\
  (* the keys of every lib dictionary are sorted, recursively (as the writer sorts them) *)
  Forall (fun c => slib (clib c) = clib c /\ Forall (fun p => slib (plib p) = plib p) (cpoints c)) (gcontours g) /\
  sort_keys_rec (glib g) = glib g.

(** the glyphs the real codec is proved to carry through a save and a load unchanged: the glyph
    rules of C12, finite numbers, lib values the plist writer and reader agree on ([libs_valid]),
    outside F3 for EVERY write option (a surviving note, no line break in lib text), canonical *)
Definition wf_glyph (g : glyph) : Prop :=
  glyph_rules g /\ glyph_finite g /\ libs_valid g = true /\ libs_plain g = true /\
  note_survives (gnote g) = true /\ glyph_canon g.

Definition P_glif_real : part rcontent ropts glyph :=
  {| enc := fun o g => match encode_glif ff ff3 fi fh (fst o) g with
                       | Ok t => Some (RGlif (written_doc t))
                       | _ => None
                       end;
     dec := fun c => match c with
                     | RGlif d => match parse_glif pf d with Ok g => Some g | _ => None end
                     | _ => None
                     end;
     wf := wf_glyph; peq := eq |}.

(** [glyph.name = name.clone()] *)
Definition set_gname (n : str) (g : glyph) : glyph :=
  mkGlyph n (gwidth g) (gheight g) (gcps g) (gnote g) (gimage g) (gguides g) (ganchors g)
          (gcomps g) (gcontours g) (glib g).

Definition real_sig : sig := {|
  T_content := rcontent; T_opts := ropts; T_pv := pv; T_dict := dict;
  T_irest := rinfo; T_gbody := rline; T_color := K_color K; T_groups := GR.groups;
  T_kerning := GR.kerning; T_glyph := glyph;
  veq := pv_eqv; deq := pd_eq; d_empty := []; d_get := fun k d => alookup k d; d_set := dict_insert; d_del := pd_del;
  d_is_empty := fun d => is_nil d; mk_dict := PDict;
  as_dict := fun v => match v with PDict d => Some d | _ => None end;
  wf_key := K_wf_key K; wf_pv := K_wf_pv K; wf_color := K_wf_color K; lc_entry_wf := K_lc_entry_wf K;
  P_meta := lift (K_meta K);
  P_info := P_info_real rcontent ropts RInfo (fun c => match c with RInfo r => Some r | _ => None end);
  P_lib := lift (K_lib K);
  P_groups := lift (K_groups K); P_kerning := lift (K_kerning K); P_lc := lift (K_lc K);
  P_contents := lift (K_contents K); P_li := lift (K_li K);
  P_glif := P_glif_real;
  irest_dflt := info_none; irest_is_dflt := info_is_none;
  groups_dflt := []; groups_is_empty := fun g => is_nil g;
  kerning_dflt := []; kerning_is_empty := fun k => is_nil k;
  ceq := K_ceq K; groups_ok := groups_ok_real; info_ok := info_ok_real;
  lower := K_lower K;
  glyph_name := gname; set_name := set_gname;
  (* format 1 / 2 font info is not part of the real instance (C14 owns the conversion) *)
  legacy_info := fun _ _ => None;
  upconvert_kerning := upconvert_real;
  robofab := fun _ _ _ _ => None |}.

End Real.

(** ** the laws that remain hypotheses: all about the file codecs of the plist layer.
    (The laws about the glif codec and glyph names, the font-info codec / default / validator, the
    groups validator, the emptiness tests and defaults of groups and kerning, and the whole
    dictionary algebra are PROVED for the real models.) *)
Definition real_wf_dict (K : codecs) (d : dict) : Prop :=
  forall k v, alookup k d = Some v -> K_wf_key K k /\ K_wf_pv K v.
Record codecs_ok (K : codecs) : Prop := {
  k_meta : part_ok (K_meta K); k_lib : part_ok (K_lib K); k_groups : part_ok (K_groups K);
  k_kerning : part_ok (K_kerning K); k_lc : part_ok (K_lc K); k_contents : part_ok (K_contents K);
  k_li : part_ok (K_li K);
  (** metainfo, layercontents, contents and groups come back exactly *)
  k_meta_exact : forall a b, peq (K_meta K) a b -> a = b;
  k_lc_exact : forall a b, peq (K_lc K) a b -> a = b;
  k_contents_exact : forall a b, peq (K_contents K) a b -> a = b;
  k_groups_exact : forall a b, peq (K_groups K) a b -> a = b;
  (** which values the writers represent *)
  k_lc_wf : forall l, wf (K_lc K) l <-> Forall (K_lc_entry_wf K) l;
  k_li_wf : forall c ol, wf (K_li K) (c, ol) <->
            (forall x, c = Some x -> K_wf_color K x) /\ (forall l, ol = Some l -> real_wf_dict K l);
  k_lib_wf : forall d, wf (K_lib K) d <-> real_wf_dict K d;
  k_groups_nil_wf : wf (K_groups K) []; k_kerning_nil_wf : wf (K_kerning K) [];
  k_wf_mk : forall d, real_wf_dict K d -> K_wf_pv K (PDict d);
  k_wf_as : forall d, K_wf_pv K (PDict d) -> real_wf_dict K d;
  k_wf_obj_key : K_wf_key K OBJ;
  (** the equalities of the lib and layerinfo codecs are the dictionary equality *)
  k_lib_eq : forall a b, peq (K_lib K) a b <-> pd_eq a b;
  k_li_eq : forall a b, peq (K_li K) a b <-> orel (K_ceq K) (fst a) (fst b) /\ orel pd_eq (snd a) (snd b) }.

(** a glyph with code points, a note, an anchor carrying a lib, a component, a contour and a glyph
    lib with a nested dictionary, keys sorted (no colour, so it is canonical for every library
    function) *)
Definition g_real_sample : glyph :=
  mkGlyph [97] (FFin false 125 2) f0 [65; 66] (Some [104; 105]) None []
    [mkAnchor f1 f0 (Some [116]) None (Some [97; 49]) (Some [([107], PBool true)])]
    [mkComp [98] t_identity (Some [107; 49]) None]
    [mkContour [mkPoint f0 f1 Line false (Some [97]) (Some [112]) None;
                mkPoint f1 f0 Off false None None None;
                mkPoint f1 f1 QCurve true None None None] (Some [99]) None]
    [([97], PInt 1); ([98], PDict [([99], PStr [120]); ([100], PArr [PInt 2; PStr [121]])])].

(** ** closedness of the plist-layer readers (for C04): each reader returns values its writer
    represents; metainfo with norad's creator is writable; the keys of contents.plist are valid
    names ([Name]'s deserialiser); the identifiers the font-info reader returns are writable plist
    keys ([Identifier::new] admits printable ASCII only — the C13 model does not carry that check) *)
Record codecs_closed (K : codecs) : Prop := {
  kc_lib : part_closed (K_lib K); kc_groups : part_closed (K_groups K); kc_kerning : part_closed (K_kerning K);
  kc_lc : part_closed (K_lc K); kc_contents : part_closed (K_contents K); kc_li : part_closed (K_li K);
  kc_meta_norad : forall c m, dec (K_meta K) c = Some m ->
                  wf (K_meta K) {| m_creator := Some NORAD_CREATOR; m_version := 3; m_minor := m_minor m |};
  kc_contents_names : forall c l, dec (K_contents K) c = Some l -> Forall (fun e => name_valid (fst e) = true) l;
  kc_info_ids : forall r i, FI.fi_load r = Ok i ->
                forall gs, FI.i_guides i = Some gs -> Forall (fun g => forall id, FI.g_id g = Some id -> K_wf_key K id) gs }.

(** what the real glif reader does NOT guarantee about a glyph it returns, and the round trip needs:
    finite numbers (str::parse::<f64> accepts inf and NaN), lib values the plist writer and reader
    agree on, outside F3 (no line break in lib text; a surviving note), canonical form *)
Definition glyph_rt_domain (pf : str -> option fl) (ff3 : fl -> str) (g : glyph) : Prop :=
  glyph_finite g /\ libs_valid g = true /\ libs_plain g = true /\ note_survives (gnote g) = true /\
  glyph_canon pf ff3 g.

(** ** closedness where it holds for every file, and the rest asked of one tree only.
    A real lib / kerning / layerinfo reader is NOT closed: it also returns values its writer does not
    represent (non-finite reals, colours beyond three decimals, ...).  [codecs_closed_base] keeps
    the closedness laws of the other files; [files_in_domain t] says of the lib.plist, the
    kerning.plist and the layerinfo.plist files of the tree [t] that what they are read as lies in
    the domain of their writers. *)
Record codecs_closed_base (K : codecs) : Prop := {
  kb_groups : part_closed (K_groups K); kb_lc : part_closed (K_lc K); kb_contents : part_closed (K_contents K);
  kb_meta_norad : forall c m, dec (K_meta K) c = Some m ->
                  wf (K_meta K) {| m_creator := Some NORAD_CREATOR; m_version := 3; m_minor := m_minor m |};
  kb_contents_names : forall c l, dec (K_contents K) c = Some l -> Forall (fun e => name_valid (fst e) = true) l;
  kb_info_ids : forall r i, FI.fi_load r = Ok i ->
                forall gs, FI.i_guides i = Some gs -> Forall (fun g => forall id, FI.g_id g = Some id -> K_wf_key K id) gs }.
Definition files_in_domain pf ff ff3 fi fh (K : codecs) (t : tree (real_sig pf ff ff3 fi fh K)) : Prop :=
  (forall c d, t_lib _ t = Some (RBase K c) -> dec (K_lib K) c = Some d -> wf (K_lib K) d) /\
  (forall c k, t_kerning _ t = Some (RBase K c) -> dec (K_kerning K) c = Some k -> wf (K_kerning K) k) /\
  (forall dn dir c x, alookup dn (t_dirs _ t) = Some dir -> ld_info _ dir = Some (RBase K c) ->
                      dec (K_li K) c = Some x -> wf (K_li K) x).

(** ** metainfo.plist, layercontents.plist and contents.plist from the tree-level plist codec
    (Model/FontRealPlist.v): what then stays abstract are the codecs of lib.plist, groups.plist,
    kerning.plist and layerinfo.plist *)
Require Import Norad.Model.FontRealPlist.

Record codecs4 : Type := {
  K4_content : Type; K4_opts : Type; K4_color : Type;
  K4_lib : part K4_content K4_opts dict;
  K4_groups : part K4_content K4_opts GR.groups;
  K4_kerning : part K4_content K4_opts GR.kerning;
  K4_li : part K4_content K4_opts (option K4_color * option dict);
  K4_ceq : K4_color -> K4_color -> Prop;
  K4_wf_color : K4_color -> Prop;
  K4_wf_key : str -> Prop;
  K4_wf_pv : pv -> Prop;
  K4_lower : str -> str }.

Section WithPlistFiles.
Variable pf : str -> option fl.
Variable ff : fl -> str.
Variable fi : Z -> str.
Variable K4 : codecs4.

Definition content4 : Type := (K4_content K4 + node)%type.
Definition lift_l {X} (p : part (K4_content K4) (K4_opts K4) X) : part content4 (K4_opts K4) X :=
  {| enc := fun o x => option_map inl (enc p o x);
     dec := fun c => match c with inl c => dec p c | inr _ => None end;
     wf := wf p; peq := peq p |}.
Definition lift_r {X} (p : part node (K4_opts K4) X) : part content4 (K4_opts K4) X :=
  {| enc := fun o x => option_map inr (enc p o x);
     dec := fun c => match c with inr n => dec p n | inl _ => None end;
     wf := wf p; peq := peq p |}.

Definition with_plist_files : codecs := {|
  K_content := content4; K_opts := K4_opts K4; K_color := K4_color K4;
  K_meta := lift_r (P_meta_real pf ff fi (K4_opts K4));
  K_lib := lift_l (K4_lib K4);
  K_groups := lift_l (K4_groups K4);
  K_kerning := lift_l (K4_kerning K4);
  K_lc := lift_r (P_lc_real pf ff fi (K4_opts K4));
  K_contents := lift_r (P_contents_real pf ff fi (K4_opts K4));
  K_li := lift_l (K4_li K4);
  K_ceq := K4_ceq K4; K_wf_color := K4_wf_color K4;
  K_lc_entry_wf := fun e => name_valid (fst e) = true;
  K_wf_key := K4_wf_key K4; K_wf_pv := K4_wf_pv K4; K_lower := K4_lower K4 |}.
End WithPlistFiles.

Definition wf_dict4 (K4 : codecs4) (d : dict) : Prop :=
  forall k v, alookup k d = Some v -> K4_wf_key K4 k /\ K4_wf_pv K4 v.
(** the laws that remain: those of the four files whose values need the dictionary / number layer *)
Record codecs4_ok (K4 : codecs4) : Prop := {
  k4_lib : part_ok (K4_lib K4); k4_groups : part_ok (K4_groups K4); k4_kerning : part_ok (K4_kerning K4);
  k4_li : part_ok (K4_li K4);
  k4_groups_exact : forall a b, peq (K4_groups K4) a b -> a = b;
  k4_li_wf : forall c ol, wf (K4_li K4) (c, ol) <->
             (forall x, c = Some x -> K4_wf_color K4 x) /\ (forall l, ol = Some l -> wf_dict4 K4 l);
  k4_lib_wf : forall d, wf (K4_lib K4) d <-> wf_dict4 K4 d;
  k4_groups_nil_wf : wf (K4_groups K4) []; k4_kerning_nil_wf : wf (K4_kerning K4) [];
  k4_wf_mk : forall d, wf_dict4 K4 d -> K4_wf_pv K4 (PDict d);
  k4_wf_as : forall d, K4_wf_pv K4 (PDict d) -> wf_dict4 K4 d;
  k4_wf_obj_key : K4_wf_key K4 OBJ;
  k4_lib_eq : forall a b, peq (K4_lib K4) a b <-> pd_eq a b;
  k4_li_eq : forall a b, peq (K4_li K4) a b <-> orel (K4_ceq K4) (fst a) (fst b) /\ orel pd_eq (snd a) (snd b) }.
Record codecs4_closed (K4 : codecs4) : Prop := {
  k4c_lib : part_closed (K4_lib K4); k4c_groups : part_closed (K4_groups K4);
  k4c_kerning : part_closed (K4_kerning K4); k4c_li : part_closed (K4_li K4);
  k4c_info_ids : forall r i, FI.fi_load r = Ok i ->
                 forall gs, FI.i_guides i = Some gs -> Forall (fun g => forall id, FI.g_id g = Some id -> K4_wf_key K4 id) gs }.
