(** Model of norad's group validation and legacy kerning upconversion (C15, C10).
    Sources: src/groups.rs (validate_groups), src/upconversion.rs (upconvert_kerning,
    make_unique_group_name, find_known_kerning_groups, the feature half of
    upconvert_ufov1_robofab_data), src/font.rs (call sites in load_impl / save_impl).
    Definitions only; proofs are in Proofs/GroupsP.v.

    Names are UTF-8 byte strings ([str] = list of bytes): every operation the code performs on
    a name here is byte-wise ([starts_with], [len() == 13], [replace], [Ord] of [str]).
    [BTreeMap<Name,V>] is an association list kept sorted by [insert]; [BTreeSet<Name>] a sorted
    list.  Nothing below iterates a hashed collection: the two [HashSet]s of validate_groups and
    the two [HashMap]s old-name -> new-name are only queried ([insert]'s boolean / [get]). *)
Require Export Norad.Model.Base.
From Coq Require Import DecimalN.
Open Scope N_scope.

Definition name := str.
Definition K1 : str := [112;117;98;108;105;99;46;107;101;114;110;49;46].   (* "public.kern1." *)
Definition K2 : str := [112;117;98;108;105;99;46;107;101;114;110;50;46].   (* "public.kern2." *)
Definition MMKL : str := [64;77;77;75;95;76;95].   (* "@MMK_L_" *)
Definition MMKR : str := [64;77;77;75;95;82;95].   (* "@MMK_R_" *)

(** ** byte strings *)
Fixpoint str_cmp (a b : str) : comparison :=
  match a, b with
  | [], [] => Eq
  | [], _ :: _ => Lt
  | _ :: _, [] => Gt
  | x :: a', y :: b' => match N.compare x y with Eq => str_cmp a' b' | c => c end
  end.
Definition str_ltb (a b : str) : bool := match str_cmp a b with Lt => true | _ => false end.

Fixpoint starts_with (p s : str) : bool :=
  match p, s with
  | [], _ => true
  | x :: p', y :: s' => N.eqb x y && starts_with p' s'
  | _ :: _, [] => false
  end.

Fixpoint memb (x : name) (l : list name) : bool :=
  match l with [] => false | y :: r => str_eqb x y || memb x r end.

(** [str::replace(pat, "")]: left to right, non-overlapping; [skip] bytes of a match remain
    to be dropped. *)
Fixpoint remove_all_aux (pat : str) (skip : nat) (s : str) : str :=
  match s with
  | [] => []
  | c :: r =>
      match skip with
      | S k => remove_all_aux pat k r
      | O => if starts_with pat s then remove_all_aux pat (pred (length pat)) r
             else c :: remove_all_aux pat O r
      end
  end.
Definition remove_all (pat s : str) : str :=
  match pat with [] => s | _ => remove_all_aux pat O s end.

(** decimal rendering of a counter ([format!("{}{}", name, counter)]) *)
Fixpoint uint_bytes (u : Decimal.uint) : str :=
  match u with
  | Decimal.Nil => []
  | Decimal.D0 r => 48 :: uint_bytes r | Decimal.D1 r => 49 :: uint_bytes r
  | Decimal.D2 r => 50 :: uint_bytes r | Decimal.D3 r => 51 :: uint_bytes r
  | Decimal.D4 r => 52 :: uint_bytes r | Decimal.D5 r => 53 :: uint_bytes r
  | Decimal.D6 r => 54 :: uint_bytes r | Decimal.D7 r => 55 :: uint_bytes r
  | Decimal.D8 r => 56 :: uint_bytes r | Decimal.D9 r => 57 :: uint_bytes r
  end.
Definition dec (n : N) : str := uint_bytes (N.to_uint n).

(** ** sorted maps and sets *)
Definition smap (V : Type) := list (name * V).
Definition keys {V} (m : smap V) : list name := map fst m.

Fixpoint lookup {V} (k : name) (m : smap V) : option V :=
  match m with
  | [] => None
  | (k', v) :: r => if str_eqb k k' then Some v else lookup k r
  end.
Definition has_key {V} (k : name) (m : smap V) : bool :=
  match lookup k m with Some _ => true | None => false end.

(** [BTreeMap::insert]: replace the value of an equal key, else insert at the sorted position *)
Fixpoint minsert {V} (k : name) (v : V) (m : smap V) : smap V :=
  match m with
  | [] => [(k, v)]
  | (k', v') :: r =>
      match str_cmp k k' with
      | Eq => (k, v) :: r
      | Lt => (k, v) :: m
      | Gt => (k', v') :: minsert k v r
      end
  end.

(** [BTreeSet::insert] *)
Fixpoint ins_sorted (x : name) (s : list name) : list name :=
  match s with
  | [] => [x]
  | y :: r => if str_ltb y x then y :: ins_sorted x r else x :: s
  end.
Definition sinsert (x : name) (s : list name) : list name :=
  if memb x s then s else ins_sorted x s.

(** ** validate_groups (src/groups.rs) *)
Definition groups := smap (list name).
Definition val := N.                        (* an f64 by its bit pattern; only copied *)
Definition kerning := smap (smap val).

Inductive gerr : Type :=
| InvalidName
| Overlap (glyph group : name).             (* OverlappingKerningGroups { glyph_name, group_name } *)

(** [for g in members { if !seen.insert(g) { return Err } }] *)
Fixpoint scan (seen : list name) (ms : list name) : list name + name :=
  match ms with
  | [] => inl seen
  | m :: r => if memb m seen then inr m else scan (m :: seen) r
  end.

Fixpoint validate_from (s1 s2 : list name) (g : groups) : result unit gerr :=
  match g with
  | [] => Ok tt
  | (n, ms) :: r =>
      match n with
      | [] => Err InvalidName
      | _ =>
        if starts_with K1 n then
          if (N.of_nat (length n) =? 13) then Err InvalidName
          else match scan s1 ms with
               | inl s1' => validate_from s1' s2 r
               | inr d => Err (Overlap d n)
               end
        else if starts_with K2 n then
          if (N.of_nat (length n) =? 13) then Err InvalidName
          else match scan s2 ms with
               | inl s2' => validate_from s1 s2' r
               | inr d => Err (Overlap d n)
               end
        else validate_from s1 s2 r
      end
  end.
Definition validate_groups (g : groups) : result unit gerr := validate_from [] [] g.

(** ** specification of validity (property text / UFO 3 groups.plist rules) *)
Definition side1 (n : name) : Prop := exists t, n = K1 ++ t.
Definition side2 (n : name) : Prop := exists t, n = K2 ++ t.
(** all member occurrences of the groups of one side, in map order *)
Definition members_of (pre : str) (g : groups) : list name :=
  concat (map snd (filter (fun e => starts_with pre (fst e)) g)).
(** A name is a usable group name: non-empty (invariant of the type [Name]) and not just one of
    the two kerning prefixes.  No glyph occurs twice among the members of the first-side groups,
    nor among those of the second-side groups; as in the reference implementation (fontTools
    groupsValidator) an occurrence twice in ONE kerning group counts. *)
Definition groups_ok (g : groups) : Prop :=
  (forall n ms, In (n, ms) g -> n <> [] /\ n <> K1 /\ n <> K2) /\
  NoDup (members_of K1 g) /\ NoDup (members_of K2 g).

(** ** make_unique_group_name (src/upconversion.rs) *)
(** the [while] loop: candidate [base ++ dec c], c = 1, 2, ...; [None] = fuel exhausted *)
Fixpoint uniq_loop (fuel : nat) (base : name) (c : N) (g : groups) : option name :=
  match fuel with
  | O => None
  | S f => let cand := base ++ dec c in
           if has_key cand g then uniq_loop f base (c + 1) g else Some cand
  end.
Definition make_unique_fuel (fuel : nat) (base : name) (g : groups) : option name :=
  if has_key base g then uniq_loop fuel base 1 g else Some base.
Definition make_unique (base : name) (g : groups) : option name :=
  make_unique_fuel (S (length g)) base g.

(** what the loop is meant to return: a name not in use that is [base] itself or, when [base]
    is taken, [base ++ dec d] for the least d >= 1 whose candidate is free *)
Definition UniqueOf (base : name) (g : groups) (n : name) : Prop :=
  ~ In n (map fst g) /\
  (n = base \/
   (In base (map fst g) /\
    exists d, 1 <= d /\ n = base ++ dec d /\
              forall e, 1 <= e < d -> In (base ++ dec e) (map fst g))).

(** ** find_known_kerning_groups + the scan over the kerning pairs *)
Definition known1 (g : groups) : list name :=
  fold_left (fun s n => if starts_with MMKL n then sinsert n s else s) (keys g) [].
Definition known2 (g : groups) : list name :=
  fold_left (fun s n => if starts_with MMKL n then s
                        else if starts_with MMKR n then sinsert n s else s) (keys g) [].

Definition referenced (pre : str) (g : groups) (gs : list name) (n : name) : bool :=
  has_key n g && negb (memb n gs) && negb (starts_with pre n).

Definition cands1 (g : groups) (k : kerning) (gs : list name) : list name :=
  fold_left (fun s e => if referenced K1 g gs (fst e) then sinsert (fst e) s else s) k (known1 g).
Definition cands2 (g : groups) (k : kerning) (gs : list name) : list name :=
  fold_left (fun s e =>
               fold_left (fun s' p => if referenced K2 g gs (fst p) then sinsert (fst p) s' else s')
                         (snd e) s) k (known2 g).

(** ** duplicating the groups of one side; [r] is the old -> new table (a HashMap that is only
    queried with [get]) *)
Definition rentab := list (name * name).

Fixpoint dup_side (pre pat : str) (cs : list name) (gn : groups) (r : rentab)
  : result (groups * rentab) unit :=
  match cs with
  | [] => Ok (gn, r)
  | c :: cs' =>
      match make_unique (pre ++ remove_all pat c) gn with
      | None => Panic 1                      (* loop fuel; unreachable: C15_unique_terminates *)
      | Some nn =>
          match lookup c gn with
          | None => Panic 2                  (* groups_new.get(first).unwrap() *)
          | Some ms => dup_side pre pat cs' (minsert nn ms gn) ((c, nn) :: r)
          end
      end
  end.

Definition ren (r : rentab) (n : name) : name :=
  match lookup n r with Some x => x | None => n end.

Definition rename_row (r2 : rentab) (row : smap val) : smap val :=
  fold_left (fun acc p => minsert (ren r2 (fst p)) (snd p) acc) row [].
Definition rename_kerning (r1 r2 : rentab) (k : kerning) : kerning :=
  fold_left (fun acc e => minsert (ren r1 (fst e)) (rename_row r2 (snd e)) acc) k [].

(** the two tables the conversion builds *)
Definition upconvert_tables (g : groups) (k : kerning) (gs : list name)
  : result (groups * rentab * rentab) unit :=
  match dup_side K1 MMKL (cands1 g k gs) g [] with
  | Ok (g1, r1) =>
      match dup_side K2 MMKR (cands2 g k gs) g1 [] with
      | Ok (g2, r2) => Ok (g2, r1, r2)
      | Err e => Err e | Panic s => Panic s
      end
  | Err e => Err e | Panic s => Panic s
  end.

(** upconvert_kerning(groups, kerning, glyph_set); [gs] is the content of the NameList *)
Definition upconvert_kerning (g : groups) (k : kerning) (gs : list name)
  : result (groups * kerning) unit :=
  match upconvert_tables g k gs with
  | Ok (g2, r1, r2) => Ok (g2, rename_kerning r1 r2 k)
  | Err e => Err e | Panic s => Panic s
  end.

(** ** specification of the conversion (property text; fontTools
    convertUFO1OrUFO2KerningToUFO3Kerning) *)
Definition is_key {V} (n : name) (m : smap V) : Prop := In n (keys m).
(** a group that has to be duplicated on the first side: it carries the legacy prefix, or it
    is used as the first member of a kerning pair (a kerning key that names a group and not a
    glyph, and is not already in the new form) *)
Definition Cand1 (g : groups) (k : kerning) (glyphs : list name) (c : name) : Prop :=
  is_key c g /\
  ((exists t, c = MMKL ++ t) \/
   (is_key c k /\ ~ In c glyphs /\ ~ side1 c)).
Definition Cand2 (g : groups) (k : kerning) (glyphs : list name) (c : name) : Prop :=
  is_key c g /\
  (((exists t, c = MMKR ++ t) /\ ~ (exists t, c = MMKL ++ t)) \/
   ((exists a row, In (a, row) k /\ is_key c row) /\ ~ In c glyphs /\ ~ side2 c)).

(** kerning pairs as triples: the kerning maps (a, b) to v *)
Definition pair_in (k : kerning) (a b : name) (v : val) : Prop :=
  exists row, lookup a k = Some row /\ lookup b row = Some v.

(** Groups part: originals kept; every candidate duplicated under a fresh name of its side with
    identical members; distinct candidates get distinct names; nothing else is added. *)
Definition UpconvertedGroups (g : groups) (k : kerning) (glyphs : list name)
           (r1 r2 : rentab) (g' : groups) : Prop :=
  (forall c, In c (keys r1) <-> Cand1 g k glyphs c) /\
  (forall c, In c (keys r2) <-> Cand2 g k glyphs c) /\
  NoDup (keys r1) /\ NoDup (keys r2) /\
  NoDup (map snd r1 ++ map snd r2) /\
  (forall c n, In (c, n) r1 -> side1 n /\ ~ is_key n g) /\
  (forall c n, In (c, n) r2 -> side2 n /\ ~ is_key n g) /\
  (forall n ms, lookup n g' = Some ms <->
                lookup n g = Some ms \/
                exists c, In (c, n) (r1 ++ r2) /\ lookup c g = Some ms).

(** Kerning part: the pairs of the result are exactly the renamed pairs of the input, values
    unchanged (and a row that holds no pair stays a row). *)
Definition PairsRenamed (r1 r2 : rentab) (k k' : kerning) : Prop :=
  (forall a' b' v, pair_in k' a' b' v <->
                   exists a b, pair_in k a b v /\ a' = ren r1 a /\ b' = ren r2 b) /\
  (forall a', is_key a' k' <-> exists a, is_key a k /\ a' = ren r1 a).

Definition Upconverted (g : groups) (k : kerning) (glyphs : list name)
           (g' : groups) (k' : kerning) : Prop :=
  exists r1 r2, UpconvertedGroups g k glyphs r1 r2 g' /\ PairsRenamed r1 r2 k k'.

(** ** the class in which the pair part fails (observation "PairCollision"): after renaming,
    two first-level kerning keys, or two keys of one row, coincide - only possible when a
    kerning key that is NOT a converted group equals a freshly made group name.
    [kerning_new.insert] / [seconds_new.insert] then overwrite. *)
Fixpoint nodupb (l : list name) : bool :=
  match l with [] => true | x :: r => negb (memb x r) && nodupb r end.
Definition no_pair_collision (r1 r2 : rentab) (k : kerning) : bool :=
  nodupb (map (ren r1) (keys k)) &&
  forallb (fun e => nodupb (map (ren r2) (keys (snd e)))) k.
Definition PairCollision (g : groups) (k : kerning) (gs : list name) : Prop :=
  match upconvert_tables g k gs with
  | Ok (_, r1, r2) => no_pair_collision r1 r2 k = false
  | _ => False
  end.

(** ** the class in which the conversion is not the one the glyph names demand (F21): the
    name set handed to upconvert_kerning is the interner's content, not the glyph names; the
    groups to duplicate then differ. *)
Definition SameCands (g : groups) (k : kerning) (a b : list name) : Prop :=
  (forall c, Cand1 g k a c <-> Cand1 g k b c) /\
  (forall c, Cand2 g k a c <-> Cand2 g k b c).
Definition ClassF21 (g : groups) (k : kerning) (interned glyphs : list name) : Prop :=
  ~ SameCands g k interned glyphs.
(** its executable form (used by the correspondence run) *)
Definition inclb (l1 l2 : list name) : bool := forallb (fun c => memb c l2) l1.
Definition same_candsb (g : groups) (k : kerning) (a b : list name) : bool :=
  inclb (cands1 g k a) (cands1 g k b) && inclb (cands1 g k b) (cands1 g k a) &&
  inclb (cands2 g k a) (cands2 g k b) && inclb (cands2 g k b) (cands2 g k a).

(** ** call sites (src/font.rs) *)
Inductive lerr : Type :=
| LInvalidGroups (e : gerr)                 (* FontLoadError::InvalidGroups *)
| LUpconversionFailure (e : gerr).          (* FontLoadError::GroupsUpconversionFailure *)

Definition kern_or_empty (k : option kerning) : kerning :=
  match k with Some k => k | None => [] end.

(** the groups/kerning part of Font::load_impl: [v3] = metainfo says format 3;
    [g]/[k] = content of groups.plist / kerning.plist if present (and requested) *)
Definition load_gk (v3 : bool) (g : option groups) (k : option kerning) (interned : list name)
  : result (groups * kerning) lerr :=
  match g with
  | None => Ok ([], kern_or_empty k)
  | Some g0 =>
      match validate_groups g0 with
      | Err e => Err (LInvalidGroups e)
      | Panic s => Panic s
      | Ok _ =>
          if v3 then Ok (g0, kern_or_empty k)
          else match upconvert_kerning g0 (kern_or_empty k) interned with
               | Ok (g', k') =>
                   match validate_groups g' with
                   | Ok _ => Ok (g', k')
                   | Err e => Err (LUpconversionFailure e)
                   | Panic s => Panic s
                   end
               | Err _ => Panic 3
               | Panic s => Panic s
               end
      end
  end.

(** Font::save_impl refuses invalid groups before touching the file system *)
Definition save_groups (g : groups) : result unit gerr := validate_groups g.

(** ** UFO 1 feature text (the feature half of upconvert_ufov1_robofab_data), for C10.
    [classes] = org.robofab.opentype.classes, [order] = ...featureorder, [feats] = ...features
    (a BTreeMap since abb0fdd: keys in ascending byte order). *)
Definition feature_text (classes : option str) (order : option (list name))
           (feats : option (smap str)) : str :=
  (match classes with Some c => c | None => [] end) ++
  match feats with
  | None => []
  | Some fm =>
      let ord := match order with Some o => o | None => keys fm end in
      10 :: concat (map (fun key => match lookup key fm with Some t => t | None => [] end) ord)
  end.
