(** Model of [FontInfo::validate] (src/fontinfo.rs) and of its three entry points
    ([FontInfo::validate], [Font::load] of a fontinfo.plist, [Font::save]), on a record of just the
    rule-relevant fields; and the specification [fi_spec] written declaratively from the
    property text / the UFO 3 fontinfo.plist specification.  Definitions only. *)
From Coq Require Export String QArith.
Require Export Norad.Model.Base.
Open Scope string_scope.
Open Scope N_scope.

(** ---------- numbers ---------- *)

(** A binary64 value: NaN, an infinity, or (-1)^neg * m * 2^e (not necessarily normalised). *)
Inductive fl :=
| FNaN (neg : bool)
| FInf (neg : bool)
| FFin (neg : bool) (m : N) (e : Z).

(** [f64::is_sign_positive] *)
Definition fl_sign_positive (d : fl) : bool :=
  match d with FNaN n | FInf n | FFin n _ _ => negb n end.

(** ---------- the rule-relevant part of a [FontInfo] ---------- *)

Inductive line :=
| LVert                     (* Line::Vertical(x) *)
| LHoriz                    (* Line::Horizontal(y) *)
| LAngle (deg : fl).        (* Line::Angle { x, y, degrees } *)

Record guide := { g_line : line; g_id : option str }.

(** a WOFF extension item as far as validation looks at it: (number of names, number of values) *)
Definition witem := (nat * nat)%type.

Record info := {
  i_date : option (list N);           (* openTypeHeadCreated, as UTF-8 bytes *)
  i_gasp : option (list N);           (* rangeMaxPPEM of each openTypeGaspRangeRecords entry (u32) *)
  i_guides : option (list guide);     (* guidelines *)
  i_selection : option (list N);      (* openTypeOS2Selection (Vec<u8>) *)
  i_class : option (N * N);           (* openTypeOS2FamilyClass (u8, u8) *)
  i_blue : option (list Z);           (* postscriptBlueValues *)
  i_oblue : option (list Z);          (* postscriptOtherBlues *)
  i_fblue : option (list Z);          (* postscriptFamilyBlues *)
  i_foblue : option (list Z);         (* postscriptFamilyOtherBlues *)
  i_stemh : option (list Z);          (* postscriptStemSnapH *)
  i_stemv : option (list Z);          (* postscriptStemSnapV *)
  i_wext : option (list (list witem));(* woffMetadataExtensions: the items of each record *)
  i_wcredits : option nat;            (* woffMetadataCredits: number of credits *)
  i_wcopyright : option nat;          (* woffMetadataCopyright: number of text records *)
  i_wdescr : option nat;              (* woffMetadataDescription: number of text records *)
  i_wtrade : option nat               (* woffMetadataTrademark: number of text records *)
}.

(** [FontInfoErrorKind], as far as [validate] produces it *)
Inductive fi_err :=
| EDate                                           (* InvalidOpenTypeHeadCreatedDate *)
| EGasp                                           (* UnsortedGaspEntries *)
| EAngle                                          (* InvalidGuidelineAngle *)
| EDupId                                          (* DuplicateGuidelineIdentifiers *)
| ESelection                                      (* DisallowedSelectionBits *)
| EClass                                          (* InvalidOs2FamilyClass *)
| EListLen (name : string) (max_len : nat) (len : nat)   (* InvalidPostscriptListLength *)
| EPairs (name : string)                          (* PostscriptListMustBePairs *)
| EWoff (what : string).                          (* EmptyWoffAttribute *)

Definition err_name (e : fi_err) : string :=
  match e with
  | EDate => "InvalidOpenTypeHeadCreatedDate"
  | EGasp => "UnsortedGaspEntries"
  | EAngle => "InvalidGuidelineAngle"
  | EDupId => "DuplicateGuidelineIdentifiers"
  | ESelection => "DisallowedSelectionBits"
  | EClass => "InvalidOs2FamilyClass"
  | EListLen _ _ _ => "InvalidPostscriptListLength"
  | EPairs _ => "PostscriptListMustBePairs"
  | EWoff _ => "EmptyWoffAttribute"
  end.

Definition vres := result unit fi_err.

(** ---------- constants of [validate()] (anchored to the source text on every run) ---------- *)
Definition DATE_LENGTH : nat := 19.
Definition U8_MAX : N := 255.
Definition U16_MAX : N := 65535.
Definition U32_MAX : N := 4294967295.
Definition SEP_SLASH : N := 47.
Definition SEP_SPACE : N := 32.
Definition SEP_COLON : N := 58.
Definition MONTH_MIN : N := 1.   Definition MONTH_MAX : N := 12.
Definition DAY_MIN : N := 1.     Definition DAY_MAX : N := 31.
Definition HOUR_LIM : N := 24.   (* hour < 24 *)
Definition MINUTE_LIM : N := 60.
Definition SECOND_LIM : N := 60.
Definition BAD_BITS : list N := [0; 5; 6].
Definition CLASS_MIN : N := 0.
Definition CLASS_MAX : N := 14.
Definition SUBCLASS_MIN : N := 0.
Definition SUBCLASS_MAX : N := 15.
Definition ANGLE_MIN : Z := 0%Z.
Definition ANGLE_MAX : Z := 360%Z.

(** ---------- rule 1: openTypeHeadCreated ---------- *)

Definition is_digitb (b : N) : bool := (48 <=? b) && (b <=? 57).
(** [b.is_ascii_digit() || b == ' ' || b == '/' || b == ':'] *)
Definition DATE_SEPS : list N := [SEP_SPACE; SEP_SLASH; SEP_COLON].
Definition date_char_ok (b : N) : bool := is_digitb b || existsb (N.eqb b) DATE_SEPS.

(** [<uN as FromStr>::from_str]: optional leading '+', then one or more ASCII digits, overflow
    is an error. *)
Fixpoint pdigits (max acc : N) (bs : list N) : option N :=
  match bs with
  | [] => Some acc
  | b :: r =>
      if is_digitb b then
        let acc' := acc * 10 + (b - 48) in
        if acc' <=? max then pdigits max acc' r else None
      else None
  end.
Definition parse_uint (max : N) (bs : list N) : option N :=
  match bs with
  | [] => None
  | b :: r =>
      if b =? 43 then match r with [] => None | _ => pdigits max 0 r end
      else pdigits max 0 bs
  end.

(** [&v[a..b]] on a [str] whose UTF-8 bytes are [v]: panics unless [a <= b <= len] and both
    indices are char boundaries ([str::is_char_boundary]: the end of the string, or a byte that
    is not a continuation byte 0x80..0xBF). *)
Definition is_boundary (v : list N) (k : nat) : bool :=
  match nth_error v k with
  | None => (k =? length v)%nat
  | Some c => negb ((128 <=? c) && (c <=? 191))
  end.
Definition slice (v : list N) (a b : nat) : option (list N) :=
  if (a <=? b)%nat && (b <=? length v)%nat && is_boundary v a && is_boundary v b
  then Some (firstn (b - a) (skipn a v)) else None.

(** the conjuncts of the big [if !( .. && .. )] of the date rule, in source order *)
Inductive dstep :=
| DAny (a b : nat) (max : N)              (* v[a..b].parse::<uN>().is_ok() *)
| DSep (a b : nat) (c : N)                (* &v[a..b] == "c" *)
| DRange (a b : nat) (max lo hi : N)      (* (lo..=hi).contains(&v[a..b].parse::<uN>().map_err(..)?) *)
| DBelow (a b : nat) (max lim : N).       (* v[a..b].parse::<uN>().map_err(..)? < lim *)
Definition DATE_STEPS : list dstep := [
  DAny 0 4 U16_MAX;
  DSep 4 5 SEP_SLASH;
  DRange 5 7 U8_MAX MONTH_MIN MONTH_MAX;
  DSep 7 8 SEP_SLASH;
  DRange 8 10 U8_MAX DAY_MIN DAY_MAX;
  DSep 10 11 SEP_SPACE;
  DBelow 11 13 U8_MAX HOUR_LIM;
  DSep 13 14 SEP_COLON;
  DBelow 14 16 U8_MAX MINUTE_LIM;
  DSep 16 17 SEP_COLON;
  DBelow 17 19 U8_MAX SECOND_LIM ].

(** one conjunct: [Some true] holds, [Some false] fails (by [false] or through [?] - either way
    the rule returns the date error), [None] the slice panics *)
Definition dstep_run (v : list N) (s : dstep) : option bool :=
  match s with
  | DAny a b max =>
      option_map (fun t => match parse_uint max t with Some _ => true | None => false end) (slice v a b)
  | DSep a b c => option_map (fun t => str_eqb t [c]) (slice v a b)
  | DRange a b max lo hi =>
      option_map (fun t => match parse_uint max t with
                           | Some x => (lo <=? x) && (x <=? hi) | None => false end) (slice v a b)
  | DBelow a b max lim =>
      option_map (fun t => match parse_uint max t with Some x => x <? lim | None => false end)
                 (slice v a b)
  end.
Fixpoint dsteps_run (v : list N) (ss : list dstep) : vres :=
  match ss with
  | [] => Ok tt
  | s :: r => match dstep_run v s with
              | None => Panic 1
              | Some false => Err EDate
              | Some true => dsteps_run v r
              end
  end.

Definition date_check (v : list N) : vres :=
  if negb (length v =? DATE_LENGTH)%nat then Err EDate else
  if negb (forallb date_char_ok v) then Err EDate else
  dsteps_run v DATE_STEPS.

Definition on_some {A} (o : option A) (f : A -> vres) : vres :=
  match o with None => Ok tt | Some a => f a end.

Definition r_date (i : info) : vres := on_some (i_date i) date_check.

(** ---------- rule 2: gasp records sorted ---------- *)
Fixpoint gasp_loop (last : N) (l : list N) : vres :=
  match l with
  | [] => Ok tt
  | c :: r => if c <? last then Err EGasp else gasp_loop c r     (* if last > current *)
  end.
Definition gasp_check (v : list N) : vres :=
  if (1 <? length v)%nat then
    match v with
    | [] => Panic 2                                  (* vs_iter.next().unwrap() *)
    | a :: r => gasp_loop a r
    end
  else Ok tt.
Definition r_gasp (i : info) : vres := on_some (i_gasp i) gasp_check.

(** ---------- rule 3: guidelines ---------- *)
(** [(0.0..=360.0).contains(&degrees)], i.e. [0.0 <= d && d <= 360.0] in IEEE arithmetic *)
Definition angle_ok (d : fl) : bool :=
  match d with
  | FNaN _ => false
  | FInf _ => false
  | FFin neg m e =>
      if m =? 0 then true
      else if neg then false
      else if (0 <=? e)%Z then (Z.of_N m * 2 ^ e <=? ANGLE_MAX)%Z
      else (Z.of_N m <=? ANGLE_MAX * 2 ^ (- e))%Z
  end.
Definition line_ok (l : line) : bool :=
  match l with LAngle d => angle_ok d | _ => true end.

Fixpoint guides_loop (seen : list str) (gs : list guide) : vres :=
  match gs with
  | [] => Ok tt
  | g :: r =>
      if negb (line_ok (g_line g)) then Err EAngle else
      match g_id g with
      | None => guides_loop seen r
      | Some id => if existsb (str_eqb id) seen then Err EDupId      (* !identifiers.insert(..) *)
                   else guides_loop (id :: seen) r
      end
  end.
Definition r_guides (i : info) : vres := on_some (i_guides i) (guides_loop []).

(** ---------- rules 4, 5: selection bits, family class ---------- *)
Definition contains (v : list N) (b : N) : bool := existsb (N.eqb b) v.
Definition r_selection (i : info) : vres :=
  on_some (i_selection i) (fun v => if existsb (contains v) BAD_BITS then Err ESelection else Ok tt).
Definition r_class (i : info) : vres :=
  on_some (i_class i) (fun '(c, s) =>
    if ((CLASS_MIN <=? c) && (c <=? CLASS_MAX)) && ((SUBCLASS_MIN <=? s) && (s <=? SUBCLASS_MAX)) then Ok tt
    else Err EClass).

(** ---------- rules 6-11: PostScript lists ---------- *)
(** (name in the error, limit of the [v.len() > limit] test, reported [max_len], parity test present) *)
Definition lspec := (string * nat * nat * bool)%type.
Definition L_BLUE : lspec := ("postscriptBlueValues", 14, 14, true)%nat.
Definition L_OBLUE : lspec := ("postscriptOtherBlues", 10, 10, true)%nat.
Definition L_FBLUE : lspec := ("postscriptFamilyBlues", 14, 14, true)%nat.
Definition L_FOBLUE : lspec := ("postscriptFamilyOtherBlues", 10, 10, true)%nat.
Definition L_STEMH : lspec := ("postscriptStemSnapH", 12, 12, false)%nat.
Definition L_STEMV : lspec := ("postscriptStemSnapV", 12, 12, false)%nat.
Definition LISTS : list lspec := [L_BLUE; L_OBLUE; L_FBLUE; L_FOBLUE; L_STEMH; L_STEMV].
Definition list_check (sp : lspec) (v : list Z) : vres :=
  let '(name, limit, max_len, pairs) := sp in
  if (limit <? length v)%nat then Err (EListLen name max_len (length v))
  else if pairs && negb (length v mod 2 =? 0)%nat then Err (EPairs name)
  else Ok tt.

(** ---------- rules 12-16: WOFF ---------- *)
Definition W_EXT : string := "woffMetadataExtensions".
Definition W_EXT_ITEMS : string := "woffMetadataExtensions record, items".
Definition W_EXT_ITEM : string := "woffMetadataExtensions record, item names or values".
Definition W_CREDITS : string := "woffMetadataCredits".
Definition W_COPYRIGHT : string := "woffMetadataCopyright".
Definition W_DESCR : string := "woffMetadataDescription, text".
Definition W_TRADE : string := "woffMetadataTrademark".
Definition WOFF_MSGS : list (list string) :=
  [[W_EXT; W_EXT_ITEMS; W_EXT_ITEM]; [W_CREDITS]; [W_COPYRIGHT]; [W_DESCR]; [W_TRADE]].
Fixpoint items_loop (items : list witem) : vres :=
  match items with
  | [] => Ok tt
  | (n, v) :: r =>
      if (n =? 0)%nat || (v =? 0)%nat
      then Err (EWoff W_EXT_ITEM)
      else items_loop r
  end.
Fixpoint wext_loop (rs : list (list witem)) : vres :=
  match rs with
  | [] => Ok tt
  | items :: r =>
      match items with
      | [] => Err (EWoff W_EXT_ITEMS)
      | _ => match items_loop items with Ok _ => wext_loop r | e => e end
      end
  end.
Definition wext_check (rs : list (list witem)) : vres :=
  match rs with [] => Err (EWoff W_EXT) | _ => wext_loop rs end.
Definition nonempty_check (what : string) (n : nat) : vres :=
  if (n =? 0)%nat then Err (EWoff what) else Ok tt.

(** ---------- [validate()]: the rules in source order, first error wins ---------- *)
(** each rule: the Rust field it reads, the error kinds it can return (in source order), the check *)
Definition rule := (string * list string * (info -> vres))%type.
Definition fi_rules : list rule := [
  ("open_type_head_created", ["InvalidOpenTypeHeadCreatedDate"], r_date);
  ("open_type_gasp_range_records", ["UnsortedGaspEntries"], r_gasp);
  ("guidelines", ["InvalidGuidelineAngle"; "DuplicateGuidelineIdentifiers"], r_guides);
  ("open_type_os2_selection", ["DisallowedSelectionBits"], r_selection);
  ("open_type_os2_family_class", ["InvalidOs2FamilyClass"], r_class);
  ("postscript_blue_values", ["InvalidPostscriptListLength"; "PostscriptListMustBePairs"],
     fun i => on_some (i_blue i) (list_check L_BLUE));
  ("postscript_other_blues", ["InvalidPostscriptListLength"; "PostscriptListMustBePairs"],
     fun i => on_some (i_oblue i) (list_check L_OBLUE));
  ("postscript_family_blues", ["InvalidPostscriptListLength"; "PostscriptListMustBePairs"],
     fun i => on_some (i_fblue i) (list_check L_FBLUE));
  ("postscript_family_other_blues", ["InvalidPostscriptListLength"; "PostscriptListMustBePairs"],
     fun i => on_some (i_foblue i) (list_check L_FOBLUE));
  ("postscript_stem_snap_h", ["InvalidPostscriptListLength"],
     fun i => on_some (i_stemh i) (list_check L_STEMH));
  ("postscript_stem_snap_v", ["InvalidPostscriptListLength"],
     fun i => on_some (i_stemv i) (list_check L_STEMV));
  ("woff_metadata_extensions", ["EmptyWoffAttribute"; "EmptyWoffAttribute"; "EmptyWoffAttribute"],
     fun i => on_some (i_wext i) wext_check);
  ("woff_metadata_credits", ["EmptyWoffAttribute"],
     fun i => on_some (i_wcredits i) (nonempty_check W_CREDITS));
  ("woff_metadata_copyright", ["EmptyWoffAttribute"],
     fun i => on_some (i_wcopyright i) (nonempty_check W_COPYRIGHT));
  ("woff_metadata_description", ["EmptyWoffAttribute"],
     fun i => on_some (i_wdescr i) (nonempty_check W_DESCR));
  ("woff_metadata_trademark", ["EmptyWoffAttribute"],
     fun i => on_some (i_wtrade i) (nonempty_check W_TRADE))
].
Definition rule_fn (r : rule) : info -> vres := snd r.
Definition rule_sig (r : rule) : string * list string := fst r.

Fixpoint run_rules (rs : list rule) (i : info) : vres :=
  match rs with
  | [] => Ok tt
  | r :: rest => match rule_fn r i with Ok _ => run_rules rest i | e => e end
  end.

(** [FontInfo::validate] *)
Definition fi_validate (i : info) : vres := run_rules fi_rules i.

(** ---------- [Font::save]: validate (before the target is touched), then write ---------- *)
(** The Guideline serialiser applies the angle test once more while fontinfo.plist is written,
    i.e. after the target directory has been wiped; this is the late failure of finding F9. *)
Definition ser_angles_ok (i : info) : bool :=
  match i_guides i with None => true | Some gs => forallb (fun g => line_ok (g_line g)) gs end.
Inductive save_err :=
| SInvalid (e : fi_err)       (* FontWriteError::InvalidFontInfo, target untouched *)
| SSerialize.                 (* FontWriteError::CustomFile { fontinfo.plist }, target already wiped *)
(** [Ok j]: the written fontinfo.plist holds [j] *)
Definition fi_save (i : info) : result info save_err :=
  match fi_validate i with
  | Ok _ => if ser_angles_ok i then Ok i else Err SSerialize
  | Err e => Err (SInvalid e)
  | Panic s => Panic s
  end.

(** ---------- [Font::load] of a fontinfo.plist ---------- *)
(** What a fontinfo.plist holds, as far as the typed deserialisers and the rules look at it. *)
Record rguide := { rg_x : bool; rg_y : bool; rg_angle : option fl; rg_id : option str }.
Record raw := {
  r_hdate : option (list N);
  r_hgasp : option (list (Z * list Z));   (* rangeMaxPPEM, rangeGaspBehavior *)
  r_hguides : option (list rguide);
  r_hselection : option (list Z);
  r_hclass : option (list Z);
  r_hpanose : option (list Z);            (* openTypeOS2Panose *)
  r_hwidth : option Z;                    (* openTypeOS2WidthClass *)
  r_hcharset : option Z;                  (* postscriptWindowsCharacterSet *)
  r_hu32s : list Z;                       (* the NonNegativeInteger fields present *)
  r_hupm : option fl;                     (* unitsPerEm *)
  r_hblue : option (list Z);
  r_hoblue : option (list Z);
  r_hfblue : option (list Z);
  r_hfoblue : option (list Z);
  r_hstemh : option (list Z);
  r_hstemv : option (list Z);
  r_hwext : option (list (list witem));
  r_hwcredits : option nat;
  r_hwcopyright : option nat;
  r_hwdescr : option nat;
  r_hwtrade : option nat;
  r_hunknown : bool                       (* a key that is not a FontInfo field is present *)
}.

Definition omap {A B} (f : A -> option B) (o : option A) : option (option B) :=
  match o with None => Some None | Some a => match f a with Some b => Some (Some b) | None => None end end.
Fixpoint mapM {A B} (f : A -> option B) (l : list A) : option (list B) :=
  match l with
  | [] => Some []
  | a :: r => match f a, mapM f r with Some b, Some bs => Some (b :: bs) | _, _ => None end
  end.
Definition uint_le (max : N) (z : Z) : option N :=
  if ((0 <=? z) && (z <=? Z.of_N max))%Z then Some (Z.to_N z) else None.
Definition in_code_range (lo hi : Z) (z : Z) : bool := ((lo <=? z) && (z <=? hi))%Z.

(** the shape test of the Guideline deserialiser, without its angle test *)
Definition guide_of (g : rguide) : option guide :=
  match rg_x g, rg_y g, rg_angle g with
  | true, false, None => Some {| g_line := LVert; g_id := rg_id g |}
  | false, true, None => Some {| g_line := LHoriz; g_id := rg_id g |}
  | true, true, Some d => Some {| g_line := LAngle d; g_id := rg_id g |}
  | _, _, _ => None
  end.
Definition gasp_of (p : Z * list Z) : option N :=
  if forallb (in_code_range 0 3) (snd p) then uint_le U32_MAX (fst p) else None.
Definition class_of (l : list Z) : option (N * N) :=
  match mapM (uint_le U8_MAX) l with
  | Some [c; s] => Some (c, s)
  | _ => None
  end.
Definition panose_ok (l : list Z) : bool :=
  match mapM (uint_le U32_MAX) l with Some v => (length v =? 10)%nat | None => false end.
Definition opt_all {A} (f : A -> bool) (o : option A) : bool :=
  match o with None => true | Some a => f a end.

(** [build r]: the [FontInfo] value that holds what [r] describes, when there is one (the Rust
    types admit it); [None] when no such value exists (the typed deserialisers refuse). *)
Definition build (r : raw) : option info :=
  if r_hunknown r then None else
  if negb (opt_all panose_ok (r_hpanose r)) then None else
  if negb (opt_all (in_code_range 1 9) (r_hwidth r)) then None else
  if negb (opt_all (in_code_range 1 20) (r_hcharset r)) then None else
  if negb (forallb (fun z => match uint_le U32_MAX z with Some _ => true | None => false end) (r_hu32s r)) then None else
  if negb (opt_all fl_sign_positive (r_hupm r)) then None else
  match omap (mapM gasp_of) (r_hgasp r),
        omap (mapM guide_of) (r_hguides r),
        omap (mapM (uint_le U8_MAX)) (r_hselection r),
        omap class_of (r_hclass r) with
  | Some gasp, Some guides, Some sel, Some cls =>
      Some {| i_date := r_hdate r; i_gasp := gasp; i_guides := guides; i_selection := sel;
              i_class := cls; i_blue := r_hblue r; i_oblue := r_hoblue r; i_fblue := r_hfblue r;
              i_foblue := r_hfoblue r; i_stemh := r_hstemh r; i_stemv := r_hstemv r;
              i_wext := r_hwext r; i_wcredits := r_hwcredits r; i_wcopyright := r_hwcopyright r;
              i_wdescr := r_hwdescr r; i_wtrade := r_hwtrade r |}
  | _, _, _, _ => None
  end.

(** the Guideline deserialiser also applies the angle test *)
Definition deser_angles_ok (i : info) : bool :=
  opt_all (forallb (fun g => line_ok (g_line g))) (i_guides i).
(** plist::from_file::<FontInfo> *)
Definition decode (r : raw) : option info :=
  match build r with
  | Some i => if deser_angles_ok i then Some i else None
  | None => None
  end.

Inductive load_err :=
| LParse                      (* FontInfoLoadError::ParsePlist *)
| LInvalid (e : fi_err).      (* FontInfoLoadError::InvalidData *)

(** FontInfo::from_file (format 3): deserialise, validate *)
Definition fi_load (r : raw) : result info load_err :=
  match decode r with
  | None => Err LParse
  | Some i => match fi_validate i with Ok _ => Ok i | Err e => Err (LInvalid e) | Panic s => Panic s end
  end.

(** the fontinfo.plist that [Font::save] writes for a value *)
Definition rguide_of (g : guide) : rguide :=
  match g_line g with
  | LVert => {| rg_x := true; rg_y := false; rg_angle := None; rg_id := g_id g |}
  | LHoriz => {| rg_x := false; rg_y := true; rg_angle := None; rg_id := g_id g |}
  | LAngle d => {| rg_x := true; rg_y := true; rg_angle := Some d; rg_id := g_id g |}
  end.
Definition encode (i : info) : raw :=
  {| r_hdate := i_date i;
     r_hgasp := option_map (map (fun p => (Z.of_N p, []))) (i_gasp i);
     r_hguides := option_map (map rguide_of) (i_guides i);
     r_hselection := option_map (map Z.of_N) (i_selection i);
     r_hclass := option_map (fun '(c, s) => [Z.of_N c; Z.of_N s]) (i_class i);
     r_hpanose := None; r_hwidth := None; r_hcharset := None; r_hu32s := []; r_hupm := None;
     r_hblue := i_blue i; r_hoblue := i_oblue i; r_hfblue := i_fblue i; r_hfoblue := i_foblue i;
     r_hstemh := i_stemh i; r_hstemv := i_stemv i; r_hwext := i_wext i;
     r_hwcredits := i_wcredits i; r_hwcopyright := i_wcopyright i; r_hwdescr := i_wdescr i;
     r_hwtrade := i_wtrade i; r_hunknown := false |}.
(** the ranges of the Rust integer types of the fields *)
Definition info_wt (i : info) : Prop :=
  (forall l, i_gasp i = Some l -> Forall (fun p => p <= U32_MAX) l) /\
  (forall l, i_selection i = Some l -> Forall (fun b => b <= U8_MAX) l) /\
  (forall c s, i_class i = Some (c, s) -> c <= U8_MAX /\ s <= U8_MAX).

(** ================= specification ================= *)
(** Written from the property text and the UFO 3 fontinfo.plist specification; it does not
    mention slices, parsers, loops or the order of checks. *)

Definition opt_ok {A} (P : A -> Prop) (o : option A) : Prop := forall a, o = Some a -> P a.

Definition is_digit (b : N) : Prop := 48 <= b /\ b <= 57.
(** the number written by two decimal digits *)
Definition two (a b : N) : N := 10 * (a - 48) + (b - 48).
(** 'YYYY/MM/DD HH:MM:SS' with month 1-12, day 1-31, hour 0-23, minute and second 0-59 *)
Definition date_spec (v : list N) : Prop :=
  exists y1 y2 y3 y4 m1 m2 d1 d2 h1 h2 n1 n2 s1 s2,
    v = [y1; y2; y3; y4; 47; m1; m2; 47; d1; d2; 32; h1; h2; 58; n1; n2; 58; s1; s2] /\
    Forall is_digit [y1; y2; y3; y4; m1; m2; d1; d2; h1; h2; n1; n2; s1; s2] /\
    1 <= two m1 m2 <= 12 /\ 1 <= two d1 d2 <= 31 /\
    two h1 h2 <= 23 /\ two n1 n2 <= 59 /\ two s1 s2 <= 59.

(** sorted by ppem: an earlier record never has a larger ppem than a later one *)
Definition gasp_sorted (l : list N) : Prop :=
  forall j k a b, (j < k)%nat -> nth_error l j = Some a -> nth_error l k = Some b -> a <= b.

(** the identifiers that are present, in order *)
Definition guide_ids (gs : list guide) : list str :=
  flat_map (fun g => match g_id g with Some id => [id] | None => [] end) gs.

(** the real number a finite binary64 denotes *)
Definition fl_value (d : fl) : option Q :=
  match d with
  | FFin neg m e =>
      let s := (if neg then -1 else 1)%Z in
      Some (if (0 <=? e)%Z then inject_Z (s * Z.of_N m * 2 ^ e)
            else Qmake (s * Z.of_N m) (Z.to_pos (2 ^ (- e))))
  | _ => None
  end.
(** an angle is a number within [0, 360] *)
Definition angle_spec (d : fl) : Prop :=
  exists q, fl_value d = Some q /\ (0 <= q)%Q /\ (q <= 360)%Q.
Definition guide_angle_spec (g : guide) : Prop :=
  forall d, g_line g = LAngle d -> angle_spec d.

Definition selection_spec (v : list N) : Prop := ~ In 0 v /\ ~ In 5 v /\ ~ In 6 v.
Definition class_spec (p : N * N) : Prop := fst p <= 14 /\ snd p <= 15.
(** a list of pairs with at most [max] members *)
Definition blues_spec (max : nat) (v : list Z) : Prop :=
  (length v <= max)%nat /\ exists k, length v = (2 * k)%nat.
Definition stems_spec (v : list Z) : Prop := (length v <= 12)%nat.
(** at least one extension record; each has at least one item; each item has at least one name
    and at least one value *)
Definition wext_spec (rs : list (list witem)) : Prop :=
  rs <> [] /\
  Forall (fun items => items <> [] /\ Forall (fun it : witem => fst it <> 0%nat /\ snd it <> 0%nat) items) rs.
Definition nonempty_spec (n : nat) : Prop := n <> 0%nat.

Definition fi_spec (i : info) : Prop :=
  opt_ok date_spec (i_date i) /\
  opt_ok gasp_sorted (i_gasp i) /\
  opt_ok (fun gs => NoDup (guide_ids gs)) (i_guides i) /\
  opt_ok (Forall guide_angle_spec) (i_guides i) /\
  opt_ok selection_spec (i_selection i) /\
  opt_ok class_spec (i_class i) /\
  opt_ok (blues_spec 14) (i_blue i) /\
  opt_ok (blues_spec 10) (i_oblue i) /\
  opt_ok (blues_spec 14) (i_fblue i) /\
  opt_ok (blues_spec 10) (i_foblue i) /\
  opt_ok stems_spec (i_stemh i) /\
  opt_ok stems_spec (i_stemv i) /\
  opt_ok wext_spec (i_wext i) /\
  opt_ok nonempty_spec (i_wcredits i) /\
  opt_ok nonempty_spec (i_wcopyright i) /\
  opt_ok nonempty_spec (i_wdescr i) /\
  opt_ok nonempty_spec (i_wtrade i).

(** what the typed deserialisers demand of a file (declaratively) *)
Definition is_uint (max : N) (z : Z) : Prop := (0 <= z <= Z.of_N max)%Z.
Definition rguide_shape (g : rguide) : Prop :=
  (rg_x g = true /\ rg_y g = false /\ rg_angle g = None) \/
  (rg_x g = false /\ rg_y g = true /\ rg_angle g = None) \/
  (rg_x g = true /\ rg_y g = true /\ exists d, rg_angle g = Some d).
Definition raw_typed (r : raw) : Prop :=
  r_hunknown r = false /\
  opt_ok (fun l => length l = 10%nat /\ Forall (is_uint U32_MAX) l) (r_hpanose r) /\
  opt_ok (fun z => 1 <= z <= 9)%Z (r_hwidth r) /\
  opt_ok (fun z => 1 <= z <= 20)%Z (r_hcharset r) /\
  Forall (is_uint U32_MAX) (r_hu32s r) /\
  opt_ok (fun d => fl_sign_positive d = true) (r_hupm r) /\
  opt_ok (Forall (fun p => is_uint U32_MAX (fst p) /\ Forall (fun b => 0 <= b <= 3)%Z (snd p))) (r_hgasp r) /\
  opt_ok (Forall rguide_shape) (r_hguides r) /\
  opt_ok (Forall (is_uint U8_MAX)) (r_hselection r) /\
  opt_ok (fun l => exists c s, l = [c; s] /\ is_uint U8_MAX c /\ is_uint U8_MAX s) (r_hclass r).

(** ---------- boolean decision procedure for [fi_spec] (used by the correspondence run as the
    property oracle; proved equivalent in Proofs/FontInfoP.v) ---------- *)
Definition optb {A} (f : A -> bool) (o : option A) : bool :=
  match o with None => true | Some a => f a end.
Definition date_specb (v : list N) : bool :=
  match v with
  | [y1; y2; y3; y4; c1; m1; m2; c2; d1; d2; c3; h1; h2; c4; n1; n2; c5; s1; s2] =>
      forallb is_digitb [y1; y2; y3; y4; m1; m2; d1; d2; h1; h2; n1; n2; s1; s2] &&
      (c1 =? 47) && (c2 =? 47) && (c3 =? 32) && (c4 =? 58) && (c5 =? 58) &&
      (1 <=? two m1 m2) && (two m1 m2 <=? 12) && (1 <=? two d1 d2) && (two d1 d2 <=? 31) &&
      (two h1 h2 <=? 23) && (two n1 n2 <=? 59) && (two s1 s2 <=? 59)
  | _ => false
  end.
(** every later element is at least every earlier one *)
Fixpoint gasp_sortedb (l : list N) : bool :=
  match l with [] => true | a :: r => forallb (fun b => a <=? b) r && gasp_sortedb r end.
Fixpoint nodupb (l : list str) : bool :=
  match l with [] => true | a :: r => negb (existsb (str_eqb a) r) && nodupb r end.
Definition fl_valueb_in_range (d : fl) : bool :=
  match d with
  | FFin neg m e =>
      let s := (if neg then -1 else 1)%Z in
      if (0 <=? e)%Z then ((0 <=? s * Z.of_N m * 2 ^ e) && (s * Z.of_N m * 2 ^ e <=? 360))%Z
      else ((0 <=? s * Z.of_N m) && (s * Z.of_N m <=? 360 * 2 ^ (- e)))%Z
  | _ => false
  end.
Definition guide_angleb (g : guide) : bool :=
  match g_line g with LAngle d => fl_valueb_in_range d | _ => true end.
Definition selection_specb (v : list N) : bool :=
  negb (existsb (N.eqb 0) v) && negb (existsb (N.eqb 5) v) && negb (existsb (N.eqb 6) v).
Definition blues_specb (max : nat) (v : list Z) : bool :=
  (length v <=? max)%nat && Nat.even (length v).
Definition wext_specb (rs : list (list witem)) : bool :=
  match rs with [] => false | _ =>
    forallb (fun items => match items with [] => false | _ =>
      forallb (fun it : witem => negb (fst it =? 0)%nat && negb (snd it =? 0)%nat) items end) rs
  end.
Definition fi_specb (i : info) : bool :=
  optb date_specb (i_date i) &&
  optb gasp_sortedb (i_gasp i) &&
  optb (fun gs => nodupb (guide_ids gs)) (i_guides i) &&
  optb (forallb guide_angleb) (i_guides i) &&
  optb selection_specb (i_selection i) &&
  optb (fun p => (fst p <=? 14) && (snd p <=? 15)) (i_class i) &&
  optb (blues_specb 14) (i_blue i) &&
  optb (blues_specb 10) (i_oblue i) &&
  optb (blues_specb 14) (i_fblue i) &&
  optb (blues_specb 10) (i_foblue i) &&
  optb (fun v => (length v <=? 12)%nat) (i_stemh i) &&
  optb (fun v => (length v <=? 12)%nat) (i_stemv i) &&
  optb wext_specb (i_wext i) &&
  optb (fun n => negb (n =? 0)%nat) (i_wcredits i) &&
  optb (fun n => negb (n =? 0)%nat) (i_wcopyright i) &&
  optb (fun n => negb (n =? 0)%nat) (i_wdescr i) &&
  optb (fun n => negb (n =? 0)%nat) (i_wtrade i).
