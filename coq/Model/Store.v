(** Model of [Store<Data>] / [Store<Image>] (src/datastore.rs), of the store part of
    [Font::save_impl] / [Font::load_requested_data] (src/font.rs) and of [glyph::Image::new]
    (src/glyph/mod.rs), as the code is after the repairs c2a517e and 2c07570.
    Also the specification predicates of C16.  Definitions only. *)
Require Export Norad.Model.Base.
Open Scope N_scope.

Definition bytes := list N.

(** * Paths: [std::path::Path::components()] on Unix *)

Inductive comp :=
| Normal (s : str)      (* Component::Normal *)
| ParentDir             (* ".." *)
| CurDir                (* a leading "." *)
| RootDir.              (* a leading "/" *)
Definition path := list comp.

Definition SEP : N := 47.   (* '/' *)
Definition DOT : N := 46.   (* '.' *)

Definition is_nil {A} (l : list A) : bool := match l with [] => true | _ => false end.

(** the text between separators, empty pieces included: "a//b/" = ["a";"";"b";""] *)
Fixpoint segments (s : str) : list str :=
  match s with
  | [] => [[]]
  | c :: r =>
      if c =? SEP then [] :: segments r
      else match segments r with
           | seg :: rest => (c :: seg) :: rest
           | [] => [[c]]
           end
  end.

Definition is_dot (s : str) : bool := str_eqb s [DOT].
Definition is_dotdot (s : str) : bool := str_eqb s [DOT; DOT].

(** a piece that is not the first one: empty pieces ("//", trailing "/") and "." vanish *)
Definition seg_comp (s : str) : list comp :=
  if is_nil s then [] else if is_dot s then [] else if is_dotdot s then [ParentDir] else [Normal s].
(** the first piece of a relative path: a leading "." is kept as [CurDir] *)
Definition first_comp (s : str) : list comp :=
  if is_nil s then [] else if is_dot s then [CurDir] else if is_dotdot s then [ParentDir]
  else [Normal s].

Definition is_absolute (raw : str) : bool :=          (* Path::is_absolute = has_root on Unix *)
  match raw with c :: _ => c =? SEP | [] => false end.

Definition components (raw : str) : path :=
  match raw with
  | [] => []
  | _ :: _ =>
      if is_absolute raw then RootDir :: flat_map seg_comp (segments raw)
      else match segments raw with
           | f :: r => first_comp f ++ flat_map seg_comp r
           | [] => []
           end
  end.

Definition comp_eqb (a b : comp) : bool :=
  match a, b with
  | Normal s, Normal t => str_eqb s t
  | ParentDir, ParentDir | CurDir, CurDir | RootDir, RootDir => true
  | _, _ => false
  end.
Definition path_eqb : path -> path -> bool := list_eqb comp_eqb.

Definition is_normal (c : comp) : bool := match c with Normal _ => true | _ => false end.
Definition all_normal (p : path) : bool := forallb is_normal p.

(** [Path::starts_with]: component-wise prefix *)
Fixpoint is_prefix (a b : path) : bool :=
  match a, b with
  | [], _ => true
  | x :: a', y :: b' => comp_eqb x y && is_prefix a' b'
  | _ :: _, [] => false
  end.

(** [ancestors().skip(1)] of a path of normal components, without the final empty path:
    the proper non-empty prefixes *)
Fixpoint proper_prefixes (p : path) : list path :=
  match p with
  | [] => []
  | c :: r => match r with
              | [] => []
              | _ => [c] :: map (cons c) (proper_prefixes r)
              end
  end.

(** text of a component, and [PathBuf::push] / [components().collect::<PathBuf>()] *)
Definition comp_text (c : comp) : str :=
  match c with Normal s => s | ParentDir => [DOT; DOT] | CurDir => [DOT] | RootDir => [SEP] end.
Definition push (buf t : str) : str :=
  if is_absolute t then t
  else match buf with
       | [] => t
       | _ => if last buf 0 =? SEP then buf ++ t else buf ++ SEP :: t
       end.
Definition rebuild (p : path) : str := fold_left (fun buf c => push buf (comp_text c)) p [].

(** a file or directory name the file system can hold: non-empty, no separator, not "." / ".." *)
Definition name_ok (s : str) : bool :=
  negb (is_nil s) && negb (existsb (N.eqb SEP) s) && negb (is_dot s) && negb (is_dotdot s).
Definition names (p : path) : list str :=
  map (fun c => match c with Normal s => s | _ => [] end) p.
Fixpoint join (ns : list str) : str :=
  match ns with
  | [] => []
  | [n] => n
  | n :: r => n ++ SEP :: join r
  end.

(** * The store *)

Inductive serr :=                      (* StoreError, variant only *)
| DirUnderFile | EmptyPath | NotPlainFileOrDir | PathIsAbsolute | InvalidPathComponent
| NotPlainFile | Subdir | InvalidImage | Io.

Inductive cell := NotLoaded | Loaded (b : bytes) | Error (e : serr).     (* Item *)
Inductive kind := KData | KImage.

(** [HashMap<PathBuf, RefCell<Item>>]: the key is a text, compared through its components.
    (Iteration order is the list order here; every comparison with the code sorts.) *)
Definition items := list (str * cell).

Definition key_eqb (a b : str) : bool := path_eqb (components a) (components b).
Definition has_path (q : path) (its : items) : bool :=
  existsb (fun kc => path_eqb (components (fst kc)) q) its.

Fixpoint find_key (raw : str) (its : items) : option (str * cell) :=
  match its with
  | [] => None
  | (t, c) :: r => if key_eqb t raw then Some (t, c) else find_key raw r
  end.
(** [HashMap::insert]: an equal key keeps its old text, the value is replaced *)
Fixpoint put (t : str) (c : cell) (its : items) : items :=
  match its with
  | [] => [(t, c)]
  | (t', c') :: r => if key_eqb t' t then (t', c) :: r else (t', c') :: put t c r
  end.
Fixpoint del (raw : str) (its : items) : items :=
  match its with
  | [] => []
  | (t, c) :: r => if key_eqb t raw then r else (t, c) :: del raw r
  end.

Definition PNG_SIG : bytes := [137; 80; 78; 71; 13; 10; 26; 10].
Fixpoint starts_with (pre b : bytes) : bool :=
  match pre, b with
  | [], _ => true
  | x :: p', y :: b' => (x =? y) && starts_with p' b'
  | _ :: _, [] => false
  end.

(** [validate_entry]; [None] = Ok(()) *)
Definition validate (k : kind) (raw : str) (its : items) (data : bytes) : option serr :=
  let p := components raw in
  if is_nil raw then Some EmptyPath
  else if is_absolute raw then Some PathIsAbsolute
  else if negb (all_normal p) then Some InvalidPathComponent
  else match k with
       | KData =>
           if existsb (fun a => has_path a its) (proper_prefixes p) then Some DirUnderFile
           else if existsb (fun kc => negb (path_eqb (components (fst kc)) p)
                                      && is_prefix p (components (fst kc))) its
                then Some DirUnderFile
                else None
       | KImage =>
           if (2 <=? N.of_nat (length p)) then Some Subdir      (* parent() is a non-empty path *)
           else if negb (starts_with PNG_SIG data) then Some InvalidImage
           else None
       end.

(** [insert]: validate, then store the key rebuilt from its components *)
Definition insert (k : kind) (raw : str) (data : bytes) (its : items) : option serr * items :=
  match validate k raw its data with
  | Some e => (Some e, its)
  | None => (None, put (rebuild (components raw)) (Loaded data) its)
  end.

Definition remove (raw : str) (its : items) : items := del raw its.
Definition clear (its : items) : items := [].
Definition contains_key (raw : str) (its : items) : bool :=
  match find_key raw its with Some _ => true | None => false end.
Definition keys (its : items) : list str := map fst its.

(** * The directory a store was loaded from, as it is at some moment *)

Inductive dent := DFile (b : bytes) | DOther (* symlink, fifo, ... *) | DEmptyDir.
(** content of <ufo>/data or <ufo>/images: entries by their path of names below it;
    directories with content are implicit *)
Definition disk := list (list str * dent).

Definition names_eqb : list str -> list str -> bool := list_eqb str_eqb.
Fixpoint disk_read (d : disk) (p : list str) : option bytes :=
  match d with
  | [] => None
  | (q, e) :: r => if names_eqb q p
                   then match e with DFile b => Some b | _ => None end
                   else disk_read r p
  end.

(** a text that ends in "/" or "/." names a directory for the operating system, so reading it
    as a file fails even when the file exists *)
Definition trailing_dirish (raw : str) : bool :=
  match rev raw with
  | c :: r => (c =? SEP) || ((c =? DOT) && match r with c2 :: _ => c2 =? SEP | [] => false end)
  | [] => false
  end.

(** [fs::read(ufo_root.join(DIR).join(path))]: [path] is the text the caller used *)
Definition os_read (d : disk) (raw : str) : option bytes :=
  if trailing_dirish raw then None
  else if all_normal (components raw) then disk_read d (names (components raw)) else None.

Definition load_item (k : kind) (d : disk) (raw : str) (its : items) : cell :=
  match os_read d raw with
  | Some b => match validate k raw its b with
              | None => Loaded b
              | Some e => Error e
              end
  | None => Error Io
  end.

Fixpoint set_cell (t : str) (c : cell) (its : items) : items :=
  match its with
  | [] => []
  | (t', c') :: r => if key_eqb t' t then (t', c) :: r else (t', c') :: set_cell t c r
  end.

(** result of [get]: None = not tracked *)
Inductive gres := GOk (b : bytes) | GErr (e : serr) | GPanic.
Definition cell_res (c : cell) : gres :=
  match c with Loaded b => GOk b | Error e => GErr e | NotLoaded => GPanic (* unreachable!() *) end.

(** [get]: fills the cell on first access from the disk as it is now, never re-reads *)
Definition get (k : kind) (d : disk) (raw : str) (its : items) : option gres * items :=
  match find_key raw its with
  | None => (None, its)
  | Some (t, c) =>
      match c with
      | NotLoaded => let c' := load_item k d raw its in (Some (cell_res c'), set_cell t c' its)
      | _ => (Some (cell_res c), its)
      end
  end.

(** [iter]: [keys().map(|k| (k, self.get(k).unwrap()))], driven to the end *)
Fixpoint iter_keys (k : kind) (d : disk) (ks : list str) (its : items)
  : list (str * gres) * items :=
  match ks with
  | [] => ([], its)
  | t :: r =>
      let '(g, its1) := get k d t its in
      let '(l, its2) := iter_keys k d r its1 in
      ((t, match g with Some x => x | None => GPanic end) :: l, its2)
  end.
Definition iter (k : kind) (d : disk) (its : items) : list (str * gres) * items :=
  iter_keys k d (keys its) its.

(** * Operation histories *)

Inductive sop :=
| Insert (raw : str) (data : bytes)
| Remove (raw : str)
| Get (d : disk) (raw : str)         (* the disk as it is when the call is made *)
| Clear
| Iter (d : disk)
| Contains (raw : str).

Definition step (k : kind) (its : items) (o : sop) : items :=
  match o with
  | Insert raw data => snd (insert k raw data its)
  | Remove raw => remove raw its
  | Get d raw => snd (get k d raw its)
  | Clear => clear its
  | Iter d => snd (iter k d its)
  | Contains _ => its
  end.
Definition run (k : kind) (ops : list sop) (its : items) : items := fold_left (step k) ops its.

(** * Loading: [try_list_contents] + [Store::new] *)

Definition is_other (e : list str * dent) : bool :=
  match snd e with DOther => true | _ => false end.
Definition file_keys (d : disk) : list str :=
  flat_map (fun e => match snd e with DFile _ => [join (fst e)] | _ => [] end) d.
(** an entry of images/ that is (or lies in) a sub-directory *)
Definition is_subdir_entry (e : list str * dent) : bool :=
  match fst e, snd e with
  | _ :: _ :: _, _ => true
  | _, DEmptyDir => true
  | _, _ => false
  end.
Definition list_contents (k : kind) (d : disk) : result (list str) serr :=
  match k with
  | KData => if existsb is_other d then Err NotPlainFileOrDir else Ok (file_keys d)
  | KImage =>
      (* read_dir order decides which offending entry is met first; the correspondence run
         never puts both kinds into one directory *)
      if existsb is_subdir_entry d then Err Subdir
      else if existsb is_other d then Err NotPlainFile
      else Ok (file_keys d)
  end.
(** [None]: the directory does not exist → [Default::default()] *)
Definition load_store (k : kind) (d : option disk) : result items serr :=
  match d with
  | None => Ok []
  | Some d => match list_contents k d with
              | Ok ks => Ok (map (fun t => (t, NotLoaded)) ks)
              | Err e => Err e
              | Panic s => Panic s
              end
  end.

(** what the model assumes of a directory tree (the operating system's side) *)
Definition names_prefix (a b : list str) : bool :=
  (length a <=? length b)%nat && names_eqb a (firstn (length a) b).
Definition wf_disk (d : disk) : Prop :=
  NoDup (map fst d) /\
  (forall p e, In (p, e) d -> p <> [] /\ Forall (fun n => name_ok n = true) p) /\
  (forall p e q e', In (p, e) d -> In (q, e') d -> names_prefix p q = true -> p = q).

(** * The store part of [Font::save_impl] over an abstract target directory *)

Inductive fent := AFile (b : bytes) | ADir.
(** the target: latest binding first; [None] binding = removed *)
Definition afs := list (list str * option fent).
Fixpoint fs_lookup (fs : afs) (p : list str) : option fent :=
  match fs with
  | [] => None
  | (q, e) :: r => if names_eqb q p then e else fs_lookup r p
  end.

Definition DATA_DIR : str := [100; 97; 116; 97].                 (* "data" *)
Definition IMAGES_DIR : str := [105; 109; 97; 103; 101; 115].    (* "images" *)

Inductive fserr := FsExists | FsNoParent | FsNotDir | FsIsDir.

Definition parent_of (p : list str) : list str := removelast p.

(** [fs::create_dir]: the parent must be a directory, the path must not exist *)
Definition fs_mkdir (fs : afs) (p : list str) : afs + fserr :=
  match fs_lookup fs p with
  | Some _ => inr FsExists
  | None => match p with
            | [] => inl ((p, Some ADir) :: fs)
            | _ => match fs_lookup fs (parent_of p) with
                   | Some ADir => inl ((p, Some ADir) :: fs)
                   | Some (AFile _) => inr FsNotDir
                   | None => inr FsNoParent
                   end
            end
  end.
(** [fs::create_dir_all p]: every prefix of [p], shortest first *)
Fixpoint fs_mkdir_all_aux (fs : afs) (pre : list str) (rest : list str) : afs + fserr :=
  let here := match fs_lookup fs pre with
              | Some ADir => inl fs
              | Some (AFile _) => inr FsNotDir
              | None => inl ((pre, Some ADir) :: fs)
              end in
  match here with
  | inr e => inr e
  | inl fs' => match rest with
               | [] => inl fs'
               | n :: r => fs_mkdir_all_aux fs' (pre ++ [n]) r
               end
  end.
Definition fs_mkdir_all (fs : afs) (p : list str) : afs + fserr := fs_mkdir_all_aux fs [] p.
(** [fs::write]: the parent must be a directory, the path must not be one *)
Definition fs_write (fs : afs) (p : list str) (b : bytes) : afs + fserr :=
  match fs_lookup fs (parent_of p) with
  | Some ADir => match fs_lookup fs p with
                 | Some ADir => inr FsIsDir
                 | _ => inl ((p, Some (AFile b)) :: fs)
                 end
  | Some (AFile _) => inr FsNotDir
  | None => inr FsNoParent
  end.

Inductive save_res :=
| SaveOk
| SaveInvalidEntry (t : str) (e : serr)      (* FontWriteError::InvalidStoreEntry: before any effect *)
| SaveFsError (e : fserr)                    (* CreateStoreDir / Data / Image: after the wipe *)
| SavePanic.                                 (* expect("internal error: should have been checked") *)

Definition first_error (l : list (str * gres)) : option (str * serr) :=
  match filter (fun x => match snd x with GErr _ => true | _ => false end) l with
  | (t, GErr e) :: _ => Some (t, e)
  | _ => None
  end.

Fixpoint write_data (fs : afs) (l : list (str * gres)) : afs + save_res :=
  match l with
  | [] => inl fs
  | (t, g) :: r =>
      match g with
      | GOk b =>
          let dest := DATA_DIR :: names (components t) in
          match fs_mkdir_all fs (parent_of dest) with
          | inr e => inr (SaveFsError e)
          | inl fs1 => match fs_write fs1 dest b with
                       | inr e => inr (SaveFsError e)
                       | inl fs2 => write_data fs2 r
                       end
          end
      | _ => inr SavePanic
      end
  end.
Fixpoint write_images (fs : afs) (l : list (str * gres)) : afs + save_res :=
  match l with
  | [] => inl fs
  | (t, g) :: r =>
      match g with
      | GOk b =>
          match fs_write fs (IMAGES_DIR :: names (components t)) b with
          | inr e => inr (SaveFsError e)
          | inl fs2 => write_images fs2 r
          end
      | _ => inr SavePanic
      end
  end.

(** The store part of save: force every cell of both stores (data first), refuse on the first
    error entry; only then wipe the target, create it, (the rest of the font, not modelled here,
    is written) and write data/ and images/.  [target] is the content of the target directory
    before the call, [None] if it does not exist.  Returns the outcome, the content of the target
    afterwards and both stores (forcing fills cells). *)
Definition save (dd di : disk) (data imgs : items) (target : option afs)
  : save_res * option afs * items * items :=
  let '(ld, data1) := iter KData dd data in
  match first_error ld with
  | Some (t, e) => (SaveInvalidEntry t e, target, data1, imgs)
  | None =>
      let '(li, imgs1) := iter KImage di imgs in
      match first_error li with
      | Some (t, e) => (SaveInvalidEntry t e, target, data1, imgs1)
      | None =>
          let fs0 : afs := [([], Some ADir)] in           (* remove_dir_all + create_dir *)
          (* second pass of [iter()]: every cell is filled, nothing is read again *)
          let '(ld2, data2) := iter KData dd data1 in
          let r1 := if is_nil data2 then inl fs0 else write_data fs0 ld2 in
          match r1 with
          | inr e => (e, None, data2, imgs1)
          | inl fs1 =>
              let '(li2, imgs2) := iter KImage di imgs1 in
              if is_nil imgs2 then (SaveOk, Some fs1, data2, imgs2)
              else match fs_mkdir fs1 [IMAGES_DIR] with
                   | inr e => (SaveFsError e, None, data2, imgs2)
                   | inl fs2 => match write_images fs2 li2 with
                                | inr e => (e, None, data2, imgs2)
                                | inl fs3 => (SaveOk, Some fs3, data2, imgs2)
                                end
                   end
          end
      end
  end.

(** * [glyph::Image::new]: the file name of a glyph's image reference *)
Definition glyph_image_new (raw : str) : option serr :=
  if is_nil raw then Some EmptyPath
  else if is_absolute raw then Some PathIsAbsolute
  else
    (* Path::parent(): drop the last component unless it is the root; non-empty iff something
       is left *)
    let p := components raw in
    if (2 <=? N.of_nat (length p)) then Some Subdir else None.

(** * Specification (C16) *)

Definition proper_prefix (a b : path) : Prop := is_prefix a b = true /\ a <> b.

(** what the property demands of one key *)
Definition key_ok (t : str) : Prop :=
  t <> [] /\                                  (* non-empty *)
  is_absolute t = false /\                    (* relative *)
  all_normal (components t) = true /\         (* plain names only: no "..", ".", root *)
  rebuild (components t) = t.                 (* kept in plain form: no stray separators *)

Definition C16_inv (k : kind) (its : items) : Prop :=
  NoDup (map (fun kc => components (fst kc)) its) /\
  (forall t c, In (t, c) its -> key_ok t) /\
  (* no key is a proper path prefix of another, in either direction *)
  (forall t1 c1 t2 c2, In (t1, c1) its -> In (t2, c2) its ->
                       ~ proper_prefix (components t1) (components t2)) /\
  (k = KImage ->
   forall t c, In (t, c) its ->
               length (components t) = 1%nat /\
               forall b, c = Loaded b -> starts_with PNG_SIG b = true).

(** when the property lets a key and its content in *)
Definition insert_legal (k : kind) (raw : str) (data : bytes) (its : items) : Prop :=
  raw <> [] /\ is_absolute raw = false /\ all_normal (components raw) = true /\
  match k with
  | KData => forall t c, In (t, c) its ->
                         ~ proper_prefix (components t) (components raw) /\
                         ~ proper_prefix (components raw) (components t)
  | KImage => length (components raw) = 1%nat /\ starts_with PNG_SIG data = true
  end.

(** the cell of a key *)
Definition cell_of (raw : str) (its : items) : option cell :=
  match find_key raw its with Some (_, c) => Some c | None => None end.

(** an operation that may drop or replace the entry of [raw] *)
Definition touches (raw : str) (o : sop) : bool :=
  match o with
  | Insert r _ => key_eqb r raw
  | Remove r => key_eqb r raw
  | Clear => true
  | _ => false
  end.
