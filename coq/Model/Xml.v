(** XML documents as event trees, the way quick-xml's pull reader presents them to norad:
    start tags with their content ([Elem]) and self-closing tags ([Empty]) are distinct, attributes
    are ordered lists with their values already unescaped, character data is already unescaped.
    Definitions only. *)
Require Export Norad.Model.Base.
From Coq Require Export Ascii String.
Open Scope N_scope.

(** code points of an ASCII literal (for element / attribute vocabulary) *)
Definition s2l (s : string) : str := map N_of_ascii (list_ascii_of_string s).

Definition attrs := list (str * str).

Inductive node : Type :=
| Empty (name : str) (a : attrs)                     (* <name a/> *)
| Elem (name : str) (a : attrs) (kids : list node)   (* <name a> kids </name> *)
| Text (s : str)
| CData (s : str)
| Comment (s : str)
| Decl                                               (* <?xml ...?> *)
| PI (s : str)
| DocType (s : str).

(** a document: the sequence of top-level nodes *)
Definition doc := list node.

(** quick-xml's [trim_text(true)]: blanks are space, tab, CR, LF; a text event that is blank
    after trimming is not reported at all. *)
Definition is_ws (c : N) : bool := (c =? 32) || (c =? 9) || (c =? 10) || (c =? 13).
Fixpoint trim_start (s : str) : str :=
  match s with c :: r => if is_ws c then trim_start r else s | [] => [] end.
Definition trim (s : str) : str := rev (trim_start (rev (trim_start s))).
Definition blank (s : str) : bool := forallb is_ws s.

(** what a reader configured with [trim_text(true)] reports for a sequence of sibling nodes
    (one level; applied again at each level the parser descends into) *)
Fixpoint tview (l : list node) : list node :=
  match l with
  | [] => []
  | Text s :: r => if blank s then tview r else Text (trim s) :: tview r
  | n :: r => n :: tview r
  end.

(** association lists keyed by strings *)
Fixpoint lookup {A} (k : str) (l : list (str * A)) : option A :=
  match l with
  | [] => None
  | (k', v) :: r => if str_eqb k k' then Some v else lookup k r
  end.
Definition has_key {A} (k : str) (l : list (str * A)) : bool :=
  match lookup k l with Some _ => true | None => false end.
Fixpoint mem_str (k : str) (l : list str) : bool :=
  match l with [] => false | x :: r => str_eqb k x || mem_str k r end.
Definition remove_key {A} (k : str) (l : list (str * A)) : list (str * A) :=
  filter (fun kv => negb (str_eqb k (fst kv))) l.

(** all character data below a list of nodes, in document order (text events at any depth) *)
Fixpoint texts_of (n : node) : list str :=
  match n with
  | Text s => [s]
  | Elem _ _ kids => flat_map texts_of kids
  | _ => []
  end.
