(** What the attributes of a glif element denote: the values read off the attribute list by
    name, with the defaults of the format.  Used to state what the reader returns on
    rule-obeying input and what the writer's output means.  Definitions only. *)
Require Export Norad.Model.GlifSpec.
Open Scope N_scope.

Section Den.
  Variable pf : str -> option fl.

  Definition num_at (key : str) (a : attrs) : option fl :=
    match lookup key a with Some v => pf v | None => None end.
  Definition num_or_at (d : fl) (key : str) (a : attrs) : fl :=
    match num_at key a with Some x => x | None => d end.
  Definition color_at (a : attrs) : option color :=
    match lookup k_color a with Some v => parse_color pf v | None => None end.
  Definition transform_at (a : attrs) : transform :=
    mkT (num_or_at f1 k_xScale a) (num_or_at f0 k_xyScale a) (num_or_at f0 k_yxScale a)
        (num_or_at f1 k_yScale a) (num_or_at f0 k_xOffset a) (num_or_at f0 k_yOffset a).

  Definition anchor_den (a : attrs) : option anchor :=
    match num_at k_x a, num_at k_y a with
    | Some x, Some y => Some (mkAnchor x y (lookup k_name a) (color_at a) (lookup k_identifier a) None)
    | _, _ => None
    end.
  Definition guideline_den (a : attrs) : option guideline :=
    let mk l := Some (mkGuide l (lookup k_name a) (color_at a) (lookup k_identifier a) None) in
    match num_at k_x a, num_at k_y a, num_at k_angle a with
    | Some x, None, None => mk (LVert x)
    | None, Some y, None => mk (LHoriz y)
    | Some x, Some y, Some d => mk (LAngle x y d)
    | _, _, _ => None
    end.
  Definition component_den (a : attrs) : option component :=
    match lookup k_base a with
    | Some b => Some (mkComp b (transform_at a) (lookup k_identifier a) None)
    | None => None
    end.
  Definition point_den (a : attrs) : option point :=
    match num_at k_x a, num_at k_y a with
    | Some x, Some y =>
        Some (mkPoint x y (fst (spec_pt a)) (snd (spec_pt a)) (lookup k_name a) (lookup k_identifier a) None)
    | _, _ => None
    end.
  Definition image_den (a : attrs) : option image :=
    match lookup k_fileName a with
    | Some f => Some (mkImage f (color_at a) (transform_at a))
    | None => None
    end.
  Definition advance_den (a : attrs) : fl * fl := (num_or_at f0 k_width a, num_or_at f0 k_height a).
  Definition unicode_den (a : attrs) : option N :=
    match lookup k_hex a with Some v => parse_hex v | None => None end.
End Den.
